#!/usr/bin/env python3
"""In-kernel cross-check of the extracted driver: the same case lines are evaluated by `vm_compute` inside Coq
(no extraction, no OCaml glue) and the answers are compared with what driver/model_driver printed.
Used by the thorough tier on a sample of each property's cases; a difference means that extraction or the glue
misrepresents the Gallina model."""
import os
import re
import subprocess

import build

FLAGS = ["-Q", ".", "BL", "-w", "-notation-overridden,-deprecated-hint-without-locality,-deprecated-instance-without-locality,"
         "-deprecated-syntactic-definition,-abstract-large-number"]


def coq_list(line):
    return "[" + "; ".join(str(b) for b in line.encode("ascii")) + "]"


def parse_lists(text):
    """the value printed by `Eval vm_compute`: a list of lists of N numerals"""
    i = text.index("=") + 1
    body = text[i:]
    j = body.rindex(": list")
    body = body[:j]
    toks = re.findall(r"\[|\]|\d+", body)
    out, cur, depth = [], None, 0
    for t in toks:
        if t == "[":
            depth += 1
            if depth == 2:
                cur = []
        elif t == "]":
            if depth == 2:
                out.append(bytes(cur).decode("ascii", "replace"))
                cur = None
            depth -= 1
        elif cur is not None:
            cur.append(int(t))
    return out


def run(lines, label, timeout=900):
    """returns (answers or None, log)"""
    os.makedirs(build.WORK, exist_ok=True)
    name = "xcheck_%s_%d" % (label, os.getpid())
    path = os.path.join(build.WORK, name + ".v")
    with open(path, "w") as f:
        f.write("From BL Require Import Base.Prelude Drv.Driver.\nLocal Open Scope N_scope.\n")
        f.write("Definition cases : list (list N) := [\n  " + ";\n  ".join(coq_list(l) for l in lines) + "].\n")
        f.write("Eval vm_compute in (map run_case_default cases).\n")
    try:
        p = subprocess.run(["coqc"] + FLAGS + [path, "-o", os.path.join(build.WORK, name + ".vo")], cwd=build.COQ,
                           stdout=subprocess.PIPE, stderr=subprocess.STDOUT, text=True, timeout=timeout)
    except subprocess.TimeoutExpired:
        return None, "coqc timed out"
    finally:
        for ext in (".v", ".vo", ".glob", ".vok", ".vos"):
            try:
                os.unlink(os.path.join(build.WORK, name + ext))
            except OSError:
                pass
    if p.returncode != 0:
        return None, p.stdout[-800:]
    try:
        return parse_lists(p.stdout), ""
    except (ValueError, IndexError) as e:
        return None, "cannot parse coqc output: %s\n%s" % (e, p.stdout[-400:])
