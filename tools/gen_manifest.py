#!/usr/bin/env python3
"""Writes MANIFEST.json from the table below (one entry per claimed property)."""
import json
import os

ROOT = os.path.dirname(os.path.dirname(os.path.abspath(__file__)))

COMMON_NOTE = ("Trusted: Coq 8.16.1 kernel (vm_compute only); Flocq's definitions of binary32/64; extraction (ExtrOcamlBasic) and "
               "the OCaml glue driver/main.ml; the Rust harness (public API only; serialisers in harness/src); the Python "
               "orchestration and generators. The tie between the Gallina model and the Rust code is differential testing on the "
               "cases listed in the evidence file, not a proof. ")

CLAIMED = {
    "C01": dict(
        text="Theorems about the Gallina VM model (Props/C01.v); the full interpreter model (lexer, parser, codegen, linker, VM) is run "
             "against the real crate on generated programs of the well-defined fragment, and both are compared with the reference "
             "statement-by-statement semantics Spec/Sem.v (continuations and a frame list, no addresses), which is the oracle that "
             "produces a concrete failing program when they differ.",
        note="The simulation theorem VM-model ~ Sem is not proved yet: the listed theorems are local (ON dispatch); agreement of model, "
             "implementation and reference semantics on whole programs is checked per generated program. Sem shares value-level "
             "operations with the model.",
        technique="Coq model + theorems; model/implementation/reference-semantics differential check"),
    "C03": dict(
        text="The scanner model has no fuel and no push-back loop (structural recursion), so it is total by construction; every panic "
             "and divergence site of the Rust code is represented as Panic/Hang in the model. The check runs all strings over the "
             "25-symbol lexical alphabet up to length 3 (4 thorough), token soup and mutated lines through lex/relist/ast on both "
             "sides under a watchdog.",
        note="Session-level totality (protocol automaton) is exercised by the other properties' session runs; the unbounded "
             "theorems for parser/VM totality are not yet stated.",
        technique="Coq model (structural recursion, explicit Panic/Hang outcomes) + exhaustive short-string differential check"),
    "C04": dict(
        text="Theorems about the dirty flag of the runtime model (Props/C04.v); the model is run against the crate on random edit "
             "histories; a relational monitor on the implementation re-types the final listing into a fresh interpreter and "
             "compares RUN / RUN n, and checks that CONT / RETURN / NEXT / FN calls are refused after every kind of edit.",
        note="The invariant 'dirty = false -> compiled = compile(listing)' over all call histories is not yet proved as one theorem.",
        technique="Coq model + theorems; history-based differential and relational (fresh interpreter) check"),
    "C07": dict(
        text="Theorems about the string functions of the model (Props/C07.v); every function is compared model vs implementation over "
             "cartesian products of boundary strings, positions and patterns (incl. multi-byte), and an independent character-level "
             "specification written from the manual decides each answer.",
        note="STR$/VAL text is compared model-vs-implementation only.",
        technique="Coq model + theorems; exhaustive boundary-grid differential check with a spec monitor"),
    "C08": dict(
        text="Universally quantified Coq theorems (Props/C08.v) state that every Integer operation of the model returns the exact "
             "mathematical result or OVERFLOW / DIVISION BY ZERO, for all operands (lia/nia, induction for ^). The model is tied "
             "to operation.rs / function.rs / val.rs by differential execution in both build profiles: all 65536 values for unary "
             "operations, a 64x64 boundary grid and random pairs for binary ones, floats around the conversion limits.",
        note="The float->Integer statement is about the model's floor/range test on Flocq's representation.",
        technique="Coq proof over Z (lia/nia, induction) + model/implementation differential check"),
    "C09": dict(
        text="Theorem that appending a fragment appends its constants to the data segment (Props/C09.v); programs with DATA lines placed "
             "anywhere, RESTORE / RESTORE n sequences and edit histories are run on model and implementation and compared with the "
             "reference semantics, whose DATA list is simply the constants in source order.",
        note="The theorem 'data (compile p) = flat_map data_of_line p' for whole programs is not yet proved.",
        technique="Coq model + theorems; model/implementation/reference-semantics differential check"),
    "C10": dict(
        text="Theorem that mangled parameter names contain a '.', which no source identifier can (Props/C10.v); programs with nested "
             "calls, same-named globals, DEFtype settings, arity errors and recursion are run on model and implementation and "
             "compared with the reference semantics, which binds parameters in a local environment typed by their own names.",
        note="The call/return stack protocol theorem (C10_call) is not yet proved.",
        technique="Coq model + theorems; model/implementation/reference-semantics differential check"),
    "C12": dict(
        text="Theorems (Props/C12.v): CLEAR resets every field a run can depend on to its start-up value and changes nothing else; NEW "
             "additionally empties the listing, clears trace mode and forces recompilation. Sessions with dirtying prefixes are run "
             "on model and implementation; a relational monitor compares RUN after the prefix with RUN in a fresh interpreter.",
        note="RND reseeding uses OS entropy (an oracle in the model); compared programs do not call RND before seeding it.",
        technique="Coq proof (field-by-field reset) + history-based differential and relational check"),
    "C13": dict(
        text="Theorem that interrupt() saves exactly what CONT restores (Props/C13.v); the same sessions are run under seven quanta, "
             "interrupted after every k-th execute(1) call with optional inspection and CONT, and with STOP inserted at statement "
             "boundaries; outputs must equal the uninterrupted run modulo the ?BREAK block and its forced line break.",
        note="The slicing theorem execute(n+m) = execute(n); execute(m) is not yet proved.",
        technique="Coq model + theorems; schedule-enumerating differential and relational check"),

    "C02": dict(
        text="Theorems (Props/C02.v): the parser's precedence tables are the manual's 13 levels; relational operators yield exactly 0 or -1. "
             "Random and exhaustive (all operator pairs, unary/binary pairs) expression trees are rendered with the parentheses the manual's "
             "table requires and must parse back to the tree; every operator x operand-type x boundary-value combination is compared "
             "model vs implementation and against the documented result type; typed assignment and literal typing are checked against "
             "the manual's rules.",
        note="The round-trip theorem parse(render e) = e is proved for a prototype grammar only (DESIGN.md); values of ^ with a non-Integer "
             "operand are compared by type (powf/powi are oracles).",
        technique="Coq model + theorems; tree-rendering spec monitor and type-matrix differential check"),
    "C05": dict(
        text="Theorem that a string literal's payload is copied from the source character for character (Props/C05.v); all short strings over "
             "the lexical alphabet, token-spelling pairs, soup and program lines are listed twice (fixed point), compared for line number and "
             "AST (original vs listed text), and programs are saved and loaded through Listing::load_str.",
        note="One known finding is listed (text glued to REM). The unbounded theorem lex(print ts) = ts is not yet proved.",
        technique="Coq model + theorems; exhaustive short-string relational check on the implementation"),
    "C06": dict(
        text="Theorems (Props/C06.v): an absent key reads as the zero of its own type; conversion on store yields a value of exactly the "
             "variable's type or an error. Random sequences of assignments, reads, DIM/ERASE, DEFtype, SWAP and CLEAR over aliasing-prone "
             "names are run on model and implementation and every printed value and error is predicted by a typed total-map reference.",
        note="Key-construction injectivity (array keys vs scalar keys) is checked by the sequences, not yet proved.",
        technique="Coq model + theorems; sequence-based differential check with a reference store"),
    "C11": dict(
        text="Theorems (Props/C11.v): a ',' prints 14 - col mod 14 blanks (1..14, ending on a multiple of 14); TAB(n) prints n - col blanks "
             "or nothing. Programs of PRINT statements with every separator, TAB/SPC/POS, CLS and INPUT in between are run on model and "
             "implementation and compared character by character with an independent terminal emulator that has its own shortest-digits "
             "number formatter; random f32/f64 bit patterns are formatted on both sides and checked for read-back, minimal digit count "
             "and notation.",
        note="'Shortest decimal that reads back' is validated per value (model's exact-rational algorithm vs Rust vs a Python search), "
             "not proved for all floats.",
        technique="Coq model + theorems; layout emulator monitor and per-value number-format validation"),
    "C14": dict(
        text="Theorem that a failing RENUM returns before any line is touched (Props/C14.v); link-clean programs with every referencing "
             "form, non-ASCII text before operands, line 0 and omitted operands are renumbered with boundary and random argument triples "
             "on model and implementation; monitors check the numbering formula, that only line-number operands changed (token-wise), that "
             "failure leaves the listing byte-identical, and that the renumbered program runs identically modulo reported line numbers.",
        note="The AST-level rewrite theorem (every reference form is visited) is not yet proved.",
        technique="Coq model + theorems; differential and relational (before/after) check"),
    "C15": dict(
        text="Theorem that an inserted line is found again (Props/C15.v); histories of insert / replace / bare-number delete / LIST / DELETE "
             "in every range form over a small line universe (all range operations on a seeded store exhaustively, random longer "
             "histories, random histories over the whole number range) run on model and implementation; a reference map predicts every "
             "LIST output, every rejection and the listing after every step.",
        note="The refinement theorem (sorted list = finite map) is stated for insert only so far.",
        technique="Coq model + theorems; history-based differential check with a reference map"),
    "C16": dict(
        text="Theorems (Props/C16.v): ? and ' scan to the PRINT and REM tokens; the operator and GO TO / GO SUB merges hold for any amount "
             "of blank space. Every line of generated programs is rendered in random spellings (case, ?, ', GO TO, GO SUB, dropped LET, "
             "=< =>, blanks inside relational operators and at non-alphanumeric boundaries, keywords glued to numbers); variants must give "
             "the same AST, the same listing modulo LET / remark marker / amount of blank space, and whole programs the same transcript.",
        note="One known finding is listed (GO SUB glued to digits). Listing equality is taken modulo the amount of blank space, because the "
             "listing deliberately keeps the user's blanks (see DESIGN.md).",
        technique="Coq model + theorems; spelling-variant relational check on the implementation"),
    "C17": dict(
        text="Theorem that a reply without commas and quotes is one field (Props/C17.v); INPUT statements of every shape are answered with "
             "replies from a grammar on model and implementation; an independent specification of splitting, trimming, unquoting and "
             "numeric conversion predicts the prompt, the capitalisation flag, acceptance with the stored values, or REDO FROM START "
             "followed by the same prompt.",
        note="Numeric fields outside the documented grammar (inf, nan, suffix characters) are compared model-vs-implementation only.",
        technique="Coq model + theorems; reply-grammar differential check with an input specification monitor"),
    "C18": dict(
        text="Theorems (Props/C18.v): a push beyond 65536 stack entries reports OUT OF MEMORY; SWAP leaves exactly two values. Every "
             "statement kind runs 70000 times in a loop (implementation) and 2500 times (model and implementation) and must finish; "
             "GOSUB / FN recursion, abandoned frames, 65537 variables / DATA constants / instructions must end in OUT OF MEMORY with the "
             "session usable; zeroing variables at the pool limit must free slots.",
        note="One known finding is listed (an oversized stored program blocks direct mode). The 70000-iteration and pool-limit runs are "
             "implementation-only: the model's association-list store makes them too slow.",
        technique="Coq model + theorems; long-run and limit-driving checks"),
    "C19": dict(
        text="Theorem that the displayed range is the parser's range shifted by the line-number prefix (Props/C19.v); programs of "
             "sentinel-printing lines with injected dangling references in every referencing form, unmatched WHILE/WEND and token damage "
             "behind ASCII and multi-byte text are entered through RUN, RUN n, GOTO, GOSUB, ON.., CONT on model and implementation; "
             "nothing may be printed by the program, and the reported range must underline exactly the number / keyword in the listed line.",
        note="The parser column invariant (sublist a b (print tokens) = print t) is not yet proved.",
        technique="Coq model + theorems; fault-injection differential check with an underline monitor"),
    "C20": dict(
        text="Theorem that a line symbol records the code address at which it is pushed, whatever precedes it (Props/C20.v); generated "
             "programs are run under REM / empty / unreachable line insertion, line splitting, other numberings (including line 0), "
             "extra program text behind a direct statement, and direct vs one-line-program execution, on model and implementation; "
             "transcripts must agree modulo reported line numbers.",
        note="The relocation bisimulation is proved for a prototype VM only (DESIGN.md).",
        technique="Coq model + theorems; layout-transformation relational check"),
}

PENDING_REASON = ("the model covers this property's code, but its theorem file and check module are not yet registered in this commit "
                  "(construction order: DESIGN.md section 9)")


def main():
    props = [json.loads(l) for l in open(os.path.join(ROOT, "properties.jsonl"))]
    checks = []
    for pid in sorted(CLAIMED):
        c = CLAIMED[pid]
        checks.append(dict(
            property_id=pid,
            quick_cmd="python3 tools/check.py --property %s --tier quick" % pid,
            thorough_cmd="python3 tools/check.py --property %s --tier thorough" % pid,
            evidence_file="evidence/%s.json" % pid,
            replay_cmd_template="python3 tools/check.py --replay {path}",
            engine="coq-model-correspondence",
            level_claimed=dict(category="proof", text=c["text"], design_ref="DESIGN.md section 7, " + pid),
            level_note=COMMON_NOTE + c["note"],
            technique=c["technique"]))
    na = [dict(property_id=p["id"], reason=PENDING_REASON) for p in props if p["id"] not in CLAIMED]
    m = dict(
        version=1,
        setup_cmd="bash tools/setup.sh",
        hooks=dict(guard="basic_lang_verif",
                   enable="none needed: the harness uses only the crate's public API (there are no hook commits)",
                   baseline_off_cmd="cd /repo && cargo test --workspace --no-fail-fast --offline",
                   source_commits=[], add_only=True),
        engines=[dict(name="coq-model-correspondence", path="tools/check.py", serves_properties=sorted(CLAIMED),
                      kind_free_text="Gallina model of the interpreter + Coq theorems (coq/), extracted OCaml driver vs Rust harness "
                                     "differential check, reference semantics and Python monitors for the violation search")],
        checks=checks,
        not_applicable=na,
        notes="fix: commits made in /repo are listed in findings/known_findings.txt")
    json.dump(m, open(os.path.join(ROOT, "MANIFEST.json"), "w"), indent=1)
    print("claimed:", sorted(CLAIMED))


if __name__ == "__main__":
    main()
