#!/usr/bin/env python3
"""Writes MANIFEST.json from the table below (one entry per claimed property)."""
import json
import os

ROOT = os.path.dirname(os.path.dirname(os.path.abspath(__file__)))

COMMON_NOTE = ("Trusted: Coq 8.16.1 kernel (vm_compute only); Flocq's definitions of binary32/64; extraction (ExtrOcamlBasic) and "
               "the OCaml glue driver/main.ml; the Rust harness (public API only; serialisers in harness/src); the Python "
               "orchestration and generators. The tie between the Gallina model and the Rust code is differential testing on the "
               "cases listed in the evidence file, not a proof. ")

CLAIMED = {
    "C01": dict(
        text="Theorems about the Gallina VM model (Props/C01.v); the full interpreter model (lexer, parser, codegen, linker, VM) is run "
             "against the real crate on generated programs of the well-defined fragment, and both are compared with the reference "
             "statement-by-statement semantics Spec/Sem.v (continuations and a frame list, no addresses), which is the oracle that "
             "produces a concrete failing program when they differ.",
        note="The simulation theorem VM-model ~ Sem is not proved yet: the listed theorems are local (ON dispatch); agreement of model, "
             "implementation and reference semantics on whole programs is checked per generated program. Sem shares value-level "
             "operations with the model.",
        technique="Coq model + theorems; model/implementation/reference-semantics differential check"),
    "C03": dict(
        text="The scanner model has no fuel and no push-back loop (structural recursion), so it is total by construction; every panic "
             "and divergence site of the Rust code is represented as Panic/Hang in the model. The check runs all strings over the "
             "25-symbol lexical alphabet up to length 3 (4 thorough), token soup and mutated lines through lex/relist/ast on both "
             "sides under a watchdog.",
        note="Session-level totality (protocol automaton) is exercised by the other properties' session runs; the unbounded "
             "theorems for parser/VM totality are not yet stated.",
        technique="Coq model (structural recursion, explicit Panic/Hang outcomes) + exhaustive short-string differential check"),
    "C04": dict(
        text="Theorems about the dirty flag of the runtime model (Props/C04.v); the model is run against the crate on random edit "
             "histories; a relational monitor on the implementation re-types the final listing into a fresh interpreter and "
             "compares RUN / RUN n, and checks that CONT / RETURN / NEXT / FN calls are refused after every kind of edit.",
        note="The invariant 'dirty = false -> compiled = compile(listing)' over all call histories is not yet proved as one theorem.",
        technique="Coq model + theorems; history-based differential and relational (fresh interpreter) check"),
    "C07": dict(
        text="Theorems about the string functions of the model (Props/C07.v); every function is compared model vs implementation over "
             "cartesian products of boundary strings, positions and patterns (incl. multi-byte), and an independent character-level "
             "specification written from the manual decides each answer.",
        note="STR$/VAL text is compared model-vs-implementation only.",
        technique="Coq model + theorems; exhaustive boundary-grid differential check with a spec monitor"),
    "C08": dict(
        text="Universally quantified Coq theorems (Props/C08.v) state that every Integer operation of the model returns the exact "
             "mathematical result or OVERFLOW / DIVISION BY ZERO, for all operands (lia/nia, induction for ^). The model is tied "
             "to operation.rs / function.rs / val.rs by differential execution in both build profiles: all 65536 values for unary "
             "operations, a 64x64 boundary grid and random pairs for binary ones, floats around the conversion limits.",
        note="The float->Integer statement is about the model's floor/range test on Flocq's representation.",
        technique="Coq proof over Z (lia/nia, induction) + model/implementation differential check"),
    "C09": dict(
        text="Theorem that appending a fragment appends its constants to the data segment (Props/C09.v); programs with DATA lines placed "
             "anywhere, RESTORE / RESTORE n sequences and edit histories are run on model and implementation and compared with the "
             "reference semantics, whose DATA list is simply the constants in source order.",
        note="The theorem 'data (compile p) = flat_map data_of_line p' for whole programs is not yet proved.",
        technique="Coq model + theorems; model/implementation/reference-semantics differential check"),
    "C10": dict(
        text="Theorem that mangled parameter names contain a '.', which no source identifier can (Props/C10.v); programs with nested "
             "calls, same-named globals, DEFtype settings, arity errors and recursion are run on model and implementation and "
             "compared with the reference semantics, which binds parameters in a local environment typed by their own names.",
        note="The call/return stack protocol theorem (C10_call) is not yet proved.",
        technique="Coq model + theorems; model/implementation/reference-semantics differential check"),
    "C12": dict(
        text="Theorems (Props/C12.v): CLEAR resets every field a run can depend on to its start-up value and changes nothing else; NEW "
             "additionally empties the listing, clears trace mode and forces recompilation. Sessions with dirtying prefixes are run "
             "on model and implementation; a relational monitor compares RUN after the prefix with RUN in a fresh interpreter.",
        note="RND reseeding uses OS entropy (an oracle in the model); compared programs do not call RND before seeding it.",
        technique="Coq proof (field-by-field reset) + history-based differential and relational check"),
    "C13": dict(
        text="Theorem that interrupt() saves exactly what CONT restores (Props/C13.v); the same sessions are run under seven quanta, "
             "interrupted after every k-th execute(1) call with optional inspection and CONT, and with STOP inserted at statement "
             "boundaries; outputs must equal the uninterrupted run modulo the ?BREAK block and its forced line break.",
        note="The slicing theorem execute(n+m) = execute(n); execute(m) is not yet proved.",
        technique="Coq model + theorems; schedule-enumerating differential and relational check"),
}

PENDING_REASON = ("the model covers this property's code, but its theorem file and check module are not yet registered in this commit "
                  "(construction order: DESIGN.md section 9)")


def main():
    props = [json.loads(l) for l in open(os.path.join(ROOT, "properties.jsonl"))]
    checks = []
    for pid in sorted(CLAIMED):
        c = CLAIMED[pid]
        checks.append(dict(
            property_id=pid,
            quick_cmd="python3 tools/check.py --property %s --tier quick" % pid,
            thorough_cmd="python3 tools/check.py --property %s --tier thorough" % pid,
            evidence_file="evidence/%s.json" % pid,
            replay_cmd_template="python3 tools/check.py --replay {path}",
            engine="coq-model-correspondence",
            level_claimed=dict(category="proof", text=c["text"], design_ref="DESIGN.md section 7, " + pid),
            level_note=COMMON_NOTE + c["note"],
            technique=c["technique"]))
    na = [dict(property_id=p["id"], reason=PENDING_REASON) for p in props if p["id"] not in CLAIMED]
    m = dict(
        version=1,
        setup_cmd="bash tools/setup.sh",
        hooks=dict(guard="basic_lang_verif",
                   enable="none needed: the harness uses only the crate's public API (there are no hook commits)",
                   baseline_off_cmd="cd /repo && cargo test --workspace --no-fail-fast --offline",
                   source_commits=[], add_only=True),
        engines=[dict(name="coq-model-correspondence", path="tools/check.py", serves_properties=sorted(CLAIMED),
                      kind_free_text="Gallina model of the interpreter + Coq theorems (coq/), extracted OCaml driver vs Rust harness "
                                     "differential check, reference semantics and Python monitors for the violation search")],
        checks=checks,
        not_applicable=na,
        notes="fix: commits made in /repo are listed in findings/known_findings.txt")
    json.dump(m, open(os.path.join(ROOT, "MANIFEST.json"), "w"), indent=1)
    print("claimed:", sorted(CLAIMED))


if __name__ == "__main__":
    main()
