#!/usr/bin/env python3
"""Writes MANIFEST.json from the table below (one entry per claimed property)."""
import json
import os

ROOT = os.path.dirname(os.path.dirname(os.path.abspath(__file__)))

COMMON_NOTE = ("Trusted: Coq 8.16.1 kernel (vm_compute only); Flocq's definitions of binary32/64; extraction (ExtrOcamlBasic) and "
               "the OCaml glue driver/main.ml; the Rust harness (public API only; serialisers in harness/src); the Python "
               "orchestration and generators. The tie between the Gallina model and the Rust code is differential testing on the "
               "cases listed in the evidence file, not a proof. ")

def entry(proved, checked, note, technique):
    return dict(text="Proved in Coq about the model, for all inputs: " + proved + " Checked on every run: " + checked,
                note=note, technique=technique)


CLAIMED = {
    "C01": entry(
        "for expressions of any depth over literals, scalar variables, unary minus, NOT and every binary operator, the emitted code is the "
        "postfix form, the VM's fetch loop runs it and leaves exactly the value (or raises exactly the error) that the reference semantics "
        "Spec/Sem.v computes for the same variable store, and nothing else changes (Props/C01.v, Proofs/ExprCompile.v); the ON dispatch arithmetic; "
        "a simulation theorem for whole programs of any size made of LET, PRINT, GOTO, ON..GOTO and END: codegen+link produce an explicit layout with every "
        "branch slot patched to its target line's first instruction, and the VM's fetch loop on it follows Spec/Sem.run for any number of steps: the texts "
        "Sem prints are exactly the texts of the VM's PRINT events, in order; END with store V => VM stops with store V; error c => VM reports c "
        "(Proofs/Flow.v..Flow4.v, LineLit.v); the instruction sequences of FOR (start value, store, limit, step, name, loop address) and of NEXT with a "
        "list (one NEXT per name, in the order written), and on the VM the FOR sequence evaluates limit and step in the store in which the loop variable "
        "already holds the start value and leaves the frame limit / step / name / address (Proofs/StmtShape.v).",
        "the whole interpreter model (lexer, parser, codegen, linker, VM) against the crate on generated programs of the well-defined "
        "fragment, and the crate's transcript against Spec/Sem.v (statement-by-statement, continuations and frames, no addresses), which "
        "produces the concrete failing program.",
        "GOSUB/FOR/WHILE/IF, TRON, arrays, functions and the line number attached to an error are NOT covered by the simulation theorem; "
        "for them the deciding work is the differential run against Spec/Sem.v. Sem shares value-level operations with the model.",
        "Coq compiler-correctness theorems (expressions; simulation with printed output for the LET/PRINT/GOTO/ON..GOTO/END fragment) + model/implementation/reference-semantics differential check"),
    "C02": entry(
        "the precedence tables are the manual's 13 levels, and they are the tables tools/tables.py regenerates from src/lang/parse.rs on every run "
        "(Proofs/SourceTables.v); result types of every operator (wider operand type for + - *, at least Single for /, "
        "Integer for \\ MOD and the logical operators, 0 or -1 for relational ones); the only error of + - * on numbers is OVERFLOW between two "
        "Integers; conversion on assignment fails only with OVERFLOW / TYPE MISMATCH / STRING TOO LONG and otherwise has the target type; "
        "compiled expression code computes what the reference semantics prescribes; the expression parser builds the tree the table prescribes: for "
        "every tree over identifiers, literals, array elements / function calls, unary minus, NOT and the binary operators, at every depth, parsing the tokens of its minimally "
        "parenthesised rendering -- with blank tokens anywhere among them -- returns the tree (columns aside) and stops in front of what follows; two token lists "
        "with the same visible tokens give the same tree (Props/C02.v, Proofs/ParseExpr.v, C01).",
        "random and exhaustive (all operator pairs) expression trees rendered with the parentheses the manual's table requires must parse back "
        "to the tree; every operator x operand-type x boundary-value combination model vs crate and against the documented result type; "
        "typed assignment and literal typing against the manual's rules.",
        "The parse theorem leaves out unary plus and DEF FN parameter renaming, and says 'some fuel suffices' (the Rust parser has no fuel; that the "
        "model's fuel formula suffices is differential); values of ^ with a non-Integer operand are compared by type (powf/powi are oracles); numeric "
        "functions and literal typing differential only.",
        "Coq theorems on operator typing and on the precedence-climbing parser + tree-rendering spec monitor and type-matrix differential check + source tables regenerated by a translator and proved equal to the model's"),
    "C03": entry(
        "the scanner accepts every source text: it returns tokens, never an error, never the model's Panic, never runs out of fuel (Hang) -- "
        "including the progress lemma for number(), the loop that hung in the unrepaired crate; the parser, for every token list and line number, "
        "never answers with the outcome that stands for a Rust panic (Props/C03.v, Proofs/LexTotal.v, ParseSafe.v).",
        "all strings over the 25-symbol lexical alphabet up to length 3 (4 thorough), token soup and mutated lines through lex/relist/ast; "
        "sessions of arbitrary API calls; and, with the crate's debug assertions enabled, sessions that keep the terminal's calling discipline "
        "plus replies arriving on a nearly full stack -- all under a watchdog, panics caught.",
        "PARTIAL: that the parser's fuel suffices, and totality of the code generator and VM, are NOT proved; their freedom from panics and hangs is established only on the "
        "generated inputs (the model marks every panic / divergence site of the crate as Panic / Hang, so a reachable one shows as a disagreement "
        "or a PANIC/HANG answer). Wall-clock behaviour is observed by a watchdog, not modelled.",
        "Coq totality theorem for the scanner and no-panic theorem for the parser + exhaustive short-string and session fuzz under a watchdog (two build profiles)"),
    "C04": entry(
        "a Hoare logic over the VM monad shows, for every state and opcode: through execute(), numbered lines, INPUT/INKEY$ replies and interrupts "
        "the dirty flag never falls and the stored lines never change without it; statements other than DELETE/RENUM/NEW never alter lines, flag or "
        "code; a direct line entered with the flag up runs behind a fresh compilation of exactly the stored lines, and neither the old code nor the "
        "value stack, user functions or CONT state can influence it; compiling the stored lines depends on the previously compiled program only through "
        "the DATA pointer it carries along, so two machines with the flag up and the same listing agree after the same direct line on everything static, "
        "and RUN on both yields identical states and events for any number of instructions (Props/C04.v, Proofs/Dirty.v, FreshRun.v, RunForgets.v).",
        "random edit histories on model and crate; a relational monitor re-types the crate's final listing into a fresh interpreter and compares "
        "RUN / RUN n, and checks that CONT / RETURN / NEXT / FN calls are refused after every kind of edit.",
        "The fresh-machine theorem assumes equal prompt text, snapshot count, trace mode, cursor column, entropy position and saved continuation address "
        "(the last is dead data while nothing can be continued; not shown) and compares two machines of the model; that a session history reaches "
        "such a machine in the crate is the differential part.",
        "Coq invariant proof (Hoare logic over the VM monad) + history-based differential and relational (fresh interpreter) check"),
    "C05": entry(
        "the listed text of line n, entered again, is line n again (all n <= 65529, all token lists); the decimal rendering of a number reads back "
        "as the number; a string literal's payload is copied character for character; a line that is a remark (' text, or REM followed by a character that cannot "
        "continue a word) lists as itself with the trailing blanks removed, whatever code points the text holds, and that listing is a fixed point of entering and "
        "listing again; & constants list as the text they were read from and scan back to the same token (Props/C05.v, Proofs/RemarkText.v, RadixText.v).",
        "all strings over the lexical alphabet up to the tier's length, token-spelling pairs, constants glued to words, soup and program lines: "
        "relist twice (fixed point), same line number, same AST for original and listed text or both rejected, payloads preserved; SAVE/LOAD "
        "through Listing::load_str.",
        "PARTIAL: the fixed-point and same-meaning halves (lex(print ts) = ts) are proved for remark lines and & constants only; for all other lines they are decided by the monitor on the crate. Two known "
        "findings are listed (text glued to REM; relational-operator soup behind ignored arguments).",
        "Coq theorems on the line-number prefix + exhaustive short-string relational check on the implementation"),
    "C06": entry(
        "the store is well typed initially and stays so under assignment and DEFtype; reads return the variable's own type; unassigned reads are 0 / \"\"; "
        "read-your-write; frame (other keys untouched, i.e. no aliasing); DEFtype leaves suffixed and out-of-range names alone; array subscripts are "
        "accepted exactly within 0..bound per dimension (bound 10 when implicit) and rejected otherwise; DIM twice is refused, ERASE allows it again; "
        "array keys are injective and disjoint from scalar keys (Props/C06.v, Proofs/Vars.v).",
        "random sequences of assignments, reads, DIM/ERASE, DEFtype, SWAP and CLEAR over aliasing-prone names on model and crate, every printed "
        "value and error predicted by a typed total-map reference.",
        "Assumption made explicit in the statements: names contain no comma. SWAP is covered at stack level (C18_swap_neutral) and by the sequences.",
        "Coq invariant and frame theorems for the variable store + sequence-based differential check with a reference store"),
    "C07": entry(
        "LEN, LEFT$, RIGHT$, MID$ return exactly the documented piece counted in characters; INSTR returns one plus the least index of an occurrence or 0; "
        "MID$ assignment keeps the length and the prefix; CHR$/ASC round trip; a stored string has at most 255 characters (STRING TOO LONG beyond); "
        "concatenation is append; < is the lexicographic order on character codes with a proper prefix smaller, = is equality of the sequences; STRING$ "
        "repeats the first character n times (n <= 255); HEX$ / OCT$ digits read back, by the interpreter's own radix reader, as the argument's 16-bit "
        "pattern (Props/C07.v, Proofs/Strings.v, Strings2.v). Strings are lists of scalar values, so no model function can split a character.",
        "every string function model vs crate over cartesian products of boundary strings (incl. multi-byte), positions and patterns; an independent "
        "character-level specification decides each answer.",
        "STR$/VAL and SPC are differential only. That the crate's byte-offset slicing agrees with the "
        "character-level model is exactly what the differential check tests.",
        "Coq theorems on the string functions + exhaustive boundary-grid differential check with a spec monitor"),
    "C08": entry(
        "every Integer operation (+ - * \\ MOD, ^ with non-negative Integer exponent, unary minus) returns the exact mathematical result in "
        "-32768..32767 or OVERFLOW / DIVISION BY ZERO, for all operands; conversion of a Single or Double to Integer, for every bit pattern, is the floor "
        "of the number when that lies in -32768..32767 and OVERFLOW otherwise (infinities and NaN included), never a wrapped or truncated value "
        "(Props/C08.v, Proofs/Int16.v, Proofs/FloatToInt.v: from Flocq's correctness theorems).",
        "operation.rs / function.rs / val.rs in both build profiles: all 65536 values for unary operations, a 64x64 boundary grid and random pairs "
        "for binary ones, floats around the conversion limits; exact integer arithmetic in Python as the monitor.",
        "ABS and the other numeric functions on Integers are covered by the differential sweep and the monitor; conversions with bounds of 2^24 and more "
        "(to u32 / usize, used for string positions) are outside the conversion theorem.",
        "Coq proof over Z (lia/nia, induction) and over Flocq's binary32/binary64 + model/implementation differential check"),
    "C09": entry(
        "one READ takes the constant under the pointer and advances it by one, touching nothing else; k READs deliver the next k constants in order; "
        "reading past the end is OUT OF DATA and changes nothing; RESTORE sets the pointer to the resolved data address, CLEAR rewinds it; a line's "
        "symbol records the number of constants before the line; appending a fragment appends its constants; and, by induction over all statement kinds "
        "of the code generator and over all programs: the data segment of a program compiled without error and linked is the DATA constants in source "
        "order (= Sem.all_data), wherever the DATA lines sit, and the data address a RESTORE n receives is the number of constants in the lines before n "
        "(= Sem.data_index_of_line n) (Props/C09.v; Proofs/DataRead.v, DataSeg.v, SymSeg.v).",
        "programs with DATA lines anywhere, RESTORE / RESTORE n sequences and edit histories on model and crate, compared with Spec/Sem.v whose DATA "
        "list is the constants in source order.",
        "The segment theorem assumes every DATA item is a constant (literal or negated literal: what the parser accepts, not proved) and no compile error; "
        "conversion of the value read to the variable's type is the shared OpPop path (C06 theorems); edit histories are decided differentially.",
        "Coq theorems on the DATA pointer and on the data segment of all compiled programs + model/implementation/reference-semantics differential check"),
    "C10": entry(
        "the error cases of a call (undefined function, wrong argument count, DEF at the prompt) and the return protocol (the body's value is kept, "
        "everything down to the return address is dropped, control returns to the saved address, variables untouched); mangled parameter names "
        "contain a '.', and the scanner -- for every source text, post passes included -- produces no identifier containing one, so a parameter's "
        "storage name is no identifier of any line and binding it leaves every variable a program can name unchanged; the call itself: entering puts "
        "the return address under the arguments with the first argument on top and control at the function's code; the parameter stores, the code "
        "of a body free of nested calls and RETURN then leave the body's value -- evaluated with the parameters bound and every other variable as it "
        "is at call time -- on the caller's stack, whatever lies below untouched, and return behind the call; and DEF FN emits exactly that sequence: "
        "parameter count, DEF, a jump over the body, one store per parameter, the body's code, RETURN (Props/C10.v, Proofs/LexIdent.v, "
        "FnCall.v, FnBody.v, DefShape.v).",
        "programs with nested calls, same-named globals, DEFtype settings, arity errors and recursion on model and crate, compared with Spec/Sem.v, "
        "which binds parameters in a local environment typed by their own names.",
        "PARTIAL: bodies that call functions or read arrays (nesting) and recursion ending in OUT OF MEMORY are decided by the monitor, not proved.",
        "Coq theorems on the call protocol and on the privacy of parameter names + model/implementation/reference-semantics differential check"),
    "C11": entry(
        "the cursor column is the number of characters since the last newline, across items and statements; ',' prints 14 - col mod 14 blanks; TAB(n) "
        "prints n - col blanks or nothing; PRINT moves the column by exactly what it emits; a number carries one trailing blank (Props/C11.v).",
        "programs of PRINT statements with every separator, TAB/SPC/POS, CLS and INPUT in between on model and crate, compared with an independent "
        "terminal emulator with its own shortest-digits formatter; random f32/f64 bit patterns formatted on both sides and checked for read-back, "
        "minimal digit count and notation.",
        "'Shortest decimal that reads back' is validated per value, not proved for all floats.",
        "Coq theorems on column bookkeeping + layout emulator monitor and per-value number-format validation"),
    "C12": entry(
        "CLEAR resets every field a run can depend on to its start-up value and changes nothing else; NEW additionally empties the listing, clears trace "
        "mode and forces recompilation; RUN compiles to CLEAR followed by a jump; CLEAR makes two machines that agree on the static part identical, and "
        "from the CLEAR that opens RUN's code on the fetch loop yields the same states and events on both, for any number of instructions "
        "(C12_clear_forgets, C12_run_forgets; Props/C12.v).",
        "sessions with dirtying prefixes on model and crate; a relational monitor compares RUN after the prefix with RUN in a fresh interpreter.",
        "RND reseeding uses OS entropy (an oracle in the model); compared programs do not call RND before seeding it. The theorem is about machines whose static part "
        "(listing, compiled code, cursor column, entropy position) agrees; that a session prefix leaves the static part of a fresh interpreter with the same listing "
        "is C04's theorem plus the relational test.",
        "Coq proof (field-by-field reset, non-interference of the whole run) + history-based differential and relational check"),
    "C13": entry(
        "any way of cutting a run of the instruction loop into budgets gives the same state and first event as one budget of the same total, for every "
        "program, state and cut; at the API, execute(n+m) = execute(n); execute(m) while the machine stays running; interrupt() saves exactly what CONT "
        "restores; a pending key wait answers 'key wanted' again without changing the machine, and CONT after an interrupt taken during the wait comes "
        "back to the same wait, address, stack and variables; the interrupt / CONT round trip through the public entry points "
        "(interrupt, the execute calls that report ?BREAK and show the prompt, enter(CONT), execute(k+1)) equals execute(k) of a machine that agrees with "
        "the interrupted one in address, stack, variables, functions, random state, program code, symbols and data and differs only in cursor column, "
        "emptied continuation slot, trace marker and direct-code area -- for every machine with a linked program, and likewise for every machine at the "
        "prompt whose slot holds a running program (STOP, END, errors); no instruction reads those fields while the slot is empty and tracing is off, "
        "so with the cursor in column 0 at the interrupt the execute calls after CONT return exactly the events of the uninterrupted machine, for one "
        "call and for any sequence of calls during which the reference run stays inside the program and keeps running; the same for the STOP and "
        "END statements inside the program: after the report, the prompt and CONT the call returns what the machine would have returned had the "
        "statement been skipped; an interrupt taken while the program waits at an INPUT prompt: CONT gives control back at once with the wait restored, "
        "the next call asks the same question, and the reply and the call that stores its fields (or unwinds to the prompt again) behave as on the "
        "uninterrupted machine (Props/C13.v, Proofs/Slicing.v, ContTrip.v, DeadFields.v, ContRun.v).",
        "the same sessions under seven quanta, interrupted after every k-th execute(1) call with optional inspection and CONT, with STOP inserted at "
        "statement boundaries, and programs waiting for keys (INKEY$) interrupted while each wait is pending; outputs must equal the uninterrupted run modulo the ?BREAK block and its forced line break.",
        "PARTIAL: the cursor beyond column 0 at the interruption (one line break is forced by design, after which TAB, POS and print zones differ), "
        "runs that trace, and interrupts during a key wait or a listing end to end are decided by the monitor, not proved.",
        "Coq slicing theorem + schedule-enumerating differential and relational check"),
    "C14": entry(
        "the change map is built completely before any line is touched (a failing RENUM leaves the listing as it was); lines below old-start are not in "
        "the map; the j-th line at or above old-start maps to new-start + j*step <= 65529; the renumbered listing is rebuilt in ascending order; a line is "
        "rewritten by replacing character ranges of its listed text, and for ranges that follow one another every character outside them is copied in place; "
        "a line without operands keeps its tokens; RENUM refuses a program with compile errors; every range the renumbering visitor collects from a "
        "parsed line -- any statement form, any nesting of IF -- is exactly the range of one number token of the line in its listed text, and that "
        "range cut out of the text is the token's digit string (Props/C14.v, Proofs/Renum.v, Splice.v, ParseCols.v, RenumCols.v).",
        "link-clean programs with every referencing form, non-ASCII text before operands, line 0 and omitted operands renumbered with boundary and random "
        "argument triples on model and crate; monitors check the numbering formula, that only line-number operands changed (token-wise), that failure "
        "leaves the listing byte-identical, and that the renumbered program runs identically modulo reported line numbers.",
        "PARTIAL: that the collected ranges come in ascending order without overlap, and that the fresh scan of the rewritten text returns the other "
        "tokens unchanged, is decided by the monitor, not proved.",
        "Coq theorems on the change map and on the text splice + differential and relational (before/after) check"),
    "C15": entry(
        "the stored lines are an ordered finite map: a numbered line inserts or replaces and nothing else changes, a bare number deletes, DELETE a-b removes "
        "exactly the inclusive range, iterating Listing::list_line as the runtime does yields exactly the lines of the range in ascending order; in every state "
        "reachable through enter / execute / interrupt the lines ascend strictly; a numbered line's number is at most 65529; the range parser reads nothing / n / "
        "n- / -m / n-m as the bounds (0,65529) / (n,n) / (n,65529) / (0,m) / (n,m) and refuses an inverted range (Props/C15.v, Proofs/Store.v, StoreRt.v, ParseRange.v).",
        "histories of insert / replace / bare-number delete / LIST / DELETE in every range form (exhaustive over a small universe, random over the whole "
        "number range) on model and crate; a reference map predicts every LIST output, every rejection and the listing after every step.",
        "That DELETE refuses the bare form at run time and how numbers above 65529 are rejected by the scanner are differential only.",
        "Coq refinement to an ordered map + reachable-state invariant + history-based differential check with a reference map + source tables regenerated by a translator and proved equal to the model's"),
    "C16": entry(
        "? and ' scan to the PRINT and REM tokens; the operator and GO TO / GO SUB merges hold for any amount of blank space, and for every pair of operator characters "
        "the merge with blanks between them is the merge without (one table, not two: the defect fixed by 638b3f3); the reserved-word table (with its order), the "
        "single-character tokens and the listed spellings of words and operators are the lists tools/tables.py regenerates from src/lang/token.rs on every run "
        "(Proofs/SourceTables.v); the whole scanner -- line-number "
        "prefix, numbers with their exponent letters, & literals, words, punctuation, post passes -- returns the same line number and tokens for any two "
        "texts that differ only in letter case, provided no string literal or remark is among the tokens (Props/C16.v, Proofs/CaseFold.v, CaseLex.v).",
        "every line of generated programs rendered in random spellings (case, ?, ', GO TO, GO SUB, dropped LET, =< =>, blanks inside relational operators, "
        "blanks added or removed at boundaries, keywords glued to numbers, words run together where the leftmost-reserved-word rule gives the same words "
        "back); variants must give the same AST, the same listing modulo LET / remark marker / amount of blank space, and whole programs the same transcript.",
        "PARTIAL: spacing-independence (blanks added, removed, words run together) of the scanner as a whole is decided by the monitor on the crate, not proved. One known finding is listed "
        "(GO SUB glued to digits). Listing equality is modulo the amount of blank space because the listing deliberately keeps the user's blanks.",
        "Coq theorems on token aliases and on case-independence of the whole scanner + spelling-variant relational check on the implementation + source tables regenerated by a translator and proved equal to the model's"),
    "C17": entry(
        "a reply is cut exactly at the commas outside double quotes: joining the fields with commas gives the reply back, for every reply; n well-formed "
        "fields joined by commas split into exactly those n fields; a reply without commas and quotes is one field; and the protocol, for every machine "
        "state: the prompt event is the prompt text followed by '? ' with capitals off exactly for the leading-comma flag; a reply with the wrong field "
        "count or over the length limit is refused as a whole (nothing changes but the state), reported as REDO FROM START, and the machine prompts again; an "
        "accepted reply puts a return address under its fields without touching a variable; a field becomes a string (trimmed, one pair of quotes "
        "removed) or a number (0 when empty); an error while storing cuts the stack back, returns to the INPUT statement and refuses the reply; "
        "the & forms of a numeric field read back what HEX$ / OCT$ print, for every value 0..32767 "
        "(Props/C17.v, Proofs/Input.v, InputProto.v, Strings2.v).",
        "INPUT statements of every shape answered with replies from a grammar on model and crate; an independent specification of splitting, trimming, "
        "unquoting and numeric conversion predicts the prompt, the capitalisation flag, acceptance with the stored values, or REDO FROM START followed "
        "by the same prompt.",
        "The number syntax of a field (val_from_str against the manual) and that the compiled INPUT statement drives the proved steps in the documented "
        "order are decided by the monitor, not proved.",
        "Coq theorems on field splitting and on the prompt / accept / refuse / retry steps + reply-grammar differential check with an input specification monitor"),
    "C18": entry(
        "in every state reachable through the public API the value stack holds at most 65535 entries and its length field is exact (65536 only at the moment "
        "a push reports OUT OF MEMORY); the variable pool never exceeds 65536 entries, storing 0 or \"\" frees the slot; the code and DATA pools refuse the "
        "65536th entry; SWAP leaves exactly two values; for compiled programs of LET, PRINT, GOTO, ON..GOTO and END every completed statement leaves the value "
        "stack exactly as long as it found it (from the C01 simulation); every built-in call that completes replaces exactly the entries it owns -- as many as the "
        "arity table the code generator consults says, the count literal included when the arity is a range -- by one result and touches nothing beneath, for all "
        "33 names, and that table is the one tools/tables.py regenerates from Function::opcode_and_arity on every run (Props/C18.v, Proofs/StackBound.v, "
        "Flow3.v, CallWidth.v, SourceTables.v).",
        "every statement kind 70000 times in a loop (crate) and 2500 times (model and crate); GOSUB / FN recursion, abandoned frames, 65537 variables / "
        "DATA constants / instructions must end in OUT OF MEMORY with the session usable; zeroing at the pool limit (also through converting assignments) "
        "must free slots.",
        "The bound is on pool entries (the crate's own limit), not on bytes of real memory. 'A completed statement leaves nothing behind' is decided by the "
        "long runs, not proved. One known finding is listed (an oversized stored program blocks direct mode).",
        "Coq reachable-state invariant for the stack + pool lemmas + long-run and limit-driving checks + source tables regenerated by a translator and proved equal to the model's"),
    "C19": entry(
        "with errors recorded for the stored program every jump into program code stops the machine and reports them, leaving stack, variables and column "
        "alone, while jumps inside the direct line are ordinary; a listed line comes with exactly the ranges recorded for that line, shifted by the width of "
        "the line-number prefix; the linker reports every unresolved line reference as UNDEFINED LINE with the line its code address belongs to and the column "
        "range recorded with the reference, and leaves the instruction alone; in a compiled program an address inside line n's code is attributed to line n; "
        "together, for GOTO / ON..GOTO: a missing target is reported in the statement's own line at the parser's range for the number; and that range is "
        "exact: every token reaches the parser with the character range it occupies in the listed text (blanks and multi-byte text included), every "
        "parser function leaves the parser on a token boundary, and for every line that parses, every branch target of GOTO / GOSUB / ON.. / THEN n / "
        "ELSE n / RESTORE n / RUN n carries exactly the range of its number token and every WHILE / WEND exactly the range of its keyword, at any "
        "nesting of IF; the code generator hands those ranges on: every reference to a program line that the code of any statement of a parsed line "
        "leaves for the linker carries the range of a number token of that line (Props/C19.v, Proofs/ErrBlock.v, LinkErr.v, ParseCols.v, RefCols.v).",
        "programs of sentinel-printing lines with injected dangling references in every referencing form, unmatched WHILE/WEND and token damage behind ASCII "
        "and multi-byte text, entered through RUN, RUN n, GOTO, GOSUB, ON.., CONT on model and crate; nothing may be printed by the program, direct "
        "statements (looping ones included) must still work, and the reported range must underline exactly the number / keyword in the listed line.",
        "PARTIAL: the attribution of a reference to its own line and the program-level linking are proved for the GOTO / ON..GOTO / LET / PRINT / END "
        "fragment only; the ranges of syntax errors and of WHILE / WEND diagnostics at link time, and the shift by the line-number prefix on display "
        "end to end, are decided by the monitor, not proved.",
        "Coq theorems on the entry guard and on the linker's diagnostic + fault-injection differential check with an underline monitor + source tables regenerated by a translator and proved equal to the model's"),
    "C20": entry(
        "appending a fragment places its code unchanged behind the existing code; linking patches every recorded reference whose symbol is defined with "
        "that symbol's address, touches no other instruction and changes only the address operand; a line symbol records the address at which the line "
        "starts, whatever precedes it; for whole programs of any statements compiled without error: statement code defines only negative local symbols, "
        "so the symbol of line n is the address where the code of the lines before n ends, whatever lines come before or after; a line that generates "
        "no code (remark, empty statement) is invisible: with it or without it the compiled program has the same instructions, DATA, open references and "
        "WHILE records, and -- when nothing refers to it and code follows it -- the linked program has the same instructions, DATA and direct-code address; "
        "the same relation holds when the statements of one line are given as two consecutive lines; a direct line of address-free instructions (what LET, "
        "PRINT, DIM, SWAP, ERASE, DEFtype, MID$=, CLS compile to) closed by END runs the same, event for event, whatever program and listing are in memory "
        "and wherever its code sits behind them; no instruction reads the linked program's symbol table, so machines that differ in it alone run the "
        "same, event for event, while they do not trace (Props/C20.v, Proofs/Reloc.v, SymSeg.v, EmptyLine.v, DirectShift.v, SymLens.v).",
        "generated programs under REM / empty / unreachable line insertion, line splitting, other numberings (including from line 0 with references to the "
        "first line), extra program text behind a direct statement, direct vs one-line-program execution, on model and crate; transcripts must agree modulo "
        "reported line numbers.",
        "PARTIAL: renumbering, unreachable code, direct lines that branch or loop with another program in memory, and the glue between the two "
        "halves for inserted lines (that RUN of the longer listing builds a machine differing from the other in symbol table and listing only) are "
        "decided by the relational monitor, not proved.",
        "Coq theorems on append and link + layout-transformation relational check"),
}

PENDING_REASON = ("the model covers this property's code, but its theorem file and check module are not yet registered in this commit "
                  "(construction order: DESIGN.md section 9)")


def main():
    props = [json.loads(l) for l in open(os.path.join(ROOT, "properties.jsonl"))]
    checks = []
    for pid in sorted(CLAIMED):
        c = CLAIMED[pid]
        checks.append(dict(
            property_id=pid,
            quick_cmd="python3 tools/check.py --property %s --tier quick" % pid,
            thorough_cmd="python3 tools/check.py --property %s --tier thorough" % pid,
            evidence_file="evidence/%s.json" % pid,
            replay_cmd_template="python3 tools/check.py --replay {path}",
            engine="coq-model-correspondence",
            level_claimed=dict(category="proof", text=c["text"], design_ref="DESIGN.md section 7, " + pid),
            level_note=COMMON_NOTE + c["note"],
            technique=c["technique"]))
    na = [dict(property_id=p["id"], reason=PENDING_REASON) for p in props if p["id"] not in CLAIMED]
    m = dict(
        version=1,
        setup_cmd="bash tools/setup.sh",
        hooks=dict(guard="basic_lang_verif",
                   enable="none needed: the harness uses only the crate's public API (there are no hook commits)",
                   baseline_off_cmd="cd /repo && cargo test --workspace --no-fail-fast --offline",
                   source_commits=[], add_only=True),
        engines=[dict(name="coq-model-correspondence", path="tools/check.py", serves_properties=sorted(CLAIMED),
                      kind_free_text="Gallina model of the interpreter + Coq theorems (coq/), the source's literal tables regenerated into the model "
                                     "by tools/tables.py and proved equal to the model's, extracted OCaml driver vs Rust harness "
                                     "differential check, reference semantics and Python monitors for the violation search")],
        checks=checks,
        not_applicable=na,
        notes="fix: commits made in /repo are listed in findings/known_findings.txt")
    json.dump(m, open(os.path.join(ROOT, "MANIFEST.json"), "w"), indent=1)
    print("claimed:", sorted(CLAIMED))


if __name__ == "__main__":
    main()
