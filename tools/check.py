#!/usr/bin/env python3
"""Entry point of every registered check:
   python3 tools/check.py --property C08 --tier quick|thorough
   python3 tools/check.py --replay replay/C08-xxxx.json
Exit 0: the property held on everything explored.  Exit 1: a line
"VIOLATION property=<id> replay=<path>" was printed."""
import argparse
import importlib
import json
import os
import sys

sys.path.insert(0, os.path.dirname(os.path.abspath(__file__)))
import framework  # noqa: E402
import build  # noqa: E402


def replay(path):
    p = json.load(open(path))
    print(json.dumps(p, indent=1))
    if "case" in p:
        os.makedirs(build.WORK, exist_ok=True)
        build.build_harness(p.get("profile", "dev"))
        r = framework.run_side(build.harness_exe(p.get("profile", "dev")), [p["case"]], "replay-impl", 5.0)
        print("implementation now:", r)
        if os.path.exists(build.driver_exe()):
            m = framework.run_side(build.driver_exe(), [p["case"]], "replay-model", 5.0)
            print("model now:        ", m)
        if p.get("property"):
            mod = importlib.import_module("props." + p["property"].lower())
            c = framework.Case(p["case"], p.get("input"), "", p.get("profile", "dev"))
            print("monitor verdict:  ", mod.monitor(c, r[0]))
    return 0


def main():
    ap = argparse.ArgumentParser()
    ap.add_argument("--property")
    ap.add_argument("--tier", default=os.environ.get("VERIF_TIER", "quick"))
    ap.add_argument("--replay")
    a = ap.parse_args()
    if a.replay:
        sys.exit(replay(a.replay))
    seed = int(os.environ.get("VERIF_SEED", "20260923"))
    mod = importlib.import_module("props." + a.property.lower())
    rc = framework.run_check(mod, a.tier, seed)
    sys.exit(rc)


if __name__ == "__main__":
    main()
