#!/usr/bin/env python3
"""Development aid: shrink a session on which model and implementation disagree.
   ddmin.py <replay.json>   prints the minimal list of calls that still disagrees"""
import json
import subprocess
import sys
import os
sys.path.insert(0, os.path.dirname(os.path.abspath(__file__)))
import build
import framework
import sess


def run(exe, line):
    p = "/tmp/ddmin-%d.case" % os.getpid()
    open(p, "w").write(line + "\n")
    try:
        out = subprocess.run([exe, p], stdout=subprocess.PIPE, stderr=subprocess.DEVNULL, timeout=120).stdout.decode().split("\n")[0]
    except subprocess.TimeoutExpired:
        out = "HANG"
    os.unlink(p)
    return framework.default_canon(None, out)


def differs(calls):
    line = "session " + " ".join(calls)
    return run(build.harness_exe(), line) != run(build.driver_exe(), line)


def main():
    d = json.load(open(sys.argv[1]))
    calls = d["case"].split(" ")[1:]
    assert differs(calls), "does not disagree any more"
    n = 2
    while len(calls) >= 2:
        size = max(1, len(calls) // n)
        chunks = [calls[i:i + size] for i in range(0, len(calls), size)]
        reduced = False
        for i in range(len(chunks)):
            cand = [c for j, ch in enumerate(chunks) if j != i for c in ch]
            if cand and differs(cand):
                calls = cand
                n = max(n - 1, 2)
                reduced = True
                break
        if not reduced:
            if size == 1:
                break
            n = min(n * 2, len(calls))
    for c in calls:
        if ":" in c and c[0] in "EA":
            q, _, h = c.partition(":")
            print(q, repr(bytes.fromhex(h).decode("utf8", "replace"))[:100])
        else:
            print(c[:100])
    line = "session " + " ".join(calls)
    print("impl :", sess.decode_events(run(build.harness_exe(), line))[-400:])
    print("model:", sess.decode_events(run(build.driver_exe(), line))[-400:])


if __name__ == "__main__":
    main()
