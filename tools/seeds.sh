#!/bin/bash
# development aid: run the given checks under several seeds and print only the verdict lines
cd "$(dirname "$0")/.."
props="$1"; shift
for sd in "$@"; do
  for p in $props; do
    echo -n "seed $sd: "; VERIF_SEED=$sd python3 tools/check.py --property $p --tier quick 2>&1 | grep -E "^VIOLATION|^C[0-9]+ quick" | tr '\n' ' '; echo
  done
done
