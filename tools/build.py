#!/usr/bin/env python3
"""Build steps shared by setup.sh and check.py.

  coq      : coq_makefile + make (full .vo build) under a shell timeout
  driver   : move the extracted model.ml next to main.ml, ocamlfind ocamlopt
  harness  : cargo build --offline against /repo's current working tree
"""
import os
import shutil
import subprocess
import sys
import time

ROOT = os.path.dirname(os.path.dirname(os.path.abspath(__file__)))
COQ = os.path.join(ROOT, "coq")
DRIVER = os.path.join(ROOT, "driver")
HARNESS = os.path.join(ROOT, "harness")
WORK = os.path.join(ROOT, "work")

ENV = dict(os.environ)
ENV["CARGO_NET_OFFLINE"] = "true"


def run(cmd, cwd, timeout, quiet=True):
    t0 = time.time()
    p = subprocess.run(cmd, cwd=cwd, env=ENV, shell=isinstance(cmd, str),
                       stdout=subprocess.PIPE, stderr=subprocess.STDOUT,
                       timeout=timeout, text=True)
    return p.returncode, p.stdout, time.time() - t0


def build_coq():
    """Returns (ok, log).  First the translator: coq/Gen/SourceTables.v is rewritten from /repo's source when it differs.
    `make -k`: a file that no longer compiles (say Proofs/SourceTables.v after a table changed in the source) does not keep
    the rest -- the model, its extraction, the other properties' theorems -- from being built."""
    pre = ""
    rc, out, _ = run([sys.executable, os.path.join(ROOT, "tools", "tables.py")], ROOT, 120)
    if rc != 0:
        pre = "tools/tables.py failed (the tie to the source tables is broken): " + out[-600:] + "\n"
    if not os.path.exists(os.path.join(COQ, "Makefile")) or \
            os.path.getmtime(os.path.join(COQ, "_CoqProject")) > os.path.getmtime(os.path.join(COQ, "Makefile")):
        rc1, out1, _ = run("coq_makefile -f _CoqProject -o Makefile", COQ, 120)
        if rc1 != 0:
            return False, pre + out1
    try:
        rc2, out2, dt = run("timeout 3400 make -k -j16", COQ, 3500)
    except subprocess.TimeoutExpired:
        return False, pre + "coq build timed out"
    return rc == 0 and rc2 == 0, pre + out2


def build_driver():
    src = os.path.join(COQ, "model.ml")
    exe = os.path.join(DRIVER, "model_driver")
    if not os.path.exists(src):
        return False, "no extracted model.ml (coq build failed?)"
    need = (not os.path.exists(exe)) or os.path.getmtime(src) > os.path.getmtime(exe) \
        or os.path.getmtime(os.path.join(DRIVER, "main.ml")) > os.path.getmtime(exe)
    if not need:
        return True, "driver up to date"
    shutil.copy(src, os.path.join(DRIVER, "model.ml"))
    shutil.copy(os.path.join(COQ, "model.mli"), os.path.join(DRIVER, "model.mli"))
    rc, out, _ = run("ocamlfind ocamlopt -O2 -w -a model.mli model.ml main.ml -o model_driver", DRIVER, 1200)
    return rc == 0, out


def build_harness(profile="dev"):
    lock_src = "/repo/Cargo.lock"
    lock_dst = os.path.join(HARNESS, "Cargo.lock")
    if os.path.exists(lock_src):
        shutil.copy(lock_src, lock_dst)
    cmd = "cargo build --offline" + (" --release" if profile == "release" else (" --profile dbg" if profile == "dbg" else ""))
    try:
        rc, out, _ = run(cmd, HARNESS, 1800)
    except subprocess.TimeoutExpired:
        return False, "cargo build timed out"
    return rc == 0, out


def harness_exe(profile="dev"):
    return os.path.join(HARNESS, "target", {"release": "release", "dbg": "dbg"}.get(profile, "debug"), "blharness")


def driver_exe():
    return os.path.join(DRIVER, "model_driver")


def main():
    what = sys.argv[1] if len(sys.argv) > 1 else "all"
    os.makedirs(WORK, exist_ok=True)
    if what in ("all", "coq"):
        ok, log = build_coq()
        print(log[-3000:])
        if not ok:
            print("COQ BUILD FAILED")
            sys.exit(1)
    if what in ("all", "driver"):
        ok, log = build_driver()
        print(log[-2000:])
        if not ok:
            print("DRIVER BUILD FAILED")
            sys.exit(1)
    if what in ("all", "harness"):
        for prof in ("dev", "release", "dbg"):
            ok, log = build_harness(prof)
            print(log[-1500:])
            if not ok:
                print("HARNESS BUILD FAILED", prof)
                sys.exit(1)
    print("setup ok")


if __name__ == "__main__":
    main()
