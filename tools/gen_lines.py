"""Generators of source lines for the scanner / parser interfaces."""
import itertools

ALPHABET25 = list("15.EeDAGOTN&H\"'?:,=<>-%$ ")

KEYWORDS = ["CLEAR", "CLS", "CONT", "DATA", "DEF", "DEFDBL", "DEFINT", "DEFSNG", "DEFSTR", "DELETE", "DIM",
            "ELSE", "END", "ERASE", "FOR", "GOSUB", "GOTO", "IF", "INPUT", "LET", "LIST", "LOAD", "NEW", "NEXT",
            "ON", "PRINT", "READ", "REM", "RENUM", "RESTORE", "RETURN", "RUN", "SAVE", "STEP", "STOP", "SWAP",
            "THEN", "TO", "TROFF", "TRON", "WEND", "WHILE", "AND", "OR", "XOR", "IMP", "EQV", "MOD", "NOT",
            "GO", "SUB", "FN", "FNA", "MID$", "TAB", "LEN", "LEFT$", "INSTR", "RND", "INKEY$", "POS", "STR$"]
IDENTS = ["A", "B1", "AB", "X$", "Y%", "Z!", "W#", "I", "J", "K9", "FNB", "TOTAL", "SCORE", "A1B", "ORB", "NOTE", "FORK"]
NUMBERS = ["0", "1", "10", "100", "32767", "32768", "65529", "65530", "1.5", ".5", "5.", "1E5", "1e5", "1E+5",
           "1E-5", "1D5", "1d5", "1E", "1D", "1.5E3", "12345678", "1234567", "1!", "1#", "1%", "1.5%", "&HFF",
           "&hff", "&777", "&H", "&", "&8", "&HFFFF", "1.2.3", "1..2", "1E5E5", "1e5e5", "1DX", "3.4E38", "1E39",
           "1E-46", "123456789012345678"]
STRINGS = ['""', '"A"', '"hello world"', '"unterminated', '"é日"', '"a:b"', '"REM"', "\"it's\""]
PUNCT = ["(", ")", ",", ":", ";", "?", "'", "^", "*", "/", "\\", "+", "-", "=", "<", ">", "<=", ">=", "<>", "=<",
         "=>", "><", "< =", "> =", "< >", "= <", "= >", "> <", "$", "!", "#", "%", "@", "_", "~", "[", "{", "$$", "é"]
SPELLINGS = KEYWORDS + IDENTS + NUMBERS + STRINGS + PUNCT


def exhaustive(alphabet, maxlen):
    for n in range(0, maxlen + 1):
        for t in itertools.product(alphabet, repeat=n):
            yield "".join(t)


def soup(rng, n_tokens):
    parts = []
    for _ in range(n_tokens):
        r = rng.random()
        if r < 0.35:
            w = rng.choice(KEYWORDS)
        elif r < 0.55:
            w = rng.choice(IDENTS)
        elif r < 0.72:
            w = rng.choice(NUMBERS)
        elif r < 0.80:
            w = rng.choice(STRINGS)
        else:
            w = rng.choice(PUNCT)
        if rng.random() < 0.3:
            w = w.lower()
        parts.append(w)
        s = rng.random()
        if s < 0.45:
            parts.append(" ")
        elif s < 0.5:
            parts.append("  ")
        elif s < 0.52:
            parts.append("\t")
    return "".join(parts)


def numbered(rng, body):
    r = rng.random()
    if r < 0.6:
        return "%d %s" % (rng.choice([0, 1, 10, 20, 100, 1000, 65529, 65530, 70000, 32768]), body)
    if r < 0.7:
        return "%d%s" % (rng.randint(1, 99), body)
    if r < 0.75:
        return "  %d  %s" % (rng.randint(1, 99), body)
    if r < 0.8:
        # the character right after the digits is not an ASCII blank: tab, multi-byte blanks, a letter with an accent
        # (the scanner steps over the number by bytes and over the separator by one)
        return "%d%s%s" % (rng.choice([1, 10, 65529, 65530]), rng.choice(["\u00a0", "\u2003", "\u3000", "\u0085", "\t", "\u00e9", "\u00a0 ", " \u00a0"]), body)
    return body


SAMPLE_PROGRAM_LINES = [
    '10 PRINT "HELLO"', '20 GOTO 10', '30 FOR I=1 TO 10 STEP 2:PRINT I;:NEXT I', '40 IF A=1 THEN 100 ELSE 200',
    '50 IF A<>B THEN PRINT "X":GOTO 10 ELSE PRINT "Y"', '60 ON X GOTO 10,20,30', '70 ON X GOSUB 100,200',
    '80 DEF FNA(X,Y)=X*Y+Z', '90 DIM A(10),B$(5,5)', '100 INPUT "NAME";N$', '110 INPUT ,"X";A,B', '120 READ A,B$,C%',
    '130 DATA 1,-2,"THREE",4.5', '140 RESTORE 130', '150 RESTORE', '160 WHILE A<10:A=A+1:WEND', '170 GOSUB 500:RETURN',
    '180 MID$(A$,2,3)="XYZ"', '190 LET A=1', '200 SWAP A,B', '210 ERASE A,B', '220 DEFINT A-Z', '230 DEFSTR S',
    '240 PRINT TAB(10);A,B;C$', '250 PRINT A;', '260 PRINT', '270 REM hello world', "280 ' comment", '290 END',
    '300 STOP', '310 CLS', '320 CLEAR', '330 TRON:TROFF', '340 A(1,2)=3', '350 PRINT FNA(1,2)', '360 NEXT',
    '370 NEXT I,J', '380 LIST 10-20', '390 DELETE 10-', '400 RENUM 100,10,5', '410 RUN 10', '420 RUN "FILE"',
    '430 LOAD "X"', '440 SAVE "X"', '450 NEW', '460 CONT', '470 PRINT -A^2', '480 PRINT NOT A AND B OR C XOR D IMP E EQV F',
    '490 PRINT A MOD B\\C*D/E+F-G', '500 PRINT (A+B)*(C-D)', '510 PRINT A=B,A<B,A>B,A<=B,A>=B,A<>B', '520 A$="x"+B$+CHR$(65)',
    '530 IF A THEN IF B THEN PRINT 1 ELSE PRINT 2 ELSE PRINT 3', '540 GO TO 10', '550 GO SUB 10', '560 ?"HI"',
    '570 PRINT &HFF,&777,1E5,1.5D3,2!,3#,4%', '580 FOR I=10 TO 1 STEP -1', '590 X=INSTR(2,A$,"B")', '600 PRINT LEFT$(A$,1);RIGHT$(A$,2);MID$(A$,2)',
    'PRINT 1', 'RUN', 'LIST', 'LIST -20', 'DELETE 5', '10', '  20  ', 'A=1:B=2', 'IFA=1THENPRINT"X"', 'FORI=1TO10', 'PRINTA$B$',
    # two-word spellings and relational operators with a blank inside, several of them in one line and in either order
    '610 GO SUB 100:C=A > =B', '620 A=1:ON A GO TO 100:PRINT A < >B', '630 GO TO 20:IF A < = B THEN 30', 'GO TO 10:?1< >2',
    '640 IF A < > B THEN GO TO 10', '650 C=A = <B:GO SUB 100:D=A > <B', '660 GO TO 10:GO SUB 20:?A> =B',
]
