"""C02 -- expressions: precedence, promotion, result types, typed assignment."""
import math
import struct

from framework import Case
import sess

PROPERTY = "C02"
THEOREM_FILE = "Props/C02.v"
INTERFACES = "L3 ast of rendered expression trees; Lops Operation::* over the operand-type matrix; L5 PRINT of typed assignments"
PROFILES = ["dev"]
RULE = ("(a) random expression trees (depth <= 5) over the 18 binary operators, unary minus/plus and NOT, rendered with the parentheses the "
        "manual's 13-level table requires, plus redundant parentheses, random blanks and case; all operator pairs and triples over symbolic "
        "atoms exhaustively; the parsed tree must be the generated tree. (b) every operator x 4x4 operand types x boundary values: result "
        "type per the manual's promotion rule, relational results 0/-1. (c) assignments of boundary values to variables of each type. "
        "(d) literal spellings and their types. non-trivial = tree with >= 2 operators of different levels, or a boundary operand; "
        "distinct = distinct case lines")
ASSUMPTIONS = ["values of ^ with a non-Integer operand are compared by type only (powf/powi are oracles)"]
EXHAUSTIVE = {"quick": False, "thorough": False}

# the manual's table: operator spelling -> (level, ast name)
BIN = {"^": (13, "pow"), "*": (11, "mul"), "/": (11, "div"), "\\": (10, "divint"), "MOD": (9, "mod"), "+": (8, "add"), "-": (8, "sub"),
       "=": (7, "eq"), "<>": (7, "ne"), "<": (7, "lt"), "<=": (7, "le"), ">": (7, "gt"), ">=": (7, "ge"),
       "AND": (5, "and"), "OR": (4, "or"), "XOR": (3, "xor"), "IMP": (2, "imp"), "EQV": (1, "eqv")}
UN = {"-": (12, "neg"), "NOT": (6, "not"), "+": (12, None)}
ATOMS = ["A", "B", "C1", "X%", "2", "7", "1.5", "D#"]


def hexs(s):
    return s.encode("utf-8").hex()


def atom_sexpr(a):
    if a[0].isdigit():
        if "." in a:
            return "(s %08x)" % struct.unpack("<I", struct.pack("<f", float(a)))[0]
        return "(i %s)" % a
    tag = {"%": "I", "#": "D", "!": "S", "$": "T"}.get(a[-1], "P")
    return "(u %s%s)" % (tag, hexs(a))


class T:
    """expression tree"""

    def __init__(self, kind, op=None, kids=()):
        self.kind, self.op, self.kids = kind, op, kids

    def level(self):
        if self.kind == "atom":
            return 99
        if self.kind == "bin":
            return BIN[self.op][0]
        return UN[self.op][0]

    def sexpr(self):
        if self.kind == "atom":
            return atom_sexpr(self.op)
        if self.kind == "bin":
            return "(%s %s %s)" % (BIN[self.op][1], self.kids[0].sexpr(), self.kids[1].sexpr())
        if UN[self.op][1] is None:
            return self.kids[0].sexpr()        # unary plus is absorbed
        return "(%s %s)" % (UN[self.op][1], self.kids[0].sexpr())

    def render(self, rng, redundant=0.0):
        def wrap(s):
            return "(" + s + ")"

        def sp():
            return rng.choice(["", "", " ", "  "]) if rng else ""

        if self.kind == "atom":
            s = self.op
        elif self.kind == "bin":
            lv = self.level()
            l, r = self.kids
            ls = l.render(rng, redundant)
            rs = r.render(rng, redundant)
            if l.level() < lv:
                ls = wrap(ls)
            if r.level() <= lv:
                rs = wrap(rs)
            op = self.op
            pad = " " if op.isalpha() else sp()
            s = ls + pad + op + pad + rs
        else:
            k = self.kids[0]
            ks = k.render(rng, redundant)
            if k.level() <= self.level():
                ks = wrap(ks)
            s = self.op + (" " if self.op.isalpha() else sp()) + ks
        if rng and rng.random() < redundant:
            s = wrap(s)
        return s


def rand_tree(rng, depth):
    if depth == 0 or rng.random() < 0.25:
        return T("atom", rng.choice(ATOMS))
    r = rng.random()
    if r < 0.75:
        return T("bin", rng.choice(list(BIN)), (rand_tree(rng, depth - 1), rand_tree(rng, depth - 1)))
    return T("un", rng.choice(["-", "NOT", "-", "+"]), (rand_tree(rng, depth - 1),))


VALS = {
    "I": [0, 1, -1, 2, 127, 255, 256, 32766, 32767, -32767, -32768, 181, 182, 7, -7],
    "S": [0.0, -0.0, 1.0, -1.0, 0.5, 1.5, 2.5, -2.5, 16777216.0, 16777217.0, 0.1, 1.0 / 3.0, 3.4028235e38, 1e-45, 32767.5, -32768.5, 65536.0, float("inf"), float("nan"), 1e10],
    # the last five lie within half a Single ulp below / above an integer: a conversion that detours through Single moves them across it
    "D": [0.0, 1.0, -1.0, 0.5, 2.5, 2147483648.0, 1e308, 5e-324, 32767.9, -32768.1, 1e39, float("inf"), float("nan"), 0.1,
          0.3 / 0.1, 7.99999999, 32767.9999, -32768.0001, 100.99999999, 16777217.0, 1.0 / 3.0],
    "T": ["", "A", "B", "AB", "é"],
}


def f32(x):
    try:
        return struct.unpack("<f", struct.pack("<f", x))[0]
    except OverflowError:
        return float("inf") if x > 0 else float("-inf")


def decode_num(tok):
    t, r = tok[:2], tok[2:]
    if t == "I:":
        return float(int(r))
    if t == "S:":
        return struct.unpack("<f", struct.pack("<I", int(r, 16)))[0]
    if t == "D:":
        return struct.unpack("<d", struct.pack("<Q", int(r, 16)))[0]
    return None


def val(t, v):
    if t == "I":
        return "I:%d" % v
    if t == "S":
        return "S:%08x" % struct.unpack("<I", struct.pack("<f", v))[0]
    if t == "D":
        return "D:%016x" % struct.unpack("<Q", struct.pack("<d", v))[0]
    return "T:" + v.encode("utf-8").hex()


OPS2 = ["pow", "mul", "div", "divint", "mod", "add", "sub", "eq", "ne", "lt", "le", "gt", "ge", "and", "or", "xor", "imp", "eqv"]


def gen(tier, rng):
    cases = []
    # (a) precedence
    ops = list(BIN)
    atoms = [T("atom", a) for a in ("A", "B", "C1")]
    for o1 in ops:
        for o2 in ops:
            for shape in (0, 1):
                t = T("bin", o2, (T("bin", o1, (atoms[0], atoms[1])), atoms[2])) if shape == 0 else T("bin", o1, (atoms[0], T("bin", o2, (atoms[1], atoms[2]))))
                src = "Z=" + t.render(None)
                cases.append(Case("astnc " + hexs(src), sig=src, tag="pairs", meta=("tree", t.sexpr())))
        for u in ("-", "NOT", "+"):
            for shape in (0, 1, 2):
                if shape == 0:
                    t = T("bin", o1, (T("un", u, (atoms[0],)), atoms[1]))
                elif shape == 1:
                    t = T("bin", o1, (atoms[0], T("un", u, (atoms[1],))))
                else:
                    t = T("un", u, (T("bin", o1, (atoms[0], atoms[1])),))
                src = "Z=" + t.render(None)
                cases.append(Case("astnc " + hexs(src), sig=src, tag="unary-pairs", meta=("tree", t.sexpr())))
    if tier == "thorough":
        for o1 in ops:
            for o2 in ops:
                for o3 in ops:
                    t = T("bin", o3, (T("bin", o2, (T("bin", o1, (atoms[0], atoms[1])), atoms[2])), T("atom", "7")))
                    src = "Z=" + t.render(None)
                    cases.append(Case("astnc " + hexs(src), sig=src, tag="triples", meta=("tree", t.sexpr())))
    n = 3000 if tier == "quick" else 100000
    for _ in range(n):
        t = rand_tree(rng, rng.randint(2, 5))
        src = "Z=" + t.render(rng, redundant=rng.choice([0.0, 0.0, 0.2, 0.5]))
        if rng.random() < 0.3:
            src = src.lower()
        if len(src) > 900:
            continue
        cases.append(Case("astnc " + hexs(src), sig=src, tag="random-tree", meta=("tree", t.sexpr())))
    # (b) operator x type matrix
    for op in OPS2:
        for t1 in "ISDT":
            for t2 in "ISDT":
                # comparisons between the two float types use every value: the interesting pairs differ only beyond Single precision
                full = tier == "thorough" or (op in ("eq", "ne", "lt", "le", "gt", "ge") and {t1, t2} == {"S", "D"})
                vs1 = VALS[t1] if full else rng.sample(VALS[t1], min(len(VALS[t1]), 8))
                vs2 = VALS[t2] if full else rng.sample(VALS[t2], min(len(VALS[t2]), 8))
                for a in vs1:
                    for b in vs2:
                        cases.append(Case("op2 %s %s %s" % (op, val(t1, a), val(t2, b)), tag="matrix", meta=("matrix", op, t1, t2)))
    for op in ("neg", "not"):
        for t1 in "ISDT":
            for a in VALS[t1]:
                cases.append(Case("op1 %s %s" % (op, val(t1, a)), tag="matrix-unary", meta=("matrix1", op, t1, None)))
    # (c) typed assignment
    lits = ["0", "1", "2.5", "-2.5", "32767", "32768", "-32768.5", "-32769", "1E10", "1.5#", "0.1#", "1/3", "1#/3", "16777217", '"x"', "3%", "1E39#", "2.5!",
            "0.3#/0.1#", "32767.9999#", "-32768.0001#", "2.99999999#", "100.99999999#"]
    for suffix in ("%", "!", "#", "$", ""):
        for lit in lits:
            prog = ["10 V%s=%s:PRINT V%s" % (suffix, lit, suffix)]
            cases.append(Case(sess.prog_session(prog), sig="V%s=%s" % (suffix, lit), tag="assign", meta=("assign", suffix, lit)))
    for deft, letter in (("DEFINT", "V"), ("DEFDBL", "V"), ("DEFSTR", "V"), ("DEFSNG", "V")):
        for lit in lits:
            prog = ["10 %s %s:V=%s:PRINT V" % (deft, letter, lit)]
            cases.append(Case(sess.prog_session(prog), sig="%s V:V=%s" % (deft, lit), tag="assign-deftype", meta=("assign", {"DEFINT": "%", "DEFDBL": "#", "DEFSTR": "$", "DEFSNG": "!"}[deft], lit)))
    # (e) chains of unary operators, compiled and run: each application converts and checks on its own (NOT floors to a 16-bit
    # Integer, negation of -32768 overflows, neither takes a string), so no two of them cancel
    atoms = [("A%", "I", -32768), ("B%", "I", 5), ("7", "I", 7), ("S", "S", 2.5), ("T", "S", 40000.0), ("U", "S", -7.25), ("D#", "D", 2.5),
             ("E#", "D", -40000.5), ("Q$", "T", "A"), ("2.5", "S", 2.5), ("32767", "I", 32767), ("V", "S", -32768.0)]
    setup = 'A%=-32767-1:B%=5:S=2.5:T=40000:U=-7.25:D#=2.5:E#=-40000.5:Q$="A":V=-32768'
    uns = ["-", "NOT ", "+"]
    chains = [[a, b] for a in uns for b in uns] + [[a, b, c] for a in uns for b in uns for c in uns]
    for name, ty, v in atoms:
        for ch in chains:
            for style in (0, 1, 2):
                txt = name
                for k, u in enumerate(reversed(ch)):
                    if style == 0:
                        txt = u + " " + txt if not u.endswith(" ") else u + txt
                    elif style == 1:
                        txt = u + "(" + txt + ")"
                    else:
                        txt = u + ("(" + txt + ")" if k % 2 == 0 else " " + txt)
                cases.append(Case(sess.prog_session(["10 " + setup, "20 PRINT " + txt]), sig="PRINT " + txt + "   with " + setup, tag="unary-chain",
                                  meta=("chain", ty, v, list(reversed(ch)))))
    # (d) literal typing (unambiguous cases of the manual's six rules)
    for lit, ty in [("1E5", "s"), ("1e5", "s"), ("1E+5", "s"), ("2.5E-3", "s"), ("1D5", "d"), ("1d5", "d"), ("1.5", "s"), ("0.5", "s"), (".5", "s"),
                    ("1.2345678", "d"), ("12345678", "d"), ("1234567", "s"), ("32767", "i"), ("32768", "s"), ("0", "i"), ("7", "i"), ("1!", "s"),
                    ("1#", "d"), ("1%", "i"), ("100000", "s"), ("1.5#", "d"), ("99999999", "d"), ("&HFF", "i"), ("&17", "i"), ("&H7FFF", "i")]:
        cases.append(Case("astnc " + hexs("Z=" + lit), sig="Z=" + lit, tag="literal", meta=("literal", ty)))
    return cases


def canon(case, r):
    # float results of ^ come from powf/powi, which the model does not define: compare the type only
    if r and case.meta and case.meta[0] == "matrix" and case.meta[1] == "pow" and (r.startswith("ok S:") or r.startswith("ok D:")):
        return r[:5] + "*"
    return r


PROMO = {"I": 0, "S": 1, "D": 2}


def monitor(case, r):
    if r is None:
        return None
    if r in ("PANIC", "HANG", "CRASH") or "PANIC" in r:
        return "crash: %s answers %s" % (case.sig, r[:60])
    m = case.meta
    if not m:
        return None
    if m[0] == "tree":
        want = "ok [(Let (u P5a) %s)]" % m[1]
        if r != want:
            return "precedence: %s parses to %s, the manual's table requires %s" % (case.sig, r[:300], want[:300])
    elif m[0] == "literal":
        if not r.startswith("ok [(Let (u P5a) (%s " % m[1]):
            return "literal: %s is typed %s, the manual's rules require %s" % (case.sig, r[:80], m[1])
    elif m[0] == "matrix":
        op, t1, t2 = m[1], m[2], m[3]
        if not r.startswith("ok "):
            if r.startswith("err ") and not (t1 == "T") != (t2 == "T") and op in ("mul", "div", "add", "sub") and "T" not in (t1, t2) and not (t1 == "I" and t2 == "I"):
                return "error: %s on numeric operands answers %s" % (case.line, r)
            return None
        ty = r[3]
        if "T" in (t1, t2):
            if t1 == t2 == "T" and op == "add":
                return None if ty == "T" else "type: string + string is %s" % r
            if t1 == t2 == "T" and op in ("eq", "ne", "lt", "le", "gt", "ge"):
                return None if r in ("ok I:0", "ok I:-1") else "relational: %s answers %s" % (case.line, r)
            return "type: %s must be TYPE MISMATCH, answers %s" % (case.line, r)
        if op in ("eq", "ne", "lt", "le", "gt", "ge"):
            if r not in ("ok I:0", "ok I:-1"):
                return "relational: %s answers %s (must be 0 or -1)" % (case.line, r)
            # the value: the narrower operand is promoted to the wider type, never the other way round
            a, b = decode_num(case.line.split(" ")[2]), decode_num(case.line.split(" ")[3])
            if a is not None and b is not None and a == a and b == b and abs(a) != float("inf") and abs(b) != float("inf"):
                if "D" in (t1, t2):
                    x, y, eps = a, b, 2.220446049250313e-16
                    diff = abs(x - y)
                elif "S" in (t1, t2):
                    x, y, eps = f32(a), f32(b), 1.1920929e-07
                    diff = abs(f32(x - y)) if abs(x) != float("inf") and abs(y) != float("inf") else (0.0 if x == y else float("inf"))
                else:
                    x, y, eps, diff = a, b, 0, abs(a - b)
                if diff == diff:
                    want = {"eq": diff <= eps, "ne": not diff <= eps, "lt": x < y, "le": x <= y, "gt": x > y, "ge": x >= y}[op]
                    if r != ("ok I:-1" if want else "ok I:0"):
                        return "relational: %s answers %s; with the narrower operand promoted to the wider type the comparison is %s" % (
                            case.line, r, "true" if want else "false")
            return None
        if op in ("divint", "mod", "and", "or", "xor", "imp", "eqv"):
            return None if ty == "I" else "type: %s must be Integer, answers %s" % (case.line, r)
        want = max(PROMO[t1], PROMO[t2])
        if op == "div" and want == 0:
            want = 1
        if op == "pow" and t1 == "I" and t2 == "I":
            want = 0 if not case.line.split(" ")[3].startswith("I:-") else 1
        if PROMO[ty] != want:
            return "promotion: %s answers %s, the documented result type is %s" % (case.line, r, "ISD"[want])
    elif m[0] == "chain":
        ty, v = m[1], m[2]
        err = None
        for u in m[3]:
            u = u.strip()
            if u == "+":
                continue
            if ty == "T":
                err = 13
                break
            if u == "-":
                if ty == "I" and v == -32768:
                    err = 6
                    break
                v = -v
            else:
                fl = math.floor(v)
                if not -32768 <= fl <= 32767:
                    err = 6
                    break
                ty, v = "I", -fl - 1
        text = "".join(bytes.fromhex(e[2:]).decode() for e in r.split("|") if e.startswith("P:"))
        body = text.split("READY.\n")[1] if text.count("READY.\n") >= 2 else ""
        if err is not None:
            return None if ("E:[%d " % err) in r else "unary: %s must be error %d, got %r %s" % (case.sig, err, body, [e for e in r.split("|") if e.startswith("E:")][:1])
        if ty == "T":
            want = v + "\n"
        else:
            num = ("%d" % v) if float(v) == int(v) else repr(float(v))
            want = (num if v < 0 else " " + num) + " \n"
        if body != want or "E:[" in r:
            return "unary: %s must print %r, got %r %s" % (case.sig, want, body, [e for e in r.split("|") if e.startswith("E:")][:1])
    elif m[0] == "assign":
        suffix, lit = m[1], m[2]
        text = "".join(bytes.fromhex(e[2:]).decode() for e in r.split("|") if e.startswith("P:"))
        body = text.split("READY.\n")[1] if text.count("READY.\n") >= 2 else ""
        is_str = lit.startswith('"')
        if (suffix == "$") != is_str:
            return None if "E:[13 " in r else "assign: %s must be TYPE MISMATCH, got %r" % (case.sig, body)
        if suffix == "%":
            try:
                v = eval(lit.replace("#", "").replace("!", "").replace("%", "").replace("E", "e"))
            except Exception:
                return None
            fl = math.floor(v)
            if -32768 <= fl <= 32767:
                want = (" %d \n" % fl) if fl >= 0 else ("%d \n" % fl)
                return None if body == want else "assign: %s must store %d, prints %r" % (case.sig, fl, body)
            return None if "E:[6 " in r else "assign: %s must be OVERFLOW, got %r" % (case.sig, body)
        if suffix in ("!", "") and not is_str and "E:[" not in r:
            digits = sum(ch.isdigit() for ch in body.split("E")[0])
            if digits > 9:
                return "assign: %s prints %r: more digits than a Single can hold" % (case.sig, body)
    return None


def nontrivial(case, r):
    return r is not None and case.meta is not None and (case.meta[0] != "tree" or case.sig.count("(") > 0 or len(case.sig) > 8)
