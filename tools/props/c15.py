"""C15 -- the program store is an ordered map with exact LIST / DELETE ranges."""
import re

from framework import Case
import sess
import transcript

PROPERTY = "C15"
THEOREM_FILE = "Props/C15.v"
INTERFACES = "L5 sessions: numbered lines, bare numbers, LIST and DELETE in every range form; Listing text via Runtime::get_listing"
PROFILES = ["dev"]
CASE_TIMEOUT = 0.5
MODEL_CASE_TIMEOUT = 5.0
RULE = ("histories over the line universe {0,1,10,11,19,20,65528,65529} (adjacent numbers at the bottom, middle and top; plus numbers above 65529): insert/replace, bare-number delete, "
        "LIST and DELETE with the forms n, n-, -n, a-b, bare, inverted and out-of-range, endpoints on, between, before and after stored "
        "lines: all histories of length <= 3 over a reduced alphabet exhaustively, random longer ones; a reference map (Python dict) "
        "predicts every LIST output and the listing after every step; non-trivial = the history contains a range operation on a "
        "non-empty store; distinct = distinct histories")
ASSUMPTIONS = ["stored lines are simple PRINT statements whose listed text equals the typed text"]
EXHAUSTIVE = {"quick": False, "thorough": False}
UNIVERSE = [0, 1, 10, 11, 19, 20, 65528, 65529]
ENDPOINTS = [0, 1, 5, 10, 11, 15, 19, 20, 21, 30, 65527, 65528, 65529]
MAXLN = 65529


def ops_alphabet():
    ops = []
    for n in UNIVERSE:
        ops.append(("ins", n))
        ops.append(("del", n))
    ops.append(("ins", 65530))
    ops.append(("ins", 70000))
    for kind in ("LIST", "DELETE"):
        ops.append((kind, ""))
        for a in ENDPOINTS:
            ops.append((kind, "%d" % a))
            ops.append((kind, "%d-" % a))
            ops.append((kind, "-%d" % a))
        for a in (0, 10, 15, 65528):
            for b in (5, 10, 20, 65529):
                ops.append((kind, "%d-%d" % (a, b)))
        ops.append((kind, "|"))
        ops.append((kind, "10|"))
        ops.append((kind, "10-|"))
        ops.append((kind, "-20|"))
        ops.append((kind, "0-65529|"))
        ops.append((kind, "65530"))
        ops.append((kind, "10-65530"))
        ops.append((kind, "70000-"))
    return ops


def parse_range(arg):
    """(from, to) | 'bare' | 'reject'"""
    if arg == "":
        return "bare"
    m = re.match(r"^(\d*)(-?)(\d*)$", arg)
    a, dash, b = m.group(1), m.group(2), m.group(3)
    if (a and int(a) > MAXLN) or (b and int(b) > MAXLN):
        return "reject"
    if not dash:
        return (int(a), int(a))
    lo = int(a) if a else 0
    hi = int(b) if b else MAXLN
    if lo > hi:
        return "reject"
    return (lo, hi)


def render(history, version):
    """calls + the reference predictions"""
    calls = ["R5000"]
    store = {}
    expect = []          # per op: ("list", [texts]) | ("reject",) | ("none",)
    for k, (kind, arg) in enumerate(history):
        if kind == "ins":
            text = 'PRINT "v%d.%d"' % (arg, k)
            # a line is whatever follows the number: also nothing but separators, or an empty remark -- only a bare number deletes
            if k % 7 == 3:
                text = [":", ": :", "'", "REM", "::"][(k // 7) % 5]
            calls.append(sess.E("%d %s" % (arg, text)))
            if arg <= MAXLN:
                store[arg] = text
                expect.append(("none",))
            else:
                calls.append("R5000")
                expect.append(("reject",))
        elif kind == "del":
            calls.append(sess.E("%d" % arg))
            store.pop(arg, None)
            expect.append(("none",))
        else:
            tail = ""
            if arg.endswith("|"):                 # marker: a second statement follows on the line
                arg = arg[:-1]
                tail = ":Q7=1"
            calls += [sess.E((kind + " " + arg).strip() + tail), "R5000"]
            rng = parse_range(arg)
            if kind == "LIST":
                if rng == "reject":
                    expect.append(("reject",))
                else:
                    lo, hi = (0, MAXLN) if rng == "bare" else rng
                    expect.append(("list", ["%d %s" % (n, store[n]) for n in sorted(store) if lo <= n <= hi]))
            else:
                if rng in ("reject", "bare"):
                    expect.append(("reject",))
                else:
                    lo, hi = rng
                    for n in [n for n in store if lo <= n <= hi]:
                        del store[n]
                    expect.append(("none",))
        calls.append("T")
        expect.append(("text", "".join("%d %s\n" % (n, store[n]) for n in sorted(store))))
    return calls, expect


def gen(tier, rng):
    cases = []
    ops = ops_alphabet()
    hists = []
    # exhaustive over a reduced alphabet: seed store of three lines, then every pair of range operations
    seed = [("ins", 1), ("ins", 10), ("ins", 20), ("ins", 65529)]
    rops = [o for o in ops if o[0] in ("LIST", "DELETE")]
    # the same over stores with adjacent line numbers (n, n+1) at the bottom, in the middle and at the top of the range:
    # "one past the emitted line" and "the end of the range" coincide there
    seed2 = [("ins", 0), ("ins", 1), ("ins", 10), ("ins", 65528), ("ins", 65529)]
    seed3 = [("ins", 10), ("ins", 11), ("ins", 19), ("ins", 20), ("ins", 21)]
    for o in rops:
        hists.append(seed + [o, ("LIST", "")])
        hists.append(seed2 + [o, ("LIST", "")])
        hists.append(seed3 + [o, ("LIST", "")])
    if tier == "thorough":
        for o1 in rops:
            for o2 in rops:
                hists.append(seed + [o1, o2, ("LIST", "")])
                hists.append(seed2 + [o1, o2, ("LIST", "")])
    else:
        for _ in range(1500):
            hists.append(rng.choice([seed, seed2, seed3]) + [rng.choice(rops), rng.choice(rops), ("LIST", "")])
    for _ in range(600 if tier == "quick" else 20000):
        h = [rng.choice(ops) for _ in range(rng.randint(2, 9))]
        hists.append(h)
    # random histories over the whole number range
    for _ in range(200 if tier == "quick" else 5000):
        nums = [rng.randint(0, 65600) for _ in range(6)]
        h = []
        for _ in range(rng.randint(3, 10)):
            r = rng.random()
            n = rng.choice(nums)
            if r < 0.4:
                h.append(("ins", n))
            elif r < 0.55:
                h.append(("del", min(n, MAXLN)))
            else:
                a, b = sorted([min(rng.choice(nums), MAXLN), min(rng.choice(nums), MAXLN)])
                h.append((rng.choice(["LIST", "DELETE"]), rng.choice(["%d" % a, "%d-" % a, "-%d" % b, "%d-%d" % (a, b)])))
        hists.append(h)
    for hi, h in enumerate(hists):
        calls, expect = render(h, hi)
        sig = "; ".join(("%d ..." % a if k == "ins" else ("%d" % a if k == "del" else (k + " " + a.replace("|", ":Q7=1")).strip())) for k, a in h)
        cases.append(Case(sess.session(calls), sig=sig, tag="history", meta=("hist", expect)))
    return cases


def monitor(case, r):
    if r is None:
        return None
    if "PANIC" in r or "HANG" in r or "CRASH" in r:
        return "crash: %s answers %s" % (case.sig, r[-60:])
    ev = transcript.after_first_stop(transcript.split_events(r))
    # split the event stream at the T: markers (one after every operation)
    groups = []
    cur = []
    for e in ev:
        if e.startswith("T:"):
            groups.append((cur, e))
            cur = []
        else:
            cur.append(e)
    expect = case.meta[1]
    ops = [expect[i:i + 2] for i in range(0, len(expect), 2)]
    if len(groups) != len(ops):
        return "shape: %s produced %d groups for %d operations" % (case.sig, len(groups), len(ops))
    for k, ((evs, t), (what, text)) in enumerate(zip(groups, ops)):
        got_text = bytes.fromhex(t[2:]).decode("utf-8")
        if got_text != text[1]:
            return "store: after step %d of [%s] the program is\n%s  but the ordered-map reference says\n%s" % (k + 1, case.sig, got_text, text[1])
        lists = [bytes.fromhex(e[2:].split(":")[0]).decode("utf-8") for e in evs if e.startswith("L:")]
        errs = [e for e in evs if e.startswith("E:[")]
        if what[0] == "list":
            if lists != what[1] or errs:
                return "list: step %d of [%s] listed %r, expected %r (errors %s)" % (k + 1, case.sig, lists, what[1], errs)
        elif what[0] == "reject":
            if not errs or lists:
                return "reject: step %d of [%s] must be rejected with an error and list nothing, got %s" % (k + 1, case.sig, sess.decode_events("|".join(evs)))
        else:
            if errs or lists:
                return "accept: step %d of [%s] must succeed silently, got %s" % (k + 1, case.sig, sess.decode_events("|".join(evs)))
    return None


def nontrivial(case, r):
    return r is not None and ("LIST " in case.sig or "DELETE " in case.sig)
