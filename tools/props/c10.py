"""C10 -- user functions bind parameters locally and evaluate at call time."""
from framework import Case
import semcheck
import sess

PROPERTY = "C10"
THEOREM_FILE = "Props/C10.v"
INTERFACES = "L5 sessions vs the VM model; reference semantics Spec/Sem.v (parameters in a local environment, typed by their own names)"
PROFILES = ["dev"]
CASE_TIMEOUT = 0.5
MODEL_CASE_TIMEOUT = 5.0
RULE = ("programs defining 1-4 functions with 1-3 parameters of every type and DEFtype setting, called from PRINT lists, subscripts, "
        "FOR bounds, IF conditions and other function bodies (depth <= 4), with same-named program variables present; arity errors, "
        "undefined functions, DEF in direct mode, runaway recursion, a second DEF of a defined name between calls (other body or parameters); "
        " non-trivial = at least one call evaluated; distinct = program text")
ASSUMPTIONS = ["an error raised inside a function body is outside the compared fragment (the manual does not say which line it belongs to)"]
EXHAUSTIVE = {"quick": False, "thorough": False}

PARAMS = ["X", "Y", "Z", "A", "N%", "S$", "T$", "D#", "V!", "F", "G"]


def gen_program(rng):
    lines = []
    n = 10
    fns = []

    def add(t):
        nonlocal n
        lines.append("%d %s" % (n, t))
        n += 10

    if rng.random() < 0.4:
        add(rng.choice(["DEFINT A", "DEFDBL X-Z", "DEFSTR G", "DEFINT N", "DEFSNG D", "DEFINT F", "DEFSTR F", "DEFDBL F-G",
                        "DEFDBL X-Z", "DEFDBL A", "DEFINT X-Z", "DEFDBL G", "DEFDBL A-E"]))
    add("A=5:X=7:Y=11:S$=\"glob\":N%=3:F=2:Z=1")
    for i in range(rng.randint(1, 4)):
        name = "FN" + rng.choice(["A", "B", "C", "D", "E1", "SUM", "F"]) + str(i)
        k = rng.randint(1, 3)
        ps = rng.sample(PARAMS, k)
        is_str = rng.random() < 0.25
        if is_str:
            name += "$"
            sp = [p for p in ps if p.endswith("$")]
            body = (sp[0] if sp else '"<"') + '+"|"+' + rng.choice(['S$', '"k"', "STR$(A)"])
        else:
            terms = []
            for p in ps:
                terms.append("LEN(%s)" % p if p.endswith("$") else p)
            terms.append(rng.choice(["A", "X", "1", "Y*2", "N%", "1/3", "0.1#"]))
            if fns and rng.random() < 0.5:
                f2, k2, s2, ps2 = rng.choice(fns)
                if not s2:
                    args = ",".join(('"q"' if q.endswith("$") else rng.choice(["1", terms[0], "2.5"])) for q in ps2)
                    terms.append("%s(%s)" % (f2, args))
            body = rng.choice(["+", "*", "-"]).join(terms)
        add("DEF %s(%s)=%s" % (name, ",".join(ps), body))
        fns.append((name, k, is_str, ps))

    def call(depth=0):
        f, k, is_str, ps = rng.choice(fns)
        args = []
        for p in ps:
            if p.endswith("$"):
                args.append(rng.choice(['"ab"', "S$", '"é"', '""']))
            else:
                r = rng.random()
                if r < 0.3 and depth < 3:
                    c = call(depth + 1)
                    args.append(c[0] if not c[1] else "LEN(%s)" % c[0])
                else:
                    # 0 matters: a parameter bound to 0 or "" is not stored, it is read back as the default of its type
                    args.append(rng.choice(["1", "2.5", "A", "X+1", "-3", "N%", "1.5", "0", "0", "A-5", "1/3"]))
        r = rng.random()
        if r < 0.06:
            args = args[:-1] or ["1", "2", "3", "4"]          # wrong arity
        return "%s(%s)" % (f, ",".join(args)), is_str

    for _ in range(rng.randint(2, 6)):
        if rng.random() < 0.2:
            # a second DEF for a name already defined in this run (other body, maybe other parameters): the newest one counts
            j = rng.randrange(len(fns))
            f, k, s0, ps0 = fns[j]
            if not s0:
                ps = rng.sample([p for p in PARAMS if not p.endswith("$")], rng.randint(1, 2))
                add("DEF %s(%s)=%s" % (f, ",".join(ps), rng.choice(["*", "-", "+"]).join(ps + [rng.choice(["10", "Y", "A*2"])])))
                fns[j] = (f, len(ps), False, ps)
        if rng.random() < 0.1:
            # CLEAR forgets every definition (and RUN begins with one): a call is undefined until its DEF is executed again
            add("CLEAR")
            if rng.random() < 0.5:
                f, k, s0, ps0 = rng.choice(fns)
                add("DEF %s(%s)=%s" % (f, ",".join(ps0), '"again"' if s0 else "77"))
        c, is_str = call()
        r = rng.random()
        if r < 0.4:
            add("PRINT %s;%s" % (c, rng.choice(["A;X", "S$", "1"])))
        elif r < 0.5 and not is_str:
            add("DIM Q(20):Q(%s AND 7)=4:PRINT Q(%s AND 7)" % (c, c) if not any(l.find("DIM Q") >= 0 for l in lines) else "PRINT %s" % c)
        elif r < 0.6 and not is_str:
            add("FOR I=1 TO (%s) AND 3:PRINT I;:NEXT:PRINT" % c)
        elif r < 0.7 and not is_str:
            add("IF %s>2 THEN PRINT \"big\" ELSE PRINT \"small\"" % c)
        elif r < 0.8:
            add("%s=%s:PRINT A;X;Y;S$;N%%" % ("T$" if is_str else "B", c))
        elif r < 0.85:
            add("PRINT FNQ(1)")
        elif r < 0.9:
            add("A=A+1:S$=S$+\"+\"")
        else:
            add("PRINT %s:PRINT A;X;Y;Z;S$;N%%;F" % c)
    add("PRINT A;X;Y;Z;S$;N%;F")
    return lines


SPECIALS = [
    # (description, calls, predicate on the decoded event text)
    ("DEF in direct mode is ILLEGAL DIRECT", [sess.E("DEF FNA(X)=X+1"), "R5000"], lambda ev: "E:[12 " in ev),
    ("runaway recursion ends in OUT OF MEMORY and the session stays usable",
     [sess.E("10 DEF FNA(X)=FNA(X+1)+1"), sess.E("20 PRINT FNA(1)"), sess.E("RUN"), "R5000", sess.E("PRINT 7"), "R5000"],
     lambda ev: "E:[7 " in ev and ev.rstrip("|S").endswith(sess.hx(" 7 ") + "|P:0a|P:" + sess.hx("READY.\n"))),
    ("mutual recursion ends in OUT OF MEMORY",
     [sess.E("10 DEF FNA(X)=FNB(X)"), sess.E("20 DEF FNB(Y)=FNA(Y)"), sess.E("30 PRINT FNA(1)"), sess.E("RUN"), "R5000"],
     lambda ev: "E:[7 " in ev),
    ("undefined function", [sess.E("PRINT FNZ(1)"), "R5000"], lambda ev: "E:[18 " in ev),
    ("RUN n of an unchanged program starts without the definitions of the run before",
     [sess.E("10 DEF FNA(X)=X*2"), sess.E("20 PRINT FNA(1)"), sess.E("30 END"), sess.E("40 PRINT FNA(3)"), sess.E("RUN"), "R5000", sess.E("RUN 40"), "R5000"],
     lambda ev: "E:[18 40" in ev and sess.hx(" 6 ") not in ev),
    ("CLEAR in direct mode forgets the definitions",
     [sess.E("10 DEF FNA(X)=X*2"), sess.E("20 PRINT FNA(1)"), sess.E("RUN"), "R5000", sess.E("PRINT FNA(4)"), "R5000", sess.E("CLEAR"), "R5000",
      sess.E("PRINT FNA(5)"), "R5000"],
     lambda ev: sess.hx(" 8 ") in ev and "E:[18 " in ev and sess.hx(" 10 ") not in ev),
]


def typed_parameter_programs():
    """an unsuffixed parameter takes its type from its own letter -- also when it is bound to 0 or "" (which is not stored but read back
    as the default of its type) and whatever the DEFtype of the letter F is"""
    out = []
    for deft in ("DEFINT", "DEFSNG", "DEFDBL", "DEFSTR"):
        for letters in ("P", "F", "F-P", "A-E", "Q-Z"):
            covered = letters in ("P", "F-P")
            p_is_str = deft == "DEFSTR" and covered
            body = 'P+"!"' if p_is_str else "P+1/3"
            args = ['"AB"', '""'] if p_is_str else ["1", "0", "2.5", "0!", "0#"]
            prog = ["10 %s %s" % (deft, letters), "20 DEF FNH(P)=%s" % body, "25 DEF FNK(X,P)=%s" % ("LEN(P)+X" if p_is_str else "P*2+X/3")]
            n = 30
            for a in args:
                prog.append("%d PRINT FNH(%s);FNK(0,%s);FNK(1,%s)" % (n, a, a, a))
                n += 10
            prog.append("%d P=9:PRINT FNH(%s);P" % (n, args[1]))
            out.append(prog)
    return out


# functions whose names differ only in the type sigil are different functions, and so are their parameters: one calls the other and
# reads its own parameter again afterwards
SIGIL_PROGRAMS = [
    ['10 DEF FNA(X)=X*2', '20 DEF FNA$(X)=STR$(FNA(X+1))+STR$(X)', '30 X=7', '40 PRINT FNA$(1);X'],
    ['10 DEF FNS%(N)=N*N', '20 DEF FNS(N)=FNS%(N+1)-N', '30 FOR I=1 TO 3:PRINT FNS(I);:NEXT'],
    ['10 DEF FNQ#(A,B)=A+B/2', '20 DEF FNQ!(A,B)=FNQ#(B,A)*10+A', '30 PRINT FNQ!(1,2);FNQ#(3,4)'],
    ['10 DEF FNT$(S$)=S$+"!"', '20 DEF FNT(S$)=LEN(FNT$(S$+"ab"))+LEN(S$)', '30 PRINT FNT("x");FNT$("y")'],
    ['10 DEF FNV(P)=P+1', '20 DEF FNV%(P)=FNV(P*10)+P', '30 DEF FNV!(P)=FNV%(P+1)*100+P', '40 PRINT FNV!(1)'],
]


def gen(tier, rng):
    cases = []
    for prog in typed_parameter_programs() + SIGIL_PROGRAMS:
        cases.extend(semcheck.cases_for(prog, [], rng, quanta=(5000,)))
    n = 400 if tier == "quick" else 15000
    for _ in range(n):
        prog = gen_program(rng)
        cases.extend(semcheck.cases_for(prog, [], rng, quanta=(5000, rng.choice([1, 3, 64]))))
    for k, (desc, calls, pred) in enumerate(SPECIALS):
        cases.append(Case(sess.session(["R5000"] + calls), sig=desc, tag="special", meta=("special", k, 0)))
    return cases


def monitor(case, r):
    v = semcheck.crash_monitor(case, r)
    if v:
        return v
    if case.meta and case.meta[0] == "special":
        desc, calls, pred = SPECIALS[case.meta[1]]
        if not pred(r):
            return "special: %s -- got %s" % (desc, sess.decode_events(r)[-300:])
    return None


STATS = {}


def cross_monitor(cases, impl, model):
    return semcheck.cross_monitor(cases, impl, model, STATS)


def nontrivial(case, r):
    return r is not None and ("FN" in case.sig)
