"""C05 -- listing is faithful: LIST / SAVE then LOAD preserve every line's meaning."""
from framework import Case
import gen_lines
import gen_prog
import sess
import transcript

PROPERTY = "C05"
THEOREM_FILE = "Props/C05.v"
INTERFACES = "L1 lex, L2 Line::new(s).to_string(), L3 ast without columns; L5 SAVE text -> load (Listing::load_str)"
PROFILES = ["dev"]
CASE_TIMEOUT = 0.02
RULE = ("all strings over the 25-symbol lexical alphabet up to length 3 (4 thorough) as statement bodies, all ordered pairs of ~150 token "
        "spellings joined by '', ' ' and '  ', seeded token soup, generated program lines and their character mutations, long lines up to "
        "the 1024-byte limit; for each: relist twice (fixed point), same line number, same AST modulo columns for original and listed text "
        "(or both rejected), string-literal and remark payloads preserved; non-trivial = the line has >= 2 tokens; distinct = distinct sources")
ASSUMPTIONS = ["term::save writes Line::to_string() of every line and term::load2 feeds each text line to Listing::load_str; the harness restates both"]
EXHAUSTIVE = {"quick": False, "thorough": False}


def hexs(s):
    return s.encode("utf-8").hex()


def sources(tier, rng):
    out = []
    maxlen = 3 if tier == "quick" else 4
    for s in gen_lines.exhaustive(gen_lines.ALPHABET25, maxlen):
        out.append(("exhaustive", "10 A=" + s))
        if len(s) <= maxlen - 1:
            out.append(("exhaustive", "10 " + s))
    sp = gen_lines.SPELLINGS
    pairs = [(a, b) for a in sp for b in sp]
    if tier == "quick":
        pairs = rng.sample(pairs, 6000)
    for a, b in pairs:
        for sep in ("", " ", "  "):
            out.append(("pairs", "10 " + a + sep + b))
    for _ in range(6000 if tier == "quick" else 200000):
        out.append(("soup", gen_lines.numbered(rng, gen_lines.soup(rng, rng.randint(1, 10)))))
    for _ in range(60 if tier == "quick" else 3000):
        prog, _ = gen_prog.generate(rng)
        for l in prog:
            out.append(("program-line", l))
            if rng.random() < 0.5:
                k = rng.randrange(len(l))
                out.append(("mutated", l[:k] + l[k + 1:]))
                out.append(("mutated", l[:k] + rng.choice("\"'&.EeDd%$!#(),:;=<> ") + l[k:]))
            if rng.random() < 0.3:
                out.append(("spelled", l.lower()))
    # numeric constants written directly before a word, in statements that parse (exponent letters E and D included)
    for num in ("1", "2", "300", "32767", "32768", "1.5", "65", "1E5", "2D3", "7!", "9#", "&H1F"):
        for tmpl in ("10 IF A THEN B=%sELSE B=2", "10 PRINT %sEQV 3", "10 PRINT %sEQV%s", "10 IF A THEN PRINT %s*%sELSE PRINT 0",
                     "10 FOR I=1 TO %sSTEP 2", "10 PRINT %sAND 3", "10 PRINT %sOR%s", "10 PRINT %sMOD 3", "10 PRINT %sXOR 1", "10 PRINT %sIMP 1",
                     "10 PRINT %sDX", "10 PRINT %sEX;%sD", "10 IF A=%sTHEN 10", "10 IF A THEN %sELSE %s", "10 ON A GOTO %s,%s:END",
                     "10 D=%s:E=%sD", "10 PRINT %sE:PRINT %sD:END",
                     # the same at the very end of the line with blanks behind it: a dangling exponent letter there is a name
                     "10 PRINT %sE ", "10 PRINT %sD\t", "10 A=%sE  ", "10 PRINT A;%sE ", "10 PRINT %sE", "10 IF A THEN PRINT %sD "):
            out.append(("glued", tmpl.replace("%s", num)))
            out.append(("glued", tmpl.replace("%s", num).lower()))
    for s in gen_lines.SAMPLE_PROGRAM_LINES:
        out.append(("sample", s))
    for n in (1000, 1015, 1016, 1017, 1024):
        out.append(("long", "10 PRINT \"" + "x" * n))
        out.append(("long", "10 REM " + "é" * (n // 2)))
    return out


def gen(tier, rng):
    cases = []
    seen = set()
    for tag, s in sources(tier, rng):
        if s in seen:
            continue
        seen.add(s)
        cases.append(Case("relist " + hexs(s), sig=s, tag=tag, meta=("relist", s, 1)))
        cases.append(Case("astnc " + hexs(s), sig=s, tag=tag, meta=("ast", s, 1)))
        cases.append(Case("lex " + hexs(s), sig=s, tag=tag, meta=("lex", s, 1)))
    # SAVE / LOAD of whole programs
    for pi in range(40 if tier == "quick" else 2000):
        prog, _ = gen_prog.generate(rng)
        calls = ["R5000"] + [sess.E(l) for l in prog] + ["T"]
        cases.append(Case(sess.session(calls), sig="\n".join(prog), tag="save", meta=("save", pi, 1)))
    # ... and of lines at the edge of the line buffer: typed at 1022..1024 bytes, and typed short but listed at 1022..1024 bytes
    # (? becomes PRINT); what can be typed and listed must come back from a file
    pi = 100000
    for total in (1022, 1023, 1024):
        k = (total - 3 - 5) // 6
        body = "A=A+1:" * k + "A=A+"
        line = "10 " + body + "1" * (total - 3 - len(body))
        assert len(line) == total
        for prog in ([line, "20 PRINT A"], ["5 REM x", line]):
            calls = ["R5000"] + [sess.E(l) for l in prog] + ["T"]
            cases.append(Case(sess.session(calls), sig="line typed at %d bytes" % total, tag="save", meta=("save", pi, 1)))
            pi += 1
        m = (total - 3 - 4) // 9
        short = "10 " + "?1;:" * m + "A=1" + "2" * (total - 3 - 9 * m - 3)
        calls = ["R5000", sess.E(short), sess.E("20 PRINT A"), "T"]
        cases.append(Case(sess.session(calls), sig="line typed short, listed at %d bytes" % total, tag="save", meta=("save", pi, 1)))
        pi += 1
    return cases


def second_phase(cases, impl, rng):
    more = []
    for i, c in enumerate(cases):
        if not c.meta or impl[i] is None:
            continue
        if c.meta[0] == "relist" and impl[i] not in ("PANIC", "HANG", "CRASH"):
            try:
                listed = bytes.fromhex(impl[i]).decode("utf-8")
            except ValueError:
                continue
            more.append(Case("relist " + hexs(listed), sig=listed, tag="relisted", meta=("relist2", c.meta[1], i)))
            more.append(Case("astnc " + hexs(listed), sig=listed, tag="relisted", meta=("ast2", c.meta[1], i)))
            more.append(Case("lex " + hexs(listed), sig=listed, tag="relisted", meta=("lex2", c.meta[1], i)))
        if c.meta[0] == "save":
            ts = [e for e in transcript.split_events(impl[i]) if e.startswith("T:")]
            if ts:
                text = ts[-1][2:]
                more.append(Case(sess.session(["R5000", "L:%s:0" % text, "T"]), sig=c.sig + "\n#saved and loaded", tag="load",
                                 meta=("load", i, text)))
    return more


def monitor(case, r):
    if r is None:
        return None
    if r in ("PANIC", "HANG", "CRASH") or "PANIC" in r.split("|"):
        return "crash: %r answers %s" % (case.sig[:200], r[:40])
    return None


def line_number_of(listed):
    head = listed.split(" ", 1)[0]
    return head if head.isdigit() else "-"


STATS = {}


def cross_monitor(cases, impl, model):
    fails = []
    stats = {"fixed_point_checked": 0, "ast_compared": 0, "both_rejected": 0, "load_roundtrips": 0, "payloads_checked": 0}
    first = {}
    for i, c in enumerate(cases):
        if c.meta and c.meta[0] in ("relist", "ast", "lex"):
            first[(c.meta[0], c.meta[1])] = i
    for i, c in enumerate(cases):
        if not c.meta or impl[i] is None:
            continue
        kind = c.meta[0]
        if kind == "relist2":
            j = c.meta[2]
            src = c.meta[1]
            parses = (impl[first[("ast", src)]] or "").startswith("ok")
            stats["fixed_point_checked"] += 1
            rem = remark_of(case_text(impl[j])) if parses else None
            if rem is not None and rem.strip() and not src.rstrip().endswith(rem.rstrip()):
                fails.append((j, "remark: %r lists as %r: the remark text %r is not what was typed" % (src, case_text(impl[j]), rem)))
            if impl[i] != impl[j] and parses:
                fails.append((j, "fixed point: %r lists as %r, which lists as %r" % (src, case_text(impl[j]), case_text(impl[i]))))
        elif kind == "lex2":
            src = c.meta[1]
            num1 = (impl[first[("lex", src)]] or "").split("|")[0]
            num2 = impl[i].split("|")[0]
            if num1 != num2:
                fails.append((c.meta[2], "line number: %r has number %s but its listing %r has number %s" % (src, num1, c.sig, num2)))
        elif kind == "ast2":
            src = c.meta[1]
            a = impl[first[("ast", src)]]
            b = impl[i]
            if a is None:
                continue
            stats["ast_compared"] += 1
            if a.startswith("ok") or b.startswith("ok"):
                if a != b:
                    fails.append((first[("ast", src)], "meaning: %r parses to %s but its listing %r parses to %s" % (src, a[:200], c.sig, b[:200])))
            else:
                stats["both_rejected"] += 1
        elif kind == "lex":
            # string literal and remark payloads are taken from the source unchanged
            src = c.meta[1]
            toks = impl[i].split("|", 1)[1].split(" ") if "|" in impl[i] else []
            astok = (impl[first[("ast", src)]] or "").startswith("ok")
            for k, t in enumerate(toks):
                if t.startswith("LT:"):
                    stats["payloads_checked"] += 1
                    p = bytes.fromhex(t[3:]).decode("utf-8")
                    if ('"' + p) not in src:
                        fails.append((i, "string literal: %r lexes a literal %r that is not in the source" % (src, p)))
                if t.startswith("U:") and k > 0 and toks[k - 1] in ("K:52454d", "K:27") and astok:
                    stats["payloads_checked"] += 1
                    p = bytes.fromhex(t[2:]).decode("utf-8")
                    if p not in src:
                        fails.append((i, "remark: %r keeps the remark text %r, which is not in the source" % (src, p)))
                    # the whole remark must be kept: source after the marker, trailing blanks aside
                    marker_pos = min([x for x in (src.upper().find("REM"), src.find("'")) if x >= 0] or [0])
        elif kind == "load":
            ts = [e for e in transcript.split_events(impl[i]) if e.startswith("T:")]
            stats["load_roundtrips"] += 1
            if not ts or ts[-1][2:] != c.meta[2]:
                fails.append((i, "load: saving and loading changes the program:\n%s\n  reloaded: %s" % (
                    bytes.fromhex(c.meta[2]).decode("utf-8"), sess.decode_events(impl[i])[-400:])))
    STATS.update(stats)
    return fails


def remark_of(listed):
    """text after the remark marker of a listed line (None if there is no remark).
    A ' is a marker only where a token can start: the scanner gathers characters outside BASIC's alphabet ({ [ ~ @ ...)
    together with everything up to the next letter, digit or blank into one unknown token, apostrophes included."""
    in_str = False
    in_unknown = False
    i = 0
    n = len(listed)
    while i < n:
        ch = listed[i]
        if in_unknown:
            if ch.isalnum() or ch in " \t":
                in_unknown = False
            else:
                i += 1
                continue
        if ch == '"':
            in_str = not in_str
        elif not in_str:
            if ch == "'":
                return listed[i + 1:]
            if listed[i:i + 3] == "REM" and (i == 0 or not listed[i - 1].isalnum()):
                return listed[i + 3:]
            if not (ch.isalnum() or ch in " \t(),:;?^*/\\+-=<>&.$%!#"):
                in_unknown = True
            if ch in "$%!#" and (i == 0 or not listed[i - 1].isalnum()):
                in_unknown = True          # a type suffix with nothing to attach to is an unknown character too
        i += 1
    return None


def case_text(r):
    try:
        return bytes.fromhex(r).decode("utf-8")
    except (ValueError, TypeError):
        return r


def nontrivial(case, r):
    return r is not None and case.meta is not None and case.meta[0] in ("lex",) and r.count(" ") >= 1
