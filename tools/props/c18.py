"""C18 -- memory pools are bounded at 64K and completed statements leave nothing behind."""
from framework import Case
import sess
import transcript

PROPERTY = "C18"
THEOREM_FILE = "Props/C18.v"
INTERFACES = "L5 sessions: statement kinds in 70000-iteration loops, pools driven past 65536 entries; release-profile harness for the long runs"
XCHECK_TAGS = {"leak-2500"}
XCHECK_MAX = 2
WATCHDOG_MS = 30000      # 65000-deep recursions under full machine load
PROFILES = ["dev"]
CASE_TIMEOUT = 20.0
MODEL_CASE_TIMEOUT = 60.0
RULE = ("every statement kind (and pairs of kinds) as the body of a FOR loop of 70000 iterations, directly and inside a subroutine: the run "
        "must end normally (implementation only: the model's association-list store makes such runs too slow), the same bodies with 2500 "
        "iterations on model and implementation; GOSUB / FN recursion, abandoned FOR frames, 65537 variables, 65537 DATA constants and a "
        "65537-instruction program must each end in OUT OF MEMORY and leave the session usable; zeroing variables at the variable limit "
        "must free their slots; INPUT / INKEY$ statements completed 12 times with refused and accepted replies, then a recursion-depth probe "
        "(the stack must still take 65535 entries); non-trivial = every case (each drives a pool to a limit or through >= 2500 iterations); distinct = case lines")
ASSUMPTIONS = ["real memory is not measured: the bounds are element counts of the value stack, variable map, code and data vectors"]
EXHAUSTIVE = {"quick": False, "thorough": False}

BODIES = [
    "A=A+1", "A$=STR$(Q)", "IF Q>5 THEN B=1 ELSE B=2", "GOSUB 900", "ON 1 GOSUB 900", "ON 5 GOSUB 900", "ON 0 GOSUB 900,900", "ON 2 GOTO 30,30",
    "FOR J=1 TO 2:NEXT J", "FOR J=1 TO 2:NEXT", "FOR J=1 TO 3:IF J=2 THEN 30", "C=0:WHILE C<2:C=C+1:WEND", "RESTORE:READ D", "DIM Z(3):ERASE Z",
    "SWAP A,B", 'S$="abcdef":MID$(S$,2,2)="xy"', "B=FNA(Q)", "B=FNB(FNA(Q),2)", "DEF FNC(X)=X+1", "P(Q-8*INT(Q/8))=Q:B=P(3)", 'T$=LEFT$("hello",2)+CHR$(65)',
    "B=INSTR(\"hello\",\"l\")+LEN(T$)", "X%=X%+1:IF X%>100 THEN X%=0", "D#=Q/3", 'IF Q<0 THEN PRINT "never"', "B=ABS(-Q)+SGN(Q)+INT(Q/2)", "TRON:TROFF",
    "GOSUB 900:GOSUB 900", "IF Q>5 THEN GOSUB 900 ELSE GOSUB 900", "IF Q>5 THEN ON 3 GOSUB 900 ELSE ON 1 GOSUB 900", "A=VAL(\"12\")+ASC(\"A\")",
    "ON Q-3*INT(Q/3) GOSUB 900,900", "FOR J=1 TO 2:FOR K=1 TO 2:NEXT K,J", "FOR J=1 TO 2:GOSUB 900:NEXT", "B$=STRING$(3,\"x\")+SPC(2)", "POKE=1", "READ D:RESTORE 910",
    # every built-in function at each number of arguments it takes: a call leaves exactly its result on the stack
    "B=ABS(Q)+ATN(Q)+CDBL(Q)+CINT(3.5)+COS(Q)+CSNG(Q)+EXP(1)+FIX(Q/3)+INT(Q/3)+LOG(Q)+SGN(Q)+SIN(Q)+SQR(Q)+TAN(1)",
    "B=POS(0):B=POS:B=POS(Q)+POS(1)", "B=RND:B=RND(1)+RND(0):B=RND(-1)", 'B=INSTR("hello","l")+INSTR(2,"hello","l")',
    'T$=MID$("hello",2)+MID$("hello",2,2)+LEFT$("ab",1)+RIGHT$("ab",1)', 'T$=CHR$(65)+HEX$(255)+OCT$(8)+STR$(Q)+STRING$(2,65)+STRING$(2,"x")',
    'B=ASC("A")+LEN("abc")+VAL("1.5")', "T$=LEFT$(DATE$,0)+LEFT$(TIME$,0)", 'IF Q=5 THEN PRINT TAB(3);SPC(2);"."',
    "B=FNA(POS(0))+FNB(POS(1),RND(1))",
    # subroutines left through RETURN with loops still open: the frames above the return address go with it
    "GOSUB 920", "GOSUB 920:GOSUB 940", "ON 1 GOSUB 940", "IF Q>0 THEN GOSUB 920 ELSE GOSUB 940",
]


def loop_program(body, n, in_sub):
    head = ["10 DEF FNA(X)=X*2", "15 DEF FNB(X,Y)=X+Y", "18 DIM P(10)"]
    if body == "CLEAR":
        # CLEAR empties the stack: it cannot sit inside a FOR loop; use a GOTO loop with a counter kept in an array slot... not possible either
        return None
    if in_sub:
        core = ["20 FOR Q=1 TO %d" % n, "25 GOSUB 800", "30 NEXT Q", "40 PRINT \"fin\":END", "800 %s" % body, "810 RETURN"]
    else:
        core = ["20 FOR Q=1 TO %d" % n, "25 %s" % body, "30 NEXT Q", "40 PRINT \"fin\":END"]
    if body.startswith("GOTO-LOOP "):
        # the same body driven by a counter and GOTO instead of FOR: a stray value on the stack is then noticed only as a leak
        core = ["20 Q=Q+1:IF Q>%d THEN 40" % n, "25 %s" % body[len("GOTO-LOOP "):], "30 GOTO 20", "40 PRINT \"fin\":END"]
    return head + core + ["900 RETURN", "910 DATA 1,2,3", "920 FOR J=1 TO 5:IF J=2 THEN RETURN", "930 NEXT J:RETURN",
                          "940 C=0:WHILE C<3:C=C+1:FOR K=1 TO 2:IF C=2 THEN RETURN", "950 NEXT K:WEND:RETURN"]


def gen(tier, rng):
    cases = []
    bodies = list(BODIES) + ["GOTO-LOOP GOSUB 920", "GOTO-LOOP GOSUB 940", "GOTO-LOOP GOSUB 900", "GOTO-LOOP FOR J=1 TO 3:NEXT"]
    if tier == "thorough":
        for _ in range(120):
            bodies.append(rng.choice(BODIES) + ":" + rng.choice(BODIES))
    else:
        for _ in range(12):
            bodies.append(rng.choice(BODIES) + ":" + rng.choice(BODIES))
    for body in bodies:
        for in_sub in (False, True):
            for n, side in ((2500, "both"), (70000, "impl")):
                prog = loop_program(body, n, in_sub)
                if prog is None or ("30" in body and in_sub):
                    continue
                # a second and third run-until call continue a run that used up the first call's budget; they return at once otherwise
                calls = ["R5000"] + [sess.E(l) for l in prog] + [sess.E("RUN"), "R50000", "R50000", "R50000", sess.E("PRINT 7"), "R5000"]
                cases.append(Case(sess.session(calls), sig="%d x [%s]%s" % (n, body, " in a subroutine" if in_sub else ""), tag="leak-%d" % n,
                                  side=side, meta=("leak", body)))
    # statements that wait for the terminal (INPUT, INKEY$), completed k times with refused and accepted replies; what they
    # left on the value stack is measured afterwards by recursing until OUT OF MEMORY: the depth reached must be the depth a
    # fresh run reaches (65535 minus nothing)
    probe = ["100 N=N+1:GOSUB 100"]
    for body, replies in (("INPUT A,B", ["1,2,3", "1,2"]), ("INPUT A,B", ["1", "1,2,3,4", "5,6"]), ("INPUT A$,B$,C", ['"a,b",c,x,3', 'p,q,7']),
                          ("INPUT A", ["x", "4"]), ('INPUT "p";A$', ["a,b,c"]), ("A$=INKEY$", ["k"]), ("INPUT A(1),B", ["1,2,3", "3,4"]), ("GOSUB 900", [])):
        for k in (0, 12):
            prog = ["10 K=K+1:IF K>%d THEN 100" % k, "20 %s" % body, "30 GOTO 10", "900 RETURN"] + probe
            calls = ["R5000"] + [sess.E(l) for l in prog] + [sess.E("RUN"), "R5000"]
            for _ in range(k):
                for rep in replies:
                    calls += ["A5000:" + sess.hx(rep)]
            calls += ["R2000000", "R2000000", sess.E("PRINT N"), "R5000", sess.E("PRINT 7"), "R5000"]
            cases.append(Case(sess.session(calls), sig="depth probe after %d x [%s] answered %s" % (k, body, replies), tag="probe", side="impl",
                              meta=("probe", body, k)))
    # pools past their limit
    limit = []
    limit.append(("GOSUB recursion", ["10 GOSUB 10"], 7))
    limit.append(("FN recursion", ["10 DEF FNA(X)=FNA(X)+1", "20 PRINT FNA(1)"], 7))
    limit.append(("abandoned FOR frames", ["10 FOR I=1 TO 2", "20 GOTO 10"], 7))
    limit.append(("abandoned GOSUB frames", ["10 GOSUB 20", "20 GOTO 10"], 7))
    limit.append(("expression temporaries", ["10 A=1" + "+(1" * 200 + ")" * 200], None))
    limit.append(("65537 variables", ["10 DIM A(300,300)", "20 FOR I=0 TO 300:FOR J=0 TO 300:A(I,J)=1:NEXT J,I"], 7))
    for name, prog, code in limit:
        calls = ["R5000"] + [sess.E(l) for l in prog] + [sess.E("RUN"), "R50000", sess.E("PRINT 7"), "R5000"]
        cases.append(Case(sess.session(calls), sig="limit: " + name, tag="limit", side="impl" if "variables" in name else "both",
                          meta=("limit", name, code)))
    # 65537 DATA constants / a 65537-instruction program
    data_lines = ["%d DATA %s" % (10 + i, ",".join(["1"] * 340)) for i in range(194)]
    calls = ["R5000"] + [sess.E(l) for l in data_lines] + [sess.E("1000 READ A:PRINT A"), sess.E("RUN"), "R50000", sess.E("PRINT 7"), "R5000"]
    cases.append(Case(sess.session(calls), sig="limit: 65960 DATA constants", tag="limit", side="impl", meta=("limit", "DATA", 7)))
    code_lines = ["%d %s" % (10 + i, ":".join(["A=1"] * 250)) for i in range(135)]
    calls = ["R5000"] + [sess.E(l) for l in code_lines] + [sess.E("RUN"), "R50000", sess.E("PRINT 7"), "R5000"]
    cases.append(Case(sess.session(calls), sig="limit: 67500-instruction program", tag="limit", side="impl", meta=("limit", "code", 7)))
    # zero frees: fill the variable pool to its limit, zero 50 entries, store 45 new ones (must work), then 200 more (must fail)
    prog = ["10 DIM A(255,254),C(255,255)", "20 FOR I=0 TO 255:FOR J=0 TO 254:A(I,J)=1:NEXT J,I",
            "30 FOR I=0 TO 255:FOR J=0 TO 255:C(I,J)=1:NEXT J,I"]
    calls = ["R5000"] + [sess.E(l) for l in prog] + [sess.E("RUN"), "R50000",
             sess.E('FOR J=0 TO 49:A(1,J)=0:NEXT:PRINT "freed"'), "R50000",
             sess.E('FOR J=1 TO 45:D(J\\11,J MOD 11)=J:NEXT:PRINT "reused"'), "R50000",
             sess.E('FOR J=1 TO 110:E(J\\11,J MOD 11)=J:NEXT:FOR J=1 TO 110:F(J\\11,J MOD 11)=J:NEXT:PRINT "unbounded"'), "R50000",
             sess.E("PRINT 7"), "R5000"]
    cases.append(Case(sess.session(calls), sig="zero frees slots", tag="zero-frees", side="impl", meta=("zero", None)))
    # ... and the same when the stored zero is the result of converting a non-zero value to the variable's type
    prog = ["10 DIM A%(255,254),C(255,255)", "20 FOR I=0 TO 255:FOR J=0 TO 254:A%(I,J)=1:NEXT J,I",
            "30 FOR I=0 TO 255:FOR J=0 TO 255:C(I,J)=1:NEXT J,I"]
    calls = ["R5000"] + [sess.E(l) for l in prog] + [sess.E("RUN"), "R50000",
             sess.E('FOR J=0 TO 19:A%(1,J)=.25:NEXT:FOR J=20 TO 39:A%(1,J)=A%(1,J)/4:NEXT:FOR J=0 TO 9:C(0,J)=1D-60:NEXT:PRINT "freed"'), "R50000",
             sess.E('FOR J=1 TO 45:D(J\\11,J MOD 11)=J:NEXT:PRINT "reused"'), "R50000",
             sess.E('FOR J=1 TO 110:E(J\\11,J MOD 11)=J:NEXT:FOR J=1 TO 110:F(J\\11,J MOD 11)=J:NEXT:PRINT "unbounded"'), "R50000",
             sess.E("PRINT 7"), "R5000"]
    cases.append(Case(sess.session(calls), sig="zero frees slots (zero after conversion)", tag="zero-frees", side="impl", meta=("zero", None)))
    return cases


def monitor(case, r):
    if r is None:
        return None
    if "PANIC" in r.split("|") or "HANG" in r.split("|") or r in ("PANIC", "HANG", "CRASH"):
        return "crash: %s answers ...%s" % (case.sig, sess.decode_events(r)[-200:])
    ev = transcript.after_first_stop(transcript.split_events(r))
    text = transcript.printed_text(ev)
    errs = [e for e in ev if e.startswith("E:[")]
    usable = text.rstrip().endswith("7 \nREADY.") or " 7 \n" in text.split("READY.\n")[-2] if text.count("READY.\n") >= 2 else False
    m = case.meta
    if m[0] == "leak":
        if errs or "fin" not in text:
            return "leak: %s did not finish normally: %s" % (case.sig, sess.decode_events("|".join(ev))[-300:])
    elif m[0] == "limit":
        if m[2] is not None and not any(e.startswith("E:[%d " % m[2]) for e in errs):
            return "limit: %s must end in OUT OF MEMORY, got %s" % (case.sig, sess.decode_events("|".join(ev))[-300:])
        if "TIMEOUT" in ev:
            return "limit: %s does not terminate" % case.sig
    elif m[0] == "probe":
        import re
        nums = re.findall(r"\n (\d+) \n", "\n" + text)
        if not any(e.startswith("E:[7 ") for e in errs) or not nums:
            return "probe: %s: the recursion must end in OUT OF MEMORY and PRINT N must answer: %s" % (case.sig, sess.decode_events("|".join(ev))[-300:])
        depth = int(nums[0])
        if not 65000 < depth <= 65536:
            return "probe: %s: the stack took %d entries before OUT OF MEMORY, expected about 65535" % (case.sig, depth)
    elif m[0] == "zero":
        if not any(e.startswith("E:[7 30") for e in errs):
            return "zero: filling the variable pool must end in OUT OF MEMORY in line 30: %s" % sess.decode_events("|".join(ev))[-300:]
        if "freed" not in text or "reused" not in text:
            return "zero: slots freed by storing 0 were not reusable: %s" % sess.decode_events("|".join(ev))[-400:]
        if "unbounded" in text:
            return "zero: the variable pool accepted more than 65536 entries: %s" % sess.decode_events("|".join(ev))[-300:]
    if not usable:
        return "unusable: after %s the next line was not executed: %s" % (case.sig, sess.decode_events("|".join(ev))[-300:])
    return None


def probe_depth(r):
    import re
    ev = transcript.after_first_stop(transcript.split_events(r))
    nums = re.findall(r"\n (\d+) \n", "\n" + transcript.printed_text(ev))
    return int(nums[0]) if nums else None


def cross_monitor(cases, impl, model):
    """the depth the stack still takes after k completed statements must be the depth it takes after none"""
    fails = []
    base = {}
    for i, c in enumerate(cases):
        if c.meta and c.meta[0] == "probe" and c.meta[2] == 0 and impl[i] is not None:
            base[c.meta[1] + c.sig.split("answered")[1]] = probe_depth(impl[i])
    for i, c in enumerate(cases):
        if c.meta and c.meta[0] == "probe" and c.meta[2] > 0 and impl[i] is not None:
            b = base.get(c.meta[1] + c.sig.split("answered")[1])
            d = probe_depth(impl[i])
            if b is not None and d is not None and b != d:
                fails.append((i, "probe: %s: the stack takes %d more entries, after no such statement it takes %d: each completed statement left %.2f values behind"
                              % (c.sig, d, b, (b - d) / float(c.meta[2]))))
    return fails


def nontrivial(case, r):
    return r is not None
