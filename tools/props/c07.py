"""C07 -- string operations work on characters, within 0..255."""
import struct

from framework import Case
import sess

PROPERTY = "C07"
THEOREM_FILE = "Props/C07.v"
INTERFACES = "Lops: Function::{len,left,right,mid,instr,asc,chr,string,spc,hex,oct,str,val}, Operation::{sum,less,equal,...} on strings; L5: MID$ assignment and 255-character stores"
PROFILES = ["dev"]
RULE = ("cartesian products of strings {empty, ASCII, 2/3/4-byte characters, 255 and 256 characters} x positions/lengths "
        "{-1,0,1,2,len-1,len,len+1,255,256,32767,1.5} x patterns (present, absent, empty, overlapping, multi-byte); "
        "non-trivial = a multi-byte string, a boundary position (0, len, len+1, 255, 256) or an error result; distinct = case lines")
ASSUMPTIONS = ["STR$/VAL are compared model-vs-implementation only (the numeric text contract is C11's)"]
EXHAUSTIVE = {"quick": True, "thorough": True}

STRS = ["", "A", "AB", "ABCDE", "é", "aé日😀b", "日" * 5, "abcabc", "aaa", "x" * 254, "y" * 255, "z" * 256, "日" * 255, "日" * 256, " pad ",
        # first characters at and around the end of the Integer range, at the end of the 16-bit range, and beyond it
        "\u7fffx", "\u8000x", "\uac00\uac01", "\uff21bc", "\uffffz", "\U00010000", "😀", "\U0010ffff"]
PATS = ["", "A", "B", "c", "bc", "abc", "aa", "é", "日", "😀b", "zz", "E", "ABCDEF"]


def T(s):
    return "T:" + s.encode("utf-8").hex()


def I(n):
    return "I:%d" % n


def S(x):
    return "S:%08x" % struct.unpack("<I", struct.pack("<f", x))[0]


def positions(s):
    n = len(s)
    return sorted(set([-1, 0, 1, 2, max(n - 1, 0), n, n + 1, 255, 256, 32767]))


def gen(tier, rng):
    cases = []

    def add(line, sig, tag):
        cases.append(Case(line, sig=sig, tag=tag))

    for s in STRS:
        add("op1 len %s" % T(s), "LEN(%r)" % s[:20], "len")
        add("op1 asc %s" % T(s), "ASC(%r)" % s[:20], "asc")
        for p in positions(s):
            for v, vs in ((I(p), str(p)),):
                add("op2 left %s %s" % (T(s), v), "LEFT$(%r,%s)" % (s[:20], vs), "left")
                add("op2 right %s %s" % (T(s), v), "RIGHT$(%r,%s)" % (s[:20], vs), "right")
                add("opn mid %s %s" % (T(s), v), "MID$(%r,%s)" % (s[:20], vs), "mid2")
                for l in (-1, 0, 1, 2, len(s), 255, 256, 65535):
                    lv = I(l) if l <= 32767 else S(float(l))
                    add("opn mid %s %s %s" % (T(s), v, lv), "MID$(%r,%s,%d)" % (s[:20], vs, l), "mid3")
        add("op2 left %s %s" % (T(s), S(1.5)), "LEFT$(%r,1.5)" % s[:20], "left")
        add("opn mid %s %s" % (T(s), S(2.5)), "MID$(%r,2.5)" % s[:20], "mid2")
        for t in PATS:
            add("opn instr %s %s" % (T(s), T(t)), "INSTR(%r,%r)" % (s[:20], t), "instr2")
            for p in positions(s):
                add("opn instr %s %s %s" % (I(p), T(s), T(t)), "INSTR(%d,%r,%r)" % (p, s[:20], t), "instr3")
            add("op2 add %s %s" % (T(s), T(t)), "%r+%r" % (s[:20], t), "concat")
            for op in ("lt", "le", "gt", "ge", "eq", "ne"):
                add("op2 %s %s %s" % (op, T(s), T(t)), "%r %s %r" % (s[:20], op, t), "compare")
    for c in [0, 1, 9, 10, 32, 65, 127, 128, 255, 256, 0x7FF, 0x800, 0xD7FF, 0xD800, 0xDFFF, 0xE000, 0xFFFF, 0x10000, 0x10FFFF, 0x110000, 32767]:
        v = I(c) if c <= 32767 else S(float(c))
        add("op1 chr %s" % v, "CHR$(%d)" % c, "chr")
        add("op2 string %s %s" % (I(3), v), "STRING$(3,%d)" % c, "string")
    add("op1 chr %s" % I(-1), "CHR$(-1)", "chr")
    for n in (-1, 0, 1, 2, 254, 255, 256, 32767):
        add("op1 spc %s" % I(n), "SPC(%d)" % n, "spc")
        for ch in ("*", "é", "ab", ""):
            add("op2 string %s %s" % (I(n), T(ch)), "STRING$(%d,%r)" % (n, ch), "string")
    for n in list(range(-3, 20)) + [255, 256, 4095, 4096, 32767, -32768, -32767, 1000, -1000]:
        add("op1 hex %s" % I(n), "HEX$(%d)" % n, "hex")
        add("op1 oct %s" % I(n), "OCT$(%d)" % n, "oct")
    for s in ["12", " 12 ", "1.5", "-3", "1E3", "&HFF", "&17", "7up", "", "abc", "1D2", "1.5.2", "+4", ".5", "5.", "1e", "é1", "\t8"]:
        add("op1 val %s" % T(s), "VAL(%r)" % s, "val")
    # statement forms through the interpreter: MID$ assignment and the 255 limit
    mids = []
    for s in ["ABCDE", "aé日😀b", "", "A"]:
        for p in (-1, 0, 1, 2, 5, 6, 7, 300):
            for l in (None, -1, 0, 1, 3, 99):
                for t in ("xy", "", "日日日日日日日"):
                    arg = "%d" % p if l is None else "%d,%d" % (p, l)
                    mids.append((s, arg, t))
    for s, arg, t in mids:
        prog = ['10 A$="%s":MID$(A$,%s)="%s":PRINT "<";A$;">";LEN(A$)' % (s, arg, t)]
        cases.append(Case(sess.prog_session(prog), sig="MID$(%r,%s)=%r" % (s, arg, t), tag="letmid"))
    for n in (254, 255, 256):
        for ch in ("x", "日"):
            first = 'STRING$(%d,"%s")' % (n, ch) if n <= 255 else 'STRING$(255,"%s")+"%s"' % (ch, ch)
            prog = ['10 A$=%s:PRINT LEN(A$)' % first, '20 B$=A$+"!":PRINT LEN(B$)', '30 PRINT LEN(A$+A$)']
            cases.append(Case(sess.prog_session(prog), sig="store %d x %r" % (n, ch), tag="store255"))
    return cases


def dec(r):
    return bytes.fromhex(r).decode("utf-8")


def ival(v):
    """numeric argument as the integer the manual means (floor), or None"""
    if v.startswith("I:"):
        return int(v[2:])
    if v.startswith("S:"):
        import math
        return math.floor(struct.unpack("<f", struct.pack("<I", int(v[2:], 16)))[0])
    return None


def okT(s):
    return "ok T:" + s.encode("utf-8").hex()


def expected(line):
    """('exact', result) | ('error',) | None"""
    f = line.split(" ")
    k, name = f[0], f[1]
    a = f[2:]
    if k == "op1" and name == "len":
        return ("exact", "ok I:%d" % len(dec(a[0][2:])))
    if k == "op1" and name == "asc":
        s = dec(a[0][2:])
        if not s:
            return ("error",)
        c = ord(s[0])
        # code points beyond the Integer range come back as a Single, exactly (every code point is below 2^24)
        return ("exact", "ok I:%d" % c) if c <= 32767 else ("exact", "ok " + S(float(c)))
    if k == "op2" and name in ("left", "right"):
        s, n = dec(a[0][2:]), ival(a[1])
        if n < 0:
            return ("error",)
        return ("exact", okT(s[:n] if name == "left" else (s[len(s) - n:] if n <= len(s) else s) if n > 0 else ""))
    if k == "opn" and name == "mid":
        s, p = dec(a[0][2:]), ival(a[1])
        l = ival(a[2]) if len(a) > 2 else None
        if p < 1 or (l is not None and l < 0):
            return ("error",)
        return ("exact", okT(s[p - 1:] if l is None else s[p - 1:p - 1 + l]))
    if k == "opn" and name == "instr":
        if len(a) == 3:
            i, s, t = ival(a[0]), dec(a[1][2:]), dec(a[2][2:])
        else:
            i, s, t = 1, dec(a[0][2:]), dec(a[1][2:])
        if i == 0:
            return ("error",)
        if i < 0:
            return None
        if t == "":
            return ("exact", "ok I:%d" % (i if i <= len(s) else 0))
        j = s.find(t, i - 1)
        return ("exact", "ok I:%d" % (j + 1 if j >= 0 else 0))
    if k == "op2" and name == "add" and a[0].startswith("T:") and a[1].startswith("T:"):
        return ("exact", okT(dec(a[0][2:]) + dec(a[1][2:])))
    if k == "op2" and name in ("lt", "le", "gt", "ge", "eq", "ne") and a[0].startswith("T:"):
        x, y = [ord(c) for c in dec(a[0][2:])], [ord(c) for c in dec(a[1][2:])]
        b = {"lt": x < y, "le": x <= y, "gt": x > y, "ge": x >= y, "eq": x == y, "ne": x != y}[name]
        return ("exact", "ok I:%d" % (-1 if b else 0))
    if k == "op1" and name == "chr":
        c = ival(a[0])
        if 0 <= c <= 0x10FFFF and not (0xD800 <= c <= 0xDFFF):
            return ("exact", okT(chr(c)))
        return ("error",)
    if k == "op1" and name == "spc":
        n = ival(a[0])
        return ("exact", okT(" " * n)) if 0 <= n <= 255 else ("error",)
    if k == "op2" and name == "string":
        n = ival(a[0])
        if not 0 <= n <= 255:
            return ("error",)
        if a[1].startswith("T:"):
            s = dec(a[1][2:])
            return ("exact", okT(s[0] * n)) if s else ("error",)
        c = ival(a[1])
        if 0 <= c <= 0x10FFFF and not (0xD800 <= c <= 0xDFFF):
            return ("exact", okT(chr(c) * n))
        return ("error",)
    if k == "op1" and name in ("hex", "oct"):
        n = ival(a[0]) & 0xFFFF
        return ("exact", okT(("%X" % n) if name == "hex" else ("%o" % n)))
    return None


def letmid_spec(s, arg, t):
    parts = arg.split(",")
    p = int(parts[0])
    l = int(parts[1]) if len(parts) > 1 else 32767
    if p < 1 or l < 0:
        return None
    k = min(l, len(t), max(0, len(s) - (p - 1)))
    return s[:p - 1] + t[:k] + s[p - 1 + k:]


def monitor(case, r):
    if r in ("PANIC", "HANG", "CRASH") or "PANIC" in r.split("|"):
        return "crash: %s answers %s" % (case.sig, r[:80])
    if case.tag == "letmid":
        import re
        m = re.match(r"MID\$\('(.*)',(.*)\)='(.*)'$", case.sig)
        s, arg, t = eval("'" + m.group(1) + "'"), m.group(2), eval("'" + m.group(3) + "'")
        want = letmid_spec(s, arg, t)
        text = "".join(bytes.fromhex(e[2:]).decode() for e in r.split("|") if e.startswith("P:"))
        body = text.split("READY.\n")[1] if text.count("READY.\n") >= 2 else text
        if want is None:
            if "E:[" not in r:
                return "domain: %s must be rejected with a BASIC error, got %r" % (case.sig, body[:60])
            return None
        if ("<%s> %d " % (want, len(want))) not in body:
            return "wrong: %s must give <%s> (same length), got %r" % (case.sig, want, body[:80])
        return None
    if case.tag == "store255":
        n = int(case.sig.split(" ")[1])
        text = "".join(bytes.fromhex(e[2:]).decode() for e in r.split("|") if e.startswith("P:"))
        if n <= 255 and (" %d " % n) not in text:
            return "store: a %d-character string must be storable: %s" % (n, sess.decode_events(r)[-200:])
        if n > 255 and "E:[15 10" not in r:
            return "store: a %d-character string must be STRING TOO LONG: %s" % (n, sess.decode_events(r)[-200:])
        if n == 255 and "E:[15 20" not in r:
            return "store: 256 characters must be STRING TOO LONG in line 20"
        return None
    e = expected(case.line)
    if e is None:
        return None
    if e[0] == "error":
        return None if r.startswith("err ") else "domain: %s must be a BASIC error, answers '%s'" % (case.sig, r[:60])
    if r != e[1]:
        def show(x):
            return dec(x[5:])[:40] if x.startswith("ok T:") else x
        return "wrong: %s answers %r, the documented result is %r" % (case.sig, show(r), show(e[1]))
    return None


def nontrivial(case, r):
    if r is None:
        return False
    return r.startswith("err") or any(ord(c) > 127 for c in case.sig) or any(k in case.sig for k in (",0", ",255", ",256", "255 ", "256 "))
