"""C19 -- compile-time diagnostics point into the listed line and block execution."""
from framework import Case
import framework
import sess
import transcript

PROPERTY = "C19"
THEOREM_FILE = "Props/C19.v"
INTERFACES = "L5 sessions: Event::Errors ranges and Event::List underline ranges against the listed text; RUN / GOTO / GOSUB into a faulty program"
PROFILES = ["dev"]
CASE_TIMEOUT = 0.3
MODEL_CASE_TIMEOUT = 3.0
RULE = ("link-clean programs of sentinel-printing lines with one or two injected faults: a dangling line number in each referencing form "
        "(GOTO, GOSUB, THEN n, ELSE n, ON..GOTO, ON..GOSUB lists at each position, RESTORE n, RUN n), an unmatched WHILE or WEND, token-level "
        "damage; random ASCII and multi-byte text before the fault on the same line; every way of entering the program (RUN, RUN n, GOTO, "
        "GOSUB, ON.., CONT) must print nothing from it; the reported range must underline exactly the number / keyword in the listed line; "
        "non-trivial = multi-byte prefix or a fault that is not the first reference on its line; distinct = (program, fault, entry)")
ASSUMPTIONS = ["the underline is computed as term::decorate_list does: character index into the List event's text"]
EXHAUSTIVE = {"quick": False, "thorough": False}

PREFIXES = ["", 'A=&17:', 'A=&7:B=&17:', 'A=&HFF:', 'A=&H1F+&17:', 'Q$="é":', 'Q$="日日日":', "A=1:B=2:", 'MARK9=1:', 'Q$="😀":', "IF Z THEN ", 'Q$="aé":IF Z THEN Q=1:']
MISSING = [999, 5, 65529, 12345]


def fault(rng, lines_nums):
    """(statement text, kind, expected underlined text)"""
    miss = rng.choice(MISSING)
    ok = rng.choice(lines_nums)
    r = rng.random()
    if r < 0.12:
        return "GOTO %d" % miss, "ref", str(miss)
    if r < 0.24:
        return "GOSUB %d" % miss, "ref", str(miss)
    if r < 0.32:
        return "IF Z THEN %d" % miss, "ref", str(miss)
    if r < 0.40:
        return "IF Z THEN Q=1 ELSE %d" % miss, "ref", str(miss)
    if r < 0.50:
        k = rng.randint(0, 2)
        items = [str(ok)] * 3
        items[k] = str(miss)
        return "ON Z GOTO " + ",".join(items), "ref", str(miss)
    if r < 0.60:
        k = rng.randint(0, 1)
        items = [str(ok)] * 2
        items[k] = str(miss)
        return "ON Z GOSUB " + ",".join(items), "ref", str(miss)
    if r < 0.68:
        return "RESTORE %d" % miss, "ref", str(miss)
    if r < 0.74:
        return "IF Z THEN RUN %d" % miss, "ref", str(miss)
    if r < 0.82:
        return "WHILE Z<3", "while", "WHILE"
    if r < 0.90:
        return "WEND", "wend", "WEND"
    return rng.choice(["PRINT )", "A=", "FOR I=1", "GOTO", "NEXT 5", "X=1+", 'PRINT "a" "b" +', "IF THEN", "DIM", "ON GOTO 10"]), "syntax", None


def gen(tier, rng):
    cases = []
    n = 700 if tier == "quick" else 30000
    for pi in range(n):
        nums = sorted(rng.sample(range(10, 400, 10), rng.randint(3, 7)))
        if rng.random() < 0.2:
            nums = [0] + nums         # line 0 is a legal line: its prefix in the listing is one digit and a blank
        lines = {}
        for k in nums:
            body = rng.choice(["Q=Q+1", "GOTO %d" % rng.choice(nums), "GOSUB %d" % nums[-1], "REM x", "IF Z THEN %d" % rng.choice(nums), "Z=Z"])
            lines[k] = 'PRINT "#%d";:%s' % (k, body)
        lines[nums[-1]] = 'PRINT "#%d";:RETURN' % nums[-1]
        faults = []
        nf = rng.choice([1, 1, 1, 2])
        mixed = nf == 2 and rng.random() < 0.5      # one fault of the compile pass together with one of the link pass
        for fi in range(nf):
            k = rng.choice(nums[:-1])
            if any(f[0] == k for f in faults):
                continue
            stmt, kind, under = fault(rng, nums)
            for _ in range(40):
                if not mixed or (kind == "syntax") == (fi == 0):
                    break
                stmt, kind, under = fault(rng, nums)
            if kind in ("while", "wend") and any(f[1] in ("while", "wend") for f in faults):
                continue          # a WHILE and a WEND would pair up and be no fault at all
            pre = rng.choice(PREFIXES)
            if kind in ("while", "wend", "syntax") and "IF" in pre:
                pre = ""
            lines[k] = 'PRINT "#%d";:%s%s' % (k, pre, stmt)
            faults.append((k, kind, under))
        # lines without code (remarks, DATA) directly in front of a faulty line start at the same address as it does: the
        # diagnostic must still name the faulty line
        for (k, _, _) in list(faults):
            i = nums.index(k)
            for j in (i - 1, i - 2):
                if j >= 0 and rng.random() < 0.5 and not any(f[0] == nums[j] for f in faults):
                    lines[nums[j]] = rng.choice(["REM note", "'", "DATA 1,2", "' \u00e9\u65e5", "DATA \"x\""])
                else:
                    break
        prog = ["%d %s" % (k, lines[k]) for k in nums]
        entries = [["RUN"], ["RUN %d" % rng.choice(nums)], ["GOTO %d" % rng.choice(nums)], ["GOSUB %d" % rng.choice(nums)],
                   ["Z=1:ON Z GOTO %d" % rng.choice(nums)], ["RUN", "CONT"], ["Z=1:ON Z GOSUB %d" % nums[0]]]
        entry = rng.choice(entries)
        calls = ["R5000"] + [sess.E(l) for l in prog]
        # the very first direct statement after the edits may be one that does not enter the program (the program is compiled and
        # linked in front of every direct line; what that pass leaves behind must not spill into the direct line), optionally
        # behind a direct line that itself fails to compile while holding a jump
        first = ""
        if rng.random() < 0.45:
            if rng.random() < 0.35:
                bad = rng.choice(["DIM A:GOTO %d" % nums[0], "GOSUB %d:PRINT )" % nums[-1], "A=:GOTO 7", "WHILE 1:X=1+"])
                calls += [sess.E(bad), "R5000"]
                first += "\n#bad direct line: " + bad
            fd = rng.choice(['PRINT "@first"', 'PRINT 1:PRINT 2:PRINT "@first"', 'FOR I9=1 TO 2:NEXT:PRINT "@first"', 'I9=1:IF I9 THEN PRINT "@first"'])
            calls += [sess.E(fd), "R5000"]
            first += "\n#first: " + fd
        for e in entry:
            calls += [sess.E(e), "R5000"]
        # a direct statement that does not enter the program: straight-line, branching and looping ones
        direct = rng.choice(['PRINT "@ok"', 'PRINT "@ok"', 'WHILE J9<3:J9=J9+1:WEND:PRINT "@ok"', 'J9=0:WHILE J9<2:J9=J9+1:WEND:PRINT "@ok"',
                             'FOR I9=1 TO 3:NEXT:PRINT "@ok"', 'IF 0 THEN PRINT "no" ELSE PRINT "@ok"', 'I9=1:IF I9 THEN PRINT "@ok"',
                             'WHILE 0:WEND:PRINT "@ok"', 'FOR I9=1 TO 2:WHILE 0:WEND:NEXT I9:PRINT "@ok"'])
        calls += [sess.E("LIST"), "R5000", sess.E(direct), "R5000"]
        cases.append(Case(sess.session(calls), sig="\n".join(prog) + first + "\n#enter: " + "; ".join(entry) + "\n#then: " + direct, tag="faulty",
                          meta=("faulty", faults, nums)))
    # the other direction: diagnostics belong to the line that caused them and to nothing else.  A direct line that fails to
    # compile or link leaves no diagnostic behind: a correct program typed after it runs, and reports nothing
    for hi in range(40 if tier == "quick" else 1500):
        nums = sorted(rng.sample(range(10, 400, 10), rng.randint(2, 5)))
        bad = rng.choice(['PRINT "far to the right" 1 2 3 )', "GOTO 999", "GOSUB 12345:PRINT 1", "WEND", "X=1+", "RESTORE 777", "IF 1 THEN RUN 5", "WHILE 1"])
        prog = ['%d PRINT "#%d";' % (k, k) for k in nums]
        first = rng.choice([[], [prog[0], "RUN"], [prog[0], 'PRINT "x";']])
        calls = ["R5000"]
        for l in first:
            calls += [sess.E(l), "R5000"]
        calls += [sess.E(bad), "R5000"] + [sess.E(l) for l in prog] + [sess.E('PRINT "@go";'), "R5000", sess.E("RUN"), "R5000", sess.E("LIST"), "R5000"]
        cases.append(Case(sess.session(calls), sig="\n".join(prog) + "\n#typed after the failing direct line: " + bad + "\n#then: RUN", tag="healthy",
                          meta=("healthy", [], nums)))
    # a correct program stops inside itself; a direct DELETE then removes a line other lines refer to (or the WEND of an open
    # WHILE), so the program now has a compile-time error; whatever is typed next to resume it -- CONT, RETURN, NEXT -- must
    # not run any of its code
    shapes = [
        (['10 PRINT "#10";:GOSUB 100', '20 PRINT "#20";:END', '30 GOTO 200', '100 PRINT "#100";:STOP', '110 PRINT "#110";:RETURN', '200 REM t'], "DELETE 200"),
        (['10 FOR I=1 TO 3:PRINT "#10";', '20 STOP', '30 PRINT "#30";:NEXT I', '40 END', '50 GOSUB 300', '300 RETURN'], "DELETE 300"),
        (['10 I=0', '20 WHILE I<3', '30 I=I+1:PRINT "#30";:STOP:PRINT "#31";', '40 WEND', '50 PRINT "#50"'], "DELETE 40"),
        (['10 PRINT "#10";:GOSUB 100', '20 PRINT "#20";:END', '30 ON Q GOTO 10,400', '100 FOR J=1 TO 2:PRINT "#100";:STOP', '110 NEXT J:RETURN', '400 REM t'], "DELETE 400-"),
        (['10 PRINT "#10";:STOP', '20 PRINT "#20";:RESTORE 90', '30 END', '90 DATA 1'], "DELETE 90"),
    ]
    for prog, cut in shapes:
        for resume in (["CONT"], ["RETURN"], ["NEXT"], ["NEXT I"], ["CONT", "RETURN"], ["GOTO 20"], ["RUN 20"]):
            calls = ["R5000"] + [sess.E(l) for l in prog] + [sess.E("RUN"), "R5000", sess.E(cut), "R5000", sess.E('PRINT "@cut"'), "R5000"]
            for x in resume:
                calls += [sess.E(x), "R5000"]
            calls += [sess.E("LIST"), "R5000", sess.E('PRINT "@ok"'), "R5000"]
            cases.append(Case(sess.session(calls), sig="\n".join(prog) + "\n#RUN, then: " + cut + "; then: " + "; ".join(resume), tag="became-faulty",
                              meta=("became-faulty", [], [])))
    return cases


def monitor(case, r):
    if r is None:
        return None
    if "PANIC" in r.split("|") or "HANG" in r.split("|") or r in ("PANIC", "HANG", "CRASH"):
        return "crash: %s answers ...%s" % (case.sig, sess.decode_events(r)[-200:])
    if case.meta[0] == "healthy":
        ev = transcript.split_events(framework.default_canon(None, r))
        text = transcript.printed_text(ev)
        if "@go" not in text:
            return "direct: a direct statement must work after a direct line that failed\n%s\n%s" % (case.sig, sess.decode_events(r)[-300:])
        after = [e for e in ev[next(i for i, e in enumerate(ev) if e.startswith("P:") and sess.hx("@go") in e):]]
        errs = [e for e in after if e.startswith("E:[")]
        want = "".join("#%d" % k for k in case.meta[2])
        if errs or want not in transcript.printed_text(after):
            return "stray: a program without faults, typed after a direct line that failed, must run and report nothing; got %s\n%s" % (
                sess.decode_events("|".join(after))[:300], case.sig)
        return None
    if case.meta[0] == "became-faulty":
        text = transcript.printed_text(transcript.split_events(framework.default_canon(None, r)))
        if "@cut" not in text or "@ok" not in text:
            return "direct: direct statements must keep working after the edit\n%s\n%s" % (case.sig, sess.decode_events(r)[-300:])
        after = text.split("@cut", 1)[1]
        if "#" in after:
            return "executed: after the edit left the program with a compile-time error it still ran: %r\n%s" % (after[:120], case.sig)
        return None
    _, faults, nums = case.meta
    ev = transcript.after_first_stop(transcript.split_events(framework.default_canon(None, r)))
    text = transcript.printed_text(ev)
    if "#" in text:
        return "executed: a program with compile-time errors printed %r\n%s" % (text[:80], case.sig)
    if "@ok" not in text or ("#first: " in case.sig and "@first" not in text):
        return "direct: a direct statement that does not enter the program must still work\n%s\n%s" % (case.sig, sess.decode_events(r)[-300:])
    errs = [e for e in ev if e.startswith("E:[")]
    if not errs:
        return "silent: no diagnostic was reported for\n%s" % case.sig
    listed = {}
    for e in ev:
        if e.startswith("L:"):
            h, rng_s = e[2:].split(":")
            t = bytes.fromhex(h).decode("utf-8")
            listed[int(t.split(" ")[0])] = (t, [tuple(int(x) for x in p.split("-")) for p in rng_s[1:-1].split(",") if p])
    # every reported error names an existing line and a range inside its listed text
    for e in errs:
        for item in e[3:-1].split(";"):
            p = item.split(" ")
            code = int(p[0])
            if code in (0, 3, 17, 1):
                continue          # run-time answers to CONT / RETURN typed afterwards
            if p[1] == "-":
                continue
            ln, a, b = int(p[1]), int(p[2]), int(p[3])
            if ln not in listed:
                return "line: a diagnostic names line %d, which is not in the program\n%s" % (ln, case.sig)
            t = listed[ln][0]
            if not (0 <= a <= b <= len(t)):
                return "range: diagnostic %s lies outside the listed line %r" % (item, t)
    # the fault itself is underlined exactly
    for (k, kind, under) in faults:
        if kind == "syntax" or k not in listed:
            continue
        t, ranges = listed[k]
        pieces = [t[a:b] for a, b in ranges]
        if under not in pieces:
            # a syntax fault elsewhere hides link errors: only demand it when link errors were reported at all
            if any(int(x.split(" ")[0]) in (8, 29, 30) for e in errs for x in e[3:-1].split(";")):
                if len(faults) == 1 or all(f[1] != "syntax" for f in faults):
                    return "underline: in %r the diagnostic underlines %r, expected exactly %r" % (t, pieces, under)
    return None


def nontrivial(case, r):
    return (r is not None and case.meta[0] in ("became-faulty", "healthy")) or r is not None and any(ord(ch) > 127 for ch in case.sig) or (r is not None and "ON Z" in case.sig)
