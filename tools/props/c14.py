"""C14 -- RENUM preserves the program and rewrites every reference, or changes nothing."""
import re

from framework import Case
import gen_prog
import sess
import transcript

PROPERTY = "C14"
THEOREM_FILE = "Props/C14.v"
INTERFACES = "L5 sessions: RENUM with argument triples on link-clean programs; listing text before / after via Runtime::get_listing"
PROFILES = ["dev"]
CASE_TIMEOUT = 0.5
MODEL_CASE_TIMEOUT = 5.0
RULE = ("link-clean generated programs extended with every referencing form (GOTO, GOSUB, THEN n, ELSE n, ON..GOTO, ON..GOSUB, RESTORE n, "
        "RUN n, LIST / DELETE ranges, omitted operands), non-ASCII string literals and remarks before operands, line 0; RENUM with triples "
        "from {omitted,0,1,10,100,1000,32767,65529,65530}^3 and random ones; checked: numbering formula, order and count, token-wise "
        "'nothing else changed', failure leaves the listing byte-identical, original and renumbered programs run identically modulo "
        "reported line numbers; non-trivial = at least one reference was rewritten; distinct = (program, triple)")
ASSUMPTIONS = ["RND-free programs; trace output is mapped through the numbering"]
EXHAUSTIVE = {"quick": False, "thorough": False}
FEATURES = {"tron": False, "input": False}
MAXLN = 65529


def decorate(prog, rng):
    """add referencing forms after the END of a generated program, and awkward text before operands"""
    nums = [int(l.split(" ")[0]) for l in prog]
    out = list(prog)
    n = nums[-1] + 10
    extra = []
    t = lambda: rng.choice(nums)
    forms = ['PRINT "é日":GOTO %d' % t(), 'REM café %d' % t(), 'ON Q9 GOSUB %d,%d' % (t(), t()), 'ON Q9 GOTO %d,%d:PRINT "ü"' % (t(), t()),
             'IF Q9=7 THEN %d ELSE %d' % (t(), t()), 'PRINT "日日日日":IF Q9=8 THEN GOSUB %d:GOTO %d' % (t(), t()), 'RESTORE %d' % t(), 'RESTORE',
             'IF Q9=9 THEN RUN %d' % t(), 'IF Q9=9 THEN RUN', 'IF Q9=9 THEN LIST %d-%d' % (min(t(), t()), MAXLN), 'IF Q9=9 THEN DELETE %d' % t(),
             'IF Q9=9 THEN LIST', 'PRINT 10;20;%d:GOSUB %d' % (t(), t()), 'IF Q9=9 THEN LIST -%d' % t(), 'A$="GOTO %d":GOTO %d' % (t(), t())]
    for f in rng.sample(forms, rng.randint(2, 6)):
        extra.append("%d %s" % (n, f))
        n += 10
    # these lines are placed after the program's END / STOP so that they do not change what runs, except GOSUB targets
    out = out + ["%d END" % n] + extra if False else out[:-1] + [out[-1]] + ["%d END" % (nums[-1] + 5)] + extra
    if rng.random() < 0.3:
        out = ["0 REM zero"] + out
    return out


ARGS = ["", "0", "1", "10", "100", "1000", "32767", "65529", "65530"]


def renum_args(rng):
    r = rng.random()
    if r < 0.25:
        return rng.choice(["", "100", "1000,20", "5,0,5", "100,0,1"])
    a, b, c = rng.choice(ARGS), rng.choice(ARGS), rng.choice(ARGS)
    if r < 0.8:
        return ",".join([a, b, c]).rstrip(",")
    return "%d,%d,%d" % (rng.randint(0, 70000), rng.randint(0, 400), rng.randint(0, 3000))


def gen(tier, rng):
    cases = []
    n = 250 if tier == "quick" else 10000
    for pi in range(n):
        base, _ = gen_prog.generate(rng, features=FEATURES)
        prog = decorate(base, rng)
        key = "\n".join(prog)
        typeit = [sess.E(l) for l in prog]
        cases.append(Case(sess.session(["R5000"] + typeit + [sess.E("RUN"), "R5000"]), sig=key, tag="original-run", meta=("orig", pi)))
        nl = len(prog)
        edge = []
        for _ in range(2):
            # the arithmetic progression ends exactly on the highest line number, or up to six numbers beyond it (65530..65535 are
            # no line numbers, although they fit the machine word the numbers are kept in)
            step = rng.choice([1, 2, 5, 10])
            start = 65529 - step * (nl - 1) + rng.choice([0, 1, 2, 6, 0, 3])
            if 0 <= start <= 65529:
                edge.append("%d,,%d" % (start, step))
        for args in edge + [renum_args(rng) for _ in range(3 if tier == "quick" else 6)]:
            calls = ["R5000"] + typeit + ["T", sess.E(("RENUM " + args).strip()), "R5000", "T", sess.E("RUN"), "R5000"]
            cases.append(Case(sess.session(calls), sig=key + "\n#RENUM " + args, tag="renum", meta=("renum", pi, args)))
    return cases


def monitor(case, r):
    if r is None:
        return None
    if "PANIC" in r.split("|") or "HANG" in r.split("|") or r in ("PANIC", "HANG", "CRASH"):
        return "crash: %s answers ...%s" % (case.sig, sess.decode_events(r)[-200:])
    return None


def parse_args(args):
    parts = (args.split(",") + ["", "", ""])[:3]
    vals = []
    for p, d in zip(parts, (10, 0, 10)):
        vals.append(int(p) if p != "" else d)
    return vals


def tokens(text):
    return re.findall(r"\d+|\D+", text)


STATS = {}


def cross_monitor(cases, impl, model):
    fails = []
    orig = {}
    stats = {"renumbered": 0, "refused": 0, "references_rewritten": 0, "runs_compared": 0}
    for i, c in enumerate(cases):
        if c.meta and c.meta[0] == "orig":
            orig[c.meta[1]] = impl[i]
    for i, c in enumerate(cases):
        if not c.meta or c.meta[0] != "renum" or impl[i] is None:
            continue
        ev = transcript.split_events(impl[i])
        ts = [k for k, e in enumerate(ev) if e.startswith("T:")]
        if len(ts) != 2:
            continue
        before = bytes.fromhex(ev[ts[0]][2:]).decode("utf-8")
        after = bytes.fromhex(ev[ts[1]][2:]).decode("utf-8")
        mid = ev[ts[0] + 1:ts[1]]
        errs = [e for e in mid if e.startswith("E:[")]
        new_start, old_start, step = parse_args(c.meta[2])
        old_lines = [l for l in before.split("\n") if l]
        new_lines = [l for l in after.split("\n") if l]
        old_nums = [int(l.split(" ")[0]) for l in old_lines]
        new_nums = [int(l.split(" ")[0]) for l in new_lines]
        if errs:
            stats["refused"] += 1
            if before != after:
                fails.append((i, "atomic: RENUM %s failed (%s) but changed the program:\n%s\n  -->\n%s" % (c.meta[2], errs[0], before, after)))
            continue
        # the documented numbering
        want = []
        k = new_start
        for n0 in old_nums:
            if n0 >= old_start:
                want.append(k)
                k += step
            else:
                want.append(n0)
        legal = all(x <= MAXLN for x in want) and sorted(set(want)) == want and any(n0 >= old_start for n0 in old_nums) or not any(n0 >= old_start for n0 in old_nums)
        if any(a > MAXLN for a in (new_start, old_start, step)):
            legal = False
        if not legal:
            if before != after:
                fails.append((i, "numbering: RENUM %s cannot be carried out (numbers %s) but was accepted and gave\n%s" % (c.meta[2], want[:12], after)))
            continue
        stats["renumbered"] += 1
        if new_nums != want:
            fails.append((i, "numbering: RENUM %s must number the lines %s, got %s\n%s" % (c.meta[2], want, new_nums, after)))
            continue
        mapping = dict(zip(old_nums, new_nums))
        # nothing but line-number operands may change
        bad = None
        for lo, ln in zip(old_lines, new_lines):
            to, tn = tokens(lo.split(" ", 1)[1]), tokens(ln.split(" ", 1)[1])
            if len(to) != len(tn):
                bad = (lo, ln)
                break
            for a, b in zip(to, tn):
                if a != b:
                    if a.isdigit() and b.isdigit() and mapping.get(int(a)) == int(b):
                        stats["references_rewritten"] += 1
                        continue
                    bad = (lo, ln)
                    break
            if bad:
                break
        if bad:
            fails.append((i, "text: RENUM %s changed more than line-number operands:\n  %s\n  %s" % (c.meta[2], bad[0], bad[1])))
            continue
        # same behaviour modulo the numbers reported
        ref = orig.get(c.meta[1])
        if ref is None or "TIMEOUT" in ref or "TIMEOUT" in impl[i]:
            continue
        a = transcript.after_first_stop(transcript.split_events(ref))
        b = ev[ts[1] + 1:]

        def canon(evs, m):
            out = []
            for e in evs:
                if e.startswith("E:["):
                    items = []
                    for x in e[3:-1].split(";"):
                        p = x.split(" ")
                        if p[1] != "-" and int(p[1]) in m:
                            p[1] = str(m[int(p[1])])
                        items.append(" ".join(p[:2]))
                    e = "E:[" + ";".join(sorted(items)) + "]"
                out.append(e)
            return out
        stats["runs_compared"] += 1
        ca, cb = canon(a, mapping), canon(b, {})
        if ca != cb:
            fails.append((i, "behaviour: after RENUM %s the program runs differently:\n%s\n  original:   %s\n  renumbered: %s\n%s" % (
                c.meta[2], before, sess.decode_events("|".join(ca))[-300:], sess.decode_events("|".join(cb))[-300:], after)))
    STATS.update(stats)
    return fails


def nontrivial(case, r):
    return r is not None and case.meta is not None and case.meta[0] == "renum"
