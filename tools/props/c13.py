"""C13 -- interrupt, STOP and END are transparent under CONT; slicing does not matter."""
import re

from framework import Case
import gen_prog
import sess
import transcript

PROPERTY = "C13"
THEOREM_FILE = "Props/C13.v"
INTERFACES = "L5 sessions: Runtime::execute(n) with every quantum, Runtime::interrupt at every call boundary, CONT"
PROFILES = ["dev"]
CASE_TIMEOUT = 0.5
MODEL_CASE_TIMEOUT = 5.0
RULE = ("generated programs (FOR, GOSUB, WHILE, ON..GOSUB, FN calls, INPUT, no layout-dependent print items) and fixed programs that wait for keys (INKEY$ in a statement, inside an expression, in a subroutine, in a WHILE condition, in a subscript), interrupted while each wait is pending; the same session under "
        "quanta 1,2,3,5,7,64,5000; an interrupt after every k-th execute(1) call (all k up to the run length, capped per program), "
        "with and without an inspecting direct statement, then CONT; STOP and END inserted at every statement boundary, then CONT; "
        "non-trivial = the interruption lands inside a loop, subroutine or expression (output continues after CONT); distinct = (program, k)")
ASSUMPTIONS = ["a forced line break after ?BREAK resets the column: compared programs print with ';' only",
               "TRON may re-announce the current line after CONT: compared programs do not trace"]
EXHAUSTIVE = {"quick": False, "thorough": False}
FEATURES = {"tron": False, "layout": False, "input": True, "stop": False}
DUMP = "PRINT \"#\";A;B;C;X;Y;Z1;I%;J%;K%;D#;E#;S$;T$;U$"


def base_calls(prog):
    return ["R5000"] + [sess.E(l) for l in prog]


def answers(inputs, q):
    return ["A%d:%s" % (q, sess.hx(r)) for r in inputs]


def gen(tier, rng):
    cases = []
    nprog = 60 if tier == "quick" else 1500
    kcap = 40 if tier == "quick" else 400
    for pi in range(nprog):
        prog, inputs = gen_prog.generate(rng, size=rng.randint(2, 5), features=FEATURES)
        key = "\n".join(prog)
        # reference: uninterrupted, large quantum, then a variable dump
        ref = base_calls(prog) + [sess.E("RUN"), "R5000"] + answers(inputs, 5000) + [sess.E(DUMP), "R5000"]
        cases.append(Case(sess.session(ref), sig=key, tag="reference", meta=("ref", pi, None)))
        for q in (1, 2, 3, 5, 7, 64):
            c = base_calls(prog) + [sess.E("RUN"), "R%d" % q] + answers(inputs, q) + [sess.E(DUMP), "R%d" % q]
            cases.append(Case(sess.session(c), sig=key + "\n#quantum %d" % q, tag="quantum", meta=("quantum", pi, q)))
        ks = list(range(0, kcap)) if tier == "quick" else list(range(0, kcap))
        if tier == "quick":
            ks = sorted(rng.sample(range(2, 120), 30))
        for k in ks:
            inspect = rng.random() < 0.5
            c = base_calls(prog) + [sess.E("RUN")] + ["X1"] * k + ["I", "R5000"]
            if inspect:
                c += [sess.E("Q8=Q8+1"), "R5000"]
            c += [sess.E("CONT"), "R5000"] + answers(inputs, 5000) + [sess.E(DUMP), "R5000"]
            cases.append(Case(sess.session(c), sig=key + "\n#interrupt after %d calls%s" % (k, " + inspect" if inspect else ""),
                              tag="interrupt", meta=("interrupt", pi, k)))
        # STOP / END inserted before a line
        for _ in range((3 if tier == "quick" else 6) if not inputs else 0):
            j = rng.randrange(len(prog))
            word = "STOP"
            num, rest = prog[j].split(" ", 1)
            if rest.startswith("DATA") or rest.startswith("DEF"):
                continue
            p2 = list(prog)
            where = rng.random()
            m_if = re.search(r" THEN (?![0-9 ])(.*?) ELSE ", rest)
            if where < 0.35 and m_if and "REM" not in rest and "'" not in rest:
                # at the end of a THEN branch that has an ELSE: CONT must continue behind the whole IF, not in the ELSE branch
                k = m_if.end() - len(" ELSE ")
                p2[j] = "%s %s:%s%s" % (num, rest[:k], word, rest[k:])
            elif where < 0.5 and "REM" not in rest and "'" not in rest and " THEN " not in rest and "DATA" not in rest:
                p2[j] = "%s %s:%s" % (num, rest, word)
            else:
                p2[j] = "%s %s:%s" % (num, word, rest)
            calls = base_calls(p2) + [sess.E("RUN"), "R5000"] + answers(inputs, 5000)
            # one conditional CONT per execution of the inserted statement (bounded)
            for _ in range(STOP_CONTS):
                calls += ["K5000"] + answers(inputs, 5000)
            calls += [sess.E(DUMP), "R5000"]
            cases.append(Case(sess.session(calls), sig=key + "\n#%s inserted at line %s" % (word, num), tag="stop-cont",
                              meta=("stop", pi, (word, num))))
    # a direct line that fails to compile runs nothing: typed between the break and CONT it must not cost the CONT point
    loop = ["10 FOR I=1 TO 3", "20 IF I=2 THEN STOP", "30 PRINT I", "40 NEXT I", '50 PRINT "DONE"']
    for bad in ["PRINT I+", "?I)", "GOTO 64999", "WEND", "X=", "GOSUB 64999:PRINT 1", "WHILE 1", "IF THEN"]:
        for follow in ([], ["PRINT I"]):
            c = base_calls(loop) + [sess.E("RUN"), "R5000", sess.E(bad), "R5000"]
            for f in follow:
                c += [sess.E(f), "R5000"]
            c += [sess.E("CONT"), "R5000", sess.E(DUMP), "R5000"]
            cases.append(Case(sess.session(c), sig="\n".join(loop) + "\n#RUN (stops in 20); mistyped: %s; %sCONT" % (bad, "PRINT I; " if follow else ""),
                              tag="mistyped", meta=("mistyped", 0, bad)))
        plain = [l for l in loop if not l.startswith("20 ")]
        for k in (5, 9, 12, 20):
            c = base_calls(plain) + [sess.E("RUN")] + ["X1"] * k + ["I", "R5000", sess.E(bad), "R5000", sess.E("CONT"), "R5000", sess.E(DUMP), "R5000"]
            cases.append(Case(sess.session(c), sig="\n".join(plain) + "\n#RUN, interrupt after %d calls; mistyped: %s; CONT" % (k, bad),
                              tag="mistyped", meta=("mistyped", k, bad)))
    # STOP at the end of the THEN branch of every one-line IF..THEN..ELSE, and in a few fixed shapes
    fixed = [["10 A=1", '20 IF A=1 THEN PRINT "T":STOP ELSE PRINT "F":A=5', '30 PRINT "DONE";A'],
             ["10 A=1", "20 IF A=1 THEN END ELSE A=5", "30 PRINT A"],
             ["10 FOR I=1 TO 3", '20 IF I=2 THEN PRINT "two":STOP ELSE PRINT "other";I', "30 NEXT I", '40 PRINT "end"'],
             ["10 A=0", '20 IF A=1 THEN PRINT "T" ELSE PRINT "F":STOP', '30 PRINT "after"'],
             ["10 A=1", '20 IF A=1 THEN IF A=1 THEN PRINT "TT":STOP ELSE PRINT "TF" ELSE PRINT "F"', '30 PRINT "after"'],
             # STOP as the very last statement of the program, at top level and inside a subroutine inside a loop
             ["10 A=1", "20 PRINT A:STOP"],
             ["10 FOR I=1 TO 2", "20 GOSUB 50", "30 NEXT I", '40 PRINT "DONE":END', '50 PRINT "SUB";I:STOP']]
    pi = nprog
    for prog in fixed:
        plain = [l.replace(":STOP", "").replace("THEN END ELSE", "THEN A=A ELSE").replace("STOP ELSE", "A=A ELSE") for l in prog]
        key = "\n".join(plain)
        ref = base_calls(plain) + [sess.E("RUN"), "R5000", sess.E(DUMP), "R5000"]
        cases.append(Case(sess.session(ref), sig=key, tag="reference", meta=("ref", pi, None)))
        conts = [sess.E("CONT"), "R5000"] if any("THEN END" in l for l in prog) else ["K5000"] * 6      # END stops without ?BREAK
        calls = base_calls(prog) + [sess.E("RUN"), "R5000"] + conts + [sess.E(DUMP), "R5000"]
        cases.append(Case(sess.session(calls), sig=key + "\n#with STOP/END: " + " / ".join(prog), tag="stop-cont", meta=("stop", pi, ("STOP", "if"))))
        pi += 1
    # programs that wait for a key (INKEY$): the interrupt arrives while the program waits, or at any instruction around
    # the wait; CONT must come back to the same wait, and the key given then must be the one the statement receives
    keyprogs = [(["10 PRINT \"a\";", "20 S$=INKEY$:PRINT \"<\";S$;\">\";", "30 A=A+1:IF A<3 THEN 20", "40 PRINT \"end\";A;"], ["x", "", "yz"]),
                (["10 T$=\"p\"+INKEY$+\"q\"+INKEY$:PRINT T$;", "20 PRINT LEN(T$);"], ["k", "\u00e9"]),
                (["10 FOR I%=1 TO 2:GOSUB 100:NEXT:PRINT \"done\";:END", "100 U$=U$+\"[\"+INKEY$+\"]\":PRINT LEN(U$);:RETURN"], ["1", "22"]),
                (["10 WHILE INKEY$<>\"q\":A=A+1:PRINT A;:WEND:PRINT \"out\";"], ["a", "b", "q"]),
                (["10 DIM P(3):P(LEN(INKEY$))=LEN(INKEY$)+7:PRINT P(0);P(1);P(2);"], ["k", "mm"])]
    for prog, keys in keyprogs:
        key = "\n".join(prog)
        ans = ["A5000:" + sess.hx(k) for k in keys]
        ref = base_calls(prog) + [sess.E("RUN"), "R5000"] + ans + [sess.E(DUMP), "R5000"]
        cases.append(Case(sess.session(ref), sig=key, tag="reference", meta=("ref", pi, None)))
        for j in range(len(keys)):
            for inspect in (False, True):
                # interrupt exactly while the j-th wait is pending
                c = base_calls(prog) + [sess.E("RUN"), "R5000"] + ans[:j] + ["I", "R5000"]
                c += ([sess.E("Q8=Q8+1"), "R5000"] if inspect else []) + [sess.E("CONT"), "R5000"] + ans[j:] + [sess.E(DUMP), "R5000"]
                cases.append(Case(sess.session(c), sig=key + "\n#interrupt while waiting for key %d%s" % (j + 1, " + inspect" if inspect else ""),
                                  tag="key-wait", meta=("interrupt", pi, 2 + j)))
        for k in range(2, 26):
            # interrupt after k single-instruction calls (calls made while a key is wanted ask for it again)
            c = base_calls(prog) + [sess.E("RUN")] + ["X1"] * k + ["I", "R5000", sess.E("CONT"), "R5000"] + ans + [sess.E(DUMP), "R5000"]
            cases.append(Case(sess.session(c), sig=key + "\n#interrupt after %d calls (key waits)" % k, tag="key-wait", meta=("interrupt", pi, k)))
        pi += 1
    return cases


STOP_CONTS = 40     # conditional CONTs sent after a run with an inserted STOP


def monitor(case, r):
    if r is None:
        return None
    if "PANIC" in r or "HANG" in r or "CRASH" in r:
        return "crash: %s answers %s" % (case.sig, r[-60:])
    if case.meta and case.meta[0] == "mistyped":
        text = transcript.printed_text(transcript.split_events(r))
        if re.search(r"E:\[0 - ", r):
            return None           # the interrupt hit the direct RUN command itself: nothing to continue
        if "E:[0 " in r and ("E:[17 " in r or "DONE" not in text):
            return "resume: a direct line that failed to compile cost the CONT point\n%s\n  %s" % (case.sig, sess.decode_events(r)[-300:])
    return None


def program_output(r, drop_break_blocks=True):
    """prints and prompts produced by the program and the final dump, without BREAK blocks,
    READY prompts and CAN'T CONTINUE answers"""
    ev = transcript.split_events(r)
    # skip the intro
    out = []
    i = 0
    seen_s = 0
    while i < len(ev) and seen_s < 1:
        if ev[i] == "S":
            seen_s += 1
        i += 1
    ev = ev[i:]
    text = []
    n = len(ev)
    j = 0
    while j < n:
        e = ev[j]
        if e.startswith("E:["):
            code = e[3:].split(" ")[0]
            if code in ("0",):
                # BREAK block: a forced newline may precede it
                if text and text[-1] == "P:0a" and getattr(program_output, "_col", 1):
                    pass
                text.append("<BREAK>")
            elif code == "17":
                text.append("<CANT>")
            else:
                text.append("ERR " + " ".join(e[3:].split(" ")[:2]))
        elif e.startswith("P:"):
            text.append(e)
        elif e.startswith("I:"):
            text.append(e)
        elif e == "C":
            text.append("C")
        j += 1
    return text


def flatten(items, keep_breaks=False):
    """program text: concatenate prints; remove READY prompts and refused CONTs; BREAK blocks become \x01"""
    s = ""
    for it in items:
        if it.startswith("P:"):
            s += bytes.fromhex(it[2:]).decode("utf-8", "replace")
        elif it == "<BREAK>":
            s += "\x01"
        elif it == "<CANT>":
            s += "\x02"
        elif it.startswith("I:"):
            s += "\x03" + it + "\x03"
        elif it == "C":
            s += "\x0c"
        else:
            s += "\x04" + it + "\x04"
    s = s.replace("READY.\n", "")
    s = s.replace("\x02", "")
    # a prompt is issued again by every execute call while the reply is pending, and once more after CONT
    s = re.sub(r"(\x03I:[0-9a-f]*:[01]\x03)(\x01?\1)+", lambda m: m.group(1) + ("\x01" if "\x01" in m.group(0) else ""), s)
    if not keep_breaks:
        s = s.replace("\x01", "")
    return s


def col_of(t):
    # an INPUT prompt resets the column
    t = t.split("\x03")[-1].split("\x0c")[-1]     # INPUT and CLS put the cursor in column 0
    return len(t) - (t.rfind("\n") + 1)


def matches_modulo_breaks(got_raw, want):
    """got_raw contains \x01 where a ?BREAK block was.  Before each one the interpreter forces a newline
    iff its cursor is not in column 0, and afterwards the cursor is in column 0.  True iff removing exactly
    those forced newlines gives `want`."""
    segs = got_raw.split("\x01")

    def go(i, acc):
        if not want.startswith(acc):
            return False
        if i == len(segs) - 1:
            return acc + segs[i] == want
        seg = segs[i]
        # column inside this segment (the cursor was in column 0 at its start, or the run just began)
        if col_of(seg) != 0:
            return False                      # the interpreter would have forced a newline here
        if go(i + 1, acc + seg):
            return True                       # the trailing newline (if any) was the program's own
        if seg.endswith("\n") and col_of(seg[:-1]) > 0 and go(i + 1, acc + seg[:-1]):
            return True                       # the trailing newline was forced by ?BREAK
        return False

    return go(0, "")


STATS = {}


def cross_monitor(cases, impl, model):
    fails = []
    refs = {}
    stats = {"quantum_compared": 0, "interrupt_compared": 0, "interrupt_in_flight": 0, "stop_compared": 0}
    for i, c in enumerate(cases):
        if c.meta and c.meta[0] == "ref":
            refs[c.meta[1]] = impl[i]
    for i, c in enumerate(cases):
        if not c.meta or impl[i] is None:
            continue
        kind, pi, arg = c.meta
        ref = refs.get(pi)
        if ref is None or "TIMEOUT" in ref or "TIMEOUT" in impl[i]:
            continue
        if kind == "quantum":
            stats["quantum_compared"] += 1
            a = [e for e in transcript.split_events(ref) if e != "r"]
            b = [e for e in transcript.split_events(impl[i]) if e != "r"]
            if a != b:
                fails.append((i, "slicing: with quantum %d the session differs from quantum 5000 for\n%s\n  q=5000: %s\n  q=%d: %s" % (
                    arg, c.sig, sess.decode_events("|".join(a))[-400:], arg, sess.decode_events("|".join(b))[-400:])))
        elif kind in ("interrupt", "stop"):
            if (kind == "interrupt" and arg < 2) or re.search(r"E:\[0 - ", impl[i]):
                # RUN itself is two instructions of direct-mode code (CLEAR, jump): an interrupt before the second one has run
                # stops the direct statement, not the program, and there is nothing to continue
                # the interrupt hit the direct-mode RUN / CONT command itself, before the program ran
                stats["interrupt_in_direct_mode"] = stats.get("interrupt_in_direct_mode", 0) + 1
                continue
            if kind == "interrupt":
                evs = transcript.after_first_stop(transcript.split_events(impl[i]))
                brk = next((j for j, e in enumerate(evs) if e.startswith("E:[0 ")), None)
                if brk is not None and ("S" in evs[:brk] or any(e.startswith("E:[") for e in evs[:brk])):
                    # the program had already ended when the interrupt arrived (interrupt at the prompt)
                    stats["interrupt_after_end"] = stats.get("interrupt_after_end", 0) + 1
                    continue
            if kind == "stop" and len(re.findall(r"E:\[0 ", impl[i])) > STOP_CONTS:
                # the inserted STOP sits in a loop that runs more often than CONTs were sent: the run is incomplete by construction
                stats["stop_out_of_conts"] = stats.get("stop_out_of_conts", 0) + 1
                continue
            if kind == "stop" and re.search(r"E:\[17 ", impl[i]):
                # every CONT of these sessions is typed directly behind a ?BREAK IN n: it must resume, wherever the STOP stands
                # (also as the very last statement of the program)
                fails.append((i, "resume: CONT typed directly after ?BREAK IN n was answered CAN'T CONTINUE\n%s\n  %s" % (
                    c.sig, sess.decode_events(impl[i])[-300:])))
                continue
            want = flatten(program_output(ref))
            got_raw = flatten(program_output(impl[i]), keep_breaks=True)
            if kind == "interrupt":
                stats["interrupt_compared"] += 1
                if "\x01" in got_raw:
                    stats["interrupt_in_flight"] += 1
            else:
                stats["stop_compared"] += 1
            if not matches_modulo_breaks(got_raw, want):
                fails.append((i, "transparency: %s\n  uninterrupted: %r\n  resumed:       %r" % (
                    c.sig, want[-300:], got_raw.replace("\x01", "<BREAK>")[-300:])))
    STATS.update(stats)
    return fails


def nontrivial(case, r):
    return r is not None and ("E:[0 " in r or (case.meta and case.meta[0] == "quantum"))
