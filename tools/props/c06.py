"""C06 -- variables and arrays are typed, zero-initialised, bounds-checked, never aliased."""
import math

from framework import Case
import sess
import transcript

PROPERTY = "C06"
THEOREM_FILE = "Props/C06.v"
INTERFACES = "L5 sessions of direct statements over scalar and array names of every type; a typed total map as reference"
PROFILES = ["dev"]
CASE_TIMEOUT = 0.3
MODEL_CASE_TIMEOUT = 3.0
RULE = ("sequences of 6-24 direct statements over the names {A,A1,AB,A!,A#,A%,A$,B,B2,F,FX,Z9,B$,AA,ABA,BAB} (names that begin and end with another name included) as scalars and arrays (1-3 dimensions): "
        "assignment of Integer / fractional / out-of-range / string values, reads, DIM, ERASE, DEFINT/DEFSNG/DEFDBL/DEFSTR ranges, SWAP, "
        "CLEAR, subscripts from {-1,0,1,10,11,1.5,\"x\"}; a reference store (typed total map with per-letter defaults, declared bounds, "
        "implicit bound 10) predicts every printed value and error; non-trivial = the sequence contains a DEFtype, DIM/ERASE or SWAP after at "
        "least one assignment; distinct = distinct sequences")
ASSUMPTIONS = ["values are small integers and halves so that number formatting is not in play (C11 covers it)"]
EXHAUSTIVE = {"quick": False, "thorough": False}

NAMES = ["A", "A1", "AB", "A!", "A#", "A%", "A$", "B", "B2", "F", "FX", "Z9", "B$", "AA", "ABA", "BAB"]
FAMILIES = [["A", "AA", "ABA", "A1"], ["A", "AB", "AA", "A$"], ["B", "BAB", "B2", "B$"], ["A%", "A", "AA", "A!"]]
ERR = {"overflow": 6, "type": 13, "subscript": 9, "redim": 10, "illegal": 5}


class Ref:
    def __init__(self):
        self.types = {}            # letter -> type
        self.scal = {}
        self.arr = {}              # name -> dict(index tuple -> value)
        self.dims = {}

    def vtype(self, name):
        suf = {"!": "sng", "#": "dbl", "%": "int", "$": "str"}.get(name[-1])
        return suf or self.types.get(name[0], "sng")

    def zero(self, name):
        return "" if self.vtype(name) == "str" else 0

    def convert(self, name, v):
        t = self.vtype(name)
        if t == "str":
            if not isinstance(v, str):
                return ("err", "type")
            return ("ok", v)
        if isinstance(v, str):
            return ("err", "type")
        if t == "int":
            f = math.floor(v)
            if not -32768 <= f <= 32767:
                return ("err", "overflow")
            return ("ok", f)
        return ("ok", v)

    def deftype(self, t, a, b):
        for c in range(ord(a), ord(b) + 1):
            old = self.types.get(chr(c), "sng")
            self.types[chr(c)] = t
        # values of unsuffixed variables whose type is now different are dropped
        for store in [self.scal] + list(self.arr.values()):
            pass
        for name in list(self.scal):
            if name[-1] not in "!#%$" and a <= name[0] <= b and not self.holds(name, self.scal[name]):
                del self.scal[name]
        for name in list(self.arr):
            if name[-1] not in "!#%$" and a <= name[0] <= b:
                for k in list(self.arr[name]):
                    if not self.holds(name, self.arr[name][k]):
                        del self.arr[name][k]

    def holds(self, name, v):
        t = self.vtype(name)
        if t == "str":
            return isinstance(v, str)
        if isinstance(v, str):
            return False
        if t == "int":
            return v == math.floor(v) and -32768 <= v <= 32767 and getattr(self, "_tag", {}).get(name, t) == t
        return getattr(self, "_tag", {}).get(name, t) == t


def fmt(v):
    if isinstance(v, str):
        return v
    if v == int(v):
        s = "%d" % int(v)
    else:
        s = repr(float(v))
    return (s if s.startswith("-") else " " + s) + " "


VALUES = [("5", 5), ("2.5", 2.5), ("-3", -3), ("0", 0), ("40000", 40000), ('"s"', "s"), ('""', ""), ("7.5", 7.5), ("-0.5", -0.5), ("123", 123)]
# a subscript is converted to a 16-bit Integer first: values outside -32768..32767 are an OVERFLOW, whatever the bound
SUBS = [("-1", None), ("0", 0), ("1", 1), ("10", 10), ("11", 11), ("1.5", 1), ('"x"', "type"), ("3", 3), ("20", 20),
        ("32767", 32767), ("32768", "overflow"), ("40000", "overflow"), ("65535", "overflow"), ("-40000", "overflow"), ("65536", "overflow"),
        ("-32768", None)]


def gen_session(rng, names=None, length=None):
    names = names or NAMES
    ref = Ref()
    tag = {}          # name/key -> type the stored value was converted to
    ref._tag = tag
    stmts = []
    expect = []       # per statement: ("print", text) | ("err", code) | ("none",)
    poisoned = set()  # arrays whose implicit dimensioning happened in a failed access (left unspecified)
    for _ in range(length or rng.randint(6, 24)):
        r = rng.random()
        name = rng.choice(names)
        if r < 0.28:
            lit, v = rng.choice(VALUES)
            stmts.append("%s=%s" % (name, lit))
            res = ref.convert(name, v)
            if res[0] == "ok":
                ref.scal[name] = res[1]
                tag[name] = ref.vtype(name)
                expect.append(("none",))
            else:
                expect.append(("err", ERR[res[1]]))
        elif r < 0.45:
            stmts.append('PRINT "<";%s;">"' % name)
            expect.append(("print", "<%s>\n" % fmt(ref.scal.get(name, ref.zero(name)))))
        elif r < 0.72:
            # array access
            nd = len(ref.dims[name]) if name in ref.dims and rng.random() < 0.85 else rng.choice([1, 1, 2, 3])
            subs = [rng.choice(SUBS) for _ in range(nd)]
            text = "%s(%s)" % (name, ",".join(s for s, _ in subs))
            write = rng.random() < 0.5
            lit, v = rng.choice(VALUES)
            stmts.append("%s=%s" % (text, lit) if write else 'PRINT "<";%s;">"' % text)
            if name in poisoned:
                expect.append(("any",))
                continue
            # subscripts are evaluated (and converted) first
            err = None
            idx = []
            for s, val in subs:
                if val == "type":
                    err = "type"
                    break
                if val == "overflow":
                    err = "overflow"
                    break
                if val is None:
                    err = "subscript"
                    break
                idx.append(val)
            if err is None:
                if name not in ref.dims:
                    ref.dims[name] = [10] * nd
                    ref.arr[name] = {}
                d = ref.dims[name]
                if len(d) != nd or any(i > b for i, b in zip(idx, d)):
                    err = "subscript"
            elif name not in ref.dims:
                poisoned.add(name)      # whether a failed first access dimensions the array is not specified
            if err:
                expect.append(("err", ERR[err]))
                continue
            key = tuple(idx)
            if write:
                res = ref.convert(name, v)
                if res[0] == "ok":
                    if res[1] in (0, ""):
                        ref.arr[name].pop(key, None)
                    else:
                        ref.arr[name][key] = res[1]
                        tag[(name, key)] = ref.vtype(name)
                    expect.append(("none",))
                else:
                    expect.append(("err", ERR[res[1]]))
            else:
                expect.append(("print", "<%s>\n" % fmt(ref.arr[name].get(key, ref.zero(name)))))
        elif r < 0.8:
            nd = rng.choice([1, 1, 2])
            bounds = [rng.choice([0, 1, 3, 10, 20]) for _ in range(nd)]
            if rng.random() < 0.08:
                # a bound outside the 16-bit range is an OVERFLOW and dimensions nothing
                bounds[rng.randrange(nd)] = rng.choice([32768, 40000, 65535])
                stmts.append("DIM %s(%s)" % (name, ",".join(str(b) for b in bounds)))
                expect.append(("any",) if name in poisoned else ("err", ERR["redim"]) if name in ref.dims else ("err", ERR["overflow"]))
                continue
            stmts.append("DIM %s(%s)" % (name, ",".join(str(b) for b in bounds)))
            if name in poisoned:
                expect.append(("any",))
            elif name in ref.dims:
                expect.append(("err", ERR["redim"]))
            else:
                ref.dims[name] = bounds
                ref.arr[name] = {}
                expect.append(("none",))
        elif r < 0.85:
            stmts.append("ERASE %s" % name)
            if name in poisoned:
                expect.append(("any",))
                poisoned.discard(name)
                ref.dims.pop(name, None)
                ref.arr.pop(name, None)
            elif name in ref.dims:
                del ref.dims[name]
                del ref.arr[name]
                expect.append(("none",))
            else:
                expect.append(("err", ERR["illegal"]))
        elif r < 0.93:
            t, kw = rng.choice([("int", "DEFINT"), ("sng", "DEFSNG"), ("dbl", "DEFDBL"), ("str", "DEFSTR")])
            a, b = sorted(rng.sample("ABFZ", 2)) if rng.random() < 0.5 else (name[0], name[0])
            stmts.append("%s %s" % (kw, a if a == b else a + "-" + b))
            # which stored values survive: those whose recorded type still equals the variable's type
            for c in range(ord(a), ord(b) + 1):
                ref.types[chr(c)] = t
            for n2 in list(ref.scal):
                if n2[-1] not in "!#%$" and a <= n2[0] <= b and tag.get(n2) != t:
                    del ref.scal[n2]
            for n2 in list(ref.arr):
                if n2[-1] not in "!#%$" and a <= n2[0] <= b:
                    for k in list(ref.arr[n2]):
                        if tag.get((n2, k)) != t:
                            del ref.arr[n2][k]
            expect.append(("none",))
        elif r < 0.98:
            other = rng.choice(names)
            stmts.append("SWAP %s,%s" % (name, other))
            va, vb = ref.scal.get(name, ref.zero(name)), ref.scal.get(other, ref.zero(other))
            if ref.vtype(name) == ref.vtype(other):
                for n2, v in ((name, vb), (other, va)):
                    if v in (0, ""):
                        ref.scal.pop(n2, None)
                    else:
                        ref.scal[n2] = v
                        tag[n2] = ref.vtype(n2)
                expect.append(("none",))
            else:
                expect.append(("err", ERR["type"]))
        else:
            stmts.append("CLEAR")
            ref.__init__()
            tag.clear()
            ref._tag = tag
            poisoned.clear()
            expect.append(("none",))
    return stmts, expect


def gen(tier, rng):
    cases = []
    n = 1500 if tier == "quick" else 60000
    # a quarter of the sessions stay inside one family of names that contain each other (A, AA, ABA, A1 ...): storage keys
    # are built from the names, so a sloppy key match (prefix, suffix, both) shows as one name's ERASE / DIM / assignment
    # reaching a neighbour's scalars or elements
    for si in range(n):
        if si % 4 == 3:
            fam = rng.choice(FAMILIES)
            stmts, expect = gen_session(rng, names=fam, length=rng.randint(14, 30))
        else:
            stmts, expect = gen_session(rng)
        calls = ["R5000"]
        for s in stmts:
            calls += [sess.E(s), "R5000"]
        cases.append(Case(sess.session(calls), sig=" / ".join(stmts), tag="sequence", meta=("seq", stmts, expect)))
    # a function parameter is a variable like any other: it has the type its own name gives it under the DEFtype statements in
    # force (not the type of the function's name), also when the value passed is 0 or "" and nothing is stored for it
    PARAMS = [
        (["DEFSTR F", "DEF FNA(X)=X+1", "PRINT FNA(1);FNA(0)"], " 2  1 \n"),
        (["DEFDBL F", "DEF FNA(X)=X+0.1", "PRINT FNA(0)"], " 0.1 \n"),
        (["DEFINT F", "DEF FNB(X)=X+.5", "PRINT FNB(0);FNB(1)"], " 0.5  1.5 \n"),
        (["DEFSTR X", 'DEF FNA(X)=X+"a"', 'PRINT FNA("");FNA("b")'], "aba\n"),
        (["DEFSTR A-Z", "DEF FNA(X!)=X!+1", "PRINT STR$(FNA(0))"], " 1\n"),
        (["DEFINT X", "DEFSTR F", "DEF FNA$(X)=STR$(X/2)", "PRINT FNA$(0);FNA$(3)"], " 0 1.5\n"),
        (["DEFDBL X", "DEF FNA(X)=X+1/3", "PRINT FNA(0)"], " 0.3333333432674408 \n"),
        (["DEFSTR N", "DEF FNA(X,Y)=X*10+Y", "PRINT FNA(0,0);FNA(0,1);FNA(1,0)"], " 0  1  10 \n"),
    ]
    for stmts, want in PARAMS:
        for pre in ([], ["X=5:Y=6"], ["CLEAR"]):
            if pre and pre[0].startswith("X=") and any("DEFSTR X" in t or "DEFSTR A-Z" in t for t in stmts):
                continue
            # the DEFtype statements come first; a value in the global of the parameter's name must not matter
            k = max(i for i, t in enumerate(stmts) if t.startswith("DEF") and not t.startswith("DEF FN")) + 1
            seq = stmts[:k] + pre + stmts[k:]
            if pre == ["CLEAR"]:
                seq = pre + stmts
            seq = ["%d %s" % (10 * (i + 1), t) for i, t in enumerate(seq)] + ["RUN"]      # DEF FN is a program statement
            expect = [("none",)] * (len(seq) - 1) + [("print", want)]
            calls = ["R5000"]
            for t in seq:
                calls += [sess.E(t), "R5000"]
            cases.append(Case(sess.session(calls), sig=" / ".join(seq), tag="parameter", meta=("seq", seq, expect)))
    return cases


def monitor(case, r):
    if r is None:
        return None
    if "PANIC" in r.split("|") or "HANG" in r.split("|") or r in ("PANIC", "HANG", "CRASH"):
        return "crash: %s answers ...%s" % (case.sig, sess.decode_events(r)[-200:])
    _, stmts, expect = case.meta
    ev = transcript.after_first_stop(transcript.split_events(r))
    groups = []
    cur = []
    for e in ev:
        if e == "S":
            groups.append(cur)
            cur = []
        else:
            cur.append(e)
    if len(groups) != len(stmts):
        return "shape: %d statements gave %d answers: %s" % (len(stmts), len(groups), case.sig)
    for k, (g, s, e) in enumerate(zip(groups, stmts, expect)):
        if e[0] == "any":
            continue
        text = transcript.printed_text(g).replace("READY.\n", "")
        errs = [x for x in g if x.startswith("E:[")]
        if e[0] == "none" and (errs or text.strip()):
            return "store: step %d (%s) of [%s] must succeed silently, got %s" % (k + 1, s, " / ".join(stmts[:k + 1]), sess.decode_events("|".join(g)))
        if e[0] == "err" and (not errs or not errs[0].startswith("E:[%d " % e[1])):
            return "error: step %d (%s) of [%s] must be error %d, got %s" % (k + 1, s, " / ".join(stmts[:k + 1]), e[1], sess.decode_events("|".join(g)))
        if e[0] == "print" and (errs or text != e[1]):
            return "value: step %d (%s) of [%s] must print %r, got %r %s" % (k + 1, s, " / ".join(stmts[:k + 1]), e[1], text, errs[:1])
    return None


def nontrivial(case, r):
    return r is not None and any(k in case.sig for k in ("DEF", "DIM", "ERASE", "SWAP"))
