"""C04 -- what runs is always the program that LIST shows."""
from framework import Case
import framework
import sess
import transcript

PROPERTY = "C04"
THEOREM_FILE = "Props/C04.v"
INTERFACES = "L5 sessions: edit histories through Runtime::enter / set_listing, Runtime::get_listing text typed into a fresh interpreter"
PROFILES = ["dev"]
CASE_TIMEOUT = 0.5
MODEL_CASE_TIMEOUT = 5.0
RULE = ("histories of 2-9 operations over the line universe {10..60,100}: insert/replace, bare-number delete of present and absent lines, "
        "DELETE ranges, RENUM, NEW, load, intermediate RUNs (also stopped by STOP inside a GOSUB inside a FOR), direct statements; each "
        "ends with RUN or RUN n and is compared with a fresh interpreter into which the listing text was typed; after every kind of edit "
        "CONT / RETURN / NEXT / FN-call must be refused; non-trivial = the history contains at least one edit after a compile; "
        "distinct = distinct histories")
ASSUMPTIONS = ["listing text is taken from Runtime::get_listing() and re-typed through Runtime::enter"]
EXHAUSTIVE = {"quick": False, "thorough": False}
MARK = "@@FIN@@"
UNIVERSE = [5, 10, 15, 20, 30, 40, 50, 60, 100]      # RENUM moves some of these and leaves others where they are


def body(rng, n):
    r = rng.random()
    t = rng.choice(UNIVERSE)
    if r < 0.45:
        return 'PRINT "%s%d"' % (rng.choice("abcdef"), n)
    if r < 0.55:
        return "GOTO %d" % t
    if r < 0.62:
        return "GOSUB %d" % t
    if r < 0.68:
        return "RETURN"
    if r < 0.74:
        return 'IF Z<2 THEN Z=Z+1:PRINT "z";Z:GOTO %d' % t
    if r < 0.8:
        return "END"
    if r < 0.86:
        return "DATA %d" % n + ":READ Q:PRINT Q"
    if r < 0.9:
        return "RESTORE %d" % t
    if r < 0.94:
        return "ON Z GOTO %d,%d" % (t, rng.choice(UNIVERSE))
    if r < 0.96:
        return "DEF FNA(X)=X+%d" % n          # definitions live in the run, not in the listing: RUN n behind one must not see it
    if r < 0.98:
        return 'PRINT "f";FNA(1)'
    return 'A=A+1:PRINT "A";A'


def edit_op(rng):
    """returns (calls, is_edit)"""
    r = rng.random()
    n = rng.choice(UNIVERSE)
    if r < 0.4:
        return [sess.E("%d %s" % (n, body(rng, n)))], True
    if r < 0.55:
        return [sess.E("%d" % rng.choice(UNIVERSE + [15, 70, 5]))], True
    if r < 0.63:
        a = rng.choice(UNIVERSE)
        form = rng.choice(["%d" % a, "%d-" % a, "-%d" % a, "%d-%d" % (min(a, n), max(a, n))])
        return [sess.E("DELETE " + form), "R100"], True
    if r < 0.71:
        form = rng.choice(["RENUM", "RENUM", "RENUM 100", "RENUM 100,20", "RENUM 5,0,5", "RENUM 1000,30,10", "RENUM 10,10,10", "RENUM 20,15,10", "RENUM 10,0,5"])
        return [sess.E(form), "R100"], True
    if r < 0.75:
        return [sess.E("NEW"), "R100"], True
    if r < 0.8:
        text = "".join("%d %s\n" % (k, body(rng, k)) for k in sorted(rng.sample(UNIVERSE, rng.randint(1, 4))))
        return ["L:%s:0" % sess.hx(text)], True
    if r < 0.9:
        return [sess.E(rng.choice(["RUN", "RUN %d" % n])), "R100"], False
    return [sess.E(rng.choice(['PRINT "d"', "A=5", "Z=0", "GOTO %d" % n, "GOSUB %d" % n, "LIST", "CLEAR", "X=1:Y=2"])), "R100"], False


STALE_PROG = ["10 DEF FNA(X)=X+1", "20 FOR I=1 TO 3", "30 GOSUB 100", "40 NEXT I", "50 END", "100 PRINT \"S\";I", "110 STOP", "120 RETURN"]
STALE_EDITS = [("insert", [sess.E('45 PRINT "new"')]), ("replace", [sess.E('100 PRINT "T";I')]), ("delete", [sess.E("120")]),
               ("delete-absent", [sess.E("45")]), ("DELETE", [sess.E("DELETE 40"), "R100"]), ("RENUM", [sess.E("RENUM"), "R100"]),
               # renumbering that moves every line but the last one (10..120 -> 50..120)
               ("RENUM-last-stays", [sess.E("RENUM 50,10,10"), "R100"]),
               ("NEW", [sess.E("NEW"), "R100"]), ("load", ["L:%s:0" % sess.hx('10 PRINT "L"\n20 PRINT "M"\n')]),
               ("insert-first", [sess.E('5 PRINT "first"')])]
STALE_PROBES = [("CONT", 17), ("RETURN", 3), ("NEXT", 1), ("NEXT I", 1), ("PRINT FNA(1)", 18)]


def gen(tier, rng):
    cases = []
    n = 400 if tier == "quick" else 20000
    for hi in range(n):
        calls = ["R100"]
        nedits = 0
        for k in sorted(rng.sample(UNIVERSE, rng.randint(2, 5))):
            calls.append(sess.E("%d %s" % (k, body(rng, k))))
        if rng.random() < 0.6:
            calls += [sess.E("RUN"), "R100"]
        for _ in range(rng.randint(1, 7)):
            c, is_edit = edit_op(rng)
            calls += c
            nedits += 1 if is_edit else 0
        fin = rng.choice(["RUN", "RUN", "RUN %d" % rng.choice(UNIVERSE)])
        calls += ["T", sess.E('PRINT "%s"' % MARK), "R100", sess.E(fin), "R100"]
        cases.append(Case(sess.session(calls), sig="history %d ending in %s" % (hi, fin), tag="history",
                          meta=("hist", hi, fin)))
    # histories whose "edits" change nothing (deleting absent lines, retyping a line as it is) after a run that left definitions,
    # variables, a DATA position and type defaults behind: RUN n must still behave as in a fresh interpreter with this listing
    KEEP = ['10 DEF FNA(X)=X+1', '20 DEFINT Q:Q=2.6:A=7:DIM Z(3):Z(1)=5', '30 DATA 11,12', '40 READ D', '50 PRINT "f";FNA(1);Q;A;Z(1);D', '60 END']
    NOOPS = [sess.E("15"), sess.E("45"), sess.E("LIST"), sess.E('PRINT "d"'), sess.E("70"), sess.E("CLEAR"), sess.E("GOTO 60"), sess.E("X=1"),
             # a replacement that changes nothing but the letter case inside a string or a remark is an edit like any other
             sess.E('50 PRINT "F";FNA(1);Q;A;Z(1);D'), sess.E('60 END \' Done'), sess.E('30 DATA 11,12'), sess.E('50 PRINT "f";FNA(1);Q;A;Z(1);D')]
    # a direct line that is rejected (DATA is not allowed there) is no edit either, and leaves nothing in the program
    NOOPS += [sess.E("DATA 99"), sess.E("IF 1 THEN DATA 7,8"), sess.E('DATA "z"')]
    KEEP2 = KEEP[:3] + ['40 READ D,E', '45 PRINT "g";D;E:READ F:PRINT F', '50 PRINT "f";FNA(1);Q;A;Z(1);D', '60 END']
    for hi in range(40 if tier == "quick" else 1500):
        calls = ["R100"] + [sess.E(l) for l in (KEEP if hi % 2 == 0 else KEEP2)] + [sess.E("RUN"), "R100"]
        for _ in range(rng.randint(0, 3)):
            calls += [rng.choice(NOOPS), "R100"]
        if hi % 8 == 1:
            calls += [rng.choice(NOOPS[-3:]), "R100"]       # always some histories with a rejected direct DATA line last
        fin = rng.choice(["RUN 50", "RUN 40", "RUN 20", "RUN", "RUN 60"])
        if hi % 8 == 1:
            fin = rng.choice(["RUN", "RUN 40"])
        calls += ["T", sess.E('PRINT "%s"' % MARK), "R100", sess.E(fin), "R100"]
        cases.append(Case(sess.session(calls), sig="no-op history %d ending in %s" % (hi, fin), tag="history", meta=("hist", 100000 + hi, fin)))
    # stale resumption after an edit
    for ename, ecalls in STALE_EDITS:
        for probe, code in STALE_PROBES:
            if ename == "delete-absent" and probe != "CONT":
                continue      # the program was not edited: its frames still belong to the current compile
            calls = ["R100"] + [sess.E(l) for l in STALE_PROG] + [sess.E("RUN"), "R100"] + ecalls + [sess.E('PRINT "%s"' % MARK), "R100", sess.E(probe), "R100"]
            cases.append(Case(sess.session(calls), sig="run stopped inside GOSUB inside FOR; %s; %s" % (ename, probe), tag="stale",
                              meta=("stale", ename, (probe, code))))
    # direct statements do not alter the stored program
    for di in range(60 if tier == "quick" else 2000):
        calls = ["R100"]
        for k in sorted(rng.sample(UNIVERSE, rng.randint(2, 5))):
            calls.append(sess.E("%d %s" % (k, body(rng, k))))
        calls.append("T")
        for _ in range(rng.randint(1, 5)):
            calls += [sess.E(rng.choice(['PRINT "d"', "A=5:B$=\"x\"", "RUN", "GOTO 10", "GOSUB 20", "LIST", "CLEAR", "DIM Q(5)", "FOR I=1 TO 2:NEXT",
                                         "CONT", "RETURN", "READ Z", "RESTORE", "DEFINT A", "TRON", "TROFF", "LIST 20-", "SAVE \"x\"", "STOP", "END",
                                         "INPUT Z", "PRINT 1E400", "PRINT 1/0", "X=", "RUN 20"])), "R100", "A5000:" + sess.hx("1")]
        calls.append("T")
        cases.append(Case(sess.session(calls), sig="direct statements %d" % di, tag="direct-preserve", meta=("direct", di, None)))
    return cases


def after_mark(ev):
    mark = sess.hx(MARK)
    for i, e in enumerate(ev):
        if e.startswith("P:") and mark in e:
            for j in range(i, len(ev)):
                if ev[j] == "S":
                    return ev[j + 1:]
    return None


def second_phase(cases, impl, rng):
    more = []
    for i, c in enumerate(cases):
        if c.meta and c.meta[0] == "hist" and impl[i]:
            ev = transcript.split_events(impl[i])
            ts = [e for e in ev if e.startswith("T:")]
            if not ts:
                continue
            text = bytes.fromhex(ts[-1][2:]).decode("utf-8")
            calls = ["R100"] + [sess.E(l) for l in text.split("\n") if l] + [sess.E('PRINT "%s"' % MARK), "R100", sess.E(c.meta[2]), "R100"]
            more.append(Case(sess.session(calls), sig=c.sig + " (fresh)\n" + text, tag="fresh", meta=("fresh", c.meta[1], i)))
    return more


def monitor(case, r):
    if r is None:
        return None
    if "PANIC" in r or "HANG" in r or "CRASH" in r:
        return "crash: %s answers %s" % (case.sig, r[-60:])
    if case.meta and case.meta[0] == "stale":
        probe, code = case.meta[2]
        ev = after_mark(transcript.split_events(r))
        if ev is None:
            return "stale: marker missing in %s" % sess.decode_events(r)[-200:]
        errs = [e for e in ev if e.startswith("E:[")]
        if not errs or not errs[0].startswith("E:[%d " % code) or any(e.startswith("P:") and e not in ("P:0a", "P:" + sess.hx("READY.\n"), "P:" + sess.hx("\nREADY.\n")) for e in ev):
            return "stale: %s -- expected only error %d, got %s" % (case.sig, code, sess.decode_events("|".join(ev))[:300])
    if case.meta and case.meta[0] == "direct":
        ts = [e for e in transcript.split_events(r) if e.startswith("T:")]
        if len(ts) == 2 and ts[0] != ts[1]:
            return "direct: direct statements changed the stored program: %s" % sess.decode_events(r)[-400:]
    return None


STATS = {}


def cross_monitor(cases, impl, model):
    fails = []
    stats = {"histories_compared": 0}
    for i, c in enumerate(cases):
        if c.meta and c.meta[0] == "fresh" and impl[i]:
            j = c.meta[2]
            a = after_mark(transcript.split_events(framework.default_canon(None, impl[j])))
            b = after_mark(transcript.split_events(framework.default_canon(None, impl[i])))
            if a is None or b is None:
                continue
            stats["histories_compared"] += 1
            if a != b:
                fails.append((j, "stale program: %s\n  after the history:          %s\n  fresh, same listing typed:  %s\n  listing:\n%s\n  history: %s" % (
                    cases[j].sig, sess.decode_events("|".join(a))[:400], sess.decode_events("|".join(b))[:400],
                    c.sig.split("(fresh)\n")[1], sess.decode_events(impl[j])[-900:])))
    STATS.update(stats)
    return fails


def nontrivial(case, r):
    return r is not None and case.meta is not None and case.meta[0] in ("hist", "stale")
