"""C09 -- READ consumes DATA in source order; RESTORE and RUN reposition it."""
from framework import Case
import semcheck
import sess

PROPERTY = "C09"
THEOREM_FILE = "Props/C09.v"
INTERFACES = "L5 sessions; L4 compile dump (data segment, RESTORE operands); reference semantics Spec/Sem.v (flat list of constants in source order)"
PROFILES = ["dev"]
CASE_TIMEOUT = 0.3
MODEL_CASE_TIMEOUT = 3.0
RULE = ("programs with 1-6 DATA lines placed before, between and after the reading code (also inside IF branches and after END), "
        "0-8 constants of every type each, READ lists into every variable type, RESTORE / RESTORE n sequences, loops that read, "
        "preceded by random edit histories (replace, delete, re-enter, an earlier RUN); sessions in which a program stops after k READs "
        "(STOP, END, error) and direct-mode READ / RESTORE / CLEAR / CONT follow, with an index-naming oracle for the pointer; non-trivial = at least two READs executed "
        "or an OUT OF DATA / conversion error; distinct = distinct final program + history")
ASSUMPTIONS = ["edit histories are replayed through Runtime::enter; the reference run uses the final listing"]
EXHAUSTIVE = {"quick": False, "thorough": False}

NUM_CONST = ["1", "2", "-3", "4.5", "-0.5", "100", "32767", "-32768", "40000", "1E10", "2#", "3%", "7!", "&HF", "0", "65536.5"]
STR_CONST = ['"a"', '"b c"', '""', '"é日"', '"1,2"', '"D"']
NUM_TARGETS = ["A", "B", "I%", "J%", "D#", "V!", "P(1)", "P(I%)"]
STR_TARGETS = ["S$", "T$", "R$(2)"]


def gen_program(rng):
    """returns (final program lines, history calls or None, inputs)"""
    lines = {}
    n_data = rng.randint(1, 6)
    slots = list(range(10, 400, 10))
    rng.shuffle(slots)
    data_lines = sorted(slots[:n_data])
    code_lines = sorted(slots[n_data:n_data + rng.randint(3, 9)])
    consts_by_line = {}
    for dl in data_lines:
        k = rng.randint(0, 5)
        items = []
        for _ in range(max(1, k)):
            items.append(rng.choice(NUM_CONST) if rng.random() < 0.65 else rng.choice(STR_CONST))
        consts_by_line[dl] = items
        form = rng.random()
        if form < 0.8:
            lines[dl] = "DATA " + ",".join(items)
        elif form < 0.9:
            lines[dl] = "IF Q9=1 THEN DATA %s ELSE DATA %s" % (",".join(items[:1]), ",".join(items[1:] or ["9"]))
        else:
            lines[dl] = "PRINT \"x\";:DATA " + ",".join(items)
    all_lines = sorted(set(data_lines + code_lines))
    for cl in code_lines:
        r = rng.random()
        stmts = []
        for _ in range(rng.randint(1, 3)):
            r = rng.random()
            if r < 0.5:
                n = rng.randint(1, 3)
                vs = [rng.choice(NUM_TARGETS) if rng.random() < 0.7 else rng.choice(STR_TARGETS) for _ in range(n)]
                stmts.append("READ " + ",".join(vs))
                stmts.append("PRINT " + ";".join(v for v in vs))
            elif r < 0.65:
                stmts.append("RESTORE")
            elif r < 0.85:
                stmts.append("RESTORE %d" % rng.choice(all_lines))
            elif r < 0.92:
                stmts.append("FOR K=1 TO 2:READ X:PRINT X;:NEXT")
            elif r < 0.96:
                stmts.append("CLEAR")              # rewinds the pointer like RUN does (and forgets every variable)
            else:
                stmts.append("I%%=%d" % rng.randint(0, 3))
        lines[cl] = ":".join(stmts)
    if rng.random() < 0.2:
        lines[sorted(lines)[len(lines) // 2]] = "END"
    final = ["%d %s" % (n, lines[n]) for n in sorted(lines)]
    history = None
    if rng.random() < 0.6:
        calls = []
        order = list(sorted(lines))
        rng.shuffle(order)
        junk = []
        for n in order:
            if rng.random() < 0.25:
                calls.append(sess.E("%d DATA 99,98" % n))          # will be replaced
            calls.append(sess.E("%d %s" % (n, lines[n])))
            if rng.random() < 0.15:
                j = n + 5
                junk.append(j)
                calls.append(sess.E("%d DATA \"junk\",7" % j))
            if rng.random() < 0.1:
                calls += [sess.E("RUN"), "R5000"]
            if rng.random() < 0.08:
                calls.append(sess.E("%d" % (n + 1)))               # delete an absent line
        for j in junk:
            calls.append(sess.E("%d" % j))
        if rng.random() < 0.3:
            calls += [sess.E("READ Z:PRINT Z"), "R5000"]
        history = calls
    return final, history


def pointer_sessions(rng, n):
    """The DATA pointer belongs to the run, not to the line being executed: a program that has read k constants and stops
    (STOP, END, an error) leaves the pointer at k for direct-mode READs and for CONT; only RESTORE, CLEAR and RUN move it back.
    Oracle: the constants are the integers 101, 102, ... in source order, so every printed number names its own index."""
    out = []
    for _ in range(n):
        total = rng.randint(4, 9)
        consts = [101 + i for i in range(total)]
        k = rng.randint(1, min(3, total - 2))
        split = rng.randint(0, total)
        lines = []
        if split:
            lines.append("5 DATA " + ",".join(str(c) for c in consts[:split]))
        lines.append("10 " + ":".join("READ A:PRINT A" for _ in range(k)))
        stopper = rng.choice(["STOP", "STOP", "END", "NEXT"])
        lines.append("20 " + stopper)
        lines.append("30 READ B:PRINT B")
        lines.append("40 END")
        if split < total:
            lines.append("50 DATA " + ",".join(str(c) for c in consts[split:]))
        calls = ["R5000"] + [sess.E(l) for l in lines] + [sess.E("RUN"), "R5000"]
        expect = list(consts[:k])
        pos = k
        direct = []
        ghost = False
        for _ in range(rng.randint(1, 4)):
            r = rng.random()
            if r < 0.45 and pos < total:
                calls += [sess.E("READ C:PRINT C"), "R5000"]
                direct.append("READ C:PRINT C")
                expect.append(consts[pos])
                pos += 1
            elif r < 0.55:
                calls += [sess.E("PRINT 7"), "R5000"]
                direct.append("PRINT 7")
                expect.append(7)
            elif r < 0.6:
                # DATA at the prompt is ILLEGAL DIRECT: nothing is printed and the program's constants stay what they are
                calls += [sess.E(rng.choice(["DATA 150,151", "IF 0 THEN DATA 160"])), "R5000"]
                direct.append("DATA ... (refused)")
                ghost = True
            elif r < 0.75:
                calls += [sess.E("RESTORE:READ C:PRINT C"), "R5000"]
                direct.append("RESTORE:READ C:PRINT C")
                expect.append(consts[0])
                pos = 1
            elif r < 0.85:
                calls += [sess.E("CLEAR"), "R5000"]
                direct.append("CLEAR")
                pos = 0
                stopper = "done"        # CLEAR also forgets where to continue
            elif stopper == "STOP" and pos < total:
                calls += [sess.E("CONT"), "R5000"]
                direct.append("CONT")
                expect.append(consts[pos])
                pos += 1
                stopper = "done"
        if pos < total:
            calls += [sess.E("READ C:PRINT C"), "R5000"]
            direct.append("READ C:PRINT C")
            expect.append(consts[pos])
            pos += 1
        if ghost or rng.random() < 0.3:
            # read everything that is left, then once more: OUT OF DATA, nothing printed
            while pos < total:
                calls += [sess.E("READ C:PRINT C"), "R5000"]
                direct.append("READ C:PRINT C")
                expect.append(consts[pos])
                pos += 1
            calls += [sess.E("READ C:PRINT C"), "R5000"]
            direct.append("READ C:PRINT C (past the end)")
        out.append(Case(sess.session(calls), sig="pointer: " + " / ".join(lines) + " ; RUN ; " + " ; ".join(direct),
                        tag="pointer", meta=("pointer", expect)))
    return out


def overrun_sessions(rng, n):
    """A READ that fails with OUT OF DATA leaves the pointer at the end of the constants: when DATA lines are then added behind the
    old ones, the next READ (without RUN, CLEAR or RESTORE) delivers the first new constant, however many READs failed before."""
    out = []
    for _ in range(n):
        k = rng.randint(1, 3)
        m = rng.randint(1, 3)
        consts = [101 + i for i in range(k + m)]
        lines = ["10 DATA " + ",".join(str(c) for c in consts[:k]), "30 READ A:PRINT A:GOTO 30"]
        calls = ["R5000"] + [sess.E(l) for l in lines] + [sess.E("RUN"), "R5000"]
        steps = ["RUN"]
        expect = list(consts[:k])
        for _ in range(rng.randint(0, 2)):
            calls += [sess.E("READ C:PRINT C"), "R5000"]        # fails again, prints nothing
            steps.append("READ C:PRINT C")
        calls.append(sess.E("20 DATA " + ",".join(str(c) for c in consts[k:])))
        steps.append("20 DATA " + ",".join(str(c) for c in consts[k:]))
        if rng.random() < 0.5:
            calls += [sess.E("GOTO 30"), "R5000"]
            steps.append("GOTO 30")
            expect += consts[k:]
        else:
            for c in consts[k:]:
                calls += [sess.E("READ C:PRINT C"), "R5000"]
                steps.append("READ C:PRINT C")
                expect.append(c)
        out.append(Case(sess.session(calls), sig="pointer: " + " / ".join(lines) + " ; " + " ; ".join(steps), tag="pointer-overrun",
                        meta=("pointer", expect)))
    return out


def gen(tier, rng):
    cases = pointer_sessions(rng, 150 if tier == "quick" else 4000) + overrun_sessions(rng, 60 if tier == "quick" else 1500)
    n = 400 if tier == "quick" else 15000
    for _ in range(n):
        final, history = gen_program(rng)
        cases.extend(semcheck.cases_for(final, [], rng, prefix=history, quanta=(5000,)))
        if rng.random() < 0.3:
            cases.append(Case(sess.compile_case(final), sig="compile\n" + "\n".join(final), tag="compile"))
    return cases


def monitor(case, r):
    v = semcheck.crash_monitor(case, r)
    if v:
        return v
    if case.meta and case.meta[0] == "pointer" and r is not None:
        import re
        import transcript
        text = transcript.printed_text(transcript.split_events(r))
        got = [int(x) for x in re.findall(r"(?<![\d.])-?\d+(?![\d.])", text.replace("64K BASIC", "").replace("0.7.1", ""))
               if int(x) == 7 or 100 < int(x) < 200]
        want = case.meta[1]
        if got != want:
            return "pointer: %s\n  must print the constants %s, printed %s" % (case.sig, want, got)
    return None


STATS = {}


def cross_monitor(cases, impl, model):
    return semcheck.cross_monitor(cases, impl, model, STATS)


def nontrivial(case, r):
    return r is not None and (r.count("P:") >= 5 or "E:[4 " in r or "E:[13 " in r or "E:[6 " in r)
