"""C20 -- branches resolve by line number, independent of program layout."""
import re

from framework import Case
import framework
import gen_prog
import sess
import transcript

PROPERTY = "C20"
THEOREM_FILE = "Props/C20.v"
INTERFACES = "L5 sessions: the same program under layout transformations; L4 compile dumps of the transformed programs"
PROFILES = ["dev"]
CASE_TIMEOUT = 0.5
MODEL_CASE_TIMEOUT = 5.0
RULE = ("generated programs, each under: REM / empty / unreachable line insertion at every gap, splitting of multi-statement lines "
        "without IF, a different numbering (start, step) of the same labelled layout, extra unrelated program text in memory while a "
        "direct statement list runs, and direct execution vs a one-line program; transcripts must agree modulo reported line numbers; "
        "non-trivial = the program branches (GOTO/GOSUB/ON/IF THEN n/loops) at least once; distinct = (program, transformation)")
ASSUMPTIONS = ["TRON output and error line numbers are mapped through the line correspondence of the transformation"]
EXHAUSTIVE = {"quick": False, "thorough": False}
FEATURES = {"tron": False}


def run_calls(prog, inputs):
    return ["R5000"] + [sess.E(l) for l in prog] + [sess.E("RUN"), "R5000"] + ["A5000:" + sess.hx(r) for r in inputs]


def renumber_events(evs, mapping):
    """map reported line numbers (errors) through `mapping`"""
    out = []
    for e in evs:
        if e.startswith("E:["):
            def fix(m):
                parts = m.group(0).split(" ")
                if parts[1] != "-" and int(parts[1]) in mapping:
                    parts[1] = str(mapping[int(parts[1])])
                # columns depend on the width of the line number: drop them
                return " ".join(parts[:2])
            e = "E:[" + ";".join(sorted(fix(re.match(r".*", x)) for x in e[3:-1].split(";"))) + "]"
        out.append(e)
    return out


def split_lines(prog, rng):
    """split multi-statement lines that contain no IF / FOR-on-one-line hazards into consecutive lines"""
    out = []
    mapping = {}
    for l in prog:
        num, rest = l.split(" ", 1)
        n = int(num)
        mapping[n] = n
        if ":" in rest and "IF" not in rest.upper() and '"' not in rest and "REM" not in rest.upper() and "'" not in rest and rng.random() < 0.8:
            parts = rest.split(":")
            k = rng.randint(1, len(parts) - 1)
            out.append("%d %s" % (n, ":".join(parts[:k])))
            out.append("%d %s" % (n + 3, ":".join(parts[k:])))
            mapping[n + 3] = n
        else:
            out.append(l)
    return out, mapping


def gen(tier, rng):
    cases = []
    nprog = 120 if tier == "quick" else 5000
    for pi in range(nprog):
        prog, inputs, P = gen_prog.generate(rng, features=FEATURES, want_prog=True)
        key = "\n".join(prog)
        cases.append(Case(sess.session(run_calls(prog, inputs)), sig=key, tag="base", meta=("base", pi, None)))
        # (a) inserted lines that generate no code, or code that is never reached
        extra = []
        nums = [int(l.split(" ")[0]) for l in prog]
        for n in nums:
            r = rng.random()
            if r < 0.25:
                extra.append("%d REM inserted" % (n + 5))
            elif r < 0.35:
                extra.append("%d :" % (n + 5))
            elif r < 0.45:
                extra.append("%d ' x" % (n + 5))
        # unreachable block after the last line? only if the program cannot fall into it: put it behind a GOTO over it
        j = rng.choice(nums)
        extra.append("%d GOTO %d" % (j - 4, j))
        extra.append("%d PRINT \"UNREACHABLE\":X=X/0" % (j - 2))
        p2 = sorted(prog + extra, key=lambda l: int(l.split(" ")[0]))
        cases.append(Case(sess.session(run_calls(p2, inputs)), sig=key + "\n#inserted: " + "; ".join(extra), tag="insert",
                          meta=("same", pi, {n: n for n in nums} | {j - 4: j})))
        # (b) split lines
        p3, m3 = split_lines(prog, rng)
        if p3 != prog:
            cases.append(Case(sess.session(run_calls(p3, inputs)), sig=key + "\n#split:\n" + "\n".join(p3), tag="split", meta=("same", pi, m3)))
        # (c) another numbering of the same labelled layout
        start, step = rng.choice([(0, 1), (0, 10), (1, 1), (100, 100), (1000, 7), (5, 5), (30000, 3), (65529 - (len(prog) - 1), 1)])
        p4, _ = P.render(start=start, step=step)
        m4 = {int(a.split(" ")[0]): int(b.split(" ")[0]) for a, b in zip(p4, prog)}
        cases.append(Case(sess.session(run_calls(p4, inputs)), sig=key + "\n#renumbered from %d step %d" % (start, step), tag="renumber",
                          meta=("same", pi, m4)))
        cases.append(Case(sess.compile_case(p4), sig="compile\n" + "\n".join(p4), tag="compile"))
    # (c') references to the first line of the program, numbered 10 and numbered 0, behind statements that create local labels
    FIRST = [
        ["{a} Q9=Q9+1:PRINT \"t\";Q9", "{b} FOR I=1 TO 2:NEXT", "{c} IF Q9<3 THEN GOTO {a}", "{d} PRINT \"end\""],
        ["{a} Q9=Q9+1:PRINT \"t\";Q9:IF Q9>1 THEN RETURN", "{b} IF Q9<2 THEN GOSUB {a}:PRINT \"back\"", "{c} WHILE Q9<3:Q9=Q9+1:WEND", "{d} IF Q9<5 THEN {a}"],
        ["{a} READ D:PRINT D;:Q9=Q9+1", "{b} DATA 4,5", "{c} IF Q9=1 THEN RESTORE {a}:GOTO {a}", "{d} ON Q9 GOTO {a},{e},{a}", "{e} PRINT \"end\""],
        ["{a} Q9=Q9+1:IF Q9>3 THEN END", "{b} FOR I=1 TO 2:ON I GOSUB {d},{d}:NEXT", "{c} GOTO {a}", "{d} PRINT \"s\";Q9;:RETURN"],
        ["{a} PRINT \"t\";:Q9=Q9+1:IF Q9>2 THEN STOP", "{b} IF Q9=1 THEN {a} ELSE IF Q9=2 THEN GOSUB {d}", "{c} RUN {d}", "{d} PRINT \"r\";Q9:IF Q9=2 THEN RETURN ELSE END"],
    ]
    for ti, tmpl in enumerate(FIRST):
        labels = "abcde"
        def rend(start, step):
            m = {lab: start + k * step for k, lab in enumerate(labels)}
            return [l.format(**m) for l in tmpl], m
        pb, mb = rend(10, 10)
        pi = nprog + ti
        cases.append(Case(sess.session(run_calls(pb, [])), sig="\n".join(pb), tag="base", meta=("base", pi, None)))
        for start, step in ((0, 10), (0, 1), (0, 7)):
            pz, mz = rend(start, step)
            cases.append(Case(sess.session(run_calls(pz, [])), sig="\n".join(pb) + "\n#renumbered from %d step %d" % (start, step), tag="renumber",
                              meta=("same", pi, {mz[l]: mb[l] for l in labels})))
            cases.append(Case(sess.compile_case(pz), sig="compile\n" + "\n".join(pz), tag="compile"))
    # (b') statements behind an unconditional transfer on the same line -- DATA, WEND, NEXT, DEF, a second jump -- are not run
    # through, but they are still part of the program: the joined line and its two halves on consecutive lines behave alike
    BEHIND = [
        (["10 READ A:PRINT A;", "20 GOTO 40:DATA 2", "30 DATA 9", "40 READ B:PRINT B;:RESTORE 20:READ C:PRINT C"], 20),
        (["10 I=I+1:IF I>3 THEN 40", "20 WHILE I<3:PRINT I;:GOTO 10:WEND", "30 PRINT \"out\";", "40 PRINT \"end\""], 20),
        (["10 GOSUB 100:READ A,B:PRINT A;B", "20 END:DATA 5", "30 DATA 6", "100 RETURN:DATA 4"], 20),
        (["10 GOSUB 100:READ A,B:PRINT A;B", "20 END:DATA 5", "30 DATA 6", "100 RETURN:DATA 4"], 100),
        (["10 FOR I=1 TO 2:PRINT I;:GOTO 30:NEXT", "30 NEXT:PRINT \"done\""], 10),
        (["10 ON 1 GOTO 40:DATA 2", "40 READ B:PRINT B"], 10),
        (["10 GOTO 40:DEF FNA(X)=X+1", "40 PRINT \"t\";:PRINT FNA(1)"], 10),
        (["10 GOTO 40:GOTO 50", "40 PRINT \"forty\";", "50 PRINT \"fifty\""], 10),
        (["10 N=N+1:IF N>2 THEN END", "20 RUN 40:DATA 7,8", "40 READ A:PRINT A;:GOTO 10:DATA 9"], 20),
        (["10 N=N+1:IF N>2 THEN END", "20 RUN 40:DATA 7,8", "40 READ A:PRINT A;:GOTO 10:DATA 9"], 40),
        (["10 WHILE N<2:N=N+1:GOSUB 50:WEND:PRINT \"w\";N:END", "50 PRINT \"s\";:RETURN:WEND"], 50),
        (["10 STOP:DATA 1", "20 READ A:PRINT A"], 10),
        (["10 GOTO 30:REM gone", "20 PRINT \"skipped\"", "30 PRINT \"here\""], 10),
    ]
    pi = nprog + 50
    for prog, at in BEHIND:
        cases.append(Case(sess.session(run_calls(prog, [])), sig="\n".join(prog), tag="base", meta=("base", pi, None)))
        cases.append(Case(sess.compile_case(prog), sig="compile\n" + "\n".join(prog), tag="compile"))
        out = []
        for l in prog:
            n, rest = l.split(" ", 1)
            if int(n) == at:
                parts = rest.split(":")
                # cut in front of the last statement
                out += ["%d %s" % (at, ":".join(parts[:-1])), "%d %s" % (at + 3, parts[-1])]
            else:
                out.append(l)
        mp = {int(l.split(" ")[0]): int(l.split(" ")[0]) for l in prog}
        mp[at + 3] = at
        cases.append(Case(sess.session(run_calls(out, [])), sig="\n".join(prog) + "\n#split:\n" + "\n".join(out), tag="split", meta=("same", pi, mp)))
        pi += 1
    # (c'') a remark, an empty statement or nothing at all behind the last line: the program falls off its end the same way
    LAST = ["ON X GOTO 10", "ON 5 GOTO 10,10", "N=N+1:ON 2-N GOTO 10", "IF 0 THEN 10", "ON X GOSUB 10", "FOR I=1 TO 1:NEXT", "WHILE 0:WEND",
            "IF 0 THEN END", "N=N+1:IF N<3 THEN 10", "N=N+1:IF N<2 THEN GOSUB 10", "DEF FNA(X)=X", "DATA 1", "PRINT 2:END", "STOP", "RESTORE 10",
            "IF 0 THEN PRINT 1 ELSE IF 0 THEN 10", "ON X GOTO 10:REM"]
    pi = nprog + 100
    for last in LAST:
        base = ['10 PRINT "A";:N=N+1:IF N>4 THEN END', "20 " + last]
        cases.append(Case(sess.session(run_calls(base, [])), sig="\n".join(base), tag="base", meta=("base", pi, None)))
        for tail in ("30 REM tail", "30 :", "30 ' x", "25 REM between", "15 :"):
            pv = sorted(base + [tail], key=lambda l: int(l.split(" ")[0]))
            cases.append(Case(sess.session(run_calls(pv, [])), sig="\n".join(base) + "\n#inserted: " + tail, tag="insert",
                              meta=("same", pi, {10: 10, 20: 20})))
        # ... and the same when a direct statement enters it instead of RUN
        for entry in ("GOTO 10", 'PRINT "D";:IF K=0 THEN K=1:GOTO 10'):
            calls = ["R5000"] + [sess.E(l) for l in base] + [sess.E(entry), "R5000"]
            cases.append(Case(sess.session(calls), sig="\n".join(base) + "\n#entered by: " + entry, tag="direct-entry", meta=("dbase", 100000 + pi * 10 + len(entry), None)))
            calls = ["R5000"] + [sess.E(l) for l in base + ["30 REM tail"]] + [sess.E(entry), "R5000"]
            cases.append(Case(sess.session(calls), sig="\n".join(base) + "\n30 REM tail\n#entered by: " + entry, tag="direct-entry",
                              meta=("dsame", 100000 + pi * 10 + len(entry), None)))
        pi += 1
    # (c2') a branch to a code-less line behind the program's closing END: the inserted unreachable END must not become the end
    # of the program (the target line starts behind it), whatever kind of code-less line it is and however the branch is made
    ei = 800000
    for trail in ("50 REM EXIT", "50 DATA 1,2", "50 :", "50 ' x"):
        for branch in ("IF X<3 THEN 50", "IF X<3 THEN GOTO 50", "ON X GOTO 50,50", "IF X>=3 THEN 30 ELSE 50"):
            pa = ['10 X=X+1:PRINT X;', '20 ' + branch, '30 PRINT "DONE";:RETURN', trail]
            pb = sorted(pa + ['40 END'], key=lambda l: int(l.split(" ")[0]))
            for entry in ("GOSUB 10", 'GOSUB 10:PRINT "BACK"'):
                ca = ["R5000"] + [sess.E(l) for l in pa] + [sess.E(entry), "R5000"]
                cb = ["R5000"] + [sess.E(l) for l in pb] + [sess.E(entry), "R5000"]
                cases.append(Case(sess.session(ca), sig="\n".join(pa) + "\n#entered by: " + entry, tag="end-then-codeless", meta=("dbase", ei, None)))
                cases.append(Case(sess.session(cb), sig="\n".join(pb) + "\n#entered by: " + entry, tag="end-then-codeless", meta=("dsame", ei, None)))
                ei += 1
    # (c3) direct statements that refer to a line of the stored program by number, with that line numbered low, high, and with
    # the highest legal number (the marker of the direct code sorts right behind it)
    DIRECT_REFS = ['GOSUB {d}:PRINT "BACK"', "RESTORE {d}:READ A:PRINT A", "RUN {d}", "GOTO {d}", 'ON 1 GOSUB {d}:PRINT "B2"',
                   "IF 1 THEN {d}", "RESTORE:READ A:RESTORE {d}:READ B:PRINT A;B", "RUN", "LIST {d}"]
    for ci, tight in enumerate((False, True)):
        for di, tmpl in enumerate(DIRECT_REFS):
            for fi, first in enumerate((["RUN"], [])):
                key = 900000 + ci * 100 + di * 10 + fi
                for d in (40, 65528, 65529):
                    c = d - 1 if tight else 30
                    prog = ["10 DATA 1", '20 PRINT "MAIN"', "%d END" % c, '%d DATA 2:PRINT "SUB";:Q9=Q9+1:IF Q9<3 THEN RETURN ELSE END' % d]
                    direct = tmpl.format(d=d)
                    calls = ["R5000"] + [sess.E(l) for l in prog]
                    for x in first + [direct]:
                        calls += [sess.E(x), "R5000"]
                    meta = None if "LIST" in tmpl else (("base", key, None) if d == 40 else ("same", key, {10: 10, 20: 20, c: (39 if tight else 30), d: 40}))
                    cases.append(Case(sess.session(calls), sig="\n".join(prog) + "\n#then: " + "; ".join(first + [direct]), tag="direct-ref", meta=meta))
    # (d)/(e) direct statement lists
    for di in range(150 if tier == "quick" else 5000):
        P = gen_prog.Prog(rng, {"tron": False, "input": False})
        stmts = [P.simple() for _ in range(rng.randint(1, 4))]
        stmts = [s for s in stmts if not s.startswith("READ") and not s.startswith("RESTORE") and "REM" not in s and not s.startswith("'")]
        if not stmts:
            continue
        if rng.random() < 0.3:
            stmts.append("FOR I=1 TO 3:PRINT I;:NEXT")
        if rng.random() < 0.2:
            stmts.append("IF A<5 THEN PRINT \"lt\" ELSE PRINT \"ge\"")
        if rng.random() < 0.3:
            # loops closed by WEND are paired by a pass of their own, not through the table of branch references
            stmts.append(rng.choice(["W9=0:WHILE W9<3:W9=W9+1:PRINT W9;:WEND:PRINT \"done\"", "WHILE 0:PRINT \"body\":WEND:PRINT \"skipped\"",
                                     "W9=0:WHILE W9<2:W9=W9+1:V9=0:WHILE V9<2:V9=V9+1:PRINT W9;V9;:WEND:WEND",
                                     "FOR I=1 TO 2:W9=0:WHILE W9<2:W9=W9+1:WEND:PRINT I;W9;:NEXT", "PRINT \"x\":WEND", "WHILE 1:PRINT \"open\""]))
        line = ":".join(stmts)
        other, _ = gen_prog.generate(rng, features={"tron": False, "input": False})
        base = ["R5000", sess.E(line), "R5000"]
        cases.append(Case(sess.session(base), sig="direct: " + line, tag="direct", meta=("dbase", di, None)))
        cases.append(Case(sess.session(["R5000"] + [sess.E(l) for l in other] + [sess.E(line), "R5000"]),
                          sig="direct with a program in memory: " + line, tag="direct+program", meta=("dsame", di, None)))
        cases.append(Case(sess.session(["R5000", sess.E("10 " + line), sess.E("RUN"), "R5000"]), sig="as line 10: " + line,
                          tag="one-line-program", meta=("dline", di, None)))
    return cases


def monitor(case, r):
    if r is None:
        return None
    if "PANIC" in r or "HANG" in r or "CRASH" in r:
        return "crash: %s answers %s" % (case.sig, r[-60:])
    return None


STATS = {}


def cross_monitor(cases, impl, model):
    fails = []
    base = {}
    dbase = {}
    stats = {"layout_compared": 0, "direct_compared": 0}
    for i, c in enumerate(cases):
        if c.meta and c.meta[0] == "base":
            base[c.meta[1]] = impl[i]
        if c.meta and c.meta[0] == "dbase":
            dbase[c.meta[1]] = impl[i]
    for i, c in enumerate(cases):
        if not c.meta or impl[i] is None:
            continue
        if c.meta[0] == "same":
            ref = base.get(c.meta[1])
            if ref is None or "TIMEOUT" in ref or "TIMEOUT" in impl[i]:
                continue
            a = renumber_events(transcript.after_first_stop(transcript.split_events(ref)), {})
            b = renumber_events(transcript.after_first_stop(transcript.split_events(impl[i])), c.meta[2])
            stats["layout_compared"] += 1
            if a != b:
                fails.append((i, "layout: %s\n  original:    %s\n  transformed: %s" % (
                    c.sig, sess.decode_events("|".join(a))[-400:], sess.decode_events("|".join(b))[-400:])))
        elif c.meta[0] in ("dsame", "dline"):
            ref = dbase.get(c.meta[1])
            if ref is None:
                continue
            a = renumber_events(transcript.after_first_stop(transcript.split_events(ref)), {})
            b = renumber_events(transcript.after_first_stop(transcript.split_events(impl[i])), {10: "-"} if c.meta[0] == "dline" else {})
            a = [e.replace(" -]", "]").replace(" -;", ";") for e in a]
            b = [e.replace(" -]", "]").replace(" -;", ";") for e in b]
            stats["direct_compared"] += 1
            if a != b:
                fails.append((i, "direct: %s\n  direct, empty memory: %s\n  this layout:          %s" % (
                    c.sig, sess.decode_events("|".join(a))[-300:], sess.decode_events("|".join(b))[-300:])))
    STATS.update(stats)
    return fails


def nontrivial(case, r):
    return r is not None and case.meta is not None and case.meta[0] in ("same", "dsame", "dline")
