"""C16 -- spelling variants of a line mean the same."""
import re

from framework import Case
import gen_lines
import gen_prog
import sess
import transcript

PROPERTY = "C16"
THEOREM_FILE = "Props/C16.v"
INTERFACES = "L2 relist, L3 ast without columns, L5 transcripts of whole programs in variant spellings"
PROFILES = ["dev"]
CASE_TIMEOUT = 0.3
MODEL_CASE_TIMEOUT = 3.0
RULE = ("every line of generated programs and of the sample set rendered in random spellings: letter case per word, ? for PRINT, ' for REM, "
        "GO TO / GO SUB, dropped LET, =< and =>, blanks inside two-character relational operators, added / doubled / removed blanks and "
        "tabs at non-alphanumeric boundaries, keywords glued to a following number, numbers glued to a following ELSE / EQV / END, words run together where the leftmost-reserved-word rule "
        "gives the same words back (THENPRINT, IFNOTA, FORI); variants must give the same AST (modulo columns), the "
        "same listing (modulo LET and the remark marker) and whole programs the same transcript; non-trivial = a variant that differs from "
        "the original in at least 2 places; distinct = distinct (line, variant) pairs")
ASSUMPTIONS = ["a number is glued only to the reserved words ELSE, EQV and END (whose first letter cannot start an exponent there); gluing it to arbitrary letters is not generated: an exponent letter followed by digits changes the literal"]
EXHAUSTIVE = {"quick": False, "thorough": False}


GLUE_LINES = ["10 IF A THEN 10 ELSE 20", "20 IF X>1 THEN PRINT 20000+20000 ELSE PRINT 0", "30 A=B EQV 5 EQV C", "40 IF A THEN B=1 ELSE B=2",
              "50 IF A=2 THEN PRINT 7 ELSE PRINT 8", "60 PRINT 3 EQV 4", "70 IF Q THEN A%=30000+2767 ELSE A%=1", "80 IF A THEN PRINT 1 END",
              # a reserved word followed by a name that, run together with it, spells another reserved word across the seam
              # (FOR+EM.. and OR+EM.. contain REM, GO+TOTAL contains GOTO, O+NEXT..): the leftmost word still wins
              "90 FOR EM=1 TO 3:PRINT EM;:NEXT EM", "100 EM=5:IF EM=1 OR EM=5 THEN PRINT 1", "110 A=B XOR EMU", "120 PRINT A OR EMPTY",
              "130 FOR EMIT=2 TO 3:NEXT", "140 IF A THEN B=C OR EM ELSE B=2", "150 FOR I=1 TO N:NEXT", "160 GO TO TALLY",
              # string literals side by side in a PRINT list
              '170 PRINT "AB" "CD"', '180 FOR I=1 TO 2:PRINT "<" "" ">" I;:NEXT I', '190 IF I>2 THEN PRINT "" "!"', '200 PRINT "a" "b" "c";"d" "e"']


def segments(line):
    """split into [(kind, text)] with kind in code / string / remark"""
    out = []
    i, n = 0, len(line)
    cur = ""
    while i < n:
        ch = line[i]
        if ch == '"':
            j = line.find('"', i + 1)
            j = n - 1 if j < 0 else j
            if cur:
                out.append(("code", cur))
                cur = ""
            out.append(("string", line[i:j + 1]))
            i = j + 1
            continue
        if ch == "'" or (line[i:i + 3].upper() == "REM" and (i == 0 or not line[i - 1].isalnum()) and (i + 3 >= n or not line[i + 3].isalnum())):
            if cur:
                out.append(("code", cur))
                cur = ""
            out.append(("remark", line[i:]))
            return out
        cur += ch
        i += 1
    if cur:
        out.append(("code", cur))
    return out


RESERVED = ["RESTORE", "DEFDBL", "DEFINT", "DEFSNG", "DEFSTR", "DELETE", "RETURN", "CLEAR", "ERASE", "GOSUB", "INPUT", "PRINT", "RENUM",
            "TROFF", "WHILE", "CONT", "DATA", "ELSE", "GOTO", "NEXT", "LIST", "LOAD", "READ", "SAVE", "STEP", "STOP", "SWAP", "THEN", "TRON",
            "WEND", "AND", "CLS", "DEF", "DIM", "END", "EQV", "FOR", "IMP", "LET", "MOD", "NEW", "NOT", "REM", "RUN", "XOR", "IF", "ON", "OR", "TO"]


def split_run(run):
    """the documented rule for a run of letters: split at the leftmost reserved word, the longest one where several start there"""
    out = []
    s = run.upper()
    while True:
        best = None
        for w in RESERVED:
            i = s.find(w)
            if i >= 0 and (best is None or i < best[0]):
                best = (i, w)
        if best is None:
            break
        i, w = best
        if i > 0:
            out.append(s[:i])
        out.append(w)
        s = s[i + len(w):]
    if s:
        out.append(s)
    return out


def crunch(rng, s):
    """run words together where the documented splitting rule gives the same words back"""
    parts = re.findall(r"[A-Za-z]+|[ \t]+|[^A-Za-z \t]+", s)
    out = []
    for part in parts:
        if (part[0].isalpha() and len(out) >= 2 and out[-1].strip() == "" and out[-2].isalpha()
                and not (len(out) >= 3 and out[-3].endswith("&"))        # &HF is a number: its digits must not be glued to a word
                and "REM" not in split_run(out[-2] + part) and "DATA" not in split_run(out[-2] + part) and rng.random() < 0.7
                and split_run(out[-2] + part) == split_run(out[-2]) + split_run(part)):
            out.pop()
            out[-1] = out[-1] + part
        else:
            out.append(part)
    return "".join(out)


def vary_code(rng, code):
    s = code
    if rng.random() < 0.35:
        s = crunch(rng, s)
    if rng.random() < 0.5:
        s = re.sub(r"\bPRINT\b", "?", s)
    if rng.random() < 0.5:
        s = re.sub(r"\bGOTO\b", "GO TO", s)
    if rng.random() < 0.5:
        s = re.sub(r"\bGOSUB\b", lambda m: "GO SUB", s)
    if rng.random() < 0.5:
        s = re.sub(r"\bLET +", "", s)
    if rng.random() < 0.5:
        s = s.replace("<=", "=<")
    if rng.random() < 0.5:
        s = s.replace(">=", "=>")
    if rng.random() < 0.3:
        s = s.replace("<>", "><")      # accepted with a blank inside, so also without one (fixed: 638b3f3)
    if rng.random() < 0.3:
        s = re.sub(r"(<=|>=|<>|=<|=>|><)", lambda m: m.group(1)[0] + rng.choice([" ", "  "]) + m.group(1)[1], s)
    if rng.random() < 0.4:
        s = re.sub(r"\b(GOTO|THEN|GOSUB|TO|SUB|ELSE|RESTORE|RUN) (\d)", lambda m: m.group(1) + m.group(2) if rng.random() < 0.6 else m.group(0), s)
    if rng.random() < 0.5:
        # a number glued to a following reserved word that starts with an exponent letter (10ELSE, 5EQV, 3END): the letter is
        # not an exponent (no digit or sign follows it), so the number ends before it and keeps its type
        s = re.sub(r"(\d) +(ELSE|EQV|END)\b", lambda m: m.group(1) + m.group(2) if rng.random() < 0.7 else m.group(0), s)
    # blanks at non-alphanumeric boundaries
    out = ""
    for k, ch in enumerate(s):
        if ch == " ":
            prev = s[k - 1] if k else " "
            nxt = s[k + 1] if k + 1 < len(s) else "A"     # a remark word may follow: keep the last blank
            if (not prev.isalnum() and prev not in "$%!#\"") or (not nxt.isalnum() and nxt not in "\"&."):
                r = rng.random()
                if r < 0.3:
                    continue
                if r < 0.5:
                    out += rng.choice(["  ", " \t", "   "])
                    continue
            elif rng.random() < 0.2:
                out += "  "
                continue
            out += ch
        elif ch in "=*/,;()<>^\\" and rng.random() < 0.15:
            # never separate the two characters of a relational operator by accident is fine: it is allowed
            out += rng.choice([" " + ch, ch + " ", " " + ch + " "])
        else:
            out += ch
    s = out
    # letter case per word
    def recase(m):
        w = m.group(0)
        r = rng.random()
        return w.lower() if r < 0.4 else (w.capitalize() if r < 0.5 else w)
    s = re.sub(r"[A-Za-z][A-Za-z0-9]*", recase, s)
    return s


def variant(rng, line):
    num, _, rest = line.partition(" ")
    out = ""
    segs = segments(rest)
    for k, (kind, text) in enumerate(segs):
        if kind == "code":
            if text.strip() == "" and 0 < k < len(segs) - 1 and segs[k - 1][0] not in ("code", "remark") and segs[k + 1][0] not in ("code", "remark"):
                # nothing but blanks between two string literals: the blanks are optional there too ("AB""CD" is two literals)
                out += rng.choice(["", "", " ", "  "])
                continue
            out += vary_code(rng, text)
        elif kind == "remark":
            if text.upper().startswith("REM") and rng.random() < 0.5:
                out += "'" + text[3:]
            elif text.startswith("'") and rng.random() < 0.3:
                body = text[1:]
                out += "REM" + (body if body.startswith(" ") or not body else " " + body) if False else text
            else:
                out += rng.choice(["REM", "rem", "Rem"]) + text[3:] if text.upper().startswith("REM") else text
        else:
            out += text
    return num + rng.choice([" ", " ", "  "]) + out


def norm_listing(text):
    """listing modulo the optional LET, the remark marker and the amount of blank space: the listing keeps the
    blanks the user typed (that is deliberate: Token::Whitespace(n)), so only their presence between two words counts"""
    out = ""
    for kind, seg in segments(text):
        if kind == "code":
            seg = re.sub(r"[ \t]+", " ", seg)
            seg = re.sub(r" ?([^A-Za-z0-9 $%!#.]) ?", r"\1", seg)
            seg = re.sub(r"(^\d+ ?|:|THEN |ELSE )LET ", r"\1", seg)
            out += seg
        elif kind == "remark":
            body = seg[3:] if seg.upper().startswith("REM") else seg[1:]
            out += "'" + body.strip()
        else:
            out += seg
    return out.strip()


def hexs(s):
    return s.encode("utf-8").hex()


def gen(tier, rng):
    cases = []
    nprog = 200 if tier == "quick" else 8000
    nvar = 4 if tier == "quick" else 16
    lines = list(gen_lines.SAMPLE_PROGRAM_LINES) + GLUE_LINES
    progs = []
    for _ in range(nprog):
        prog, inputs = gen_prog.generate(rng)
        progs.append((prog, inputs))
        lines.extend(prog)
    seen = set()
    gi = 0
    for l in lines:
        if l in seen or not l[:1].isdigit():
            continue
        seen.add(l)
        gi += 1
        cases.append(Case("astnc " + hexs(l), sig=l, tag="original", meta=("orig-ast", gi)))
        cases.append(Case("relist " + hexs(l), sig=l, tag="original", meta=("orig-list", gi)))
        for _ in range(nvar):
            v = variant(rng, l)
            if v == l:
                continue
            cases.append(Case("astnc " + hexs(v), sig=v, tag="variant", meta=("var-ast", gi, l)))
            cases.append(Case("relist " + hexs(v), sig=v, tag="variant", meta=("var-list", gi, l)))
    # whole programs
    for pi, (prog, inputs) in enumerate(progs[: (60 if tier == "quick" else 3000)]):
        def run(p):
            return sess.session(["R5000"] + [sess.E(x) for x in p] + [sess.E("RUN"), "R5000"] + ["A5000:" + sess.hx(r) for r in inputs])
        cases.append(Case(run(prog), sig="\n".join(prog), tag="program", meta=("prog", pi)))
        for k in range(2):
            pv = [variant(rng, x) for x in prog]
            cases.append(Case(run(pv), sig="\n".join(pv), tag="program-variant", meta=("prog-var", pi, "\n".join(prog))))
    return cases


def monitor(case, r):
    if r is None:
        return None
    if r in ("PANIC", "HANG", "CRASH") or "PANIC" in r.split("|"):
        return "crash: %r answers %s" % (case.sig[:200], r[:40])
    return None


def text_of(r):
    try:
        return bytes.fromhex(r).decode("utf-8")
    except (ValueError, TypeError):
        return r


STATS = {}


def cross_monitor(cases, impl, model):
    fails = []
    oa, ol, op = {}, {}, {}
    stats = {"ast_compared": 0, "listing_compared": 0, "programs_compared": 0}
    for i, c in enumerate(cases):
        if not c.meta:
            continue
        if c.meta[0] == "orig-ast":
            oa[c.meta[1]] = impl[i]
        elif c.meta[0] == "orig-list":
            ol[c.meta[1]] = impl[i]
        elif c.meta[0] == "prog":
            op[c.meta[1]] = impl[i]
    for i, c in enumerate(cases):
        if not c.meta or impl[i] is None:
            continue
        if c.meta[0] == "var-ast":
            stats["ast_compared"] += 1
            a = oa.get(c.meta[1])
            if a is not None and a != impl[i]:
                fails.append((i, "meaning: %r and its spelling %r parse differently:\n  %s\n  %s" % (c.meta[2], c.sig, a[:300], impl[i][:300])))
        elif c.meta[0] == "var-list":
            stats["listing_compared"] += 1
            a = ol.get(c.meta[1])
            if a is not None and norm_listing(text_of(a)) != norm_listing(text_of(impl[i])):
                fails.append((i, "listing: %r lists as %r but its spelling %r lists as %r" % (c.meta[2], text_of(a), c.sig, text_of(impl[i]))))
        elif c.meta[0] == "prog-var":
            stats["programs_compared"] += 1
            a = op.get(c.meta[1])
            if a is None or "TIMEOUT" in a:
                continue
            x = transcript.after_first_stop(transcript.split_events(a))
            y = transcript.after_first_stop(transcript.split_events(impl[i]))
            x = [transcript.strip_cols(e) for e in x]
            y = [transcript.strip_cols(e) for e in y]
            if x != y:
                fails.append((i, "run: the program\n%s\n  and its spelling\n%s\n  run differently:\n  %s\n  %s" % (
                    c.meta[2], c.sig, sess.decode_events("|".join(x))[-300:], sess.decode_events("|".join(y))[-300:])))
    STATS.update(stats)
    return fails


def nontrivial(case, r):
    return r is not None and case.meta is not None and case.meta[0].startswith("var") or (case.meta is not None and case.meta[0] == "prog-var")
