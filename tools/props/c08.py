"""C08 -- 16-bit Integer arithmetic is always checked."""
import math
import struct

from framework import Case

PROPERTY = "C08"
THEOREM_FILE = "Props/C08.v"
INTERFACES = "Lops: Operation::{negate,power,multiply,divint,remainder,sum,subtract}, Function::{abs,cint} on Val"
PROFILES = ["dev", "release"]
RULE = ("unary operations over all 65536 Integers; binary operations over the 64x64 boundary grid plus seeded "
        "random pairs; ^ over boundary bases x exponents 0..17 and boundary exponents; float->Integer over +-8 ulps "
        "around -32769,-32768,32767,32768,+-0.5,0 in f32 and f64 plus NaN/inf/subnormals; both build profiles. "
        "A case is non-trivial when its exact result is within 2 of a range limit, is an error, or involves "
        "-32768 / 32767 / 0 as an operand; distinct = distinct case lines")
ASSUMPTIONS = ["libm-free: only integer paths and float->Integer conversion are exercised here"]
EXHAUSTIVE = {"quick": False, "thorough": False}

I16MIN, I16MAX = -32768, 32767
BOUNDARY = sorted(set(
    [0, 1, -1, 2, -2, 3, -3, 7, -7, 10, -10, 127, 128, -128, -129, 255, 256, -255, -256,
     181, 182, -181, -182, 16383, 16384, -16384, -16385, 32766, 32767, -32767, -32768,
     100, -100, 1000, -1000, 4096, -4096, 8191, 8192, 21845, -21846, 12345, -12345,
     5, -5, 15, 16, 17, -16, -17, 31, 32, 63, 64, -64, 511, 512, 1023, 1024, 2047, 2048, -2048, 9, -9, 11]))


def f32_bits(x):
    return struct.unpack("<I", struct.pack("<f", x))[0]


def f64_bits(x):
    return struct.unpack("<Q", struct.pack("<d", x))[0]


def bits_f32(b):
    return struct.unpack("<f", struct.pack("<I", b))[0]


def bits_f64(b):
    return struct.unpack("<d", struct.pack("<Q", b))[0]


def gen(tier, rng):
    cases = []
    unary_ops = ["neg", "abs"]
    for prof in PROFILES:
        for op in unary_ops:
            for a in range(I16MIN, I16MAX + 1):
                cases.append(Case("op1 %s I:%d" % (op, a), tag="unary-" + op, profile=prof))
        for op in ("add", "sub", "mul", "divint", "mod"):
            for a in BOUNDARY:
                for b in BOUNDARY:
                    cases.append(Case("op2 %s I:%d I:%d" % (op, a, b), tag="grid-" + op, profile=prof))
        for a in BOUNDARY:
            for b in list(range(0, 18)) + [32767, 255, 100]:
                cases.append(Case("op2 pow I:%d I:%d" % (a, b), tag="grid-pow", profile=prof))
    nrand = 20000 if tier == "quick" else 600000
    for _ in range(nrand):
        op = rng.choice(("add", "sub", "mul", "divint", "mod", "pow"))
        a = rng.randint(I16MIN, I16MAX)
        if op == "pow":
            b = rng.randint(0, 20)
        elif rng.random() < 0.3:
            b = rng.choice(BOUNDARY)
        else:
            b = rng.randint(I16MIN, I16MAX)
        cases.append(Case("op2 %s I:%d I:%d" % (op, a, b), tag="random-" + op, profile=rng.choice(PROFILES)))
    # float -> Integer
    centres = [-32769.0, -32768.0, 32767.0, 32768.0, 0.5, -0.5, 0.0, 1.0, -1.0, 65535.0, 65536.0, 1e9, -1e9]
    span = 8 if tier == "quick" else 200
    for c in centres:
        b = f32_bits(c)
        for d in range(-span, span + 1):
            bb = (b + d) & 0xFFFFFFFF
            cases.append(Case("op1 cint S:%08x" % bb, tag="cint-f32"))
        b = f64_bits(c)
        for d in range(-span, span + 1):
            bb = (b + d) & 0xFFFFFFFFFFFFFFFF
            cases.append(Case("op1 cint D:%016x" % bb, tag="cint-f64"))
    specials32 = [0x7F800000, 0xFF800000, 0x7FC00000, 0x00000001, 0x80000001, 0x007FFFFF, 0x7F7FFFFF, 0xFF7FFFFF, 0x80000000]
    specials64 = [0x7FF0000000000000, 0xFFF0000000000000, 0x7FF8000000000000, 1, 0x8000000000000001,
                  0x000FFFFFFFFFFFFF, 0x7FEFFFFFFFFFFFFF, 0xFFEFFFFFFFFFFFFF, 0x8000000000000000]
    for b in specials32:
        cases.append(Case("op1 cint S:%08x" % b, tag="cint-f32"))
    for b in specials64:
        cases.append(Case("op1 cint D:%016x" % b, tag="cint-f64"))
    nfl = 2000 if tier == "quick" else 100000
    for _ in range(nfl):
        x = rng.uniform(-40000, 40000)
        if rng.random() < 0.5:
            cases.append(Case("op1 cint S:%08x" % f32_bits(x), tag="cint-f32"))
        else:
            cases.append(Case("op1 cint D:%016x" % f64_bits(x), tag="cint-f64"))
    # statements that add Integers themselves: NEXT steps the loop variable with the same checked sum as +
    import sess
    loops = [
        (["10 FOR I%=32766 TO 32767", "20 PRINT I%;", "30 NEXT I%", '40 PRINT "DONE";I%'], ("err", 6, 30)),
        (["10 A%=-32767:A%=A%-1", "20 FOR I%=-32000 TO A% STEP -700", "30 PRINT I%;", "40 NEXT", '50 PRINT "DONE";I%'], ("err", 6, 40)),
        (["10 FOR I%=32000 TO 32001 STEP 1000:NEXT:PRINT \"DONE\";I%"], ("err", 6, 10)),
        (["10 DEFINT K:FOR K=32767 TO 32767:PRINT K;:NEXT K:PRINT \"DONE\""], ("err", 6, 10)),
        (["10 FOR I%=32765 TO 32766:PRINT I%;:NEXT:PRINT I%"], ("text", " 32765  32766  32767 \n")),
        (["10 FOR I%=-32767 TO -32768 STEP -1:PRINT I%;:NEXT:PRINT \"DONE\""], ("err", 6, 10)),
        (["10 FOR I%=1 TO 3 STEP 32767:PRINT I%;:NEXT:PRINT \"DONE\";I%"], ("text", " 1 DONE 32768 \n")),
    ]
    loops[-1] = (loops[-1][0], ("err", 6, 10))       # 1 + 32767 leaves the Integer range
    for prog, want in loops:
        for prof in PROFILES:
            cases.append(Case(sess.prog_session(prog), sig=" / ".join(prog), tag="next-step", profile=prof, meta=("loop", want)))
    return cases


def _val(s):
    t, r = s[:2], s[2:]
    if t == "I:":
        return ("I", int(r))
    if t == "S:":
        return ("S", bits_f32(int(r, 16)))
    if t == "D:":
        return ("D", bits_f64(int(r, 16)))
    return (t, r)


def expected(line):
    """Exact specification: 'ok I:n' | 'err 6' | 'err 11' (None if this monitor has no opinion)."""
    f = line.split(" ")

    def rng(z):
        return "ok I:%d" % z if I16MIN <= z <= I16MAX else "err 6"

    if f[0] == "op1":
        t, a = _val(f[2])
        if f[1] == "neg" and t == "I":
            return rng(-a)
        if f[1] == "abs" and t == "I":
            return rng(abs(a))
        if f[1] == "cint" and t in "SD":
            if math.isnan(a) or math.isinf(a):
                return "err 6"
            return rng(math.floor(a))
        return None
    t1, a = _val(f[2])
    t2, b = _val(f[3])
    if t1 != "I" or t2 != "I":
        return None
    op = f[1]
    if op == "add":
        return rng(a + b)
    if op == "sub":
        return rng(a - b)
    if op == "mul":
        return rng(a * b)
    if op in ("divint", "mod"):
        if b == 0:
            return "err 11"
        q = abs(a) // abs(b)
        if (a < 0) != (b < 0):
            q = -q
        return rng(q) if op == "divint" else rng(a - b * q)
    if op == "pow" and b >= 0:
        if abs(a) <= 1:
            return rng(a ** (b % 2 + (2 if b >= 2 else 0))) if b > 0 else "ok I:1"
        return rng(a ** b) if b <= 40 else "err 6"
    return None


def monitor(case, r):
    if case.meta and case.meta[0] == "loop":
        if r is None:
            return None
        if "PANIC" in r or "HANG" in r or "CRASH" in r:
            return "crash: %s answers %s (profile %s)" % (case.sig, r[-60:], case.profile)
        want = case.meta[1]
        text = "".join(bytes.fromhex(e[2:]).decode() for e in r.split("|") if e.startswith("P:"))
        if want[0] == "err":
            if ("E:[%d %d " % (want[1], want[2])) not in r or "DONE" in text:
                return "inexact: the loop %s must stop with error %d in line %d, got %r %s (profile %s)" % (
                    case.sig, want[1], want[2], text[-80:], [e for e in r.split("|") if e.startswith("E:")][:1], case.profile)
        elif want[1] not in text:
            return "inexact: the loop %s must print %r, got %r (profile %s)" % (case.sig, want[1], text[-80:], case.profile)
        return None
    e = expected(case.line)
    if r in ("PANIC", "HANG", "CRASH"):
        return "crash: %s answers %s (profile %s)" % (case.sig, r, case.profile)
    if e is not None and r != e:
        return "inexact: %s answers '%s', exact arithmetic requires '%s' (profile %s)" % (case.sig, r, e, case.profile)
    return None


def nontrivial(case, r):
    if r is None:
        return False
    if r.startswith("err") or r in ("PANIC", "HANG", "CRASH"):
        return True
    if "-32768" in case.line or "32767" in case.line or " I:0" in case.line:
        return True
    if r.startswith("ok I:"):
        z = int(r[5:])
        return z >= I16MAX - 2 or z <= I16MIN + 2
    return False
