"""C12 -- RUN, CLEAR and NEW reset state completely."""
from framework import Case
import gen_prog
import sess
import transcript

PROPERTY = "C12"
THEOREM_FILE = "Props/C12.v"
INTERFACES = "L5 sessions: the same program run after an arbitrary session prefix and in a fresh interpreter"
PROFILES = ["dev"]
CASE_TIMEOUT = 0.5
MODEL_CASE_TIMEOUT = 5.0
RULE = ("generated programs run (a) fresh, (b) after an earlier complete run, (c) after a run interrupted at a random point plus direct "
        "statements that dirty variables, arrays, DEFtype, DATA position and leave FOR/GOSUB frames, (d) after another program that ended "
        "in an error / STOP inside loops and subroutines followed by NEW or by typing over it; CLEAR followed by probes of every variable "
        "type, array bounds, the FN table and the DATA position; non-trivial = the prefix executed at least one program statement; "
        "distinct = (program, prefix)")
ASSUMPTIONS = ["trace mode is session configuration: prefixes end with TROFF", "programs do not call RND before seeding it"]
EXHAUSTIVE = {"quick": False, "thorough": False}
FEATURES = {"tron": False}
MARK = "@@RUN@@"
DIRTY = ["A=99:B=98:C=97:X=96:Y=95", 'S$="dirty":T$="dirty2":U$="d3"', "I%=7:J%=8:K%=9:D#=1.5:E#=2.5",
         "DIM ZQ(3):ZQ(1)=5", "P(3)=44:G%(2)=5:R$(1)=\"r\":M2(1,1)=9", "DEFINT A-C", "DEFSTR X-Z", "DEFDBL I-K",
         "FOR Q7=1 TO 5", "READ Q8", "RESTORE", "Q6=RND(-3)", "GOSUB 10", "DEF FNZ(X)=X", "ERASE P", "CLEAR", "TROFF",
         "FOR I=1 TO 3:FOR J=1 TO 3", 'INPUT "dirty";Q5']
PROBES = ['PRINT A;B;C;X;Y;Z1;I%;J%;K%;D#;E#;V!;W2;"<";S$;T$;U$;N1$;">"', "PRINT P(3);G%(2);M2(1,1);LEN(R$(1))", "PRINT P(11)",
          "PRINT FNA(1)", "READ Q9:PRINT Q9", "PRINT ZQ(11)", "Q4=1:PRINT Q4/2", 'Q3$="a":PRINT Q3$']


def final_run(prog, inputs, final="RUN"):
    return [sess.E('PRINT "%s"' % MARK), "R5000", sess.E(final), "R5000"] + ["A5000:" + sess.hx(r) for r in inputs]


# programs whose earlier run (or a direct statement) leaves FOR / GOSUB frames behind without ending in END, STOP or an error,
# and entry points that would use such a frame if it survived
FRAME_PROGS = [
    (["10 GOSUB 60", '20 PRINT "BACK"', "30 END", "50 RETURN", '60 PRINT "SUB"'], ["RUN 50", "RUN 20", "RUN", "CLEAR:RETURN", "CLEAR:GOTO 50"]),
    (["10 FOR I=1 TO 2", '20 PRINT "LOOP";I', "30 GOTO 60", "50 NEXT", "60 REM DONE"], ["RUN 50", "RUN 20", "RUN", "CLEAR:NEXT", "CLEAR:GOTO 50"]),
    (["10 GOSUB 40", "20 END", "30 NEXT J:RETURN", "40 FOR J=1 TO 3", '50 PRINT "J";J'], ["RUN 30", "RUN"]),
    (["10 DEF FNA(X)=X+1", "20 GOSUB 50", '30 PRINT "B"', "40 END", '50 PRINT FNA(1)'], ["RUN 40", "RUN 30", "CLEAR:RETURN", "CLEAR:PRINT FNA(1)"]),
]
FRAME_PREFIXES = [["RUN"], ["RUN", "PRINT 1+1"], ["GOSUB 60"], ["GOSUB 50"], ["FOR K=1 TO 3"], ["RUN", "RUN"], ["GOTO 10"], ["RUN 20"],
                  ["FOR I=1 TO 3:FOR J=1 TO 2"], ["RUN", "Q=5"]]


def gen(tier, rng):
    cases = []
    n = 150 if tier == "quick" else 6000
    for pi in range(n):
        prog, inputs = gen_prog.generate(rng, features=FEATURES)
        other, oin = gen_prog.generate(rng, features=FEATURES)
        key = "\n".join(prog)
        typeit = [sess.E(l) for l in prog]
        cases.append(Case(sess.session(["R5000"] + typeit + final_run(prog, inputs)), sig=key, tag="fresh", meta=("fresh", pi, None)))
        variants = []
        # (b) an earlier complete run
        variants.append(("rerun", typeit + [sess.E("RUN"), "R5000"] + ["A5000:" + sess.hx(r) for r in inputs] + ["I", "R5000"]))
        # (c) interrupted run + dirtying direct statements
        k = rng.randint(2, 150)
        pre = typeit + [sess.E("RUN")] + ["X1"] * k + ["I", "R5000"]
        for d in rng.sample(DIRTY, rng.randint(2, 6)):
            pre += [sess.E(d), "R5000"]
            if d.startswith("INPUT"):
                pre += ["A5000:" + sess.hx("5")]
        pre += [sess.E("TROFF"), "R5000"]
        variants.append(("interrupted+direct", pre))
        # (d) another program first, then NEW
        # (the interrupt makes sure the prefix is back at the prompt even if it still waits for input)
        pre = [sess.E(l) for l in other] + [sess.E("RUN"), "R5000"] + ["A5000:" + sess.hx(r) for r in oin] + ["I", "R5000"]
        pre += [sess.E("TROFF"), "R5000", sess.E("NEW"), "R5000"] + typeit
        variants.append(("other+NEW", pre))
        # (d') another program first, typed over line by line
        pre = [sess.E(l) for l in other] + [sess.E("RUN"), "R5000"] + ["A5000:" + sess.hx(r) for r in oin] + ["I", "R5000"]
        pre += [sess.E("TROFF"), "R5000"]
        mine = set(l.split(" ")[0] for l in prog)
        for l in other:
            num = l.split(" ")[0]
            if num not in mine:
                pre.append(sess.E(num))
        pre += typeit
        variants.append(("other+typed-over", pre))
        for name, pre in variants:
            cases.append(Case(sess.session(["R5000"] + pre + final_run(prog, inputs)), sig=key + "\n#prefix " + name,
                              tag="prefix-" + name, meta=("hist", pi, name)))
        # CLEAR probes
        probes = []
        for p in PROBES:
            probes += [sess.E(p), "R5000"]
        cases.append(Case(sess.session(["R5000"] + typeit + [sess.E('PRINT "%s"' % MARK), "R5000"] + probes),
                          sig=key + "\n#probes fresh", tag="probe-fresh", meta=("probe-fresh", pi, None)))
        pre = variants[1][1] + [sess.E("CLEAR"), "R5000"]
        cases.append(Case(sess.session(["R5000"] + pre + [sess.E('PRINT "%s"' % MARK), "R5000"] + probes),
                          sig=key + "\n#probes after CLEAR", tag="probe-clear", meta=("probe-clear", pi, None)))
    # abandoned frames: RUN n / CLEAR must not find what an earlier run or direct statement left on the stack
    pi = n
    # ... and a direct DATA line, which is rejected, must not leave its constants behind the program's: the program reads to the end
    DATA_PROGS = [(["10 READ A:PRINT A;:GOTO 10", "20 DATA 1,2"], ["RUN", "CLEAR:READ A,B:PRINT A;B:READ C:PRINT C", "RUN 10", "RESTORE:GOTO 10"]),
                  (['10 READ A$,B$:PRINT A$;B$', '20 DATA "p"', '30 DATA "q"', "40 READ C$:PRINT C$"], ["RUN", "CLEAR:GOTO 40", "RUN 40"])]
    DATA_PREFIXES = [["DATA 99"], ["RUN", "DATA 99"], ["RUN", "IF 1 THEN DATA 7,8", "RUN"], ["PRINT 1", 'DATA "z"'], ["RUN", "DATA 5", "CLEAR"]]
    for prog, finals, prefixes in [(p_, f_, FRAME_PREFIXES) for p_, f_ in FRAME_PROGS] + [(p_, f_, DATA_PREFIXES) for p_, f_ in DATA_PROGS]:
        typeit = [sess.E(l) for l in prog]
        key = "\n".join(prog)
        for final in finals:
            cases.append(Case(sess.session(["R5000"] + typeit + final_run(prog, [], final)), sig=key + "\n#then " + final, tag="fresh",
                              meta=("fresh", pi, None)))
            for pre in prefixes:
                calls = ["R5000"] + typeit
                for d in pre:
                    calls += [sess.E(d), "R5000"]
                cases.append(Case(sess.session(calls + final_run(prog, [], final)), sig=key + "\n#prefix " + "; ".join(pre) + "\n#then " + final,
                                  tag="prefix-frames", meta=("hist", pi, "frames")))
            pi += 1
    # NEW is a complete reset: whatever ran before, the next program behaves as in a fresh interpreter also when it is entered
    # without RUN (GOTO n, a direct READ), i.e. without RUN's own CLEAR
    NEW_PRES = [['10 DATA 1,2,3', '20 READ A,B', '30 DEF FNA(X)=X+1', '40 DEFINT Q', '50 FOR I=1 TO 3:GOSUB 70', '60 STOP', '70 DIM Z(3):Z(1)=5:RETURN'],
                ['10 DATA "a","b"', '20 READ S$', '30 GOSUB 40', '40 T=RND(-3):FOR J=1 TO 2']]
    NEW_PROGS = [(['10 READ A:PRINT A;Q;Z(1)', '20 DATA 7,8,9', '30 PRINT FNA(1)'], ["GOTO 10", "READ Q9:PRINT Q9", "RUN", "RETURN", "NEXT", "CONT", "PRINT Q;A;I;FNA(2)"]),
                 (['10 DATA 4', '20 READ D:PRINT D;S$;"<"', '30 Q=1.5:PRINT Q'], ["GOTO 20", "GOTO 10", "READ Q9:PRINT Q9", "RUN 20", "PRINT RND(1)=RND(1);T"])]
    pi = 500000
    for prog, finals in NEW_PROGS:
        typeit = [sess.E(l) for l in prog]
        key = "\n".join(prog)
        for final in finals:
            cases.append(Case(sess.session(["R5000"] + typeit + final_run(prog, [], final)), sig=key + "\n#then " + final, tag="fresh",
                              meta=("fresh", pi, None)))
            for pre in NEW_PRES:
                data_nums = [l.split(" ")[0] for l in pre if l.split(" ", 1)[1].startswith("DATA")]
                other_nums = [l.split(" ")[0] for l in pre if not l.split(" ", 1)[1].startswith("DATA")]
                # the reset is reached directly, or after the DATA lines were deleted (the reset then runs on a program without DATA),
                # and it is NEW, or CLEAR followed by deleting the remaining lines one by one
                resets = [("NEW", [sess.E("NEW"), "R5000"]),
                          ("delete DATA lines ; NEW", [sess.E(n) for n in data_nums] + [sess.E("NEW"), "R5000"]),
                          ("delete DATA lines ; CLEAR ; delete the rest", [sess.E(n) for n in data_nums] + [sess.E("CLEAR"), "R5000"] + [sess.E(n) for n in other_nums]),
                          ("delete DATA lines ; PRINT ; NEW", [sess.E(n) for n in data_nums] + [sess.E('PRINT "x";'), "R5000", sess.E("NEW"), "R5000"]),
                          # a direct line that fails to compile or link, and then straight on to typing the next program
                          ("NEW ; GOTO 999 (fails)", [sess.E("NEW"), "R5000", sess.E("GOTO 999"), "R5000"]),
                          ("NEW ; PRINT ) (fails)", [sess.E("NEW"), "R5000", sess.E("PRINT )"), "R5000"]),
                          ("GOSUB 500 (fails) ; NEW", [sess.E("GOSUB 500"), "R5000", sess.E("NEW"), "R5000"])]
                for rname, rcalls in resets:
                    calls = ["R5000"] + [sess.E(l) for l in pre] + [sess.E("RUN"), "R5000"] + rcalls + typeit
                    cases.append(Case(sess.session(calls + final_run(prog, [], final)),
                                      sig=key + "\n#prefix: " + " / ".join(pre) + " ; RUN ; " + rname + "\n#then " + final,
                                      tag="prefix-new-entry", meta=("hist", pi, "new-entry")))
            pi += 1
    # ... and with nothing typed after the reset: the empty program answers every direct statement as a fresh interpreter does
    # (nothing of the old compiled program -- code, line numbers, DATA -- is reachable)
    pi = 600000
    for final in ["RUN", "READ Q9:PRINT Q9", "GOTO 10", "GOSUB 70", "RESTORE 10", "RUN 20", "PRINT FNA(1)", "CONT", "RESTORE:READ Q9:PRINT Q9", "LIST"]:
        cases.append(Case(sess.session(["R5000"] + final_run([], [], final)), sig="(empty program)\n#then " + final, tag="fresh", meta=("fresh", pi, None)))
        for pre in NEW_PRES:
            nums = [l.split(" ")[0] for l in pre]
            for rname, rcalls in (("NEW", [sess.E("NEW"), "R5000"]),
                                  ("every line deleted by its number", [sess.E(n) for n in nums]),
                                  ("DELETE -65529", [sess.E("DELETE -65529"), "R5000"]),
                                  ("NEW ; PRINT", [sess.E("NEW"), "R5000", sess.E('PRINT "x";'), "R5000"])):
                calls = ["R5000"] + [sess.E(l) for l in pre] + [sess.E("RUN"), "R5000"] + rcalls
                cases.append(Case(sess.session(calls + final_run([], [], final)),
                                  sig="(empty program)\n#prefix: " + " / ".join(pre) + " ; RUN ; " + rname + "\n#then " + final,
                                  tag="prefix-emptied", meta=("hist", pi, "emptied")))
        pi += 1
    # NEW leaves an empty listing
    for pi in range(20):
        prog, inputs = gen_prog.generate(rng, features={"tron": False, "input": False})
        c = ["R5000"] + [sess.E(l) for l in prog] + [sess.E("RUN"), "R5000", sess.E("NEW"), "R5000", "T", sess.E("LIST"), "R5000", sess.E("RUN"), "R5000"]
        cases.append(Case(sess.session(c), sig="\n".join(prog) + "\n#NEW", tag="new", meta=("new", pi, None)))
    return cases


def after_mark(r):
    ev = transcript.split_events(r)
    mark = sess.hx(MARK)
    for i, e in enumerate(ev):
        if e.startswith("P:") and mark in e:
            for j in range(i, len(ev)):
                if ev[j] == "S":
                    return ev[j + 1:]
    return None


def monitor(case, r):
    if r is None:
        return None
    if "PANIC" in r or "HANG" in r or "CRASH" in r:
        return "crash: %s answers %s" % (case.sig, r[-60:])
    if case.meta and case.meta[0] == "new":
        ev = transcript.split_events(r)
        t = [e for e in ev if e.startswith("T:")]
        if not t or t[-1] != "T:":
            return "new: NEW must leave an empty listing: %s" % sess.decode_events(r)[-200:]
    return None


STATS = {}


def cross_monitor(cases, impl, model):
    fails = []
    fresh = {}
    probe = {}
    stats = {"compared": 0, "probes_compared": 0, "skipped_timeout": 0}
    for i, c in enumerate(cases):
        if c.meta and c.meta[0] == "fresh":
            fresh[c.meta[1]] = after_mark(impl[i]) if impl[i] else None
        if c.meta and c.meta[0] == "probe-fresh":
            probe[c.meta[1]] = after_mark(impl[i]) if impl[i] else None
    for i, c in enumerate(cases):
        if not c.meta or impl[i] is None:
            continue
        if c.meta[0] == "hist":
            want = fresh.get(c.meta[1])
            got = after_mark(impl[i])
            if want is None or got is None or "TIMEOUT" in impl[i]:
                stats["skipped_timeout"] += 1
                continue
            stats["compared"] += 1
            if got != want:
                fails.append((i, "not fresh: RUN after the prefix differs from RUN in a fresh interpreter for\n%s\n  fresh:  %s\n  prefix: %s" % (
                    c.sig, sess.decode_events("|".join(want))[-500:], sess.decode_events("|".join(got))[-500:])))
        elif c.meta[0] == "probe-clear":
            want = probe.get(c.meta[1])
            got = after_mark(impl[i])
            if want is None or got is None:
                continue
            stats["probes_compared"] += 1
            if got != want:
                fails.append((i, "not cleared: probes after CLEAR differ from a fresh interpreter for\n%s\n  fresh: %s\n  CLEAR: %s" % (
                    c.sig, sess.decode_events("|".join(want))[-500:], sess.decode_events("|".join(got))[-500:])))
    STATS.update(stats)
    return fails


def nontrivial(case, r):
    return r is not None and case.meta is not None and case.meta[0] in ("hist", "probe-clear")
