"""C17 -- INPUT parses replies as documented and retries atomically per reply."""
import math

from framework import Case
import sess
import transcript

PROPERTY = "C17"
THEOREM_FILE = "Props/C17.v"
INTERFACES = "L5 sessions: INPUT statements answered through Runtime::enter; Event::Input(prompt, caps), REDO FROM START"
PROFILES = ["dev"]
CASE_TIMEOUT = 0.3
MODEL_CASE_TIMEOUT = 3.0
RULE = ("INPUT statements (no prompt / prompt with ';' / leading comma; 1-4 variables of every type, array targets whose subscript is an "
        "earlier field) x replies from a grammar (quotes balanced and unbalanced, commas inside and outside quotes, blanks and tabs, empty "
        "fields, decimal / exponent / & / &H numbers, suffixes, malformed and over-long numbers, non-ASCII, 1024+ byte replies); an "
        "independent specification of splitting, trimming, unquoting and conversion predicts accept (with the stored values) or REDO; "
        "non-trivial = reply with a quote, a comma inside quotes, an empty field, a radix/exponent form or a REDO; distinct = (statement, reply)")
ASSUMPTIONS = ["numeric fields outside the documented grammar (inf, nan, suffix characters) are compared model-vs-implementation only"]
EXHAUSTIVE = {"quick": False, "thorough": False}

VARS = [("A", "sng"), ("B#", "dbl"), ("I%", "int"), ("S$", "str"), ("T$", "str"), ("V!", "sng")]
# (text, value or None if not a number in the documented grammar, documented?)
NUM_FIELDS = [("12", 12, True), ("-3", -3, True), ("2.5", 2.5, True), (" 7 ", 7, True), ("", 0, True), ("1E2", 100, True), ("1e2", 100, True),
              ("1D1", 10, True), ("&HF", 15, True), ("&hf", 15, True), ("&17", 15, True), (".5", 0.5, True), ("+4", 4, True),
              ("32767", 32767, True), ("40000", 40000, True), ("-32768.5", -32768.5, True), ("1E10", 1e10, True),
              ("abc", None, True), ("12abc", None, True), ("--1", None, True), ("1,5x", None, True), ("&HG", None, True), ("&8", None, True),
              ("1 2", None, True), ("$5", None, True), ("\"5\"", None, True), ("1E", None, True),
              ("inf", None, False), ("nan", None, False), ("5%", None, False), ("5#", None, False), ("&H7FFF", 32767, True), ("&H8000", None, False),
              ("\t9\t", 9, True), ("1e400", None, False), ("0x10", None, True)] + \
             [(t, int(t[2:], 16), True) for t in ("&H1D", "&hd", "&H0DD0", "&H7ADD", "&HABC", "&hE0F", "&H1e", "&H1E2", "&H1D2", "&HdEaD"[:5], "&H7fff", "&HD", "&HE", "&H0")] + \
             [(t, int(t[1:], 8), True) for t in ("&777", "&0", "&77777", "&12345")] + [("&1D1", None, True), ("&H1G", None, True), ("&19", None, True)]
STR_FIELDS = ["abc", " padded ", "\"quoted\"", "\"a,b\"", "\"un", "un\"", "\"\"", "\"", "", "a\"b\"c", "é日", "\" lead", "x" * 255, "y" * 256,
              "\"" + "z" * 255 + "\"", "\"a\"\"b\"", "tab\there"]


def stmt_forms(rng):
    k = rng.randint(1, 4)
    vs = [rng.choice(VARS) for _ in range(k)]
    if rng.random() < 0.2 and k >= 2:
        vs = [v for v in vs if v[0] != "I%"] + [("A", "sng"), ("S$", "str")]
        vs = vs[:k]
        vs[0] = ("I%", "int")
        vs[1] = ("P(I%)", "arr")
    form = rng.choice(["plain", "prompt", "comma", "comma-prompt"])
    # the programmer's own prompt text is shown as it is, whatever it ends in, and '? ' is added to it every time
    own = rng.choice(["Enter", "q", "Enter", "SURE? ", "? ", "?", " ", "a?", "? ? ", "\u00e9? ", "x ?", "Enter: "])
    text = {"plain": "", "prompt": '"%s";' % own, "comma": ",", "comma-prompt": ',"%s";' % own}[form]
    prompt = {"plain": "? ", "prompt": own + "? ", "comma": "? ", "comma-prompt": own + "? "}[form]
    caps = form in ("plain", "prompt")
    return vs, "INPUT %s%s" % (text, ",".join(v for v, _ in vs)), prompt, caps


def split_spec(reply, n):
    if n <= 1:
        return [reply]
    out, cur, q = [], "", False
    for ch in reply:
        if ch == '"':
            q = not q
            cur += ch
        elif ch == "," and not q:
            out.append(cur)
            cur = ""
        else:
            cur += ch
    out.append(cur)
    return out


def expect(vs, fields_meta, reply):
    """('accept', [values]) | ('redo',) | None (outside the documented grammar)"""
    fields = split_spec(reply, len(vs))
    if len(fields) != len(vs):
        return ("redo",)
    vals = []
    env = {}
    for (name, ty), f in zip(vs, fields):
        t = f.strip(" \t")
        if ty == "str":
            if len(t) >= 2 and t.startswith('"') and t.endswith('"'):
                t = t[1:-1]
            if len(t) > 255:
                return ("redo",)
            vals.append(t)
        else:
            meta = fields_meta.get(f)
            if meta is None:
                return None
            v, documented = meta
            if not documented:
                return None
            if v is None:
                return ("redo",)
            if ty == "int" or (ty == "arr" and False):
                fl = math.floor(v)
                if not -32768 <= fl <= 32767:
                    return ("redo",)
                v = fl
            if ty == "arr":
                idx = env.get("I%")
                if idx is None or not 0 <= idx <= 10:
                    return ("redo",) if idx is not None else None
            env[name] = v
            vals.append(v)
    return ("accept", vals)


def fmt_num(v, ty="sng"):
    if v == int(v) and abs(v) < (1e17 if ty == "dbl" else 1e9):
        s = "%d" % int(v)
    elif abs(v) >= 1e9:
        s = ("%E" % v)
        m, e = s.split("E")
        m = m.rstrip("0").rstrip(".")
        s = "%sE%d" % (m, int(e))
    else:
        s = repr(float(v))
    return (s if s.startswith("-") else " " + s) + " "


def gen(tier, rng):
    cases = []
    n = 2500 if tier == "quick" else 100000
    meta = {t: (v, d) for t, v, d in NUM_FIELDS}
    for ci in range(n):
        vs, stmt, prompt, caps = stmt_forms(rng)
        fields = []
        for name, ty in vs:
            if ty == "str":
                fields.append(rng.choice(STR_FIELDS))
            else:
                fields.append(rng.choice(NUM_FIELDS)[0])
        r = rng.random()
        if r < 0.1 and len(fields) > 1:
            fields = fields[:-1]
        elif r < 0.18:
            fields.append(rng.choice(["1", "x", ""]))
        reply = ",".join(fields)
        if rng.random() < 0.02:
            reply = reply + "," * 1100
        dump = "PRINT " + ";\"|\";".join(("\"<\";%s;\">\"" % v) if t == "str" else v for v, t in vs)
        prog = ["10 " + stmt, "20 " + dump]
        good = ",".join(("ok" if t == "str" else ("2" if v != "I%" else "1")) for v, t in vs)
        calls = ["R5000"] + [sess.E(l) for l in prog] + [sess.E("RUN"), "R5000", "A5000:" + sess.hx(reply), "A5000:" + sess.hx(good)]
        cases.append(Case(sess.session(calls), sig="%s <- %r" % (stmt, reply), tag="input",
                          meta=("input", vs, reply, prompt, caps, good)))
    return cases


def monitor(case, r):
    if r is None:
        return None
    if "PANIC" in r or "HANG" in r or "CRASH" in r:
        return "crash: %s answers %s" % (case.sig, r[-60:])
    _, vs, reply, prompt, caps, good = case.meta
    ev = transcript.after_first_stop(transcript.split_events(r))
    want_in = "I:%s:%d" % (sess.hx(prompt), 1 if caps else 0)
    if not ev or ev[0] != want_in:
        return "prompt: %s must prompt %r with caps=%s, got %s" % (case.sig, prompt, caps, sess.decode_events("|".join(ev[:2])))
    meta = {t: (v, d) for t, v, d in NUM_FIELDS}
    if len(reply.encode("utf-8")) > 1024:
        e = ("redo",)
    else:
        e = expect(vs, meta, reply)
    if e is None:
        return None
    rest = ev[1:]
    if e[0] == "redo":
        if len(rest) < 2 or not rest[0].startswith("E:[21 ") or rest[1] != want_in:
            return "redo: %s must answer REDO FROM START and prompt again, got %s" % (case.sig, sess.decode_events("|".join(rest[:3])))
        return None
    if rest and rest[0].startswith("E:[21 "):
        return "accept: %s is a documented reply but was answered REDO FROM START" % case.sig
    text = transcript.printed_text(rest).replace("READY.\n", "")
    final = {}
    for (name, ty), v in zip(vs, e[1]):
        final[name] = v                      # a variable named twice keeps the later field
    parts = []
    for (name, ty) in vs:
        v = final[name]
        parts.append(("<%s>" % v) if ty == "str" else fmt_num(v, ty))
    want = "|".join(parts) + "\n"
    if not text.startswith(want):
        return "value: %s must store %r, the program prints %r" % (case.sig, want, text[:200])
    return None


def nontrivial(case, r):
    rep = case.meta[2]
    return r is not None and ('"' in rep or "&" in rep or "E" in rep.upper() or ",," in rep or "E:[21 " in r)
