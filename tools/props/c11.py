"""C11 -- PRINT lays out output exactly as documented."""
import struct

from framework import Case
import sess
import transcript

PROPERTY = "C11"
THEOREM_FILE = "Props/C11.v"
INTERFACES = "L5 sessions: PRINT lists executed in sequence; Lops: Val formatting (fmt) of random bit patterns"
PROFILES = ["dev"]
CASE_TIMEOUT = 0.3
MODEL_CASE_TIMEOUT = 3.0
RULE = ("programs of 2-8 PRINT statements mixing strings (ASCII and multi-byte), Integers, Singles and Doubles across magnitudes, "
        "separators ; , and juxtaposition, TAB(n) (positive, at/before/after the cursor, negative), SPC(n), POS(0), trailing separators, "
        "with CLS, INPUT and TRON in between so that the column carries over; an independent terminal emulator with its own "
        "shortest-digits formatter predicts the exact text; plus formatting of random f32/f64 bit patterns (shortest digits that read "
        "back, notation switch at 9/17 digits); non-trivial = a zone/TAB/POS item after a non-empty prefix, or a non-integer number; "
        "distinct = distinct programs / bit patterns")
ASSUMPTIONS = ["'shortest decimal that reads back' is checked per value by an independent formatter (Python repr / %g search), not proved"]
EXHAUSTIVE = {"quick": False, "thorough": False}


def f32(x):
    return struct.unpack("<f", struct.pack("<f", x))[0]


def shortest32(x):
    """shortest decimal digits (as '%e' mantissa/exponent) that read back to the same binary32"""
    for p in range(1, 10):
        s = "%.*e" % (p - 1, x)
        if f32(float(s)) == x:
            return s
    return "%.8e" % x


def shortest64(x):
    r = repr(x)
    return "%.*e" % (max(0, len(r.replace("-", "").replace(".", "").split("e")[0].lstrip("0")) - 1), x) if False else None


def digits_exp(x, single):
    """(digit string without trailing zeros, decimal exponent of the first digit)"""
    if single:
        s = shortest32(x)
    else:
        for p in range(1, 18):
            s = "%.*e" % (p - 1, x)
            if float(s) == x:
                break
    m, e = s.split("e")
    ds = m.replace(".", "").replace("-", "").rstrip("0") or "0"
    return ds, int(e)


def fmt_float(x, single):
    """Rust's Display / UpperExp choice of Val::fmt, with the leading blank or minus and no trailing blank"""
    if x != x:
        return " NaN"
    if x in (float("inf"), float("-inf")):
        return " inf" if x > 0 else "-inf"
    neg = (x < 0) or (x == 0 and str(x).startswith("-"))
    ax = abs(x)
    if ax == 0:
        body = "0"
    else:
        ds, e = digits_exp(ax, single)
        n = len(ds)
        if e < 0:
            plain = "0." + "0" * (-e - 1) + ds
        elif e + 1 < n:
            plain = ds[:e + 1] + "." + ds[e + 1:]
        else:
            plain = ds + "0" * (e + 1 - n)
        ndig = sum(c.isdigit() for c in plain)
        if ndig > (9 if single else 17):
            body = ds[0] + ("." + ds[1:] if n > 1 else "") + "E%d" % e
        else:
            body = plain
    return ("-" if neg else " ") + body


class Term:
    def __init__(self):
        self.col = 0
        self.out = ""

    def put(self, s):
        self.out += s
        for ch in s:
            self.col = 0 if ch == "\n" else self.col + 1


NUMS = [("0", "i", 0), ("7", "i", 7), ("-12", "i", -12), ("32767", "i", 32767), ("1.5", "s", 1.5), ("-2.25", "s", -2.25), ("100000", "s", 100000.0),
        ("1E10", "s", 1e10), ("1234567", "s", 1234567.0), ("12345678", "d", 12345678.0), ("0.1", "s", f32(0.1)), ("1/3", "s", f32(1.0 / 3.0)),
        ("2/3#", "d", 2 / 3), ("1E-7", "s", f32(1e-7)), ("123456789012345678", "d", 123456789012345678.0), ("1D20", "d", 1e20), ("1E38", "s", f32(1e38)),
        ("0.5#", "d", 0.5), ("16777216", "d", 16777216.0), ("3.4E38", "s", f32(3.4e38)), ("1.17549435E-38", "d", 1.17549435e-38), ("1E-45", "s", f32(1e-45)),
        ("255", "i", 255), ("-0.5", "s", -0.5), ("1000000000", "d", 1e9), ("999999999", "d", 999999999.0), ("1E9", "s", 1e9), ("123456.7", "s", f32(123456.7))]
STRS = ["A", "hello", "", "é日", "x" * 13, "y" * 14, "z" * 15, "12345678901234567890123456789", " "]


def num_text(kind, v):
    if kind == "i":
        return ("-%d" % -v if v < 0 else " %d" % v) + " "
    return fmt_float(v, kind == "s") + " "


def gen_print(rng, term):
    """one PRINT statement and its effect on the emulator"""
    n = rng.randint(0, 5)
    src = []
    last_sep = None
    for i in range(n):
        r = rng.random()
        if r < 0.3:
            s = rng.choice(STRS)
            src.append('"%s"' % s)
            term.put(s)
        elif r < 0.6:
            lit, kind, v = rng.choice(NUMS)
            src.append(lit if not lit.startswith("-") or not src or src[-1] in (";", ",") else "(" + lit + ")")
            term.put(num_text(kind, v))
        elif r < 0.72:
            t = rng.choice([0, 1, 5, 10, 14, 15, 20, 28, 40, 100, 255, -1, -5, -14, -20, -255])
            src.append("TAB(%d)" % t)
            if t < 0:
                term.put(" " * (-t - term.col % -t))
            elif t > term.col:
                term.put(" " * (t - term.col))
        elif r < 0.8:
            k = rng.choice([0, 1, 3, 14, 40])
            src.append("SPC(%d)" % k)
            term.put(" " * k)
        else:
            src.append("POS(0)")
            term.put(num_text("i", term.col))
        last_sep = None
        if i < n - 1 or rng.random() < 0.4:
            sep = rng.choice([";", ";", ",", " "])
            if sep == ",":
                term.put(" " * (14 - term.col % 14))
            if sep == " " and i == n - 1:
                sep = ";"
            src.append(sep)
            last_sep = sep
    if last_sep not in (";", ","):
        term.put("\n")
    text = "".join(src)
    # juxtaposition needs a blank only between two numbers / words
    return rng.choice(["PRINT ", "? "]) + text


def gen(tier, rng):
    cases = []
    n = 1200 if tier == "quick" else 40000
    for pi in range(n):
        term = Term()
        lines = []
        ln = 10
        inputs = []
        tron = False
        for _ in range(rng.randint(2, 8)):
            r = rng.random()
            if r < 0.8:
                stmt = gen_print(rng, term)
            elif r < 0.87:
                stmt = "CLS"
                term.put("\x0c")
                term.col = 0
            elif r < 0.93:
                stmt = 'INPUT "in";Q'
                term.put("\x05in? \x06")
                term.col = 0
                inputs.append("5")
            elif r < 0.955:
                stmt = "K$=INKEY$"              # a key is delivered through the entry point of typed lines, echoes nothing
                inputs.append(rng.choice(["k", "", "Q"]))      # and leaves the cursor where it is
            elif r < 0.98:
                stmt = rng.choice(["CLEAR", "CLEAR", "RESTORE", "DEFINT Q"])       # none of these moves the cursor
            else:
                stmt = "Q=Q+1"
            if tron and term.out is not None:
                pass
            lines.append("%d %s" % (ln, stmt))
            ln += 10
        run = "RUN"
        out = term.out
        if rng.random() < 0.15:
            # the cursor is already mid-line when RUN is typed: RUN itself prints nothing and must not move it
            pre = rng.choice(["ab", "x" * 13, "12345", "é"])
            run = 'PRINT "%s";:RUN' % pre
            t2 = Term()
            t2.put(pre)
            lines, inputs = [], []
            ln = 10
            for _ in range(rng.randint(1, 4)):
                lines.append("%d %s" % (ln, gen_print(rng, t2)))
                ln += 10
            out, term = t2.out, t2
        elif rng.random() < 0.18:
            # trace mode: the marker [n] printed when a new line is entered is output like any other and moves the column,
            # so zones, TAB and POS behind it on the same output line count it
            t3 = Term()
            lines, inputs = ["5 TRON"], []
            ln = 10
            for _ in range(rng.randint(2, 6)):
                t3.put("[%d]" % ln)
                lines.append("%d %s" % (ln, gen_print(rng, t3)))
                ln += 10
            out, term = t3.out, t3
        calls = ["R5000"] + [sess.E(l) for l in lines] + [sess.E(run), "R5000"] + ["A5000:" + sess.hx(r) for r in inputs]
        cases.append(Case(sess.session(calls), sig="\n".join(lines) + ("\n#typed: " + run if run != "RUN" else ""), tag="layout",
                          meta=("layout", out, term.col)))
    # formatting of random values
    m = 4000 if tier == "quick" else 200000
    for _ in range(m):
        if rng.random() < 0.5:
            b = rng.getrandbits(32)
            cases.append(Case("op1 fmt S:%08x" % b, tag="format32", meta=("fmt", "s", b)))
        else:
            b = rng.getrandbits(64)
            cases.append(Case("op1 fmt D:%016x" % b, tag="format64", meta=("fmt", "d", b)))
    for x in [1.0, 10.0, 1e9, 999999999.0, 1e10, 0.1, 1e-7, 123456789.0, 1e16, 1e17, 12345678901234567.0, 1e-5, 0.001, 2.5e-7]:
        cases.append(Case("op1 fmt S:%08x" % struct.unpack("<I", struct.pack("<f", x))[0], tag="format32", meta=("fmt", "s", struct.unpack("<I", struct.pack("<f", x))[0])))
        cases.append(Case("op1 fmt D:%016x" % struct.unpack("<Q", struct.pack("<d", x))[0], tag="format64", meta=("fmt", "d", struct.unpack("<Q", struct.pack("<d", x))[0])))
    return cases


def render(ev):
    """terminal text of the run: prints, prompts as \\x05..\\x06, CLS as \\x0c"""
    s = ""
    for e in ev:
        if e.startswith("P:"):
            s += bytes.fromhex(e[2:]).decode("utf-8")
        elif e.startswith("I:"):
            s += "\x05" + bytes.fromhex(e[2:].split(":")[0]).decode("utf-8") + "\x06"
        elif e == "C":
            s += "\x0c"
    return s


def monitor(case, r):
    if r is None:
        return None
    if r in ("PANIC", "HANG", "CRASH") or "PANIC" in r.split("|"):
        return "crash: %s answers %s" % (case.sig, r[:60])
    m = case.meta
    if m[0] == "layout":
        ev = transcript.after_first_stop(transcript.split_events(r))
        if any(e.startswith("E:[") for e in ev):
            return "error: the program\n%s\n  stopped with %s" % (case.sig, sess.decode_events("|".join(ev))[-200:])
        got = render(ev)
        want = m[1] + ("\n" if m[2] > 0 else "") + "READY.\n"
        if got != want:
            k = 0
            while k < min(len(got), len(want)) and got[k] == want[k]:
                k += 1
            return "layout: the program\n%s\n  prints   %r\n  expected %r\n  (first difference at character %d)" % (case.sig, got[:400], want[:400], k)
    elif m[0] == "fmt":
        single = m[1] == "s"
        if single:
            x = struct.unpack("<f", struct.pack("<I", m[2]))[0]
        else:
            x = struct.unpack("<d", struct.pack("<Q", m[2]))[0]
        got = bytes.fromhex(r[5:]).decode("utf-8") if r.startswith("ok T:") else r
        want = fmt_float(x, single)
        if got == want:
            return None
        if x != x or x in (float("inf"), float("-inf")) or x == 0:
            return "number: the value with bits %x prints %r, expected %r" % (m[2], got, want)
        # an exact decimal tie may be broken either way: require the documented properties instead of one text
        body = got[1:]
        if got[0] != ("-" if x < 0 else " "):
            return "number: %r must start with %s" % (got, "a minus sign" if x < 0 else "a blank")
        try:
            back = float(body.replace("E", "e"))
        except ValueError:
            return "number: %r is not a decimal numeral" % got
        if (f32(back) if single else back) != abs(x):
            return "number: the %s with bits %x prints %r, which reads back as another value" % ("Single" if single else "Double", m[2], got)
        ds, e = digits_exp(abs(x), single)
        mant = body.split("E")[0]
        sig = mant.replace(".", "").lstrip("0").rstrip("0") if "E" not in body else mant.replace(".", "")
        if len(sig.rstrip("0") or "0") > len(ds):
            return "number: %r has %d significant digits, %d suffice to read the value back" % (got, len(sig), len(ds))
        plain_digits = sum(c.isdigit() for c in want[1:]) if "E" not in want else 99
        if ("E" in body) != ("E" in want):
            return "number: %r uses the wrong notation (documented form %r)" % (got, want)
    return None


def nontrivial(case, r):
    if r is None:
        return False
    if case.meta[0] == "fmt":
        return "." in r or "45" in r
    return any(k in case.sig for k in ("TAB", ",", "POS", "SPC"))
