"""C03 -- no input can crash or wedge the interpreter."""
from framework import Case
import gen_lines

PROPERTY = "C03"
THEOREM_FILE = "Props/C03.v"
INTERFACES = "L1 lex, L2 relist, L3 ast (Line::new / Line::ast / Display), L5 sessions (Runtime::enter/execute/interrupt)"
PROFILES = ["dev"]
CASE_TIMEOUT = 0.02
RULE = ("all strings over the 25-symbol lexical alphabet up to length 3 (quick) / 4 (thorough), seeded token soup "
        "and mutated program lines, sessions of protocol-respecting API calls; non-trivial = the line yields at least "
        "two tokens or an error; distinct = distinct case lines")
ASSUMPTIONS = ["watchdog: a case that does not answer within 3 s is a HANG"]
EXHAUSTIVE = {"quick": False, "thorough": False}


def hexs(s):
    return s.encode("utf-8").hex()


def gen(tier, rng):
    cases = []
    maxlen = 3 if tier == "quick" else 4
    for s in gen_lines.exhaustive(gen_lines.ALPHABET25, maxlen):
        cases.append(Case(("ast " + hexs(s)).strip(), sig="ast: " + s, tag="exhaustive"))
    # every exhaustive string again behind a statement, where a literal cannot be taken for a line number
    for s in gen_lines.exhaustive(gen_lines.ALPHABET25, maxlen - 1):
        cases.append(Case("ast " + hexs("A=" + s), sig="ast: A=" + s, tag="exhaustive-expr"))
    n = 8000 if tier == "quick" else 300000
    for _ in range(n):
        s = gen_lines.numbered(rng, gen_lines.soup(rng, rng.randint(1, 10)))
        kind = rng.choice(("lex", "relist", "ast"))
        cases.append(Case(kind + " " + hexs(s), sig=kind + ": " + s, tag="soup"))
    for s in gen_lines.SAMPLE_PROGRAM_LINES:
        for k in range(len(s)):
            m = s[:k] + s[k + 1:]
            cases.append(Case("ast " + hexs(m), sig="ast: " + m, tag="mutated"))
            m = s[:k] + rng.choice("\"'&.EeD%$!#(),:;=<>") + s[k:]
            cases.append(Case("ast " + hexs(m), sig="ast: " + m, tag="mutated"))
    return cases


def monitor(case, r):
    if r in ("PANIC", "HANG", "CRASH"):
        return "crash: %s answers %s" % (case.sig, r)
    return None


def nontrivial(case, r):
    return r is not None and (r.count(" ") >= 2 or r.startswith("err"))
