"""C03 -- no input can crash or wedge the interpreter."""
from framework import Case
import gen_lines

PROPERTY = "C03"
THEOREM_FILE = "Props/C03.v"
INTERFACES = "L1 lex, L2 relist, L3 ast (Line::new / Line::ast / Display), L5 sessions (Runtime::enter/execute/interrupt)"
XCHECK_TAGS = {"exhaustive", "exhaustive-expr", "soup", "mutated", "session"}
WATCHDOG_MS = 30000      # 65000-deep recursions under full machine load
PROFILES = ["dev", "dbg"]
CASE_TIMEOUT = 0.02
RULE = ("all strings over the 25-symbol lexical alphabet up to length 3 (quick) / 4 (thorough), seeded token soup "
        "and mutated program lines, sessions of protocol-respecting API calls; non-trivial = the line yields at least "
        "two tokens or an error; distinct = distinct case lines")
ASSUMPTIONS = ["watchdog: a case that does not answer within 30 s (the limit is generous because 65000-deep recursions run under full machine load) is a HANG",
               "profile dbg (the crate's debug assertions on) is used only for sessions that keep the terminal's calling discipline: "
               "a line is entered at the prompt or as the reply to INPUT / INKEY$, never while the program is running"]
EXHAUSTIVE = {"quick": False, "thorough": False}


def hexs(s):
    return s.encode("utf-8").hex()


def gen(tier, rng):
    cases = []
    maxlen = 3 if tier == "quick" else 4
    for s in gen_lines.exhaustive(gen_lines.ALPHABET25, maxlen):
        cases.append(Case(("ast " + hexs(s)).strip(), sig="ast: " + s, tag="exhaustive"))
    # every exhaustive string again behind a statement, where a literal cannot be taken for a line number
    for s in gen_lines.exhaustive(gen_lines.ALPHABET25, maxlen - 1):
        cases.append(Case("ast " + hexs("A=" + s), sig="ast: A=" + s, tag="exhaustive-expr"))
    n = 8000 if tier == "quick" else 300000
    for _ in range(n):
        s = gen_lines.numbered(rng, gen_lines.soup(rng, rng.randint(1, 10)))
        kind = rng.choice(("lex", "relist", "ast"))
        cases.append(Case(kind + " " + hexs(s), sig=kind + ": " + s, tag="soup"))
    for s in gen_lines.SAMPLE_PROGRAM_LINES:
        for k in range(len(s)):
            m = s[:k] + s[k + 1:]
            cases.append(Case("ast " + hexs(m), sig="ast: " + m, tag="mutated"))
            m = s[:k] + rng.choice("\"'&.EeD%$!#(),:;=<>") + s[k:]
            cases.append(Case("ast " + hexs(m), sig="ast: " + m, tag="mutated"))
    return cases


def monitor(case, r):
    if r in ("PANIC", "HANG", "CRASH"):
        return "crash: %s answers %s" % (case.sig, r)
    return None


def nontrivial(case, r):
    return r is not None and (r.count(" ") >= 2 or r.startswith("err"))


# ---------------------------------------------------------------------------------------------
# session level: protocol-respecting call sequences (enter / execute / interrupt / snapshots / loads)
# ---------------------------------------------------------------------------------------------
import gen_prog  # noqa: E402
import sess  # noqa: E402

REPLIES = ["", "1", "abc", "\"", "\"\"", "1,2", ",", "\"a,b\",7", " 5 ", "1E400", "&HFFFF", "x" * 1025, "é" * 600, "\t", "1,2,3,4,5,6,7,8,9",
           "-", "1e", "\"unterminated", "a\"b", "NEW", "RUN", "10 PRINT 1"]
EXTREME = ["A%%=-32767-1:B%%=-1:PRINT A%% %s B%%" % op for op in ("MOD", "\\", "*", "+", "-", "/", "AND", "OR", "XOR", "IMP", "EQV", "=", "<")] + \
          ["A%=-32767-1:PRINT -A%", "A%=-32767-1:PRINT ABS(A%)", "A%=-32767-1:PRINT A%-1", "A%=32767:PRINT A%+1", "A%=-32767-1:PRINT A% MOD -.5",
           "A%=-32767-1:PRINT NOT A%", "A%=-32767-1:PRINT A%\\.4", "A%=-32767-1:PRINT A%^2;A%^0", "PRINT 0^0;2^15;(-2)^15;(-2)^16", "A%=-32767-1:PRINT SGN(A%);INT(A%);FIX(A%);CINT(A%)",
           "A%=-32767-1:PRINT HEX$(A%);OCT$(A%);STR$(A%)", "A%=-32767-1:PRINT CHR$(A%)", "A%=-32767-1:PRINT LEFT$(\"x\",A%)", "A%=-32767-1:PRINT SPC(A%)",
           "A%=-32767-1:PRINT TAB(A%)", "A%=-32767-1:DIM Q9(A%)", "A%=-32767-1:FOR I%=A% TO A%+1 STEP -1:NEXT", "A%=32767:FOR I%=A%-1 TO A%:NEXT",
           "PRINT 1E38*1E38;-1E38*1E38;1D308*10", "PRINT 1/0", "PRINT 0/0", "PRINT 1\\0", "PRINT 1 MOD 0", "PRINT SQR(-1);SQR(0);SQR(2)",
           # temporaries are not held to the 255 limit of stored strings: a concatenation can grow past what LEN can report
           "X$=STRING$(255,\"x\"):PRINT LEN(" + "+".join(["X$"] * 129) + ")", "X$=STRING$(255,\"x\"):PRINT LEN(" + "+".join(["X$"] * 128) + ")",
           "X$=STRING$(255,\"x\"):Y$=LEFT$(" + "+".join(["X$"] * 129) + ",3):PRINT Y$", "PRINT TAB(0);\"a\";TAB(.5);\"b\";SPC(0);\"c\""]
# arrays are sparse: the largest bounds DIM accepts cost nothing until elements are stored
EXTREME += ["DIM A(32767,32767,32767,32767):A(32767,0,32767,1)=7:PRINT A(32767,0,32767,1);A(1,1,1,1)", 'DIM B$(32767,32767,32767,32767,32767):B$(0,0,0,0,32767)="OK":PRINT B$(0,0,0,0,32767)',
            "DIM C%(32767,32767):C%(32767,32767)=1:PRINT C%(32767,32767);C%(0,0)", "DIM D#(32767):D#(32767)=2:ERASE D#:DIM D#(32767,32767,32767)"]
DIRECT = EXTREME + ["RUN", "RUN 20", "LIST", "LIST 10-20", "CONT", "NEW", "RENUM", "RENUM 5,0,0", "RENUM 65529", "DELETE 10", "DELETE 10-", "DELETE",
                    # ranges written backwards: an error, never a request the ordered map cannot serve
                    "LIST 20-10", "DELETE 20-10", "LIST 65529-0", "DELETE 30-10", "LIST 20-10:PRINT 1", "10 LIST 30-10",
          "SAVE \"f\"", "LOAD \"f\"", "RUN \"f\"", "CLEAR", "PRINT 1/0", "PRINT -(-32767-1)", "PRINT ABS(-32767-1)", "A$=INKEY$", "INPUT Q", "INPUT Q$,R$",
          "GOTO 10", "GOSUB 10", "RETURN", "NEXT", "WEND", "FOR I=1 TO 1E30", "DIM Z(32767)", "DIM Z(10,10,10,10)", "PRINT STRING$(255,\"x\")+STRING$(255,\"y\")",
          "X$=STRING$(255,\"é\"):PRINT LEN(X$+X$+X$)", "PRINT CHR$(-1)", "PRINT MID$(\"abc\",0)", "PRINT LEFT$(\"é日\",1)", "PRINT VAL(\"1E400\")", "TRON", "TROFF",
          "DEF FNA(X)=X", "PRINT FNA(1)", "ERASE Q", "ON 0 GOTO 10", "ON 70000 GOTO 10", "PRINT 1E38*10", "PRINT 2^15", "PRINT 2^1000", "?\"é\"+1",
          "10", "20", "65530 PRINT", "  ", "'", "REM", ":", "::::", "IF 1 THEN", "IF 1 THEN ELSE", "PRINT \"" + "x" * 300 + "\"", "A=" + "(" * 300,
          "A=" + "(" * 200 + "1" + ")" * 200, "PRINT " + "-" * 500 + "1", "PRINT " + "NOT " * 200 + "1", "PRINT 1" + "+1" * 400, "LIST 65529-", "LIST -0"]


def session_cases(tier, rng):
    out = []
    n = 700 if tier == "quick" else 30000
    for si in range(n):
        calls = ["R5000"]
        held = 0
        prog, inputs = gen_prog.generate(rng, size=rng.randint(1, 4))
        steps = rng.randint(4, 22)
        for _ in range(steps):
            r = rng.random()
            if r < 0.3:
                l = rng.choice(prog)
                if rng.random() < 0.2:
                    k = rng.randrange(len(l))
                    l = l[:k] + rng.choice("\"'&.EeD%$!#(),:;=<>") + l[k + 1:]
                calls.append(sess.E(l))
            elif r < 0.36:
                calls.append(sess.E(gen_lines.numbered(rng, gen_lines.soup(rng, rng.randint(1, 8)))))
            elif r < 0.45:
                # an INPUT statement answered field by field from a set of awkward fields
                vs = [rng.choice(["A", "S$", "T$", "I%", "P(1)", "R$(2)"]) for _ in range(rng.randint(1, 3))]
                fields = [rng.choice(['"', '""', "a", "", " ", '"x', "1", "é", '" "', "x\"", '"""', "1e5", "&H"]) for _ in vs]
                calls += [sess.E("INPUT " + ",".join(vs)), "R5000", "A5000:" + sess.hx(",".join(fields)), "A5000:" + sess.hx(",".join(["1"] * len(vs)))]
            elif r < 0.52:
                # editing commands whose operands are line numbers of the stored program (so that they act on part of it)
                nums = [int(l.split()[0]) for l in prog if l.split()[0].isdigit()] or [10]
                a, b = rng.choice(nums), rng.choice(nums)
                cmd = rng.choice(["RENUM %d,%d" % (rng.choice([100, 5, a, 60000]), a), "RENUM %d,%d,%d" % (rng.choice([100, 1, 65000]), a, rng.choice([1, 10, 1000])),
                                  "RENUM ,%d" % a, "DELETE %d-%d" % (min(a, b), max(a, b)), "DELETE %d-" % a, "DELETE -%d" % a, "LIST %d-%d" % (min(a, b), max(a, b)),
                                  "LIST %d-" % a, "RUN %d" % a, "RESTORE %d" % a, "GOTO %d" % a])
                calls += [sess.E(cmd), "R%d" % rng.choice([1, 7, 5000, 5000])]
            elif r < 0.6:
                calls += [sess.E(rng.choice(DIRECT)), "R%d" % rng.choice([1, 7, 5000, 5000])]
            elif r < 0.72:
                calls.append("A%d:%s" % (rng.choice([1, 5000]), sess.hx(rng.choice(REPLIES + inputs))))
            elif r < 0.8:
                calls += ["X%d" % rng.choice([1, 2, 3, 50])] * rng.randint(1, 5) + ["I", "R5000"]
            elif r < 0.84:
                calls.append("I")
            elif r < 0.88 and rng.random() < 0.5:
                calls.append("g")
            elif r < 0.9:
                calls.append("G")
                held += 1
            elif r < 0.92 and held:
                calls.append("D")
                held -= 1
            elif r < 0.96:
                text = "\n".join(rng.sample(prog, min(len(prog), 3))) + rng.choice(["", "\n", "\nPRINT 1\n", "\n" + "x" * 1030 + "\n"])
                calls.append("L:%s:%d" % (sess.hx(text), rng.choice([0, 1])))
                calls.append("R5000")
            else:
                calls.append(sess.E("x" * rng.choice([1023, 1024, 1025, 3000])))
                calls.append("R5000")
        # back to the prompt after at most one interrupt, then the next line must be accepted
        calls += ["I", "R5000", "A5000:" + sess.hx("0"), sess.E("PRINT 7"), "R5000"]
        out.append(Case(sess.session(calls), sig="session %d: %d calls, %d snapshots held" % (si, len(calls), held), tag="session",
                        meta=("session", held)))
    return out


_gen_lines_only = gen


def gen(tier, rng):  # noqa: F811
    return _gen_lines_only(tier, rng) + session_cases(tier, rng) + legal_session_cases(tier, rng)


_monitor_lines = monitor


def monitor(case, r):  # noqa: F811
    v = _monitor_lines(case, r)
    if v or r is None:
        return v
    if "PANIC" in r.split("|") or "HANG" in r.split("|"):
        return "crash: %s answers ...%s" % (case.sig, sess.decode_events(r)[-200:])
    if case.meta and case.meta[0] == "session":
        tail = r.split("|")[-5:]
        if tail[-1] != "S" or ("P:" + sess.hx(" 7 ")) not in tail:
            return "not ready: after an interrupt the next line was not executed: %s ... %s" % (case.sig, sess.decode_events("|".join(tail)))
    return None


def legal_session_cases(tier, rng):
    """sessions as the terminal produces them, run with the crate's debug assertions enabled"""
    out = []
    n = 250 if tier == "quick" else 10000
    for si in range(n):
        calls = ["R5000"]
        prog, inputs = gen_prog.generate(rng, size=rng.randint(1, 4))
        for _ in range(rng.randint(3, 14)):
            r = rng.random()
            if r < 0.35:
                line = rng.choice(prog)
            elif r < 0.45:
                line = gen_lines.numbered(rng, gen_lines.soup(rng, rng.randint(1, 8)))
            elif r < 0.55:
                vs = [rng.choice(["A", "S$", "T$", "I%", "P(1)", "R$(2)"]) for _ in range(rng.randint(1, 3))]
                line = "INPUT " + ",".join(vs)
            else:
                line = rng.choice(DIRECT)
            calls += [sess.E(line), "R5000"]
            for _ in range(rng.randint(0, 2)):
                calls.append("A5000:" + sess.hx(rng.choice(REPLIES + inputs)))
            calls += ["I", "R5000"]          # whatever is still running or waiting is stopped before the next line
        calls += [sess.E("PRINT 7"), "R5000"]
        out.append(Case(sess.session(calls), sig="terminal session %d: %d calls" % (si, len(calls)), tag="terminal-session", profile="dbg",
                        meta=("session", 0)))
    # every statement with operands at the ends of the Integer range, once, in both profiles
    for prof in ("dev", "dbg"):
        for chunk in range(0, len(EXTREME), 8):
            calls = ["R5000"]
            for e in EXTREME[chunk:chunk + 8]:
                calls += [sess.E(e), "R5000", "I", "R5000"]
            calls += [sess.E("PRINT 7"), "R5000"]
            out.append(Case(sess.session(calls), sig="extreme operands: " + " / ".join(EXTREME[chunk:chunk + 8]), tag="extreme", profile=prof,
                            meta=("session", 0)))
    # the deepest nesting a line of at most 1024 bytes can spell, in every nesting form: the recursive-descent parser, the code
    # generator's walk and the destructor of the tree all recurse once per level, on the stack of the calling thread (the
    # harness runs cases on threads with the 8 MB the operating system gives the real program's main thread)
    deep = ["?" + "-" * 1000 + "1", "?" + "(" * 500 + "1" + ")" * 500, "?" + "NOT " * 250 + "1", "?" + "ABS(" * 200 + "1" + ")" * 200,
            "IF 1 THEN " * 100 + "PRINT 5", "A=" + "-" * 1000 + "1", "?" + "A(" * 330 + "1" + ")" * 330, "?" + "1+(" * 300 + "1" + ")" * 300,
            "?" + "-(" * 330 + "1" + ")" * 330, "IF 0 THEN ELSE " * 65 + "PRINT 6", "?" + "1^" * 500 + "1", "?" + "FNA(" * 200 + "1" + ")" * 200]
    for prof in ("dev", "dbg"):
        for d in deep:
            for text in (d, "10 " + d):
                calls = ["R5000", sess.E(text), "R5000"] + ([sess.E("RUN"), "R5000"] if text.startswith("10 ") else []) + \
                        [sess.E("LIST"), "R5000", sess.E("PRINT 7"), "R5000"]
                out.append(Case(sess.session(calls), sig="deepest nesting: %s... (%d characters)" % (text[:24], len(text)), tag="deep-nesting",
                                profile=prof, side="impl", meta=("session", 0)))
    # pools at their edge when a reply arrives (the value stack holds the reply's fields)
    for depth in (65520, 65526, 65528, 65530, 65532):
        for stmt, reply in (("INPUT A,B,C,D,E,F,G,H", "1,2,3,4,5,6,7,8"), ("INPUT A$", "x"), ("A$=INKEY$", "k"), ("INPUT A,B", "1")):
            prog = ["10 N=N+1:IF N<%d THEN GOSUB 10" % depth, "20 " + stmt, "30 PRINT \"after\""]
            calls = ["R5000"] + [sess.E(l) for l in prog] + [sess.E("RUN"), "R50000", "A5000:" + sess.hx(reply), "A5000:" + sess.hx("1,2"),
                                                             "I", "R5000", sess.E("PRINT 7"), "R5000"]
            for prof in ("dev", "dbg"):
                out.append(Case(sess.session(calls), sig="reply on a nearly full stack: depth %d, %s <- %s" % (depth, stmt, reply),
                                tag="edge-reply", profile=prof, meta=("session", 0)))
    return out
