"""C01 -- compiled execution follows the documented statement-by-statement semantics."""
from framework import Case
import gen_prog
import sess
import transcript

PROPERTY = "C01"
THEOREM_FILE = "Props/C01.v"
INTERFACES = "L5 sessions (Runtime::enter/execute) vs the VM model; reference semantics Spec/Sem.v as oracle"
PROFILES = ["dev"]
CASE_TIMEOUT = 0.3
MODEL_CASE_TIMEOUT = 3.0
RULE = ("grammar-generated programs of the well-defined fragment (FOR/NEXT incl. early exits and NEXT lists, WHILE/WEND, "
        "GOSUB nests, ON..GOTO/GOSUB with selectors in and out of range, nested IF/ELSE, multi-statement lines, DATA/READ, "
        "DEF FN, INPUT with scripted replies, TRON); each run with quantum 5000 and a small quantum, with and without TRON; "
        "non-trivial = the run prints at least 3 times or ends in an error; distinct = distinct program texts; programs whose "
        "reference run is Undefined or out of fuel are discarded and counted")
ASSUMPTIONS = ["the reference semantics shares value-level operations (Ops/Func/Var) with the model: C01 is about control flow"]
EXHAUSTIVE = {"quick": False, "thorough": False}


import semcheck


CORPUS = [
    # ON..GOSUB out of range inside a subroutine (the case named in the property)
    (["10 GOSUB 100", "20 PRINT \"BACK\"", "30 END", "100 PRINT \"SUB\"", "110 ON 5 GOSUB 200", "120 RETURN", "200 PRINT \"NO\"", "210 RETURN"], []),
    (["10 FOR I=1 TO 3", "20 FOR J=1 TO 2", "30 IF J=2 THEN 60", "40 PRINT I;J", "50 NEXT J", "60 NEXT I", "70 PRINT \"E\""], []),
    (["10 FOR I=1 TO 2:FOR J=1 TO 2:PRINT I*J;:NEXT J,I:PRINT"], []),
    (["10 IF 1 THEN IF 0 THEN PRINT 1 ELSE PRINT 2 ELSE PRINT 3", "20 IF 0 THEN IF 0 THEN PRINT 1 ELSE PRINT 2 ELSE PRINT 3"], []),
    (["10 I=0", "20 WHILE I<3:I=I+1", "30 IF I=2 THEN 50", "40 PRINT I", "50 WEND", "60 PRINT \"X\""], []),
    (["10 FOR I=1 TO 0:PRINT \"ONCE\":NEXT", "20 FOR X=1 TO 2 STEP 0.5:PRINT X;:NEXT"], []),
    (["10 TRON", "20 GOSUB 100", "30 PRINT \"A\":GOTO 50", "40 REM", "50 TROFF", "60 END", "100 RETURN"], []),
    # a branch whose target is the very end of the program, behind a final END
    (["10 PRINT 1:IF 0 THEN END"], []),
    (["10 PRINT 1:IF 0 THEN END", "20 REM"], []),
    (["10 PRINT 1:GOTO 30", "20 END", "30 REM"], []),
    (["10 GOSUB 30:PRINT 2:END", "30 PRINT 1:RETURN:END", "40 ' tail"], []),
    (["10 FOR I=1 TO 2:PRINT I:NEXT:IF I=9 THEN END"], []),
    # FOR assigns the start value, then evaluates the limit, then the step: both may mention the loop variable
    (["10 I=10:FOR I=1 TO I+2:PRINT I;:NEXT"], []),
    (["10 FOR J=1 TO 2", "20 FOR I=1 TO I+1", "30 PRINT J;I", "40 NEXT I", "50 NEXT J"], []),
    (["10 GOSUB 100:GOSUB 100", "20 END", "100 FOR K=1 TO K*3:PRINT K;:NEXT:PRINT:RETURN"], []),
    (["10 I=3:FOR I=I TO I+4 STEP I-1:PRINT I;:NEXT:PRINT I"], []),
    (["10 I%=7:FOR I%=2 TO I%*2 STEP I%:PRINT I%;:NEXT"], []),
    # an inner loop left early: the outer NEXT, by name or in a list, drops its frame and leaves its variable alone
    (["10 FOR I=1 TO 2", "20 FOR J=1 TO 5", "30 IF J=3 THEN 50", "40 NEXT J", "50 PRINT I;J;", "60 NEXT I", "70 PRINT I;J"], []),
    (["10 GOSUB 100:PRINT A;B;C:END", "100 FOR A=1 TO 2", "110 FOR B=10 TO 1 STEP -2", "120 FOR C=1 TO 9", "130 IF C=4 THEN 150", "140 NEXT C,B",
      "150 NEXT A", "160 RETURN"], []),
    (["10 FOR I%=1 TO 2:FOR J%=32766 TO 32767:IF J%=32767 THEN 30", "20 NEXT J%", "30 NEXT I%:PRINT I%;J%"], []),
    # NEXT adds the step with the checked Integer sum: a loop over an Integer variable ends in OVERFLOW at the limit
    (["10 FOR I%=32766 TO 32767", "20 PRINT I%;", "30 NEXT I%", '40 PRINT "DONE";I%'], []),
    (["10 FOR I%=32000 TO 32001 STEP 1000:NEXT:PRINT I%"], []),
    (["0 X=X+1:PRINT X;", "5 IF 0 THEN PRINT \"NEVER\"", "10 IF X<3 THEN 0", "20 PRINT \"DONE\""], []),
]


def frame_programs():
    """subroutines that return with abandoned FOR frames above the return address, called from every kind of context"""
    subs = {
        "for-return": ["FOR J=1 TO 10", "IF J=I THEN RETURN", "NEXT J", "RETURN"],
        "for-for-return": ["FOR J=1 TO 3:FOR K=1 TO 3", "IF J*K=I+1 THEN RETURN", "NEXT K,J", "RETURN"],
        "for-goto-return": ["FOR J=1 TO 5", "IF J=2 THEN {out}", "NEXT J", "{out} PRINT \"o\";:RETURN"],
        "while-return": ["Q=0:WHILE Q<5:Q=Q+1", "IF Q=I+1 THEN RETURN", "WEND", "RETURN"],
        "for-gosub-return": ["FOR J=1 TO 2:GOSUB {deep}:NEXT J:RETURN", "{deep} FOR K=1 TO 9:IF K=2 THEN RETURN", "NEXT K:RETURN"],
        "plain": ["PRINT \"s\";:RETURN"],
    }
    callers = {
        "for": (["FOR I=1 TO 3", "GOSUB {sub}", "PRINT I;J;", "NEXT I", "PRINT \"done\":END"]),
        "for-for": (["FOR L=1 TO 2:FOR I=1 TO 2", "GOSUB {sub}", "PRINT L;I;", "NEXT I,L", "PRINT \"done\":END"]),
        "while": (["I=0:WHILE I<3:I=I+1", "GOSUB {sub}", "PRINT I;", "WEND", "PRINT \"done\":END"]),
        "gosub-in-for": (["FOR M=1 TO 2:GOSUB {mid}:NEXT M:PRINT \"done\":END", "{mid} I=M:GOSUB {sub}:PRINT M;:RETURN"]),
        "expression": (["FOR I=1 TO 2", "GOSUB {sub}:X=I*10+J:PRINT X;", "NEXT", "PRINT \"done\":END"]),
        "on-gosub": (["FOR I=1 TO 3", "ON I GOSUB {sub},{sub},{sub}", "PRINT I;", "NEXT I", "PRINT \"done\":END"]),
    }
    out = []
    for cname, clines in callers.items():
        for sname, slines in subs.items():
            lines = []
            labels = {}
            num = 10
            body = []
            for l in clines:
                body.append(l)
            body2 = list(slines)
            # lay out: caller lines, then the sub; labels {mid} {sub} {deep} {out} are the line numbers of the lines that start with them
            all_lines = []
            for l in body:
                all_lines.append(l)
            first_sub = True
            for l in body2:
                all_lines.append(("{sub} " + l) if first_sub else l)
                first_sub = False
            numbered = []
            for l in all_lines:
                lab = None
                while l.startswith("{"):
                    k = l.index("}")
                    lab = l[1:k]
                    labels[lab] = num
                    l = l[k + 2:]
                numbered.append((num, l))
                num += 10
            prog = []
            for n_, l in numbered:
                for lab, v in labels.items():
                    l = l.replace("{%s}" % lab, str(v))
                prog.append("%d %s" % (n_, l))
            out.append((prog, []))
    return out


LAST_STATEMENTS = ["ON X GOTO 10", "ON 5 GOTO 10,10", "N=N+1:ON 2-N GOTO 10", "IF 0 THEN 10", "IF N>0 THEN GOTO 10", "ON X GOSUB 10", "ON 9 GOSUB 10,10",
                   "FOR I=1 TO 1:NEXT", "WHILE 0:WEND", "IF 0 THEN END", "IF 0 THEN PRINT 1 ELSE IF 0 THEN 10", "N=N+1:IF N<3 THEN 10", "GOSUB 10",
                   "N=N+1:IF N<2 THEN GOSUB 10", "DEF FNA(X)=X", "DATA 1", "REM", "PRINT 2:END", "N=N+1:IF N<3 THEN GOTO 10 ELSE END", "STOP",
                   "N=N+1:WHILE N<3:N=N+1:WEND", "RESTORE", "RESTORE 10", "ON X GOTO 10:REM"]


def last_statement_programs():
    """the program ends with each kind of statement, falling off the end: nothing may run behind the last line"""
    out = []
    for last in LAST_STATEMENTS:
        first = '10 PRINT "A";:IF N>5 THEN END'
        if last.startswith("GOSUB") or "THEN GOSUB" in last or "GOSUB 10" in last:
            first = '10 PRINT "A";:N=N+1:IF N>3 THEN END'
        out.append(([first, "20 " + last], []))
        out.append(([first, "20 " + last, "30 REM tail"], []))
        out.append((["5 GOTO 10", first, "20 " + last], []))
    return out


def tron_direct_cases(rng):
    """with TRON on, a direct line that enters program lines: every entry is traced, also the second entry into the same line"""
    out = []
    prog = ['100 PRINT "<100>";:RETURN', '200 PRINT "<200>";:RETURN', '300 PRINT "<300>";:GOSUB 100:RETURN']
    plans = [[100, 100], [100, 200, 100], [200, 200, 200], [300, 300], [100, 300, 100], [300, 100, 100, 200]]
    for _ in range(6):
        plans.append([rng.choice([100, 200, 300]) for _ in range(rng.randint(2, 5))])
    for plan in plans:
        direct = ":".join("GOSUB %d" % n for n in plan)
        want = ""
        for n in plan:
            want += "[%d]<%d>" % (n, n)
            if n == 300:
                want += "[100]<100>[300]"          # ... and the return into line 300 enters it again
        calls = ["R5000"] + [sess.E(l) for l in prog] + [sess.E("TRON"), "R5000", sess.E(direct), "R5000", sess.E("TROFF"), "R5000"]
        out.append(Case(sess.session(calls), sig="\n".join(prog) + "\n#TRON, then: " + direct, tag="tron-direct", meta=("tron-direct", want, 0)))
    for k in (2, 3):
        direct = "FOR I=1 TO %d:GOSUB 100:NEXT" % k
        calls = ["R5000"] + [sess.E(l) for l in prog] + [sess.E("TRON"), "R5000", sess.E(direct), "R5000", sess.E("TROFF"), "R5000"]
        out.append(Case(sess.session(calls), sig="\n".join(prog) + "\n#TRON, then: " + direct, tag="tron-direct", meta=("tron-direct", "[100]<100>" * k, 0)))
    return out


def gen(tier, rng):
    cases = tron_direct_cases(rng)
    progs = list(CORPUS) + frame_programs() + last_statement_programs()
    n = 500 if tier == "quick" else 20000
    for _ in range(n):
        progs.append(gen_prog.generate(rng))
    for prog, inputs in progs:
        tron = rng.random() < 0.25
        cases.extend(semcheck.cases_for(prog, inputs, rng, tron=tron, quanta=(5000, rng.choice([1, 2, 3, 7, 64]))))
    return cases


def monitor(case, r):
    v = semcheck.crash_monitor(case, r)
    if v or r is None:
        return v
    if case.meta and case.meta[0] == "tron-direct":
        import transcript
        ev = transcript.split_events(r)
        # the output of the direct line: between the second and the third prompt after the listing was typed
        text = transcript.printed_text(ev)
        parts = text.split("READY.\n")
        body = parts[2] if len(parts) > 2 else ""
        if body.strip() != case.meta[1]:
            return "trace: %s\n  prints   %r\n  the lines entered are %r" % (case.sig, body.strip(), case.meta[1])
    return None
STATS = {}


def cross_monitor(cases, impl, model):
    return semcheck.cross_monitor(cases, impl, model, STATS)


def nontrivial(case, r):
    return r is not None and (r.count("P:") >= 5 or "E:[" in r)
