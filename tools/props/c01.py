"""C01 -- compiled execution follows the documented statement-by-statement semantics."""
from framework import Case
import gen_prog
import sess
import transcript

PROPERTY = "C01"
THEOREM_FILE = "Props/C01.v"
INTERFACES = "L5 sessions (Runtime::enter/execute) vs the VM model; reference semantics Spec/Sem.v as oracle"
PROFILES = ["dev"]
CASE_TIMEOUT = 0.3
MODEL_CASE_TIMEOUT = 3.0
RULE = ("grammar-generated programs of the well-defined fragment (FOR/NEXT incl. early exits and NEXT lists, WHILE/WEND, "
        "GOSUB nests, ON..GOTO/GOSUB with selectors in and out of range, nested IF/ELSE, multi-statement lines, DATA/READ, "
        "DEF FN, INPUT with scripted replies, TRON); each run with quantum 5000 and a small quantum, with and without TRON; "
        "non-trivial = the run prints at least 3 times or ends in an error; distinct = distinct program texts; programs whose "
        "reference run is Undefined or out of fuel are discarded and counted")
ASSUMPTIONS = ["the reference semantics shares value-level operations (Ops/Func/Var) with the model: C01 is about control flow"]
EXHAUSTIVE = {"quick": False, "thorough": False}


def session_for(prog, inputs, q, tron):
    calls = ["R5000"]
    calls += [sess.E(l) for l in prog]
    if tron:
        calls += [sess.E("TRON"), "R5000"]
    calls += [sess.E("RUN"), "R%d" % q]
    for r in inputs:
        calls.append("A%d:%s" % (q, sess.hx(r)))
    return sess.session(calls)


def sem_for(prog, inputs, tron):
    return "sem %s %d %s" % (",".join(sess.hx(l) for l in prog), 1 if tron else 0,
                             ",".join(sess.hx(r) for r in inputs) if inputs else "-")


CORPUS = [
    # ON..GOSUB out of range inside a subroutine (the case named in the property)
    (["10 GOSUB 100", "20 PRINT \"BACK\"", "30 END", "100 PRINT \"SUB\"", "110 ON 5 GOSUB 200", "120 RETURN", "200 PRINT \"NO\"", "210 RETURN"], []),
    (["10 FOR I=1 TO 3", "20 FOR J=1 TO 2", "30 IF J=2 THEN 60", "40 PRINT I;J", "50 NEXT J", "60 NEXT I", "70 PRINT \"E\""], []),
    (["10 FOR I=1 TO 2:FOR J=1 TO 2:PRINT I*J;:NEXT J,I:PRINT"], []),
    (["10 IF 1 THEN IF 0 THEN PRINT 1 ELSE PRINT 2 ELSE PRINT 3", "20 IF 0 THEN IF 0 THEN PRINT 1 ELSE PRINT 2 ELSE PRINT 3"], []),
    (["10 I=0", "20 WHILE I<3:I=I+1", "30 IF I=2 THEN 50", "40 PRINT I", "50 WEND", "60 PRINT \"X\""], []),
    (["10 FOR I=1 TO 0:PRINT \"ONCE\":NEXT", "20 FOR X=1 TO 2 STEP 0.5:PRINT X;:NEXT"], []),
    (["10 TRON", "20 GOSUB 100", "30 PRINT \"A\":GOTO 50", "40 REM", "50 TROFF", "60 END", "100 RETURN"], []),
]


def gen(tier, rng):
    cases = []
    progs = list(CORPUS)
    n = 500 if tier == "quick" else 20000
    for _ in range(n):
        progs.append(gen_prog.generate(rng))
    for prog, inputs in progs:
        tron = rng.random() < 0.25
        key = "\n".join(prog)
        cases.append(Case(session_for(prog, inputs, 5000, tron), sig=key, tag="run-q5000", meta=("run", key, tron)))
        q = rng.choice([1, 2, 3, 7, 64])
        cases.append(Case(session_for(prog, inputs, q, tron), sig=key, tag="run-small-q", meta=("runq", key, tron)))
        cases.append(Case(sem_for(prog, inputs, tron), sig=key, tag="sem", side="model", meta=("sem", key, tron)))
    return cases


def run_part(r, tron):
    ev = transcript.split_events(r)
    skip = 2 if tron else 1
    for i, e in enumerate(ev):
        if e == "S":
            skip -= 1
            if skip == 0:
                return ev[i + 1:]
    return []


def monitor(case, r):
    if r is None:
        return None
    if "PANIC" in r or "HANG" in r or "CRASH" in r:
        return "crash: program\n%s\nanswers %s" % (case.sig, r[-60:])
    return None


STATS = {}


def cross_monitor(cases, impl, model):
    fails = []
    stats = {"undefined": 0, "fuel": 0, "compared": 0}
    sem = {}
    for i, c in enumerate(cases):
        if c.meta and c.meta[0] == "sem":
            sem[c.meta[1]] = model[i]
    for i, c in enumerate(cases):
        if not c.meta or c.meta[0] not in ("run", "runq"):
            continue
        want = sem.get(c.meta[1])
        if want is None or impl[i] is None:
            continue
        if want.endswith("H:UNDEF") or want == "?":
            stats["undefined"] += 1
            continue
        if want.endswith("H:FUEL"):
            stats["fuel"] += 1
            continue
        got = transcript.canon_run(run_part(impl[i], c.meta[2]))
        if got.endswith("H:FUEL"):
            stats["fuel"] += 1
            continue
        stats["compared"] += 1
        if got != want:
            fails.append((i, "semantics: the run of\n%s\n  gives    %s\n  required %s" % (
                c.sig, sess.decode_events(got)[:400], sess.decode_events(want)[:400])))
    STATS.update(stats)
    return fails


def nontrivial(case, r):
    return r is not None and (r.count("P:") >= 5 or "E:[" in r)
