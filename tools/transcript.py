"""Canonical program transcripts: the part of a session's event stream produced by one RUN,
in the format of the reference semantics (coq/Drv/Session.v, sem_case):
   P:<hex text> | I:<hex prompt>:<caps> | C | ... | H:END / H:ERR <code> <line> / H:NEEDINPUT / H:FUEL
"""
import re


def split_events(s):
    return s.split("|") if s else []


def after_first_stop(events):
    for i, e in enumerate(events):
        if e == "S":
            return events[i + 1:]
    return []


def canon_run(events):
    """events of the run (after the RUN was entered) -> canonical transcript string"""
    out = []
    text = b""

    def flush():
        nonlocal text
        if text:
            out.append("P:" + text.hex())
        text = b""

    halt = None
    err = None
    for e in events:
        if e.startswith("P:"):
            text += bytes.fromhex(e[2:])
        elif e.startswith("I:"):
            flush()
            out.append(e)
            halt = "H:NEEDINPUT"
        elif e == "C":
            flush()
            out.append("C")
        elif e.startswith("E:["):
            m = re.match(r"E:\[(\d+) (\S+) ", e)
            if m and err is None:
                err = "H:ERR %s %s" % (m.group(1), m.group(2))
            halt = None
        elif e == "S":
            halt = err or "H:END"
            break
        elif e == "TIMEOUT":
            halt = "H:FUEL"
            break
        elif e in ("r",):
            continue
        else:
            flush()
            out.append(e)
        if e.startswith("P:") and halt == "H:NEEDINPUT":
            halt = None
    if halt in ("H:END",) or (halt and halt.startswith("H:ERR")):
        if text.endswith(b"READY.\n"):
            text = text[: -len(b"READY.\n")]
    flush()
    out.append(halt or "H:?")
    return "|".join(out)


def strip_cols(s):
    """errors without their column ranges"""
    return re.sub(r"(E:\[)([^\]]*)\]", lambda m: m.group(1) + ";".join(" ".join(x.split(" ")[:2]) for x in m.group(2).split(";")) + "]", s)


def printed_text(events):
    return b"".join(bytes.fromhex(e[2:]) for e in events if e.startswith("P:")).decode("utf-8", "replace")
