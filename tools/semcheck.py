"""Shared machinery of the checks whose oracle is the reference semantics (Spec/Sem.v):
programs are run on the implementation and on the VM model (correspondence) and the
implementation's transcript is compared with the reference transcript (monitor)."""
from framework import Case
import sess
import transcript


def session_for(prog, inputs, q, tron, prefix=None):
    calls = ["R5000"]
    nstops = 1
    if prefix:
        for c in prefix:
            calls.append(c)
            if c.startswith("R"):
                nstops += 1
    else:
        calls += [sess.E(l) for l in prog]
    if tron:
        calls += [sess.E("TRON"), "R5000"]
        nstops += 1
    calls += [sess.E("RUN"), "R%d" % q]
    for r in inputs:
        calls.append("A%d:%s" % (q, sess.hx(r)))
    return sess.session(calls), nstops


def sem_for(prog, inputs, tron):
    return "sem %s %d %s" % (",".join(sess.hx(l) for l in prog), 1 if tron else 0,
                             ",".join(sess.hx(r) for r in inputs) if inputs else "-")


def cases_for(prog, inputs, rng, tron=False, prefix=None, quanta=(5000,), tag="run"):
    key = "\n".join(prog) + ("\n#inputs " + repr(inputs) if inputs else "") + ("\n#TRON" if tron else "")
    out = []
    for q in quanta:
        line, nstops = session_for(prog, inputs, q, tron, prefix)
        out.append(Case(line, sig=key, tag="%s-q%s" % (tag, q), meta=("run", key, nstops)))
    out.append(Case(sem_for(prog, inputs, tron), sig=key, tag="sem", side="model", meta=("sem", key, 0)))
    return out


def run_part(r, nstops):
    ev = transcript.split_events(r)
    for i, e in enumerate(ev):
        if e == "S":
            nstops -= 1
            if nstops == 0:
                return ev[i + 1:]
    return []


def crash_monitor(case, r):
    if r is None:
        return None
    if "PANIC" in r or "HANG" in r or "CRASH" in r:
        return "crash: program\n%s\nanswers %s" % (case.sig, r[-60:])
    return None


def cross_monitor(cases, impl, model, stats):
    fails = []
    stats.update({"undefined": 0, "fuel": 0, "compared": 0, "halts": {}})
    sem = {}
    for i, c in enumerate(cases):
        if c.meta and c.meta[0] == "sem":
            sem[c.meta[1]] = model[i]
    for i, c in enumerate(cases):
        if not c.meta or c.meta[0] != "run":
            continue
        want = sem.get(c.meta[1])
        if want is None or impl[i] is None:
            continue
        if want.endswith("H:UNDEF") or want == "?":
            stats["undefined"] += 1
            continue
        if want.endswith("H:FUEL"):
            stats["fuel"] += 1
            continue
        got = transcript.canon_run(run_part(impl[i], c.meta[2]))
        if got.endswith("H:FUEL") and not c.tag.endswith("-q5000"):
            # with a small quantum the cap on execute calls can be reached by a terminating program;
            # non-termination is judged on the large-quantum run of the same program
            stats["fuel"] += 1
            continue
        stats["compared"] += 1
        h = want.split("|")[-1]
        h = " ".join(h.split(" ")[:2])
        stats["halts"][h] = stats["halts"].get(h, 0) + 1
        if got != want:
            fails.append((i, "semantics: the run of\n%s\n  gives    %s\n  required %s" % (
                c.sig, sess.decode_events(got)[:500], sess.decode_events(want)[:500])))
    return fails
