"""Shared machinery of the per-property checks (see DESIGN.md section 5).

A property module (tools/props/cNN.py) provides

  PROPERTY      id
  THEOREM_FILE  path under coq/ of the theorem-only file
  INTERFACES    short text naming what is compared
  gen(tier, rng) -> list[Case]
  monitor(case, impl_result) -> None | str      spec verdict on the implementation alone
  nontrivial(case, impl_result) -> bool         what counts as a non-trivial case

and this module does the rest: build, proof audit, sharded execution of the
extracted model and of the Rust harness, diff, known-finding matching,
decision, replay and evidence files.
"""
import hashlib
import json
import os
import random
import re
import subprocess
import sys
import time
from concurrent.futures import ThreadPoolExecutor

sys.path.insert(0, os.path.dirname(os.path.abspath(__file__)))
import build  # noqa: E402

ROOT = build.ROOT
WORK = build.WORK
EVID = os.path.join(ROOT, "evidence")
REPLAY = os.path.join(ROOT, "replay")
FINDINGS = os.path.join(ROOT, "findings", "known_findings.txt")

ALLOWED_AXIOMS = {
    # standard-library axioms that Flocq's correctness lemmas depend on; none is declared here
    "ClassicalDedekindReals.sig_forall_dec",
    "ClassicalDedekindReals.sig_not_dec",
    "FunctionalExtensionality.functional_extensionality_dep",
    "Classical_Prop.classic",
}

FORBIDDEN = re.compile(
    r"\b(Admitted|admit|Axiom|Axioms|Parameter|Parameters|Conjecture|Conjectures|Admit Obligations)\b"
    r"|Unset\s+Guard|Unset\s+Positivity|Unset\s+Universe|bypass_check|type-in-type|impredicative-set")


class Case:
    """side: "both" = implementation and model (correspondence), "impl" = implementation only
    (relational monitors), "model" = extracted model only (spec oracle, e.g. the `sem` cases)."""
    __slots__ = ("line", "sig", "tag", "profile", "side", "meta")

    def __init__(self, line, sig=None, tag="", profile="dev", side="both", meta=None):
        self.line = line
        self.sig = sig if sig is not None else line
        self.tag = tag
        self.profile = profile
        self.side = side
        self.meta = meta


# --------------------------------------------------------------------------
# running the two sides
# --------------------------------------------------------------------------

# per-case watchdog of the Rust harness (milliseconds); a module with heavy cases raises it (WATCHDOG_MS)
WATCHDOG_MS = 8000


def _run_chunk(exe, lines, idx, label, per_case_timeout):
    """Run one shard; survive a hang or an abort of the process by recording
    HANG / CRASH for the case that caused it and resuming after it."""
    results = []
    start = 0
    n = len(lines)
    rounds = 0
    while start < n:
        rounds += 1
        path = os.path.join(WORK, "%s-%d-%d.cases" % (label, os.getpid(), idx))
        with open(path, "w") as f:
            f.write("\n".join(lines[start:]) + "\n")
        budget = 60 + per_case_timeout * (n - start)
        try:
            p = subprocess.run([exe, path], stdout=subprocess.PIPE, stderr=subprocess.DEVNULL,
                               timeout=budget, env=dict(os.environ, BLH_CASE_MS=str(WATCHDOG_MS)))
            out = p.stdout.decode("utf-8", "replace").split("\n")
            if out and out[-1] == "":
                out.pop()
            crashed = p.returncode != 0
        except subprocess.TimeoutExpired as e:
            out = (e.stdout or b"").decode("utf-8", "replace").split("\n")
            if out and out[-1] == "":
                out.pop()
            # the last line may be partial
            crashed = None
        os.unlink(path)
        got = len(out)
        if got >= n - start and crashed is not None:
            results.extend(out[: n - start])
            break
        results.extend(out[:got])
        if crashed is False:
            # clean exit before the end: the harness stopped after too many abandoned (hung)
            # worker threads; continue with a fresh process
            start += got
            if got == 0:
                results.append("SKIPPED")
                start += 1
        else:
            # a case did not produce its line.  An abort may have come from outside (a neighbouring process exhausting memory
            # gets this one killed): the suspect is run once more, alone, and only a second failure is held against it
            verdict = "HANG" if crashed is None else "CRASH"
            if crashed and start + got < n:
                try:
                    with open(path, "w") as f:
                        f.write(lines[start + got] + "\n")
                    p1 = subprocess.run([exe, path], stdout=subprocess.PIPE, stderr=subprocess.DEVNULL, timeout=60 + per_case_timeout,
                                        env=dict(os.environ, BLH_CASE_MS=str(WATCHDOG_MS)))
                    o1 = p1.stdout.decode("utf-8", "replace").split("\n")
                    if p1.returncode == 0 and o1 and o1[0]:
                        verdict = o1[0]
                except subprocess.TimeoutExpired:
                    verdict = "HANG"
                finally:
                    if os.path.exists(path):
                        os.unlink(path)
            results.append(verdict)
            start += got + 1
        if rounds > 200:
            results.extend(["SKIPPED"] * (n - start))
            break
    return results


def run_side(exe, lines, label, per_case_timeout=0.02, shards=16):
    if not lines:
        return []
    os.makedirs(WORK, exist_ok=True)
    # round-robin shards: expensive cases tend to be neighbours in generation order
    k = max(1, min(shards, (len(lines) + 3) // 4))
    chunks = [lines[i::k] for i in range(k)]
    with ThreadPoolExecutor(max_workers=shards) as ex:
        futs = [ex.submit(_run_chunk, exe, c, i, label, per_case_timeout) for i, c in enumerate(chunks)]
        parts = [f.result() for f in futs]
    res = [None] * len(lines)
    for i, part in enumerate(parts):
        for j, line in enumerate(part[:len(chunks[i])]):
            res[i + j * k] = line
    res = [("SKIPPED" if x is None else x) for x in res]
    return res


# --------------------------------------------------------------------------
# proof audit
# --------------------------------------------------------------------------

def audit_proofs(theorem_file):
    """Compile-status and assumption audit of one Props file.
    Returns dict(obligations, discharged, names, axioms, problems)."""
    coq = build.COQ
    path = os.path.join(coq, theorem_file)
    problems = []
    if not os.path.exists(path):
        return dict(obligations=0, discharged=0, names=[], axioms=[], problems=["missing " + theorem_file])
    src = open(path).read()
    names = re.findall(r"^\s*(?:Theorem|Lemma|Corollary)\s+([A-Za-z0-9_']+)", src, re.M)
    prints = re.findall(r"^\s*Print Assumptions\s+([A-Za-z0-9_'.]+)\s*\.", src, re.M)
    for n in names:
        if n not in prints:
            problems.append("no Print Assumptions for " + n)
    # forbidden vocabulary anywhere in the development
    for dirpath, _, files in os.walk(coq):
        for fn in files:
            if fn.endswith(".v"):
                text = open(os.path.join(dirpath, fn)).read()
                text_nc = re.sub(r"\(\*.*?\*\)", "", text, flags=re.S)
                m = FORBIDDEN.search(text_nc)
                if m:
                    problems.append("forbidden '%s' in %s" % (m.group(0), os.path.relpath(os.path.join(dirpath, fn), coq)))
    vo = path[:-2] + ".vo"
    if not os.path.exists(vo) or os.path.getmtime(vo) < os.path.getmtime(path):
        problems.append("not compiled: " + theorem_file)
    os.makedirs(WORK, exist_ok=True)
    adir = os.path.join(WORK, "audit-%d" % os.getpid())
    os.makedirs(adir, exist_ok=True)
    out_vo = os.path.join(adir, os.path.basename(theorem_file)[:-2] + ".vo")
    flags = ["-Q", ".", "BL", "-w", "-notation-overridden,-deprecated-hint-without-locality,-deprecated-instance-without-locality,-deprecated-syntactic-definition"]
    try:
        p = subprocess.run(["timeout", "900", "coqc"] + flags + [theorem_file, "-o", out_vo], cwd=coq,
                           stdout=subprocess.PIPE, stderr=subprocess.STDOUT, text=True, timeout=1000)
        out = p.stdout
        if p.returncode != 0:
            problems.append("coqc failed on %s: %s" % (theorem_file, out[-600:]))
    except subprocess.TimeoutExpired:
        out = ""
        problems.append("coqc timed out on " + theorem_file)
    import shutil
    shutil.rmtree(adir, ignore_errors=True)
    # segment the output per Print Assumptions
    segs = re.split(r"(?m)^(?=Closed under the global context|Axioms:)", out)
    segs = [s for s in segs if s.startswith("Closed under") or s.startswith("Axioms:")]
    axioms = set()
    discharged = 0
    if len(segs) != len(prints):
        problems.append("Print Assumptions output count %d != %d" % (len(segs), len(prints)))
    for name, seg in zip(prints, segs):
        ok = True
        if seg.startswith("Axioms:"):
            for m in re.finditer(r"(?m)^([A-Za-z0-9_'.]+)\s*:", seg[len("Axioms:"):]):
                ax = m.group(1)
                axioms.add(ax)
                if ax not in ALLOWED_AXIOMS:
                    ok = False
                    problems.append("theorem %s depends on non-allow-listed axiom %s" % (name, ax))
        if ok and name in names:
            discharged += 1
    fatal = any(("coqc" in p) or ("forbidden" in p) or ("not compiled" in p) or ("output count" in p) for p in problems)
    return dict(obligations=len(names), discharged=0 if fatal else discharged,
                names=names, axioms=sorted(axioms), problems=problems)


def coqchk_audit(theorem_file):
    """thorough tier: re-check the compiled theorem file and everything it depends on with the independent checker"""
    mod = "BL." + theorem_file[:-2].replace("/", ".")
    try:
        p = subprocess.run(["timeout", "1700", "coqchk", "-o", "-silent", "-Q", ".", "BL", mod], cwd=build.COQ,
                           stdout=subprocess.PIPE, stderr=subprocess.STDOUT, text=True, timeout=1800)
    except subprocess.TimeoutExpired:
        return ["coqchk timed out on " + mod]
    out = p.stdout
    problems = []
    if p.returncode != 0 or "CONTEXT SUMMARY" not in out:
        return ["coqchk failed on %s: %s" % (mod, out[-400:])]
    m = re.search(r"\* Axioms:(.*?)\n\s*\n\* Constants", out, re.S)
    axioms = re.findall(r"([A-Za-z0-9_.']+)", m.group(1)) if m else []
    for ax in axioms:
        if ax == "<none>":
            continue
        short = ax[4:] if ax.startswith("Coq.") else ax
        short = ".".join(short.split(".")[-2:])
        if short not in ALLOWED_AXIOMS:
            problems.append("coqchk: axiom %s is not on the allow-list" % ax)
    for what in ("relying on type-in-type", "relying on unsafe (co)fixpoints", "whose positivity is assumed"):
        mm = re.search(re.escape(what) + r": (.*)", out)
        if not mm or mm.group(1).strip() != "<none>":
            problems.append("coqchk: something is %s: %s" % (what, mm.group(1) if mm else "?"))
    return problems


# --------------------------------------------------------------------------
# known findings
# --------------------------------------------------------------------------

def load_findings(prop):
    """Lines:  open: property=Cxx class=<name> match=<regex> :: <what fails>
               fixed: property=Cxx <commit> <what failed>"""
    res = []
    if not os.path.exists(FINDINGS):
        return res
    for line in open(FINDINGS):
        line = line.rstrip("\n")
        m = re.match(r"open: property=(\S+) class=(\S+) match=(.*?) :: (.*)$", line)
        if m and m.group(1) == prop:
            res.append(dict(cls=m.group(2), rx=re.compile(m.group(3)), what=m.group(4)))
    return res


# --------------------------------------------------------------------------
# the check
# --------------------------------------------------------------------------

def default_canon(case, r):
    """link errors come out in the iteration order of a HashMap: compare error lists as sets"""
    if r is not None and r.startswith("P:"):
        # a build with debug assertions announces itself as "<version>+debug" in the intro line
        first, sep, rest = r.partition("|")
        r = first.replace("2b6465627567", "", 1) + sep + rest
    if r is None or ("E:[" not in r and "err=[" not in r and "L:" not in r):
        return r
    r = re.sub(r"\[([^\[\]]*;[^\[\]]*)\]", lambda m: "[" + ";".join(sorted(m.group(1).split(";"))) + "]", r)
    # underline ranges of a listed line follow the same order
    return re.sub(r"(L:[0-9a-f]*:)\[([0-9,\-]*)\]", lambda m: m.group(1) + "[" + ",".join(sorted(m.group(2).split(","))) + "]", r)


def write_replay(prop, payload):
    os.makedirs(REPLAY, exist_ok=True)
    h = hashlib.sha1(json.dumps(payload, sort_keys=True).encode()).hexdigest()[:12]
    path = os.path.join(REPLAY, "%s-%s.json" % (prop, h))
    with open(path, "w") as f:
        json.dump(payload, f, indent=1)
    return path


def ensure_built(profiles):
    """Rebuild what depends on /repo (the harness) always; the Coq side when stale."""
    logs = {}
    ok_coq, log = build.build_coq()
    logs["coq"] = log if len(log) <= 2000 else log[:700] + "\n...\n" + log[-1300:]
    # the driver is built from the extracted model whenever there is one: when some proof file no longer compiles the model
    # itself usually still does, and the differential run is what looks for the failing input then
    ok_drv, log = build.build_driver()
    logs["driver"] = log[-1000:]
    ok_h = True
    for prof in profiles:
        ok, log = build.build_harness(prof)
        logs["harness-" + prof] = log[-1500:]
        ok_h = ok_h and ok
    return ok_coq, ok_drv, ok_h, logs


def run_check(mod, tier, seed):
    t0 = time.time()
    prop = mod.PROPERTY
    rng = random.Random(seed)
    profiles = getattr(mod, "PROFILES", ["dev"])
    global WATCHDOG_MS
    WATCHDOG_MS = getattr(mod, "WATCHDOG_MS", 8000)
    ok_coq, ok_drv, ok_h, logs = ensure_built(profiles)
    lines_out = []
    violations = []          # (kind, text, replay payload)
    known_hits = {}

    if not ok_h:
        # the implementation does not build: nothing can be shown
        payload = dict(property=prop, kind="harness-build-failed", log=logs)
        path = write_replay(prop, payload)
        print("VIOLATION property=%s replay=%s no-failing-input-found" % (prop, path))
        write_evidence(mod, tier, seed, t0, dict(obligations=1, discharged=0, names=[], axioms=[], problems=["harness build failed"]), [], [], [], 1, {})
        return 1

    # the property's own theorem file is compiled in any case; a build failure elsewhere (another property's proofs) is not
    # held against this property when its own theorems and everything they depend on still check
    audit = audit_proofs(mod.THEOREM_FILE)
    if not ok_coq and audit["problems"]:
        audit["problems"] = audit["problems"] + ["coq build failed: " + logs.get("coq", "")[-800:]]
    if logs.get("coq", "").startswith("tools/tables.py failed") and \
            "Gen.SourceTables" in open(os.path.join(build.COQ, mod.THEOREM_FILE)).read():
        # the translator could not read the source: coq/Gen/SourceTables.v is stale, and the theorems that say "the model's
        # tables are the source's" are about the old text
        audit["problems"] = audit["problems"] + ["the tie to the source's tables is broken: " + logs["coq"].split("\n")[0][:400]]
    if ok_coq and tier == "thorough":
        cp = coqchk_audit(mod.THEOREM_FILE)
        audit["coqchk"] = "ok" if not cp else cp
        audit["problems"] = audit["problems"] + cp

    cases = []
    corpus = getattr(mod, "corpus", None)
    if corpus:
        cases.extend(corpus())
    cases.extend(mod.gen(tier, rng))
    findings = load_findings(prop)

    # run implementation (per profile) and model; a module may add a second phase of cases
    # that depend on the first results (e.g. "type the listing just obtained into a fresh interpreter")
    impl = []
    model = []

    def run_batch(batch):
        bi = [None] * len(batch)
        bm = [None] * len(batch)
        for prof in profiles:
            idxs = [i for i, c in enumerate(batch) if c.profile == prof and c.side in ("both", "impl")]
            res = run_side(build.harness_exe(prof), [batch[i].line for i in idxs], "impl-" + prof,
                           per_case_timeout=getattr(mod, "CASE_TIMEOUT", 0.05))
            for i, r in zip(idxs, res):
                bi[i] = r
        if ok_drv:
            midx = [i for i, c in enumerate(batch) if c.side in ("both", "model")]
            res = run_side(build.driver_exe(), [batch[i].line for i in midx], "model",
                           per_case_timeout=getattr(mod, "MODEL_CASE_TIMEOUT", 0.5))
            for i, r in zip(midx, res):
                bm[i] = r
        return bi, bm

    bi, bm = run_batch(cases)
    impl.extend(bi)
    model.extend(bm)
    second = getattr(mod, "second_phase", None)
    if second:
        more = second(cases, impl, rng)
        if more:
            bi, bm = run_batch(more)
            cases.extend(more)
            impl.extend(bi)
            model.extend(bm)

    # in-kernel cross-check of extraction and glue: a sample of the cases is evaluated by vm_compute inside Coq
    xcheck = dict(cases=0, differences=0, note="")
    xproblems = []
    if ok_drv:
        import kernel_xcheck
        xtags = getattr(mod, "XCHECK_TAGS", None)       # modules with very long runs name the cases cheap enough for vm_compute
        cand = [i for i, c in enumerate(cases) if c.side in ("both", "model") and model[i] not in (None, "HANG", "CRASH", "SKIPPED")
                and len(c.line) < 3000 and len(model[i]) < 6000 and c.line.isascii() and (xtags is None or c.tag in xtags)]
        want = getattr(mod, "XCHECK_MAX", 24) if tier == "quick" else 10 * getattr(mod, "XCHECK_MAX", 40)
        pick = sorted(rng.sample(cand, min(want, len(cand))))
        if pick:
            ans, xlog = kernel_xcheck.run([cases[i].line for i in pick], prop, timeout=240 if tier == "quick" else 1800)
            if ans is None:
                xcheck["note"] = "not evaluated: " + xlog[-200:]
            else:
                xcheck["cases"] = len(pick)
                for i, a in zip(pick, ans):
                    if a != model[i]:
                        xcheck["differences"] += 1
                        if len(xproblems) < 3:
                            xproblems.append("extracted driver and in-kernel evaluation differ on %r: %r vs %r" % (cases[i].line[:200], model[i][:200], a[:200]))

    # monitors (spec verdict on the implementation) and correspondence
    mon_fail = []
    diffs = []
    nontrivial = set()
    dist = {}
    canon = getattr(mod, "canon", default_canon)
    for i, c in enumerate(cases):
        r = impl[i]
        dist[c.tag] = dist.get(c.tag, 0) + 1
        if c.side in ("both", "impl"):
            v = mod.monitor(c, r)
            if v:
                mon_fail.append((i, v))
            if mod.nontrivial(c, r):
                nontrivial.add(c.line)
        if c.side == "both" and model[i] is not None and canon(c, model[i]) != canon(c, r):
            diffs.append(i)
    cross = getattr(mod, "cross_monitor", None)
    if cross:
        mon_fail.extend(cross(cases, impl, model))

    if os.environ.get("VERIF_DEBUG"):
        for i in diffs[:int(os.environ["VERIF_DEBUG"])]:
            print("DIFF", cases[i].sig[:1500])
            print("  impl :", impl[i][-700:])
            print("  model:", model[i][-700:])
    reported = set()
    for i, v in mon_fail:
        c = cases[i]
        hit = None
        for fd in findings:
            # the pattern sees "<verdict kind>: <input>", so that another kind of failure on the same input is still reported
            if fd["rx"].search(v.split(":")[0] + ": " + c.sig):
                hit = fd
                break
        if hit:
            known_hits.setdefault(hit["cls"], (hit, c.sig))
            continue
        key = v[:14]
        if key in reported and len(violations) >= 5:
            continue
        reported.add(key)
        violations.append(("monitor", v, dict(property=prop, kind="property-violation", tier=tier, seed=seed,
                                              case=c.line, input=c.sig, profile=c.profile, impl=impl[i],
                                              model=model[i], verdict=v)))
    mon_idx = set(i for i, _ in mon_fail)
    unexplained = [i for i in diffs if i not in mon_idx]
    nfi = []
    if unexplained:
        # model and implementation disagree, yet the monitor accepts the implementation's answer:
        # search harder (hook), then report as no-failing-input-found
        search = getattr(mod, "search", None)
        found = search(rng, [cases[i] for i in unexplained[:20]]) if search else []
        for (c, r, v) in found:
            violations.append(("monitor", v, dict(property=prop, kind="property-violation", tier=tier, seed=seed,
                                                  case=c.line, input=c.sig, impl=r, verdict=v)))
        if not found:
            i = unexplained[0]
            nfi.append(dict(property=prop, kind="correspondence-broken", interface=mod.INTERFACES, tier=tier,
                            seed=seed, disagreements=len(unexplained), case=cases[i].line, input=cases[i].sig,
                            impl=impl[i], model=model[i],
                            note="the model no longer describes the implementation on this case; the theorems of %s are about the model" % mod.THEOREM_FILE))
    if xproblems:
        nfi.append(dict(property=prop, kind="extraction-broken", problems=xproblems,
                        note="the extracted OCaml driver does not compute what the Gallina model computes in the kernel"))
    if audit["problems"] or audit["discharged"] != audit["obligations"] or not ok_drv:
        nfi.append(dict(property=prop, kind="proof-broken", theorem_file=mod.THEOREM_FILE, problems=audit["problems"],
                        driver_ok=ok_drv, log=logs.get("coq", "")[-1500:] if not ok_coq else ""))

    for hit, sig in known_hits.values():
        print("KNOWN-FINDING: property=%s %s (e.g. %s)" % (prop, hit["what"], sig))

    rc = 0
    for kind, v, payload in violations[:10]:
        path = write_replay(prop, payload)
        print("VIOLATION property=%s replay=%s" % (prop, path))
        print("  " + v[:300])
        rc = 1
    if not violations:
        for payload in nfi[:3]:
            path = write_replay(prop, payload)
            print("VIOLATION property=%s replay=%s no-failing-input-found" % (prop, path))
            print("  " + json.dumps({k: payload[k] for k in payload if k in ("kind", "input", "impl", "model", "problems")})[:400])
            rc = 1

    write_evidence(mod, tier, seed, t0, audit, cases, impl, sorted(nontrivial), len(violations) + (len(nfi) if not violations else 0),
                   dict(distribution=dist, model_impl_disagreements=len(diffs), monitor_failures=len(mon_fail),
                        known_findings_hit=sorted(known_hits.keys()), kernel_crosscheck=xcheck))
    print("%s %s: %d cases, %d model/impl disagreements, %d monitor failures, proofs %d/%d, %.1fs" % (
        prop, tier, len(cases), len(diffs), len(mon_fail), audit["discharged"], audit["obligations"], time.time() - t0))
    return rc


def write_evidence(mod, tier, seed, t0, audit, cases, impl, nontrivial, nviol, extra):
    os.makedirs(EVID, exist_ok=True)
    samples = []
    step = max(1, len(cases) // 6) if cases else 1
    for i in range(0, len(cases), step):
        samples.append(dict(input=cases[i].sig, impl=impl[i] if i < len(impl) else None))
    samples = samples[:8]
    for n in audit.get("names", [])[:6]:
        samples.append(dict(obligation=n))
    if not samples:
        samples = [dict(note="no case was run")]
    cov = dict(
        obligations=max(1, audit["obligations"]),
        discharged=audit["discharged"],
        checker_cmd="python3 tools/tables.py (coq/Gen/SourceTables.v from /repo/src) && cd coq && coq_makefile -f _CoqProject -o Makefile && make -k -j16 ; coqc -Q . BL %s (Print Assumptions audit)" % mod.THEOREM_FILE,
        trusted_base=TRUSTED_BASE + getattr(mod, "TRUSTED_EXTRA", []),
        theorems=audit.get("names", []),
        axioms_reported_by_print_assumptions=audit.get("axioms", []),
        proof_problems=audit.get("problems", []),
        coqchk=audit.get("coqchk", "not run in the quick tier"),
        evaluations=len(cases),
        distinct_nontrivial=len(nontrivial),
        rule=getattr(mod, "RULE", ""),
        samples=samples,
        correspondence_interfaces=mod.INTERFACES,
        exhaustive=bool(getattr(mod, "EXHAUSTIVE", {}).get(tier, False)),
    )
    cov.update(extra)
    if getattr(mod, "STATS", None):
        cov["monitor_stats"] = dict(mod.STATS)
    ev = dict(property_id=mod.PROPERTY, tier=tier, seed=seed, level="proof", coverage=cov,
              assumptions=getattr(mod, "ASSUMPTIONS", []), wall_s=round(time.time() - t0, 2), violations=nviol)
    with open(os.path.join(EVID, mod.PROPERTY + ".json"), "w") as f:
        json.dump(ev, f, indent=1)


TRUSTED_BASE = [
    "Coq 8.16.1 kernel and vm_compute (no native_compute); coqchk used in the thorough tier",
    "Flocq's definitions of binary32/binary64 arithmetic (Bits.v, Binary.v, BinarySingleNaN.v)",
    "extraction with ExtrOcamlBasic only (Extract Inductive for bool, option, unit, prod, list, sumbool, sumor; no Extract Constant) and the OCaml glue driver/main.ml (bytes <-> N lists, line I/O)",
    "the Rust harness harness/src (serialisers, error-code recovery from Display text) built against /repo's working tree with overflow-checks on and debug assertions off",
    "the correspondence check is differential testing: it ties the Gallina model to the Rust code only on the generated and enumerated cases listed under coverage",
    "Python monitors in tools/props restate the specification side for the search for failing inputs",
    "tools/tables.py: the translator of the source's literal tables (reserved words, single-character tokens, listed spellings, precedences, built-in arities) into coq/Gen/SourceTables.v, and its map of constructor names",
]
