"""Helpers to build session / compile case lines."""


def hx(s):
    return s.encode("utf-8").hex()


def E(s):
    return "E:" + hx(s)


def session(calls):
    return "session " + " ".join(calls)


def prog_session(lines, tail=("RUN",), q=5000, intro=True):
    """type the program lines, then each command of tail followed by a run-until-blocking"""
    calls = []
    if intro:
        calls.append("R%d" % q)
    for l in lines:
        calls.append(E(l))
    for t in tail:
        if t.startswith("@"):      # raw call
            calls.append(t[1:])
        else:
            calls.append(E(t))
            calls.append("R%d" % q)
    return session(calls)


def compile_case(lines, direct=None):
    body = ",".join(hx(l) for l in lines) if lines else "-"
    if direct is None:
        return "compile " + body
    return "compile %s %s" % (body, hx(direct))


def decode_events(s):
    """human-readable rendering of a session result"""
    out = []
    for ev in s.split("|"):
        if ev.startswith("P:"):
            out.append("P(%r)" % bytes.fromhex(ev[2:]).decode("utf-8", "replace"))
        elif ev.startswith("I:"):
            h, caps = ev[2:].split(":")
            out.append("INPUT(%r,%s)" % (bytes.fromhex(h).decode("utf-8", "replace"), caps))
        elif ev.startswith("L:"):
            h, cols = ev[2:].split(":")
            out.append("LIST(%r,%s)" % (bytes.fromhex(h).decode("utf-8", "replace"), cols))
        elif ev.startswith("T:"):
            out.append("TEXT(%r)" % bytes.fromhex(ev[2:]).decode("utf-8", "replace"))
        elif ev[:3] in ("LD:", "RN:", "SV:"):
            out.append("%s(%r)" % (ev[:2], bytes.fromhex(ev[3:]).decode("utf-8", "replace")))
        else:
            out.append(ev)
    return " ".join(out)
