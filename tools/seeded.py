#!/usr/bin/env python3
"""Seeded-change bookkeeping (development aid, not a registered check).

  seeded.py verify <id>           confirm, in a scratch worktree outside /repo and /verif, that the change compiles,
                                  passes the 95 existing tests, and that its demonstration fails with it and passes without it
  seeded.py run <id> [Cxx ...]    apply the change to /repo, run the quick checks, undo it, print which checks raise an alarm
"""
import json
import os
import shutil
import subprocess
import sys

ROOT = os.path.dirname(os.path.dirname(os.path.abspath(__file__)))
SEEDED = os.path.join(ROOT, "seeded")
ENV = dict(os.environ, CARGO_NET_OFFLINE="true")


def sh(cmd, cwd, timeout=1800):
    p = subprocess.run(cmd, cwd=cwd, shell=True, env=ENV, stdout=subprocess.PIPE, stderr=subprocess.STDOUT, text=True, timeout=timeout)
    return p.returncode, p.stdout


def passed_count(out):
    n = 0
    for line in out.split("\n"):
        if line.startswith("test result:"):
            n += int(line.split("ok. ")[1].split(" passed")[0]) if "ok. " in line else 0
    return n


def verify(sid):
    d = os.path.join(SEEDED, sid)
    wt = "/tmp/vs_" + sid
    sh("git worktree remove --force %s" % wt, "/repo")
    rc, out = sh("git worktree add -q --detach %s HEAD" % wt, "/repo")
    assert rc == 0, out
    res = {}
    try:
        env_t = "CARGO_TARGET_DIR=/tmp/vs_target"
        rc, out = sh("git apply %s" % os.path.join(d, "patch.diff"), wt)
        res["applies"] = rc == 0
        rc, out = sh("%s cargo test --workspace --no-fail-fast --offline 2>&1" % env_t, wt)
        res["suite_passed_with_change"] = passed_count(out)
        res["suite_failed_with_change"] = "FAILED" in out
        demo = os.path.join(d, "demo_test.rs")
        if os.path.exists(demo):
            shutil.copy(demo, os.path.join(wt, "tests", "demo_test.rs"))
            rc, out = sh("%s cargo test --offline --test demo_test 2>&1" % env_t, wt)
            res["demo_fails_with_change"] = rc != 0 and "test result: FAILED" in out
            sh("git apply -R %s" % os.path.join(d, "patch.diff"), wt)
            rc, out = sh("%s cargo test --offline --test demo_test 2>&1" % env_t, wt)
            res["demo_passes_without_change"] = rc == 0
    finally:
        sh("git worktree remove --force %s" % wt, "/repo")
    print(json.dumps(res))
    return res


def run(sid, props):
    d = os.path.join(SEEDED, sid)
    meta = json.load(open(os.path.join(d, "meta.json")))
    if not props:
        props = [meta["property"]]
    rc, out = sh("git status --porcelain", "/repo")
    assert out.strip() == "", "/repo is not clean: " + out
    rc, out = sh("git apply %s" % os.path.join(d, "patch.diff"), "/repo")
    assert rc == 0, out
    results = {}
    try:
        for p in props:
            rc, out = sh("python3 tools/check.py --property %s --tier quick 2>&1" % p, ROOT, timeout=3600)
            viol = [l for l in out.split("\n") if l.startswith("VIOLATION")]
            detail = [l for l in out.split("\n") if l.startswith("  ")][:2]
            results[p] = dict(exit=rc, violations=len(viol), first=(viol[0] if viol else ""), detail=detail,
                              summary=[l for l in out.split("\n") if " quick: " in l][-1:] )
            print(p, "exit", rc, "violations", len(viol), (viol[0][:110] if viol else ""), (detail[0][:160] if detail else ""))
    finally:
        sh("git checkout -- .", "/repo")
        # the harness must be rebuilt against the restored tree by the next check anyway
    return results


def matrix(ids):
    """verify each change and run its property's quick check against it; record both in meta.json"""
    for sid in ids:
        d = os.path.join(SEEDED, sid)
        meta = json.load(open(os.path.join(d, "meta.json")))
        res = verify(sid)
        caught = run(sid, meta.get("checks", [meta["property"]]))
        meta["confirmed"] = dict(res, how="tools/seeded.py verify: scratch worktree under /tmp, cargo test --workspace (95 tests) with the change, "
                                          "demo_test.rs with and without it")
        meta["detected_by"] = {p: dict(exit=v["exit"], violations=v["violations"], first=v["first"], detail=v["detail"][:1]) for p, v in caught.items()}
        json.dump(meta, open(os.path.join(d, "meta.json"), "w"), indent=1)


if __name__ == "__main__":
    if sys.argv[1] == "matrix":
        matrix(sys.argv[2:] or sorted(os.listdir(SEEDED)))
    elif sys.argv[1] == "verify":
        verify(sys.argv[2])
    elif sys.argv[1] == "run":
        run(sys.argv[2], sys.argv[3:])
