#!/bin/bash
# setup_cmd: build the Coq development, extract the model, build the OCaml
# driver and the Rust harness.  Offline; everything from files on disk.
set -e
cd "$(dirname "$0")/.."
export CARGO_NET_OFFLINE=true
python3 tools/build.py all
