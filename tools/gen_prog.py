"""Generator of BASIC programs in the well-defined fragment (DESIGN.md appendix B).

A program is assembled from blocks; every jump target is a symbolic label that
is turned into a line number once all lines are laid out.  Termination is by
construction: FOR bounds are small constants, WHILE and backward GOTO are
driven by dedicated counters that only their own block touches.
"""

NUM_VARS = ["A", "B", "C", "X", "Y", "Z1", "I%", "J%", "K%", "D#", "E#", "V!", "W2"]
STR_VARS = ["S$", "T$", "U$", "N1$"]
LOOP_VARS = ["I", "J", "K", "L", "M", "N", "Q%", "R#"]
ARRAYS = [("P", 1, "num"), ("G%", 1, "num"), ("R$", 1, "str"), ("M2", 2, "num")]
WORDS = ["HELLO", "abc", "X", "", "foo bar", "Zz9", "é日", "1,2", "A B"]


class Prog:
    def __init__(self, rng, features=None):
        self.rng = rng
        self.lines = []          # [label or None, [stmt text, ...]]
        self.subs = []           # lines appended after END
        self.nlabel = 0
        self.ncounter = 0
        self.inputs = []
        self.fns = []            # (name, nparams, kind)
        self.depth = 0
        self.data_items = 0
        self.dimmed = {}
        self.features = features or {}
        self.active_loop_vars = []
        self.in_sub = 0

    # ---- helpers
    def label(self):
        self.nlabel += 1
        return "{L%d}" % self.nlabel

    def counter(self):
        self.ncounter += 1
        return "C%d" % self.ncounter

    def emit(self, stmts, label=None, where=None):
        # a remark swallows the rest of the line: keep remarks last
        stmts = [s for s in stmts if not (s.startswith("REM") or s.startswith("'"))] + \
                [s for s in stmts if s.startswith("REM") or s.startswith("'")][:1]
        (where if where is not None else self.lines).append([label, list(stmts)])

    def pick(self, seq):
        return self.rng.choice(seq)

    # ---- expressions
    def num_lit(self):
        r = self.rng.random()
        if r < 0.55:
            return str(self.rng.randint(0, 12))
        if r < 0.7:
            return str(self.rng.randint(-20, 200))
        if r < 0.8:
            return self.pick(["0.5", "1.5", "2.25", ".75", "10.5", "1E3", "2.5E-1", "3#", "4!", "7%", "&HF", "&17"])
        if r < 0.9:
            return self.pick(["100", "255", "256", "1000", "32767", "-32768", "16777216", "1E10", "123456789"])
        return str(self.rng.randint(0, 5))

    def num_atom(self, depth):
        r = self.rng.random()
        if r < 0.35:
            return self.num_lit()
        if r < 0.65:
            return self.pick(NUM_VARS + self.active_loop_vars * 2) if self.active_loop_vars or True else "A"
        if r < 0.75:
            return self.array_ref("num")
        if r < 0.85 and [f for f in self.fns if f[2] == "num"]:
            return self.fn_call(depth, "num")
        f = self.pick(["ABS", "SGN", "INT", "FIX", "LEN", "ASC", "VAL", "CINT", "SQR", "INSTR", "POS", "CSNG", "CDBL"])
        if f == "LEN":
            return "LEN(%s)" % self.str_expr(depth + 1)
        if f == "ASC":
            return 'ASC(%s+"A")' % self.str_expr(depth + 1)
        if f == "VAL":
            return "VAL(%s)" % self.pick(['"12"', '"3.5"', '"-4"', '"&HA"', '"7up"', '""', "STR$(%s)" % self.num_expr(depth + 1)])
        if f == "SQR":
            return "SQR(%s)" % self.pick(["4", "9", "2", "16", "ABS(%s)" % self.num_expr(depth + 1)])
        if f == "INSTR":
            return "INSTR(%s,%s)" % (self.str_expr(depth + 1), self.pick(['"A"', '"l"', '"o"', '""', '"zz"']))
        if f == "POS":
            return "POS(0)" if self.features.get("layout", True) else "7"
        if f == "CINT":
            return "CINT(%s)" % self.pick(["1.5", "2.5", "-1.5", "7", "A"])
        return "%s(%s)" % (f, self.num_expr(depth + 1))

    def num_expr(self, depth=0):
        if depth >= 3 or self.rng.random() < 0.35:
            return self.num_atom(depth)
        r = self.rng.random()
        a = self.num_expr(depth + 1)
        b = self.num_expr(depth + 1)
        if r < 0.5:
            op = self.pick(["+", "-", "*", "+", "-"])
            return "%s%s%s" % (a, op, b)
        if r < 0.6:
            return "(%s)%s(%s)" % (a, self.pick(["+", "-", "*"]), b)
        if r < 0.68:
            return "%s/%s" % (a, self.pick(["2", "4", "8", "3", "10"]))
        if r < 0.74:
            return "(%s)%s%s" % (a, self.pick(["\\", " MOD "]), self.pick(["2", "3", "7", "-2"]))
        if r < 0.84:
            return "%s%s%s" % (a, self.pick(["=", "<>", "<", ">", "<=", ">="]), b)
        if r < 0.9:
            return "(%s)%s(%s)" % (a, self.pick([" AND ", " OR ", " XOR "]), b)
        if r < 0.94:
            return "NOT (%s)" % a
        if r < 0.97:
            return "-(%s)" % a
        return "%s^%s" % (self.pick(["2", "3", "I%", "10"]), self.pick(["2", "3", "0", "1"]))

    def cond(self):
        r = self.rng.random()
        if r < 0.7:
            return "%s%s%s" % (self.num_expr(2), self.pick(["=", "<>", "<", ">", "<=", ">="]), self.num_expr(2))
        if r < 0.85:
            return "%s%s%s" % (self.str_expr(2), self.pick(["=", "<>", "<", ">"]), self.str_expr(2))
        return self.num_expr(2)

    def str_lit(self):
        return '"%s"' % self.pick(WORDS)

    def str_expr(self, depth=0):
        r = self.rng.random()
        if depth >= 2 or r < 0.4:
            return self.str_lit() if self.rng.random() < 0.6 else self.pick(STR_VARS)
        if r < 0.5:
            return "%s+%s" % (self.str_expr(depth + 1), self.str_expr(depth + 1))
        if r < 0.58:
            return "LEFT$(%s,%s)" % (self.str_expr(depth + 1), self.pick(["0", "1", "2", "3", "9"]))
        if r < 0.66:
            return "RIGHT$(%s,%s)" % (self.str_expr(depth + 1), self.pick(["0", "1", "2", "9"]))
        if r < 0.74:
            return "MID$(%s,%s%s)" % (self.str_expr(depth + 1), self.pick(["1", "2", "3", "7"]), self.pick(["", ",1", ",2", ",0"]))
        if r < 0.8:
            return "CHR$(%s)" % self.pick(["65", "66+I%", "48", "233", "26085"])
        if r < 0.86:
            return "STR$(%s)" % self.num_expr(depth + 1)
        if r < 0.9:
            return "STRING$(%s,%s)" % (self.pick(["0", "1", "3"]), self.pick(['"*"', "45", '"ab"']))
        if r < 0.94:
            return "%s(%s)" % (self.pick(["HEX$", "OCT$"]), self.pick(["255", "-1", "8", "A"]))
        if r < 0.96:
            return self.array_ref("str")
        if r < 0.98 and [f for f in self.fns if f[2] == "str"]:
            return self.fn_call(depth, "str")
        return "SPC(%s)" % self.pick(["0", "2"])

    def array_ref(self, kind):
        cands = [a for a in ARRAYS if a[2] == kind]
        name, dims, _ = self.pick(cands)
        idx = ",".join(self.pick(["0", "1", "2", "3", "I%", "10"] + self.active_loop_vars[:1]) for _ in range(dims))
        return "%s(%s)" % (name, idx)

    def fn_call(self, depth, want):
        name, n, kind = self.pick([f for f in self.fns if f[2] == want])
        args = ",".join(self.num_expr(depth + 1) if kind != "str" else self.str_expr(depth + 1) for _ in range(n))
        return "%s(%s)" % (name, args)

    # ---- simple statements
    def simple(self):
        r = self.rng.random()
        if r < 0.3:
            v = self.pick(NUM_VARS)
            e = self.num_expr()
            if v.endswith("%"):
                e = self.pick([str(self.rng.randint(-5, 50)), "I%+1", "J%*2", "LEN(S$)", "%s MOD 7" % self.pick(["A", "5", "K%"])])
            return "%s%s=%s" % (self.pick(["", "", "LET "]), v, e)
        if r < 0.45:
            return "%s=%s" % (self.pick(STR_VARS), self.str_expr())
        if r < 0.75:
            return self.print_stmt()
        if r < 0.8:
            kind = self.pick(["num", "str"])
            return "%s=%s" % (self.array_ref(kind), self.num_expr(1) if kind == "num" else self.str_expr(1))
        if r < 0.84:
            a, b = self.rng.sample(["A", "B", "C", "X", "Y"], 2)
            if self.rng.random() < 0.3:
                a, b = self.rng.sample(STR_VARS, 2)
            return "SWAP %s,%s" % (a, b)
        if r < 0.88:
            return "MID$(%s,%s%s)=%s" % (self.pick(STR_VARS), self.pick(["1", "2", "3"]), self.pick(["", ",1", ",2"]), self.str_expr(1))
        if r < 0.93:
            return self.read_stmt()
        if r < 0.96:
            opts = ["REM note", "' tick", "CLS", "RESTORE"]
            if self.features.get("tron", True):
                opts += ["TRON", "TROFF"]
            return self.pick(opts)
        return "%s=%s" % (self.pick(["D#", "E#", "V!"]), self.pick(["1/3", "2/3", "1E10*3", "0.1+0.2", "100/7", "1E-3"]))

    def print_stmt(self):
        n = self.rng.randint(0, 4)
        parts = []
        for i in range(n):
            r = self.rng.random()
            if r < 0.45:
                parts.append(self.num_expr(1))
            elif r < 0.8:
                parts.append(self.str_expr(1))
            elif not self.features.get("layout", True):
                parts.append(self.str_lit())
            elif r < 0.9:
                parts.append("TAB(%s)" % self.pick(["5", "10", "20", "1", "0"]))
            else:
                parts.append("SPC(%s)" % self.pick(["1", "3"]))
            if i < n - 1 or self.rng.random() < 0.3:
                parts.append(self.pick([";", ";", ",", " "]) if self.features.get("layout", True) else ";")
        kw = self.pick(["PRINT", "PRINT", "?"])
        return (kw + " " + "".join(parts)).rstrip() if parts else kw

    def read_stmt(self):
        n = self.rng.randint(1, 2)
        vs = []
        for _ in range(n):
            kind = self.pick(["num", "num", "str"])
            vs.append(self.pick(NUM_VARS if kind == "num" else STR_VARS))
            self.want_data = getattr(self, "want_data", [])
            self.want_data.append(kind)
        return "READ " + ",".join(vs)

    # ---- blocks
    def block(self, budget):
        """emit a few lines; returns nothing"""
        self.depth += 1
        r = self.rng.random()
        if self.depth > 3 or budget <= 1:
            r = 0.0
        if r < 0.30:
            k = self.rng.randint(1, 3)
            self.emit([self.simple() for _ in range(k)])
        elif r < 0.42:
            self.if_single()
        elif r < 0.50:
            self.if_goto(budget)
        elif r < 0.64:
            self.for_loop(budget)
        elif r < 0.70:
            self.while_loop(budget)
        elif r < 0.80:
            self.gosub(budget)
        elif r < 0.88:
            self.on_branch(budget)
        elif r < 0.92:
            self.back_goto(budget)
        elif r < 0.96 and self.features.get("input", True):
            self.input_stmt()
        else:
            self.emit([self.simple()])
        self.depth -= 1

    def blocks(self, n, budget):
        for _ in range(n):
            self.block(budget - 1)

    def small_stmts(self, n):
        return [self.simple() for _ in range(n)]

    def branch_tail(self, budget, join):
        """a control-transfer statement that may end an IF branch"""
        r = self.rng.random()
        if r < 0.4:
            return self.pick(["GOSUB ", "GO SUB "]) + self.new_sub(budget)
        if r < 0.6:
            return "ON %s GOTO %s" % (self.pick(["0", "1", "2", "3", "I%", "K%+1"]), ",".join([join] * self.rng.randint(1, 2)))
        if r < 0.75:
            return "ON %s GOSUB %s" % (self.pick(["0", "1", "2", "5"]), self.new_sub(budget))
        if r < 0.9:
            return "GOTO " + join
        return self.simple()

    def if_single(self):
        join = self.label()
        def branch():
            st = self.small_stmts(self.rng.randint(0, 2))
            if self.rng.random() < 0.45 or not st:
                st.append(self.branch_tail(3, join))
            return ":".join(st)
        s = "IF %s THEN %s" % (self.cond(), branch())
        r = self.rng.random()
        if r < 0.5:
            s += " ELSE " + branch()
        elif r < 0.65:
            inner = "IF %s THEN %s ELSE %s" % (self.cond(), branch(), branch())
            s = "IF %s THEN %s ELSE %s" % (self.cond(), inner, branch())
        pre = self.small_stmts(self.rng.randint(0, 1))
        self.emit(pre + [s])
        self.emit(self.small_stmts(self.rng.randint(0, 1)) or ["REM if-join"], label=join)

    def if_goto(self, budget):
        la, lb, lj = self.label(), self.label(), self.label()
        form = self.rng.random()
        if form < 0.4:
            self.emit(["IF %s THEN %s ELSE %s" % (self.cond(), la, lb)])
        elif form < 0.7:
            self.emit(["IF %s GOTO %s" % (self.cond(), la), "GOTO " + lb] if False else ["IF %s GOTO %s" % (self.cond(), la)])
            self.emit(["GOTO " + lb])
        else:
            self.emit(["IF %s THEN GOTO %s ELSE GO TO %s" % (self.cond(), la, lb)])
        self.emit(self.small_stmts(1), label=la)
        self.blocks(self.rng.randint(0, 1), budget)
        self.emit(["GOTO " + lj])
        self.emit(self.small_stmts(1), label=lb)
        self.emit(["REM join"], label=lj)

    def for_loop(self, budget):
        free = [v for v in LOOP_VARS if v not in self.active_loop_vars]
        if not free:
            self.emit([self.simple()])
            return
        v = self.pick(free)
        a = self.pick(["1", "0", "2", "3", "-1"])
        b = self.pick(["1", "2", "3", "4", "0"])
        step = self.pick(["", "", " STEP 1", " STEP 2", " STEP -1", " STEP 0.5", " STEP 3"])
        if step.strip() == "STEP -1":
            a, b = b, a
        if v.endswith("%") and "0.5" in step:
            step = ""
        if self.rng.random() < 0.15 and "-1" not in step and "0.5" not in step:
            # the start value is assigned before the limit and the step are evaluated: both may mention the loop variable
            b = self.pick(["%s+%s" % (v, b), "%s*2" % v, "2*%s+1" % v])
            if step and self.rng.random() < 0.5:
                step = " STEP %s" % self.pick(["ABS(%s)+1" % v, "1+%s*0" % v])
        head = "FOR %s=%s TO %s%s" % (v, a, b, step)
        self.active_loop_vars.append(v)
        form = self.rng.random()
        nxt = self.pick(["NEXT", "NEXT " + v, "NEXT " + v])
        if form < 0.3:
            self.emit([head] + self.small_stmts(self.rng.randint(1, 2)) + [nxt])
        else:
            lexit = self.label()
            self.emit(self.small_stmts(self.rng.randint(0, 1)) + [head] + self.small_stmts(self.rng.randint(0, 1)))
            self.blocks(self.rng.randint(1, 2), budget)
            early = self.rng.random() < 0.25
            if early:
                if self.in_sub and self.rng.random() < 0.6:
                    # leave the loop and the subroutine at once: RETURN drops the abandoned FOR frame with everything above the return address
                    self.emit(["IF %s=%s THEN RETURN" % (v, self.pick(["1", "2", "3"]))])
                else:
                    self.emit(["IF %s=%s THEN %s" % (v, self.pick(["2", "3"]), lexit)])
            self.emit(self.small_stmts(self.rng.randint(0, 1)) + [nxt])
            self.emit(["REM after " + v], label=lexit)
        self.active_loop_vars.pop()

    def while_loop(self, budget):
        c = self.counter()
        k = self.pick(["1", "2", "3"])
        self.emit(["%s=0" % c])
        if self.rng.random() < 0.3:
            self.emit(["WHILE %s<%s" % (c, k), "%s=%s+1" % (c, c)] + self.small_stmts(1) + ["WEND"])
        else:
            self.emit(["WHILE %s<%s" % (c, k)] + self.small_stmts(self.rng.randint(0, 1)))
            self.blocks(self.rng.randint(0, 1), budget)
            self.emit(["%s=%s+1" % (c, c), "WEND"])

    def new_sub(self, budget):
        lab = self.label()
        saved = self.lines
        self.lines = []
        self.in_sub += 1
        self.emit(self.small_stmts(self.rng.randint(1, 2)), label=lab)
        if self.in_sub < 3:
            self.blocks(self.rng.randint(0, 1), budget)
        self.emit(self.small_stmts(self.rng.randint(0, 1)) + ["RETURN"])
        self.in_sub -= 1
        self.subs.extend(self.lines)
        self.lines = saved
        return lab

    def gosub(self, budget):
        lab = self.new_sub(budget)
        self.emit(self.small_stmts(self.rng.randint(0, 1)) + [self.pick(["GOSUB ", "GOSUB ", "GO SUB "]) + lab]
                  + self.small_stmts(self.rng.randint(0, 1)))

    def on_branch(self, budget):
        sel = self.pick(["0", "1", "2", "3", "4", "I%", "A", "J%+1", "1.5", "K%"])
        if self.rng.random() < 0.5:
            labs = [self.new_sub(budget) for _ in range(self.rng.randint(1, 3))]
            self.emit(["ON %s GOSUB %s" % (sel, ",".join(labs))] + self.small_stmts(self.rng.randint(0, 1)))
        else:
            lj = self.label()
            labs = [self.label() for _ in range(self.rng.randint(1, 3))]
            self.emit(["ON %s GOTO %s" % (sel, ",".join(labs))])
            self.emit(self.small_stmts(1) + ["GOTO " + lj])
            for lb in labs:
                self.emit(self.small_stmts(1) + ["GOTO " + lj], label=lb)
            self.emit(["REM on-join"], label=lj)

    def back_goto(self, budget):
        c = self.counter()
        lab = self.label()
        self.emit(["%s=0" % c])
        self.emit(self.small_stmts(1), label=lab)
        self.blocks(self.rng.randint(0, 1), budget)
        self.emit(["%s=%s+1" % (c, c), "IF %s<%s THEN %s" % (c, self.pick(["2", "3"]), lab)])

    def input_stmt(self):
        n = self.rng.randint(1, 3)
        vs, fields = [], []
        for _ in range(n):
            if self.rng.random() < 0.6:
                vs.append(self.pick(["A", "B", "I%", "D#", "P(1)"]))
                fields.append(self.pick(["1", "2.5", "-3", " 4 ", "", "1E2", "&HF"]))
            else:
                vs.append(self.pick(STR_VARS))
                fields.append(self.pick(["abc", '"x,y"', " hi ", "", '"q"']))
        if n == 1 and fields[0].strip() == "" and not vs[0].endswith("$"):
            fields[0] = "5"
        prompt = self.pick(['', '"VAL";', '"X";', ',"low";', ',', '"n? ";'])
        self.emit(["INPUT %s%s" % (prompt, ",".join(vs))])
        self.inputs.append(",".join(fields))

    # ---- whole program
    def build(self, size):
        rng = self.rng
        if rng.random() < 0.5:
            dims = []
            for name, nd, _ in ARRAYS:
                if rng.random() < 0.6:
                    dims.append("%s(%s)" % (name, ",".join(rng.choice(["10", "12", "5"]) for _ in range(nd))))
            if dims:
                self.emit(["DIM " + ",".join(dims)])
        nf = rng.randint(0, 2)
        for i in range(nf):
            name = "FN" + "ABC"[i]
            kind = rng.choice(["num", "num", "str"])
            if kind == "str":
                name += "$"
            n = rng.randint(1, 2) if kind == "num" else 1
            params = ["X", "Y"][:n] if kind == "num" else ["P$"]
            if kind == "num":
                body = rng.choice(["X*2+1", "X+Y", "A+1", "X*X-Y", "ABS(X)+B", "7"]) if n else rng.choice(["A+1", "42", "B*2"])
                if n == 1:
                    body = body.replace("Y", "3")
                if n == 0:
                    body = body.replace("X", "2").replace("Y", "3")
            else:
                body = rng.choice(['P$+"!"', "LEFT$(P$,1)", "P$+S$"])
            self.emit(["DEF %s(%s)=%s" % (name, ",".join(params), body)])
            self.fns.append((name, n, kind))
        if rng.random() < 0.15:
            self.emit([rng.choice(["DEFINT Q", "DEFDBL R", "DEFSTR W", "DEFSNG A-C"])])
        self.blocks(size, 4)
        end_label = self.label()
        if rng.random() < 0.12:
            self.emit([rng.choice(["PRINT 1\\0", "X=32767:I%=X+1", 'A="s"', "NEXT", "RETURN", "PRINT P(11)", "READ A,A,A,A,A,A,A,A,A",
                                   "PRINT FNZ(1)", "DIM P(3)", "ERASE ZZ", 'PRINT ASC("")', "PRINT LEFT$(5,1)", "ON -1 GOTO " + end_label]
                                  + (["STOP"] if self.features.get("stop", True) else []))])
        if rng.random() < 0.5:
            # what the loops left in their variables -- also in those of loops that were abandoned and dropped by an outer NEXT
            self.emit(["PRINT " + ";".join(LOOP_VARS)])
        enders = ["END", "END", "END", "END", 'PRINT "done":END'] + (["STOP"] if self.features.get("stop", True) else [])
        self.emit([rng.choice(enders)] if rng.random() < 0.93 else ["REM last"], label=end_label)
        self.lines.extend(self.subs)
        # DATA lines anywhere
        want = getattr(self, "want_data", [])
        items = []
        for kind in want:
            items.append(rng.choice(["1", "2", "-3", "4.5", "100", "0"]) if kind == "num" else rng.choice(['"d1"', '"x y"', '""', '"é"']))
        if rng.random() < 0.3 and items:
            items = items[:-1]           # OUT OF DATA
        while items:
            k = rng.randint(1, min(3, len(items)))
            self.lines.insert(rng.randint(0, len(self.lines)), [None, ["DATA " + ",".join(items[:k])]])
            items = items[k:]
        return self.render()

    def render(self, start=10, step=10, extra_rem=False):
        nums = {}
        n = start
        for lab, _ in self.lines:
            if lab:
                nums[lab] = n
            n += step
        out = []
        n = start
        for lab, stmts in self.lines:
            text = ":".join(stmts)
            for k, v in nums.items():
                text = text.replace(k, str(v))
            out.append("%d %s" % (n, text))
            n += step
        return out, list(self.inputs)


def generate(rng, size=None, features=None, want_prog=False):
    p = Prog(rng, features)
    out = p.build(size if size is not None else rng.randint(2, 7))
    return (out[0], out[1], p) if want_prog else out
