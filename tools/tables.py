#!/usr/bin/env python3
"""Translator for the table-shaped parts of /repo's source (the second kind of tie, next to the differential runs).

Reads, on every run, from /repo's working tree:
  src/lang/token.rs     the reserved-word table of Token::scan_alphabetic (order matters), Token::match_minutia,
                        Display for Word and Operator, Operator::is_word
  src/lang/parse.rs     Expression::unary_op_precedence / binary_op_precedence
  src/mach/function.rs  Function::opcode_and_arity (name -> arity range)
  src/lang/lex.rs       the operator merges of collapse_triples / collapse_doubles
  src/lang/error.rs     enum ErrorCode (variant -> number)
  src/lang/mod.rs, src/mach/mod.rs, src/mach/stack.rs   the largest line number, MAX_LINE_LEN, Stack::max_len and is_full's head-room
and writes coq/Gen/SourceTables.v: the same tables as Gallina list literals over the model's constructors.
coq/Proofs/SourceTables.v proves, by computation, that the model's hand-written tables ARE these lists; when the source
changes a table, that file stops compiling (a proof obligation that no longer checks) and the differential run looks for
the input on which the behaviour differs.  The translator is deliberately dumb: it reads the literal tables with regular
expressions and fails loudly (exit 2) when the text no longer has the shape it knows -- a broken tie, not a verdict.
"""
import os
import re
import sys

REPO = os.environ.get("VERIF_REPO", "/repo")
ROOT = os.path.dirname(os.path.dirname(os.path.abspath(__file__)))
OUT = os.path.join(ROOT, "coq", "Gen", "SourceTables.v")

OPS = {"Caret": "OCaret", "Multiply": "OMul", "Divide": "ODiv", "DivideInt": "ODivInt", "Modulo": "OMod", "Plus": "OPlus", "Minus": "OMinus",
       "Equal": "OEq", "NotEqual": "ONe", "Less": "OLt", "LessEqual": "OLe", "Greater": "OGt", "GreaterEqual": "OGe", "Not": "ONot", "And": "OAnd",
       "Or": "OOr", "Xor": "OXor", "Imp": "OImp", "Eqv": "OEqv"}
PUNCT = {"LParen": "TLParen", "RParen": "TRParen", "Comma": "TComma", "Colon": "TColon", "Semicolon": "TSemicolon"}


class Shape(Exception):
    pass


def body_of(text, header):
    """the brace-balanced body following `header`"""
    i = text.find(header)
    if i < 0:
        raise Shape("cannot find %r" % header)
    j = text.find("{", i)
    depth = 0
    k = j
    while k < len(text):
        if text[k] == "{":
            depth += 1
        elif text[k] == "}":
            depth -= 1
            if depth == 0:
                return text[j + 1:k]
        k += 1
    raise Shape("unbalanced braces after %r" % header)


def tok(rust):
    m = re.fullmatch(r"Token::Word\(Word::(\w+)\)", rust)
    if m:
        return "TWord W%s" % m.group(1)
    m = re.fullmatch(r"Token::Operator\(Operator::(\w+)\)", rust)
    if m:
        if m.group(1) not in OPS:
            raise Shape("unknown operator %s" % m.group(1))
        return "TOp %s" % OPS[m.group(1)]
    m = re.fullmatch(r"Token::(\w+)", rust)
    if m and m.group(1) in PUNCT:
        return PUNCT[m.group(1)]
    raise Shape("unknown token expression %r" % rust)


def coq_str(s):
    return '"%s"' % s.replace('"', '""')


def unescape(s):
    return s.replace("\\\\", "\\").replace('\\"', '"')


def translate():
    token_rs = open(os.path.join(REPO, "src/lang/token.rs")).read()
    parse_rs = open(os.path.join(REPO, "src/lang/parse.rs")).read()
    function_rs = open(os.path.join(REPO, "src/mach/function.rs")).read()
    out = []
    # 1. reserved words, in table order
    sa = body_of(token_rs, "pub fn scan_alphabetic")
    m = re.search(r"=\s*\[(.*?)\]\s*\.iter\(\)", sa, re.S)
    if not m:
        raise Shape("scan_alphabetic: no literal table")
    kws = re.findall(r'\(\s*"([A-Z]+)"\s*,\s*(Token::[\w:()]+)\s*\)', m.group(1))
    if len(kws) < 40 or m.group(1).count("(\"") != len(kws):
        raise Shape("scan_alphabetic: %d entries read, %d present" % (len(kws), m.group(1).count("(\"")))
    out.append("Definition src_keywords : list (string * token) :=\n  [" + ";\n   ".join("(%s, %s)" % (coq_str(k), tok(t)) for k, t in kws) + "].")
    # 2. single-character tokens
    mm = body_of(token_rs, "pub fn match_minutia")
    arms = re.findall(r'"((?:\\.|[^"\\])*)"\s*=>\s*Some\((Token::[\w:()]+)\)', mm)
    if len(arms) < 10 or mm.count("=> Some(") != len(arms):
        raise Shape("match_minutia: %d arms read, %d present" % (len(arms), mm.count("=> Some(")))
    for a, _ in arms:
        if len(unescape(a)) != 1:
            raise Shape("match_minutia: %r is not one character" % a)
    out.append("Definition src_minutia : list (N * token) :=\n  [" + "; ".join("(%d, %s)" % (ord(unescape(a)), tok(t)) for a, t in arms) + "]%N.")
    # 3. Display
    wd = body_of(token_rs, "impl std::fmt::Display for Word")
    warms = re.findall(r'(\w+)\s*=>\s*write!\(f,\s*"((?:\\.|[^"\\])*)"\)', wd)
    if len(warms) < 40 or wd.count("write!(") != len(warms):
        raise Shape("Display for Word: %d arms read, %d present" % (len(warms), wd.count("write!(")))
    out.append("Definition src_word_display : list (word * string) :=\n  [" + "; ".join("(W%s, %s)" % (w, coq_str(unescape(s))) for w, s in warms) + "].")
    od = body_of(token_rs, "impl std::fmt::Display for Operator")
    oarms = re.findall(r'(\w+)\s*=>\s*write!\(f,\s*"((?:\\.|[^"\\])*)"\)', od)
    if len(oarms) != len(OPS) or od.count("write!(") != len(oarms):
        raise Shape("Display for Operator: %d arms read" % len(oarms))
    out.append("Definition src_op_display : list (operator * string) :=\n  [" + "; ".join("(%s, %s)" % (OPS[o], coq_str(unescape(s))) for o, s in oarms) + "].")
    # 4. Operator::is_word
    iw = body_of(body_of(token_rs, "impl Operator"), "pub fn is_word")
    mt = re.search(r"((?:\w+\s*\|\s*)*\w+)\s*=>\s*true", iw)
    mf = re.search(r"((?:\w+\s*\|\s*)*\w+)\s*=>\s*false", iw)
    if not mt or not mf:
        raise Shape("Operator::is_word: arms not found")
    words = [x.strip() for x in mt.group(1).split("|")]
    others = [x.strip() for x in mf.group(1).split("|")]
    if sorted(words + others) != sorted(OPS):
        raise Shape("Operator::is_word does not mention every operator once")
    out.append("Definition src_op_is_word : list (operator * bool) :=\n  [" + "; ".join("(%s, %s)" % (OPS[o], "true" if o in words else "false") for o in OPS) + "].")

    # 5. precedences
    def prec(fn):
        b = body_of(parse_rs, "fn " + fn)
        table = {}
        default = None
        for pat, val in re.findall(r"((?:\w+\s*\|\s*)*\w+)\s*=>\s*(\d+)\s*,", re.sub(r"//[^\n]*", "", b)):
            for o in [x.strip() for x in pat.split("|")]:
                if o == "_":
                    default = int(val)
                elif o in OPS:
                    table[o] = int(val)
                else:
                    raise Shape("%s: unknown operator %s" % (fn, o))
        if default is None:
            raise Shape("%s: no default arm" % fn)
        return "[" + "; ".join("(%s, %d)" % (OPS[o], table.get(o, default)) for o in OPS) + "]%N"
    out.append("Definition src_unary_prec : list (operator * N) :=\n  %s." % prec("unary_op_precedence"))
    out.append("Definition src_binary_prec : list (operator * N) :=\n  %s." % prec("binary_op_precedence"))
    # 6. built-in functions
    oa = body_of(function_rs, "pub fn opcode_and_arity")
    fns = re.findall(r'"([A-Z$]+)"\s*=>\s*Some\(\(Opcode::\w+,\s*(\d+)\.\.=(\d+)\)\)', oa)
    if len(fns) < 30 or oa.count("=> Some(") != len(fns):
        raise Shape("opcode_and_arity: %d arms read, %d present" % (len(fns), oa.count("=> Some(")))
    out.append("Definition src_arity : list (string * (N * N)) :=\n  [" + ";\n   ".join("(%s, (%s, %s))" % (coq_str(n), lo, hi) for n, lo, hi in fns) + "]%N.")
    # 6b. the operator merges of the scanner's post passes (src/lang/lex.rs collapse_triples / collapse_doubles): which two
    # operator characters, with / without blanks between them, become which operator
    lex_rs = open(os.path.join(REPO, "src/lang/lex.rs")).read()

    def blocks(text, start=0):
        """top-level `if let PAT = EXPR { BODY }` blocks of text: (pattern, expression, body)"""
        res = []
        i = start
        while True:
            m = re.compile(r"if let (.+?) = (&?\w+\[\d\]) \{").search(text, i)
            if not m:
                return res
            depth, k = 0, m.end() - 1
            while k < len(text):
                if text[k] == "{":
                    depth += 1
                elif text[k] == "}":
                    depth -= 1
                    if depth == 0:
                        break
                k += 1
            res.append((m.group(1), m.group(2), text[m.end():k]))
            i = k + 1

    def op_of(pat):
        m = re.fullmatch(r"Token::Operator\(Operator::(\w+)\)", pat)
        return OPS[m.group(1)] if m and m.group(1) in OPS else None

    def merges(fn, var, first, second, has_ws):
        body = body_of(lex_rs, "fn " + fn)
        found = []
        pushes = 0
        for pat, expr, inner in blocks(body):
            pos = int(expr[-2])
            a = op_of(pat)
            pushes += inner.count("locs.push(")
            if a is None:
                continue          # the GO TO / GO SUB block: identifiers, not operators
            if has_ws:
                ws = blocks(inner)
                if len(ws) != 1 or not ws[0][0].startswith("Token::Whitespace"):
                    raise Shape("%s: no whitespace test inside the block for %s" % (fn, pat))
                inner = ws[0][2]
            for pat2, expr2, inner2 in blocks(inner):
                b = op_of(pat2)
                m = re.search(r"locs\.push\(\(index, Token::Operator\(Operator::(\w+)\)\)\)", inner2)
                if b is None or not m or m.group(1) not in OPS:
                    raise Shape("%s: unreadable inner block %s" % (fn, pat2))
                pos2 = int(expr2[-2])
                if {pos, pos2} != {first, second}:
                    raise Shape("%s: unexpected positions %d, %d" % (fn, pos, pos2))
                l, r = (a, b) if pos == first else (b, a)
                found.append((l, r, OPS[m.group(1)]))
        return found, pushes
    tri, tp = merges("collapse_triples", "ttt", 0, 2, True)
    dbl, dp = merges("collapse_doubles", "tt", 0, 1, False)
    if len(tri) + 2 != tp or len(dbl) != dp or len(tri) < 4 or len(dbl) < 4:
        raise Shape("collapse passes: %d + %d merges read, %d + %d pushes present" % (len(tri), len(dbl), tp, dp))
    out.append("Definition src_triple_merges : list (operator * operator * operator) :=\n  [" + "; ".join("(%s, %s, %s)" % t for t in tri) + "].")
    out.append("Definition src_double_merges : list (operator * operator * operator) :=\n  [" + "; ".join("(%s, %s, %s)" % t for t in dbl) + "].")
    # 7. error codes
    error_rs = open(os.path.join(REPO, "src/lang/error.rs")).read()
    ec = body_of(error_rs, "pub enum ErrorCode")
    codes = re.findall(r"(\w+)\s*=\s*(\d+)\s*,", ec)
    if len(codes) < 20 or ec.count("=") != len(codes):
        raise Shape("ErrorCode: %d variants read, %d present" % (len(codes), ec.count("=")))
    out.append("\n".join("Definition src_E_%s : N := %s%%N." % (n, v) for n, v in codes))
    # 8. limits: the largest line number, the longest line, the pool size, the head-room of Stack::is_full
    mod_rs = open(os.path.join(REPO, "src/lang/mod.rs")).read()
    m = re.search(r"impl MaxValue<u16> for LineNumber\s*\{\s*fn max_value\(\) -> u16\s*\{\s*(\d+)\s*\}", mod_rs)
    if not m:
        raise Shape("LineNumber::max_value not found")
    out.append("Definition src_max_line_number : N := %s%%N." % m.group(1))
    mach_rs = open(os.path.join(REPO, "src/mach/mod.rs")).read()
    m = re.search(r"const MAX_LINE_LEN: usize = (\d+);", mach_rs)
    if not m:
        raise Shape("MAX_LINE_LEN not found")
    out.append("Definition src_max_line_len : N := %s%%N." % m.group(1))
    stack_rs = open(os.path.join(REPO, "src/mach/stack.rs")).read()
    ml = body_of(stack_rs, "fn max_len")
    if ml.strip() != "u16::max_value() as usize":
        raise Shape("Stack::max_len is no longer u16::max_value(): %r" % ml.strip())
    out.append("Definition src_max_pool : N := 65535%N.   (* Stack::max_len = u16::max_value() *)")
    m = re.fullmatch(r"\s*self\.vec\.len\(\) > self\.max_len\(\) - (\d+)\s*", body_of(stack_rs, "pub fn is_full"))
    if not m:
        raise Shape("Stack::is_full has another shape")
    out.append("Definition src_full_headroom : N := %s%%N." % m.group(1))
    head = ("(* GENERATED on every run by tools/tables.py from /repo/src/lang/{token,parse,error,mod}.rs and src/mach/{function,mod,stack}.rs.\n"
            "   Do not edit: Proofs/SourceTables.v proves that the model's tables are these. *)\n"
            "From Coq Require Import String NArith List.\nImport ListNotations.\nFrom BL Require Import Base.Prelude Lang.Token.\n"
            "Local Open Scope string_scope.\n\n")
    return head + "\n\n".join(out) + "\n"


def main():
    try:
        text = translate()
    except (Shape, OSError) as e:
        sys.stderr.write("tables.py: the source no longer has the shape the translator reads: %s\n" % e)
        return 2
    os.makedirs(os.path.dirname(OUT), exist_ok=True)
    old = open(OUT).read() if os.path.exists(OUT) else None
    if old != text:
        with open(OUT, "w") as f:
            f.write(text)
        print("tables.py: %s rewritten" % OUT)
    return 0


if __name__ == "__main__":
    if len(sys.argv) > 1 and sys.argv[1] == "--stdout":
        sys.stdout.write(translate())
        sys.exit(0)
    sys.exit(main())
