#!/usr/bin/env python3
"""Regenerate the machine-made tables of DESIGN.md (between the STATUS markers):
theorem inventory per property (names and statements' first comment), findings, seeded changes."""
import json
import os
import re

ROOT = os.path.dirname(os.path.dirname(os.path.abspath(__file__)))


def theorems():
    out = []
    for i in range(1, 21):
        pid = "C%02d" % i
        path = os.path.join(ROOT, "coq", "Props", pid + ".v")
        text = open(path).read()
        names = re.findall(r"(?m)^Theorem (\w+)", text)
        examples = re.findall(r"(?m)^Example (\w+)", text)
        out.append("| %s | %d | %s | %s |" % (pid, len(names), ", ".join("`%s`" % n for n in names), ", ".join("`%s`" % n for n in examples) or "-"))
    return ["| property | theorems | names | non-vacuity examples |", "|---|---|---|---|"] + out


def findings():
    fixed, opened = [], []
    for line in open(os.path.join(ROOT, "findings", "known_findings.txt")):
        line = line.rstrip("\n")
        m = re.match(r"fixed: property=(\S+) (\S+) (.*)$", line)
        if m:
            fixed.append("| %s | `%s` | %s |" % (m.group(1), m.group(2), m.group(3).replace("|", "\\|")))
        m = re.match(r"open: property=(\S+) class=(\S+) match=.*? :: (.*)$", line)
        if m:
            opened.append("| %s | %s | %s |" % (m.group(1), m.group(2), m.group(3).replace("|", "\\|")))
    return (["| property | /repo commit | what failed (with replay) |", "|---|---|---|"] + fixed,
            ["| property | class | what fails, and why it is recorded rather than repaired |", "|---|---|---|"] + opened)


def seeded():
    rows = ["| id | change | needs | 95 tests with it | demo fails with / passes without | caught by (quick check, violations) |", "|---|---|---|---|---|---|"]
    d = os.path.join(ROOT, "seeded")
    for sid in sorted(os.listdir(d)):
        m = json.load(open(os.path.join(d, sid, "meta.json")))
        c = m.get("confirmed", {})
        det = m.get("detected_by", {})
        rows.append("| %s | %s | %s | %s | %s / %s | %s |" % (
            sid, m["change"].replace("|", "\\|"), m["needs"].replace("|", "\\|"), c.get("suite_passed_with_change", "?"),
            c.get("demo_fails_with_change", "?"), c.get("demo_passes_without_change", "?"),
            ", ".join("%s (%s)" % (k, v["violations"]) for k, v in det.items()) + (("; also " + m["also_caught_by"]) if m.get("also_caught_by") else "")))
    return rows


def main():
    path = os.path.join(ROOT, "DESIGN.md")
    text = open(path).read()
    fx, op = findings()
    parts = {"THEOREMS": theorems(), "FIXED": fx, "OPEN": op, "SEEDED": seeded()}
    for key, rows in parts.items():
        a, b = "<!-- %s:BEGIN -->" % key, "<!-- %s:END -->" % key
        if a in text:
            i, j = text.index(a) + len(a), text.index(b)
            text = text[:i] + "\n" + "\n".join(rows) + "\n" + text[j:]
    open(path, "w").write(text)


if __name__ == "__main__":
    main()
