(* Decimal <-> binary floating point, on exact integers.

   shortest : the shortest digit string that reads back to the same float
              (closest to the true value among the shortest), which is what
              Rust's `{}` / `{:E}` print;
   parse    : correctly rounded (ties to even) reading of a decimal numeral,
              which is what Rust's str::parse::<f32/f64>() computes.

   Both are validated against Rust per sampled value by the correspondence
   check; they are not proved against Flocq's real-number semantics. *)
From BL Require Import Base.Prelude Base.Floats.
From Coq Require Import String.
Local Open Scope Z_scope.

(* ---------- floor(log10 (a / b)) for positive a, b ---------- *)

Definition ge_pow10 (a b k : Z) : bool :=
  if 0 <=? k then b * 10 ^ k <=? a else b <=? a * 10 ^ (- k).

Fixpoint ilog10_fix (fuel : nat) (a b k : Z) : Z :=
  match fuel with
  | O => k
  | S f => if ge_pow10 a b (k + 1) then ilog10_fix f a b (k + 1)
           else if ge_pow10 a b k then k else ilog10_fix f a b (k - 1)
  end.
Definition ilog10 (a b : Z) : Z :=
  ilog10_fix 8 a b (((Z.log2 a - Z.log2 b) * 30103) / 100000).

(* ---------- shortest digits ---------- *)

(* value v = m * 2^e, precision prec, minimal exponent emin.
   Result: (digits as an integer c with n decimal digits, pt) meaning
   0.c * 10^pt, i.e. c * 10^(pt - n). *)
Section Shortest.
Variables (prec emin : Z).

Definition digits10 (c : Z) : Z := Z.of_N (lenN (dec_of_N (Z.to_N c))).

Fixpoint strip0 (fuel : nat) (c : Z) : Z :=
  match fuel with
  | O => c
  | S f => if (c mod 10 =? 0) && negb (c =? 0) then strip0 f (c / 10) else c
  end.

Fixpoint shortest_loop (fuel : nat) (n : Z) (vn lon hin dn k : Z) (even : bool) : Z * Z :=
  match fuel with
  | O => (vn, k + 1)   (* unreachable for prec <= 53 with fuel 17 *)
  | S f =>
      let p := k - n + 1 in
      let sc := 10 ^ Z.abs p in
      let A := if p <? 0 then vn * sc else vn in
      let LO := if p <? 0 then lon * sc else lon in
      let HI := if p <? 0 then hin * sc else hin in
      let B := if p <? 0 then dn else dn * sc in
      let dl := A / B in
      let dh := dl + 1 in
      let okl := if even then LO <=? dl * B else LO <? dl * B in
      let okh := if even then dh * B <=? HI else dh * B <? HI in
      let pick (c : Z) :=
        if c =? 10 ^ n then (1, k + 2) else (strip0 20 c, k + 1) in
      if okl && okh then
        let dlo := A - dl * B in
        let dhi := dh * B - A in
        (* an exact decimal tie goes up in magnitude, as Rust's shortest-digit printers do *)
        if dlo <? dhi then pick dl else pick dh
      else if okl then pick dl
      else if okh then pick dh
      else shortest_loop f (n + 1) vn lon hin dn k even
  end.

Definition shortest (m : positive) (e : Z) : Z * Z :=
  let mz := Zpos m in
  let boundary := (mz =? 2 ^ (prec - 1)) && (emin <? e) in
  let v := 4 * mz in
  let lo := if boundary then v - 1 else v - 2 in
  let hi := v + 2 in
  let e2 := e - 2 in
  let s := if 0 <=? e2 then 2 ^ e2 else 1 in
  let d := if 0 <=? e2 then 1 else 2 ^ (- e2) in
  let k := ilog10 (v * s) d in
  shortest_loop 18 1 (v * s) (lo * s) (hi * s) d k (Z.even mz).
End Shortest.

Definition shortest32 := shortest 24 (-149).
Definition shortest64 := shortest 53 (-1074).

(* ---------- Rust's Display and UpperExp for floats ---------- *)

Definition zeros (n : Z) : str := repeatN 48%N (Z.to_N n).

(* c has no trailing zeros (or is 1); pt as above *)
Definition plain_digits (c pt : Z) : str :=
  let ds := dec_of_N (Z.to_N c) in
  let n := Z.of_N (lenN ds) in
  if pt <=? 0 then s2l "0." ++ zeros (- pt) ++ ds
  else if pt <? n then firstnN (Z.to_N pt) ds ++ [c_dot] ++ skipnN (Z.to_N pt) ds
  else ds ++ zeros (pt - n).

Definition exp_digits (c pt : Z) : str :=
  let ds := dec_of_N (Z.to_N c) in
  match ds with
  | d1 :: rest =>
      (d1 :: (match rest with [] => [] | _ => c_dot :: rest end)) ++ [69%N] ++ dec_of_Z (pt - 1)
  | [] => []
  end.

Definition count_digits (s : str) : N := lenN (filter is_digit s).

(* Val::fmt for Single / Double, without the leading blank *)
Definition fmt_view (v : fview) (sh : positive -> Z -> Z * Z) (maxdig : N) : str :=
  match v with
  | FNan => s2l "NaN"
  | FInf s => if s then s2l "-inf" else s2l "inf"
  | FZero s => if s then s2l "-0" else s2l "0"
  | FFin s m e =>
      let '(c, pt) := sh m e in
      let pl := plain_digits c pt in
      let body := if (maxdig <? count_digits pl)%N then exp_digits c pt else pl in
      if s then c_minus :: body else body
  end.

Definition fmt_f32 (b : Z) : str := fmt_view (view32 b) shortest32 9.
Definition fmt_f64 (b : Z) : str := fmt_view (view64 b) shortest64 17.

(* ---------- parsing ---------- *)

Inductive numeral :=
| NumNan
| NumInf (neg : bool)
| NumDec (neg : bool) (mant : N) (nd : N) (exp10 : Z).  (* mant * 10^exp10; nd = digits seen *)

Definition lower (c : N) : N := if is_upper c then (c + 32)%N else c.

Fixpoint take_digits (s : str) (acc : N) (cnt : N) : N * N * str :=
  match s with
  | c :: r => if is_digit c then take_digits r (acc * 10 + (c - 48))%N (cnt + 1)%N else (acc, cnt, s)
  | [] => (acc, cnt, [])
  end.

(* exponent digits, saturated so that no huge number is ever built *)
Fixpoint take_exp (s : str) (acc : N) (cnt : N) : N * N * str :=
  match s with
  | c :: r => if is_digit c
              then take_exp r (if (acc <? 100000)%N then (acc * 10 + (c - 48))%N else acc) (cnt + 1)%N
              else (acc, cnt, s)
  | [] => (acc, cnt, [])
  end.

Definition parse_numeral (s : str) : option numeral :=
  let '(neg, s1) :=
    match s with
    | c :: r => if (c =? 45)%N then (true, r) else if (c =? 43)%N then (false, r) else (false, s)
    | [] => (false, s)
    end in
  let low := map lower s1 in
  if str_eqb low (s2l "inf") || str_eqb low (s2l "infinity") then Some (NumInf neg)
  else if str_eqb low (s2l "nan") then Some NumNan
  else
    let '(ip, icnt, s2) := take_digits s1 0%N 0%N in
    let '(mant, fcnt, s3) :=
      match s2 with
      | c :: r => if (c =? 46)%N then take_digits r ip 0%N else (ip, 0%N, s2)
      | [] => (ip, 0%N, s2)
      end in
    if ((icnt + fcnt) =? 0)%N then None
    else
      match s3 with
      | [] => Some (NumDec neg mant (icnt + fcnt) (- Z.of_N fcnt))
      | c :: r =>
          if (c =? 101)%N || (c =? 69)%N then
            let '(eneg, r1) :=
              match r with
              | d :: r' => if (d =? 45)%N then (true, r') else if (d =? 43)%N then (false, r') else (false, r)
              | [] => (false, r)
              end in
            let '(ev, ecnt, r2) := take_exp r1 0%N 0%N in
            if (ecnt =? 0)%N then None
            else match r2 with
                 | [] => Some (NumDec neg mant (icnt + fcnt)
                                 ((if eneg then - Z.of_N ev else Z.of_N ev) - Z.of_N fcnt))
                 | _ => None
                 end
          else None
      end.

Section Round.
Variable norm : Z -> Z -> bool -> Z.     (* norm32 / norm64 *)
Variable prec : Z.
Variables (inf_bits sign_bit : Z).

Definition round_dec (neg : bool) (mant : N) (nd : N) (e10 : Z) : Z :=
  let m := Z.of_N mant in
  let sgn (b : Z) := if neg then b + sign_bit else b in
  if m =? 0 then sgn 0
  else if 400 <? e10 + Z.of_N nd then sgn inf_bits
  else if e10 + Z.of_N nd <? -400 then sgn 0
  else if 0 <=? e10 then sgn (norm (m * 10 ^ e10) 0 false)
  else
    let den := 10 ^ (- e10) in
    let k := Z.max 0 (prec + 4 + Z.log2 den - Z.log2 m) in
    let num := m * 2 ^ k in
    let q := num / den in
    let sticky := if num mod den =? 0 then 0 else 1 in
    sgn (norm (2 * q + sticky) (- k - 1) false).
End Round.

Definition round32 := round_dec norm32 24 0x7F800000 0x80000000.
Definition round64 := round_dec norm64 53 0x7FF0000000000000 0x8000000000000000.

Definition parse_f32 (s : str) : option Z :=
  match parse_numeral s with
  | None => None
  | Some NumNan => Some nan32
  | Some (NumInf neg) => Some (if neg then 0xFF800000 else 0x7F800000)
  | Some (NumDec neg m nd e) => Some (round32 neg m nd e)
  end.
Definition parse_f64 (s : str) : option Z :=
  match parse_numeral s with
  | None => None
  | Some NumNan => Some nan64
  | Some (NumInf neg) => Some (if neg then 0xFFF0000000000000 else 0x7FF0000000000000)
  | Some (NumDec neg m nd e) => Some (round64 neg m nd e)
  end.
