(* Prelude: characters as code points (N), strings as lists, the result type
   with explicit Panic / Hang outcomes, BASIC error values, small list and
   decimal utilities.  Model files contain definitions only; proofs live in
   Proofs/. *)
From Coq Require Export List ZArith NArith Bool Lia.
From Coq Require Import String Ascii.
Export ListNotations.

Definition chr := N.
Definition str := list N.

(* Coq string literal -> code-point list (ASCII only; used for keywords). *)
Fixpoint s2l (s : string) : str :=
  match s with
  | EmptyString => []
  | String a r => N_of_ascii a :: s2l r
  end.

(* ---------- results ---------- *)

Record error := mkErr { ecode : N; eline : option N; ecol : N * N }.

Inductive res (A : Type) : Type :=
| Ok (a : A)
| Err (e : error)
| Panic            (* the Rust code would panic here *)
| Hang.            (* the Rust code would loop forever here *)
Arguments Ok {A} a.
Arguments Err {A} e.
Arguments Panic {A}.
Arguments Hang {A}.

Definition bind {A B} (r : res A) (f : A -> res B) : res B :=
  match r with
  | Ok a => f a
  | Err e => Err e
  | Panic => Panic
  | Hang => Hang
  end.
Notation "'do' x <- r ; k" := (bind r (fun x => k))
  (at level 200, x pattern, r at level 100, k at level 200, right associativity).

Definition err {A} (c : N) : res A := Err (mkErr c None (0, 0)%N).
Definition err_col {A} (c : N) (col : N * N) : res A := Err (mkErr c None col).
Definition in_line (e : error) (l : option N) : error := mkErr (ecode e) l (ecol e).
Definition in_col (e : error) (c : N * N) : error := mkErr (ecode e) (eline e) c.

(* ErrorCode of src/lang/error.rs *)
Definition E_Break : N := 0.
Definition E_NextWithoutFor : N := 1.
Definition E_Syntax : N := 2.
Definition E_ReturnWithoutGosub : N := 3.
Definition E_OutOfData : N := 4.
Definition E_IllegalFunctionCall : N := 5.
Definition E_Overflow : N := 6.
Definition E_OutOfMemory : N := 7.
Definition E_UndefinedLine : N := 8.
Definition E_Subscript : N := 9.
Definition E_Redim : N := 10.
Definition E_DivByZero : N := 11.
Definition E_IllegalDirect : N := 12.
Definition E_TypeMismatch : N := 13.
Definition E_StringTooLong : N := 15.
Definition E_CantContinue : N := 17.
Definition E_UndefinedFn : N := 18.
Definition E_Redo : N := 21.
Definition E_LineBufferOverflow : N := 23.
Definition E_WhileWithoutWend : N := 29.
Definition E_WendWithoutWhile : N := 30.
Definition E_Internal : N := 51.
Definition E_DirectInFile : N := 66.

(* ---------- characters ---------- *)

Definition c_space : N := 32.
Definition c_tab : N := 9.
Definition c_nl : N := 10.
Definition c_quote : N := 34.
Definition c_comma : N := 44.
Definition c_dot : N := 46.
Definition c_minus : N := 45.
Definition c_plus : N := 43.

Definition is_ws (c : N) : bool := (c =? 32)%N || (c =? 9)%N.
Definition is_digit (c : N) : bool := (48 <=? c)%N && (c <=? 57)%N.
Definition is_upper (c : N) : bool := (65 <=? c)%N && (c <=? 90)%N.
Definition is_lower (c : N) : bool := (97 <=? c)%N && (c <=? 122)%N.
Definition is_alpha (c : N) : bool := is_upper c || is_lower c.
Definition to_upper (c : N) : N := if is_lower c then (c - 32)%N else c.

(* ---------- lists indexed by N ---------- *)

Definition lenN {A} (l : list A) : N := N.of_nat (List.length l).
Definition nthN {A} (l : list A) (i : N) : option A := nth_error l (N.to_nat i).
Definition firstnN {A} (n : N) (l : list A) : list A := firstn (N.to_nat n) l.
Definition skipnN {A} (n : N) (l : list A) : list A := skipn (N.to_nat n) l.
Definition repeatN {A} (a : A) (n : N) : list A := repeat a (N.to_nat n).

Fixpoint str_eqb (a b : str) : bool :=
  match a, b with
  | [], [] => true
  | x :: a', y :: b' => (x =? y)%N && str_eqb a' b'
  | _, _ => false
  end.

(* lexicographic order on code points = Rust's str ordering (UTF-8 byte order
   coincides with code-point order) *)
Fixpoint str_ltb (a b : str) : bool :=
  match a, b with
  | [], [] => false
  | [], _ :: _ => true
  | _ :: _, [] => false
  | x :: a', y :: b' => if (x <? y)%N then true else if (y <? x)%N then false else str_ltb a' b'
  end.
Definition str_leb (a b : str) : bool := negb (str_ltb b a).

Fixpoint starts_with (p s : str) : bool :=
  match p, s with
  | [], _ => true
  | x :: p', y :: s' => (x =? y)%N && starts_with p' s'
  | _ :: _, [] => false
  end.

Definition ends_with_chr (s : str) (c : N) : bool :=
  match rev s with
  | x :: _ => (x =? c)%N
  | [] => false
  end.

(* index (in characters) of the first occurrence of p in s *)
Fixpoint find_sub (p s : str) : option N :=
  if starts_with p s then Some 0%N
  else match s with
       | [] => None
       | _ :: s' => match find_sub p s' with Some i => Some (i + 1)%N | None => None end
       end.

Fixpoint all_b {A} (f : A -> bool) (l : list A) : bool :=
  match l with [] => true | x :: r => f x && all_b f r end.

(* ---------- decimal ---------- *)

Fixpoint dec_fuel (fuel : nat) (n : N) (acc : str) : str :=
  match fuel with
  | O => acc
  | S f => let acc' := (48 + n mod 10)%N :: acc in
           let q := (n / 10)%N in
           if (q =? 0)%N then acc' else dec_fuel f q acc'
  end.
Definition dec_of_N (n : N) : str := dec_fuel (S (N.to_nat (N.log2 n))) n [].
Definition dec_of_Z (z : Z) : str :=
  if (z <? 0)%Z then c_minus :: dec_of_N (Z.abs_N z) else dec_of_N (Z.abs_N z).

(* value of a digit string; None if empty or a non-digit occurs *)
Fixpoint digits_val (s : str) (acc : N) : option N :=
  match s with
  | [] => Some acc
  | c :: r => if is_digit c then digits_val r (acc * 10 + (c - 48))%N else None
  end.
Definition parse_udec (s : str) : option N :=
  match s with [] => None | _ => digits_val s 0%N end.

(* Rust's str::parse::<u16>() : optional leading '+', then 1+ digits, <= 65535 *)
Definition parse_u16 (s : str) : option N :=
  let s' := match s with c :: r => if (c =? 43)%N then r else s | [] => s end in
  match parse_udec s' with
  | Some n => if (n <=? 65535)%N then Some n else None
  | None => None
  end.

(* Rust's str::parse::<i16>() : optional sign, digits, in range *)
Definition parse_i16 (s : str) : option Z :=
  match s with
  | c :: r =>
      if (c =? 45)%N then
        match parse_udec r with
        | Some n => if (n <=? 32768)%N then Some (- Z.of_N n)%Z else None
        | None => None
        end
      else
        let r' := if (c =? 43)%N then r else s in
        match parse_udec r' with
        | Some n => if (n <=? 32767)%N then Some (Z.of_N n) else None
        | None => None
        end
  | [] => None
  end.

(* ---------- UTF-8 (byte views, where the Rust code counts bytes) ---------- *)

Definition utf8_len_chr (c : N) : N :=
  if (c <? 128)%N then 1 else if (c <? 2048)%N then 2 else if (c <? 65536)%N then 3 else 4.
Definition utf8_len (s : str) : N := fold_left (fun a c => a + utf8_len_chr c)%N s 0%N.

Definition utf8_enc_chr (c : N) : list N :=
  if (c <? 128)%N then [c]
  else if (c <? 2048)%N then [192 + c / 64; 128 + c mod 64]%N
  else if (c <? 65536)%N then [224 + c / 4096; 128 + (c / 64) mod 64; 128 + c mod 64]%N
  else [240 + c / 262144; 128 + (c / 4096) mod 64; 128 + (c / 64) mod 64; 128 + c mod 64]%N.
Definition utf8_enc (s : str) : list N := flat_map utf8_enc_chr s.

(* decoder for well-formed input (the drivers only pass valid UTF-8) *)
Fixpoint utf8_dec (bs : list N) : str :=
  match bs with
  | [] => []
  | b0 :: r0 =>
      if (b0 <? 128)%N then b0 :: utf8_dec r0
      else if (b0 <? 224)%N then
        match r0 with
        | b1 :: r1 => ((b0 - 192) * 64 + (b1 - 128))%N :: utf8_dec r1
        | _ => []
        end
      else if (b0 <? 240)%N then
        match r0 with
        | b1 :: b2 :: r2 => ((b0 - 224) * 4096 + (b1 - 128) * 64 + (b2 - 128))%N :: utf8_dec r2
        | _ => []
        end
      else
        match r0 with
        | b1 :: b2 :: b3 :: r3 =>
            ((b0 - 240) * 262144 + (b1 - 128) * 4096 + (b2 - 128) * 64 + (b3 - 128))%N :: utf8_dec r3
        | _ => []
        end
  end.

(* association lists keyed by strings *)
Fixpoint alist_get {V} (k : str) (l : list (str * V)) : option V :=
  match l with
  | [] => None
  | (k', v) :: r => if str_eqb k k' then Some v else alist_get k r
  end.
Fixpoint alist_remove {V} (k : str) (l : list (str * V)) : list (str * V) :=
  match l with
  | [] => []
  | (k', v) :: r => if str_eqb k k' then alist_remove k r else (k', v) :: alist_remove k r
  end.
Definition alist_set {V} (k : str) (v : V) (l : list (str * V)) : list (str * V) :=
  (k, v) :: alist_remove k l.
