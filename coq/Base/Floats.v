(* IEEE-754 binary32 / binary64 as bit patterns (Z), computed with Flocq.
   Every result NaN is canonicalised to the quiet NaN 0x7FC00000 / 0x7FF8...;
   the correspondence check prints every NaN as "NaN" on both sides. *)
From BL Require Import Base.Prelude.
From Flocq Require Import Core.Zaux Core.FLX Core.FLT IEEE754.BinarySingleNaN IEEE754.Binary IEEE754.Bits.

Local Open Scope Z_scope.

Global Instance Hp32 : Prec_gt_0 24 := eq_refl.
Global Instance Hpe32 : Prec_lt_emax 24 128 := eq_refl.
Global Instance Hp64 : Prec_gt_0 53 := eq_refl.
Global Instance Hpe64 : Prec_lt_emax 53 1024 := eq_refl.

(* a format-independent view of a float *)
Inductive fview := FNan | FInf (s : bool) | FZero (s : bool) | FFin (s : bool) (m : positive) (e : Z).

Definition nan32 : Z := 0x7FC00000.
Definition nan64 : Z := 0x7FF8000000000000.

Definition canon32 (b : binary32) : Z :=
  if Binary.is_nan 24 128 b then nan32 else bits_of_b32 b.
Definition canon64 (b : binary64) : Z :=
  if Binary.is_nan 53 1024 b then nan64 else bits_of_b64 b.

Definition view32 (x : Z) : fview :=
  match b32_of_bits x with
  | Binary.B754_zero _ _ s => FZero s
  | Binary.B754_infinity _ _ s => FInf s
  | Binary.B754_nan _ _ _ _ _ => FNan
  | Binary.B754_finite _ _ s m e _ => FFin s m e
  end.
Definition view64 (x : Z) : fview :=
  match b64_of_bits x with
  | Binary.B754_zero _ _ s => FZero s
  | Binary.B754_infinity _ _ s => FInf s
  | Binary.B754_nan _ _ _ _ _ => FNan
  | Binary.B754_finite _ _ s m e _ => FFin s m e
  end.

(* round an exact dyadic m * 2^e to the format (ties to even) *)
Definition norm32 (m e : Z) (szero : bool) : Z :=
  canon32 (Binary.binary_normalize 24 128 _ _ mode_NE m e szero).
Definition norm64 (m e : Z) (szero : bool) : Z :=
  canon64 (Binary.binary_normalize 53 1024 _ _ mode_NE m e szero).

Definition of_view32 (v : fview) : Z :=
  match v with
  | FNan => nan32
  | FInf s => if s then 0xFF800000 else 0x7F800000
  | FZero s => if s then 0x80000000 else 0
  | FFin s m e => norm32 (cond_Zopp s (Zpos m)) e s
  end.
Definition of_view64 (v : fview) : Z :=
  match v with
  | FNan => nan64
  | FInf s => if s then 0xFFF0000000000000 else 0x7FF0000000000000
  | FZero s => if s then 0x8000000000000000 else 0
  | FFin s m e => norm64 (cond_Zopp s (Zpos m)) e s
  end.

(* `as f64` / `as f32` *)
Definition f64_of_f32 (x : Z) : Z := of_view64 (view32 x).
Definition f32_of_f64 (x : Z) : Z := of_view32 (view64 x).
(* integer `as f32` / `as f64` (exact for 16-bit; rounded otherwise) *)
Definition f32_of_Z (z : Z) : Z := norm32 z 0 false.
Definition f64_of_Z (z : Z) : Z := norm64 z 0 false.

Definition f32_add x y := canon32 (b32_plus mode_NE (b32_of_bits x) (b32_of_bits y)).
Definition f32_sub x y := canon32 (b32_minus mode_NE (b32_of_bits x) (b32_of_bits y)).
Definition f32_mul x y := canon32 (b32_mult mode_NE (b32_of_bits x) (b32_of_bits y)).
Definition f32_div x y := canon32 (b32_div mode_NE (b32_of_bits x) (b32_of_bits y)).
Definition f32_sqrt x := canon32 (b32_sqrt mode_NE (b32_of_bits x)).
Definition f32_neg x := if Binary.is_nan _ _ (b32_of_bits x) then nan32 else canon32 (b32_opp (b32_of_bits x)).
Definition f32_abs x := if Binary.is_nan _ _ (b32_of_bits x) then nan32 else canon32 (b32_abs (b32_of_bits x)).
Definition f32_floor x := canon32 (Binary.Bnearbyint 24 128 _ unop_nan_pl32 mode_DN (b32_of_bits x)).
Definition f32_trunc x := canon32 (Binary.Bnearbyint 24 128 _ unop_nan_pl32 mode_ZR (b32_of_bits x)).

Definition f64_add x y := canon64 (b64_plus mode_NE (b64_of_bits x) (b64_of_bits y)).
Definition f64_sub x y := canon64 (b64_minus mode_NE (b64_of_bits x) (b64_of_bits y)).
Definition f64_mul x y := canon64 (b64_mult mode_NE (b64_of_bits x) (b64_of_bits y)).
Definition f64_div x y := canon64 (b64_div mode_NE (b64_of_bits x) (b64_of_bits y)).
Definition f64_sqrt x := canon64 (b64_sqrt mode_NE (b64_of_bits x)).
Definition f64_neg x := if Binary.is_nan _ _ (b64_of_bits x) then nan64 else canon64 (b64_opp (b64_of_bits x)).
Definition f64_abs x := if Binary.is_nan _ _ (b64_of_bits x) then nan64 else canon64 (b64_abs (b64_of_bits x)).
Definition f64_floor x := canon64 (Binary.Bnearbyint 53 1024 _ unop_nan_pl64 mode_DN (b64_of_bits x)).
Definition f64_trunc x := canon64 (Binary.Bnearbyint 53 1024 _ unop_nan_pl64 mode_ZR (b64_of_bits x)).

Definition cmp32 x y := b32_compare (b32_of_bits x) (b32_of_bits y).
Definition cmp64 x y := b64_compare (b64_of_bits x) (b64_of_bits y).
Definition is_lt (c : option comparison) := match c with Some Lt => true | _ => false end.
Definition is_le (c : option comparison) := match c with Some Lt | Some Eq => true | _ => false end.
Definition is_eq (c : option comparison) := match c with Some Eq => true | _ => false end.
Definition f32_lt x y := is_lt (cmp32 x y).
Definition f32_le x y := is_le (cmp32 x y).
Definition f32_eq x y := is_eq (cmp32 x y).
Definition f64_lt x y := is_lt (cmp64 x y).
Definition f64_le x y := is_le (cmp64 x y).
Definition f64_eq x y := is_eq (cmp64 x y).

Definition f32_is_zero x := match view32 x with FZero _ => true | _ => false end.
Definition f64_is_zero x := match view64 x with FZero _ => true | _ => false end.
Definition f32_is_nan x := match view32 x with FNan => true | _ => false end.
Definition f64_is_nan x := match view64 x with FNan => true | _ => false end.
(* Rust's is_sign_negative: the sign bit (also of NaN) *)
Definition f32_sign_neg x := Z.testbit x 31.
Definition f64_sign_neg x := Z.testbit x 63.

(* exact integer value of a float known to be integral and finite (after floor) *)
Definition f32_to_Z x := Binary.Btrunc 24 128 (b32_of_bits x).
Definition f64_to_Z x := Binary.Btrunc 53 1024 (b64_of_bits x).

(* machine epsilon, as used by Operation::equal_bool *)
Definition eps32 : Z := norm32 1 (-23) false.
Definition eps64 : Z := norm64 1 (-52) false.

(* x % 1.0 for finite x *)
Definition f32_fract x := f32_sub x (f32_trunc x).

Definition f32_zero : Z := 0.
Definition f64_zero : Z := 0.
