(* src/mach/{opcode,link,codegen,program}.rs : code generation into linkable
   fragments, appending with offsets, and final symbol resolution.

   The crate's visitor pushes one fragment per visited node on three stacks and
   the statement handlers pop them; here the same fragments are produced by
   direct recursion over the tree (post-order, so errors are reported in the
   same order).  Symbol numbers are allocated and offset exactly as in
   Link::next_symbol / Link::append. *)
From BL Require Import Base.Prelude Base.Floats Mach.Val Mach.Ops Mach.Func Lang.Token Lang.Ast.
From Coq Require Import String.
Local Open Scope N_scope.

Inductive opcode :=
| OpLiteral (v : val) | OpPush (s : str) | OpPop (s : str)
| OpPushArr (s : str) | OpPopArr (s : str) | OpDimArr (s : str) | OpEraseArr (s : str)
| OpIfNot (a : N) | OpJump (a : N) | OpNext (s : str) | OpOn | OpReturn
| OpClear | OpCls | OpCont | OpDef (s : str) | OpDefdbl | OpDefint | OpDefsng | OpDefstr
| OpDelete | OpEnd | OpFn (s : str) | OpInput (s : str) | OpLetMid | OpList | OpLoad | OpLoadRun
| OpNew | OpPrint | OpRead | OpRenum | OpRestore (a : N) | OpSave | OpStop | OpSwap | OpTroff | OpTron
| OpNeg | OpNot | OpBin (b : binop)
| OpBuiltin (name : str).      (* Abs .. Val, identified by the BASIC name *)

Definition MAX_POOL : N := 65535.   (* Stack::max_len *)

Record link := mkLink {
  l_cur : Z;                                   (* current_symbol (<= 0) *)
  l_ops : list opcode;
  l_data : list val;
  l_data_pos : N;
  l_direct_set : bool;
  l_syms : list (Z * (N * N));                  (* symbol -> (code address, data address) *)
  l_unlinked : list (N * (col * Z));            (* code address -> (column, symbol) *)
  l_whiles : list (bool * col * N * Z)
}.

Definition link_empty : link := mkLink 0 [] [] 0 false [] [] [].

Fixpoint zassoc_set {V} (k : Z) (v : V) (l : list (Z * V)) : list (Z * V) :=
  match l with
  | [] => [(k, v)]
  | (k', v') :: r => if (k =? k')%Z then (k, v) :: r else (k', v') :: zassoc_set k v r
  end.
Fixpoint zassoc_get {V} (k : Z) (l : list (Z * V)) : option V :=
  match l with
  | [] => None
  | (k', v) :: r => if (k =? k')%Z then Some v else zassoc_get k r
  end.
Fixpoint nassoc_set {V} (k : N) (v : V) (l : list (N * V)) : list (N * V) :=
  match l with
  | [] => [(k, v)]
  | (k', v') :: r => if k =? k' then (k, v) :: r else (k', v') :: nassoc_set k v r
  end.

(* state-and-error monad over a link: on an error the link keeps what was done *)
Definition LM (A : Type) := link -> link * res A.
Definition lret {A} (a : A) : LM A := fun l => (l, Ok a).
Definition lbind {A B} (m : LM A) (f : A -> LM B) : LM B :=
  fun l => match m l with
           | (l', Ok a) => f a l'
           | (l', Err e) => (l', Err e)
           | (l', Panic) => (l', Panic)
           | (l', Hang) => (l', Hang)
           end.
Notation "'ldo' x <~ m ;; k" := (lbind m (fun x => k))
  (at level 200, x pattern, m at level 100, k at level 200, right associativity).
Definition lfail {A} (code : N) (c : col) : LM A := fun l => (l, Err (mkErr code None c)).
Definition lfail_e {A} (e : error) : LM A := fun l => (l, Err e).
Definition lift {A} (r : res A) : LM A := fun l => (l, r).

Definition set_ops (l : link) (ops : list opcode) : link :=
  mkLink (l_cur l) ops (l_data l) (l_data_pos l) (l_direct_set l) (l_syms l) (l_unlinked l) (l_whiles l).
Definition set_data (l : link) (d : list val) : link :=
  mkLink (l_cur l) (l_ops l) d (l_data_pos l) (l_direct_set l) (l_syms l) (l_unlinked l) (l_whiles l).

Definition oom : error := mkErr E_OutOfMemory None (0, 0).

(* Stack::push: the element stays, the check comes after *)
Definition l_push (op : opcode) : LM unit :=
  fun l => let l' := set_ops l (l_ops l ++ [op]) in
           (l', if MAX_POOL <? lenN (l_ops l') then Err oom else Ok tt).
Definition l_push_data (v : val) : LM unit :=
  fun l => let l' := set_data l (l_data l ++ [v]) in
           (l', if MAX_POOL <? lenN (l_data l') then Err oom else Ok tt).

Definition l_len : LM N := fun l => (l, Ok (lenN (l_ops l))).

Definition l_next_symbol : LM Z :=
  fun l => let c := (l_cur l - 1)%Z in
           (mkLink c (l_ops l) (l_data l) (l_data_pos l) (l_direct_set l) (l_syms l) (l_unlinked l) (l_whiles l), Ok c).

Definition l_push_symbol (sym : Z) : LM unit :=
  fun l => (mkLink (l_cur l) (l_ops l) (l_data l) (l_data_pos l) (l_direct_set l)
                   (zassoc_set sym (lenN (l_ops l), lenN (l_data l)) (l_syms l)) (l_unlinked l) (l_whiles l), Ok tt).

Definition l_unlink_here (c : col) (sym : Z) : LM unit :=
  fun l => (mkLink (l_cur l) (l_ops l) (l_data l) (l_data_pos l) (l_direct_set l) (l_syms l)
                   (nassoc_set (lenN (l_ops l)) (c, sym) (l_unlinked l)) (l_whiles l), Ok tt).

Definition l_add_while (kind : bool) (c : col) (sym : Z) : LM unit :=
  fun l => (mkLink (l_cur l) (l_ops l) (l_data l) (l_data_pos l) (l_direct_set l) (l_syms l) (l_unlinked l)
                   (l_whiles l ++ [(kind, c, lenN (l_ops l), sym)]), Ok tt).

(* Link::append *)
Definition l_append (f : link) : LM unit :=
  fun l =>
    if l_direct_set l && (match l_data f with [] => false | _ => true end)
    then (l, err E_IllegalDirect)
    else
      let oo := lenN (l_ops l) in
      let dd := lenN (l_data l) in
      let so := l_cur l in
      let off (s : Z) := if (s <? 0)%Z then (s + so)%Z else s in
      let syms := fold_left (fun acc e => zassoc_set (off (fst e)) (fst (snd e) + oo, snd (snd e) + dd) acc)
                            (l_syms f) (l_syms l) in
      let unl := fold_left (fun acc e => nassoc_set (fst e + oo) (fst (snd e), off (snd (snd e))) acc)
                           (l_unlinked f) (l_unlinked l) in
      let whs := l_whiles l ++
                 map (fun w => match w with (k, c, a, s) => (k, c, a + oo, (s + so)%Z) end) (l_whiles f) in
      let l1 := mkLink (l_cur l + l_cur f)%Z (l_ops l ++ l_ops f) (l_data l) (l_data_pos l) (l_direct_set l)
                       syms unl whs in
      if MAX_POOL <? lenN (l_ops l1) then (l1, Err oom)
      else
        let l2 := set_data l1 (l_data l ++ l_data f) in
        (l2, if MAX_POOL <? lenN (l_data l2) then Err oom else Ok tt).

(* ---------- helpers of link.rs ---------- *)
Definition sym_of_line (n : option N) : LM Z :=
  match n with
  | Some k => lret (Z.of_N k)
  | None => lfail E_Internal (0, 0)
  end.

Definition l_push_jump (c : col) (sym : Z) : LM unit :=
  ldo _ <~ l_unlink_here c sym ;; l_push (OpJump 0).
Definition l_push_ifnot (c : col) (sym : Z) : LM unit :=
  ldo _ <~ l_unlink_here c sym ;; l_push (OpIfNot 0).
Definition l_push_return_val (c : col) (sym : Z) : LM unit :=
  ldo _ <~ l_unlink_here c sym ;; l_push (OpLiteral (VRet 0)).
Definition l_push_goto (c : col) (n : option N) : LM unit :=
  ldo s <~ sym_of_line n ;; l_push_jump c s.
Definition l_push_gosub (c : col) (n : option N) : LM unit :=
  ldo ret <~ l_next_symbol ;;
  ldo _ <~ l_push_return_val c ret ;;
  ldo s <~ sym_of_line n ;;
  ldo _ <~ l_push_jump c s ;;
  l_push_symbol ret.
Definition l_push_for (c : col) : LM unit :=
  ldo nx <~ l_next_symbol ;;
  ldo _ <~ l_unlink_here c nx ;;
  ldo _ <~ l_push (OpLiteral (VNext 0)) ;;
  l_push_symbol nx.
Definition l_push_restore (c : col) (n : option N) : LM unit :=
  ldo _ <~ (match n with
            | Some k => l_unlink_here c (Z.of_N k)
            | None => lret tt
            end) ;;
  l_push (OpRestore 0).
Definition l_push_run (c : col) (n : option N) : LM unit :=
  ldo _ <~ l_push OpClear ;;
  ldo _ <~ (match n with
            | Some k => l_unlink_here c (Z.of_N k)
            | None => lret tt
            end) ;;
  l_push (OpJump 0).
Definition l_push_wend (c : col) : LM unit :=
  ldo s <~ l_next_symbol ;;
  ldo _ <~ l_add_while false c s ;;
  ldo _ <~ l_push (OpJump 0) ;;
  l_push_symbol s.
Definition l_push_while (c : col) (e : link) : LM unit :=
  ldo s <~ l_next_symbol ;;
  ldo _ <~ l_push_symbol s ;;
  ldo _ <~ l_append e ;;
  ldo _ <~ l_add_while true c s ;;
  l_push (OpIfNot 0).
Definition l_push_def_fn (c : col) (name : str) (vars : list str) (body : link) : LM unit :=
  ldo len <~ lift (val_of_len (lenN vars)) ;;
  ldo _ <~ l_push (OpLiteral len) ;;
  ldo _ <~ l_push (OpDef name) ;;
  ldo skip <~ l_next_symbol ;;
  ldo _ <~ l_push_jump c skip ;;
  ldo _ <~ fold_left (fun m v => ldo _ <~ m ;; l_push (OpPop v)) vars (lret tt) ;;
  ldo _ <~ l_append body ;;
  ldo _ <~ l_push OpReturn ;;
  l_push_symbol skip.

(* Link::transform_to_data *)
Definition l_transform_to_data (c : col) : LM unit :=
  fun l =>
    match l_ops l with
    | [OpLiteral v] => l_push_data v (set_ops l [])
    | [a; b] =>
        let l0 := set_ops l [] in
        match a, b with
        | OpLiteral v, OpNeg =>
            match op_negate v with
            | Ok v' => l_push_data v' l0
            | Err e => (l0, Err e)
            | Panic => (l0, Panic)
            | Hang => (l0, Hang)
            end
        | _, _ => (l0, Err (mkErr E_Syntax None c))
        end
    | [_] => (set_ops l [], Err (mkErr E_Syntax None c))
    | _ => (l, Err (mkErr E_Syntax None c))
    end.

(* TryFrom<&Link> for LineNumber / Rc<str> *)
Definition link_line_number (l : link) : res (option N) :=
  match l_ops l with
  | [OpLiteral v] => do n <- to_line_number v; Ok (Some n)
  | _ => err E_UndefinedLine
  end.
Definition link_string (l : link) : option str :=
  match l_ops l with
  | [OpLiteral (VStr s)] => Some s
  | _ => None
  end.

(* ---------- codegen.rs ---------- *)

(* a generated fragment: (column, code), plus the errors reported while generating it *)
Definition frag := (col * link)%type.

Definition run_frag (m : LM col) : frag * list error :=
  match m link_empty with
  | (l, Ok c) => ((c, l), [])
  | (l, Err e) => (((0, 0), l), [e])
  | (l, _) => (((0, 0), l), [mkErr E_Internal None (0, 0)])
  end.

Record varitem := mkVI { vi_col : col; vi_name : str; vi_link : link; vi_len : option N }.

Definition in_range (a : N * N) (n : N) : bool := (fst a <=? n) && (n <=? snd a).

Definition test_for_built_in (v : varitem) (strict : bool) : LM unit :=
  match builtin_arity (vi_name v) with
  | Some (lo, hi) =>
      let zero := (lo =? 0) && (hi =? 0) in
      let has := match vi_len v with Some _ => true | None => false end in
      if zero && has && negb strict then lret tt
      else if negb zero && negb has && negb strict then lret tt
      else lfail E_Syntax (vi_col v)
  | None => lret tt
  end.

Definition lit_len (n : N) : LM unit :=
  ldo v <~ lift (val_of_len n) ;; l_push (OpLiteral v).

Definition push_as_dim (v : varitem) : LM col :=
  ldo _ <~ test_for_built_in v true ;;
  match vi_len v with
  | Some len =>
      if 0 <? len then
        ldo _ <~ l_append (vi_link v) ;;
        ldo _ <~ lit_len len ;;
        ldo _ <~ l_push (OpDimArr (vi_name v)) ;;
        lret (vi_col v)
      else lfail E_Syntax (vi_col v)
  | None => lfail E_Syntax (vi_col v)
  end.

Definition push_as_pop_unary (v : varitem) : LM col :=
  ldo _ <~ test_for_built_in v false ;;
  ldo _ <~ l_push (OpPop (vi_name v)) ;;
  lret (vi_col v).

Definition push_as_pop (v : varitem) : LM col :=
  ldo _ <~ test_for_built_in v false ;;
  match vi_len v with
  | Some len =>
      if 0 <? len then
        ldo _ <~ l_append (vi_link v) ;;
        ldo _ <~ lit_len len ;;
        ldo _ <~ l_push (OpPopArr (vi_name v)) ;;
        lret (vi_col v)
      else lfail E_Syntax (vi_col v)
  | None => ldo _ <~ l_push (OpPop (vi_name v)) ;; lret (vi_col v)
  end.

Definition push_as_expression (v : varitem) : LM col :=
  ldo _ <~ l_append (vi_link v) ;;
  let generic :=
    match vi_len v with
    | None => ldo _ <~ l_push (OpPush (vi_name v)) ;; lret (vi_col v)
    | Some len =>
        ldo _ <~ lit_len len ;;
        ldo _ <~ l_push (if starts_with (s2l "FN") (vi_name v) then OpFn (vi_name v) else OpPushArr (vi_name v)) ;;
        lret (vi_col v)
    end in
  match builtin_arity (vi_name v) with
  | Some (lo, hi) =>
      let zero := (lo =? 0) && (hi =? 0) in
      match vi_len v with
      | None => if zero then (ldo _ <~ l_push (OpBuiltin (vi_name v)) ;; lret (vi_col v)) else generic
      | Some len =>
          if in_range (lo, hi) len then
            ldo _ <~ (if negb (lo =? hi) then lit_len len else lret tt) ;;
            ldo _ <~ l_push (OpBuiltin (vi_name v)) ;;
            lret (vi_col v)
          else lfail E_IllegalFunctionCall (vi_col v)
      end
  | None => generic
  end.

Definition binop_opcode (b : binop) : opcode := OpBin b.

(* append a list of fragments *)
Definition append_all (fs : list frag) : LM unit :=
  fold_left (fun m f => ldo _ <~ m ;; l_append (snd f)) fs (lret tt).

(* expressions: returns the fragment and the errors of the subtree, in visit order *)
Fixpoint cg_expr (e : expr) : frag * list error :=
  match e with
  | ESng c b => run_frag (ldo _ <~ l_push (OpLiteral (VSng b)) ;; lret c)
  | EDbl c b => run_frag (ldo _ <~ l_push (OpLiteral (VDbl b)) ;; lret c)
  | EInt c n => run_frag (ldo _ <~ l_push (OpLiteral (VInt n)) ;; lret c)
  | EStr c s => run_frag (ldo _ <~ l_push (OpLiteral (VStr s)) ;; lret c)
  | EUnary c i =>
      (* visit_variable then visit_expression *)
      let vi := mkVI c (ident_str i) link_empty None in
      run_frag (push_as_expression vi)
  | EArray c i args =>
      let subs := map cg_expr args in
      let errs := flat_map snd subs in
      let '(vf, verrs) := run_frag (ldo _ <~ append_all (map fst subs) ;; lret c) in
      let vi := match verrs with
                | [] => mkVI c (ident_str i) (snd vf) (Some (lenN args))
                | _ => mkVI (0, 0) [] (snd vf) None
                end in
      let '(ef, eerrs) := run_frag (push_as_expression vi) in
      (ef, errs ++ verrs ++ eerrs)
  | ENeg c x =>
      let '(xf, xerrs) := cg_expr x in
      let '(f, errs) := run_frag (ldo _ <~ l_append (snd xf) ;; ldo _ <~ l_push OpNeg ;; lret (fst c, snd (fst xf))) in
      (f, xerrs ++ errs)
  | ENot c x =>
      let '(xf, xerrs) := cg_expr x in
      let '(f, errs) := run_frag (ldo _ <~ l_append (snd xf) ;; ldo _ <~ l_push OpNot ;; lret (fst c, snd (fst xf))) in
      (f, xerrs ++ errs)
  | EBin c o a b =>
      let '(af, aerrs) := cg_expr a in
      let '(bf, berrs) := cg_expr b in
      let '(f, errs) := run_frag (ldo _ <~ l_append (snd af) ;; ldo _ <~ l_append (snd bf) ;;
                                  ldo _ <~ l_push (OpBin o) ;; lret (fst (fst af), snd (fst bf))) in
      (f, aerrs ++ berrs ++ errs)
  end.

(* visit_variable *)
Definition cg_var (v : var) : varitem * list error :=
  match v with
  | VUnary c i => (mkVI c (ident_str i) link_empty None, [])
  | VArray c i args =>
      let subs := map cg_expr args in
      let errs := flat_map snd subs in
      let '(vf, verrs) := run_frag (ldo _ <~ append_all (map fst subs) ;; lret c) in
      (match verrs with
       | [] => mkVI c (ident_str i) (snd vf) (Some (lenN args))
       | _ => mkVI (0, 0) [] (snd vf) None
       end, errs ++ verrs)
  end.

Definition pop_line_number (f : frag) : LM (col * option N) :=
  match link_line_number (snd f) with
  | Ok n => lret (fst f, n)
  | Err e => lfail_e (in_col e (fst f))
  | Panic => fun l => (l, Panic)
  | Hang => fun l => (l, Hang)
  end.

Definition val_of_line (n : option N) : LM val :=
  match n with
  | Some k => lret (VSng (f32_of_Z (Z.of_N k)))
  | None => lfail E_UndefinedLine (0, 0)
  end.

Definition cg_range (c : col) (a b : frag) (op : opcode) : LM col :=
  ldo tb <~ pop_line_number b ;;
  ldo ta <~ pop_line_number a ;;
  ldo va <~ val_of_line (snd ta) ;;
  ldo _ <~ l_push (OpLiteral va) ;;
  ldo vb <~ val_of_line (snd tb) ;;
  ldo _ <~ l_push (OpLiteral vb) ;;
  ldo _ <~ l_push op ;;
  lret (fst c, snd (fst tb)).

Definition cg_deftype (c : col) (a b : varitem) (op : opcode) : LM col :=
  ldo _ <~ l_push (OpLiteral (VStr (vi_name a))) ;;
  ldo _ <~ l_push (OpLiteral (VStr (vi_name b))) ;;
  ldo _ <~ l_push op ;;
  lret c.

Definition simple (c : col) (op : opcode) : LM col := ldo _ <~ l_push op ;; lret c.

Fixpoint cg_on_targets (c : col) (targets : list frag) (sub_end : N) : LM N :=
  match targets with
  | [] => lret sub_end
  | t :: r =>
      match link_line_number (snd t) with
      | Ok n => ldo _ <~ l_push_goto (fst t) n ;; cg_on_targets c r (snd (fst t))
      | Err e => lfail_e (in_col e (fst t))
      | _ => fun l => (l, Panic)
      end
  end.

(* statements *)
Fixpoint cg_stmt (s : stmt) : frag * list error :=
  let exprs (l : list expr) := let subs := map cg_expr l in (map fst subs, flat_map snd subs) in
  let vars (l : list var) := let subs := map cg_var l in (map fst subs, flat_map snd subs) in
  let fin (pre : list error) (m : LM col) := let '(f, errs) := run_frag m in (f, pre ++ errs) in
  match s with
  | SClear c => fin [] (simple c OpClear)
  | SCls c => fin [] (simple c OpCls)
  | SCont c => fin [] (simple c OpCont)
  | SData c l =>
      let '(fs, errs) := exprs l in
      fin errs (ldo _ <~ fold_left (fun m f =>
                  ldo _ <~ m ;;
                  (fun lk => match l_transform_to_data (fst f) (snd f) with
                             | (f', Ok _) => l_append f' lk
                             | (_, Err e) => (lk, Err e)
                             | (_, _) => (lk, Panic)
                             end)) fs (lret tt) ;;
                lret c)
  | SDef c f ps body =>
      let '(fv, e1) := cg_var f in
      let '(pvs, e2) := vars ps in
      let '(bf, e3) := cg_expr body in
      fin (e1 ++ e2 ++ e3)
          (ldo _ <~ l_push_def_fn c (vi_name fv) (map vi_name pvs) (snd bf) ;; lret c)
  | SDefdbl c a b => let '(va, e1) := cg_var a in let '(vb, e2) := cg_var b in fin (e1 ++ e2) (cg_deftype c va vb OpDefdbl)
  | SDefint c a b => let '(va, e1) := cg_var a in let '(vb, e2) := cg_var b in fin (e1 ++ e2) (cg_deftype c va vb OpDefint)
  | SDefsng c a b => let '(va, e1) := cg_var a in let '(vb, e2) := cg_var b in fin (e1 ++ e2) (cg_deftype c va vb OpDefsng)
  | SDefstr c a b => let '(va, e1) := cg_var a in let '(vb, e2) := cg_var b in fin (e1 ++ e2) (cg_deftype c va vb OpDefstr)
  | SDelete c a b =>
      let '(fa, e1) := cg_expr a in let '(fb, e2) := cg_expr b in
      fin (e1 ++ e2) (cg_range c fa fb OpDelete)
  | SDim c l =>
      let '(vs, errs) := vars l in
      fin errs (fold_left (fun m v => ldo cc <~ m ;; ldo sc <~ push_as_dim v ;; lret (fst cc, snd sc)) vs (lret c))
  | SEnd c => fin [] (simple c OpEnd)
  | SErase c l =>
      let '(vs, errs) := vars l in
      fin errs (ldo _ <~ fold_left (fun m v => ldo _ <~ m ;; l_push (OpEraseArr (vi_name v))) vs (lret tt) ;; lret c)
  | SFor c v e1 e2 e3 =>
      let '(vv, ev) := cg_var v in
      let '(f1, x1) := cg_expr e1 in let '(f2, x2) := cg_expr e2 in let '(f3, x3) := cg_expr e3 in
      fin (ev ++ x1 ++ x2 ++ x3)
          (ldo _ <~ l_append (snd f1) ;;
           ldo _ <~ push_as_pop_unary vv ;;
           ldo _ <~ l_append (snd f2) ;;
           ldo _ <~ l_append (snd f3) ;;
           ldo _ <~ l_push (OpLiteral (VStr (vi_name vv))) ;;
           ldo _ <~ l_push_for (fst c, snd (fst f3)) ;;
           lret (fst c, snd (fst f3)))
  | SGosub c e =>
      let '(f, x) := cg_expr e in
      fin x (ldo t <~ pop_line_number f ;; ldo _ <~ l_push_gosub (fst t) (snd t) ;; lret (fst c, snd (fst t)))
  | SGoto c e =>
      let '(f, x) := cg_expr e in
      fin x (ldo t <~ pop_line_number f ;; ldo _ <~ l_push_goto (fst t) (snd t) ;; lret (fst c, snd (fst t)))
  | SIf c p th el =>
      let '(pf, x0) := cg_expr p in
      let ths := map cg_stmt th in
      let els := map cg_stmt el in
      fin (x0 ++ flat_map snd ths ++ flat_map snd els)
          (ldo _ <~ l_append (snd pf) ;;
           ldo else_sym <~ l_next_symbol ;;
           ldo _ <~ l_push_ifnot c else_sym ;;
           ldo _ <~ append_all (map fst ths) ;;
           match els with
           | [] => ldo _ <~ l_push_symbol else_sym ;; lret c
           | _ =>
               ldo fin_sym <~ l_next_symbol ;;
               ldo _ <~ l_push_jump c fin_sym ;;
               ldo _ <~ l_push_symbol else_sym ;;
               ldo _ <~ append_all (map fst els) ;;
               ldo _ <~ l_push_symbol fin_sym ;;
               lret c
           end)
  | SInput c caps prompt l =>
      let '(cf, x1) := cg_expr caps in
      let '(pf, x2) := cg_expr prompt in
      let '(vs, x3) := vars l in
      fin (x1 ++ x2 ++ x3)
          (ldo _ <~ l_append (snd pf) ;;
           ldo _ <~ l_append (snd cf) ;;
           ldo _ <~ lit_len (lenN l) ;;
           ldo _ <~ fold_left (fun m v => ldo _ <~ m ;; ldo _ <~ l_push (OpInput (vi_name v)) ;;
                                          ldo _ <~ push_as_pop v ;; lret tt) vs (lret tt) ;;
           ldo _ <~ l_push (OpInput []) ;;
           lret c)
  | SLet c v e =>
      let '(vv, x1) := cg_var v in
      let '(f, x2) := cg_expr e in
      fin (x1 ++ x2) (ldo _ <~ l_append (snd f) ;; ldo _ <~ push_as_pop vv ;; lret (fst c, snd (fst f)))
  | SList c a b =>
      let '(fa, e1) := cg_expr a in let '(fb, e2) := cg_expr b in
      fin (e1 ++ e2) (cg_range c fa fb OpList)
  | SLoad c e =>
      let '(f, x) := cg_expr e in
      fin x (ldo _ <~ l_append (snd f) ;; ldo _ <~ l_push OpLoad ;; lret (fst c, snd (fst f)))
  | SMid c v pos len e =>
      let '(vv, x0) := cg_var v in
      let '(pf, x1) := cg_expr pos in let '(lf, x2) := cg_expr len in let '(ef, x3) := cg_expr e in
      fin (x0 ++ x1 ++ x2 ++ x3)
          (ldo _ <~ push_as_expression vv ;;
           ldo _ <~ l_append (snd ef) ;;
           ldo _ <~ l_append (snd lf) ;;
           ldo _ <~ l_append (snd pf) ;;
           ldo _ <~ l_push OpLetMid ;;
           ldo _ <~ push_as_pop vv ;;
           lret (fst c, snd (fst ef)))
  | SNew c => fin [] (simple c OpNew)
  | SNext c l =>
      let '(vs, errs) := vars l in
      fin errs (ldo _ <~ fold_left (fun m v => ldo _ <~ m ;; ldo _ <~ test_for_built_in v false ;;
                                                l_push (OpNext (vi_name v))) vs (lret tt) ;; lret c)
  | SOnGoto c e l | SOnGosub c e l =>
      let is_gosub := match s with SOnGosub _ _ _ => true | _ => false end in
      let '(ef, x0) := cg_expr e in
      let '(ts, x1) := exprs l in
      fin (x0 ++ x1)
          (ldo lenv <~ lift (val_of_len (lenN l)) ;;
           ldo ret <~ l_next_symbol ;;
           ldo _ <~ (if is_gosub then l_push_return_val c ret else lret tt) ;;
           ldo _ <~ l_push (OpLiteral lenv) ;;
           ldo _ <~ l_append (snd ef) ;;
           ldo _ <~ l_push OpOn ;;
           ldo sub_end <~ cg_on_targets c ts (snd (fst ef)) ;;
           (* out of range: the fall-through RETURN consumes the unused return address *)
           ldo _ <~ (if is_gosub then (ldo _ <~ l_push OpReturn ;; l_push_symbol ret) else lret tt) ;;
           lret (fst c, sub_end))
  | SPrint c l =>
      let '(fs, errs) := exprs l in
      fin errs (ldo _ <~ fold_left (fun m f => ldo _ <~ m ;; ldo _ <~ l_append (snd f) ;; l_push OpPrint) fs (lret tt) ;;
                lret c)
  | SRead c l =>
      let '(vs, errs) := vars l in
      fin errs (ldo _ <~ fold_left (fun m v => ldo _ <~ m ;; ldo _ <~ l_push OpRead ;; ldo _ <~ push_as_pop v ;; lret tt)
                                   vs (lret tt) ;; lret c)
  | SRenum c a b st =>
      let '(fa, e1) := cg_expr a in let '(fb, e2) := cg_expr b in let '(fs, e3) := cg_expr st in
      fin (e1 ++ e2 ++ e3)
          (ldo ts <~ pop_line_number fs ;;
           ldo tb <~ pop_line_number fb ;;
           ldo ta <~ pop_line_number fa ;;
           match snd ta, snd tb, snd ts with
           | Some na, Some nb, Some ns =>
               ldo _ <~ l_push (OpLiteral (VSng (f32_of_Z (Z.of_N na)))) ;;
               ldo _ <~ l_push (OpLiteral (VSng (f32_of_Z (Z.of_N nb)))) ;;
               ldo _ <~ l_push (OpLiteral (VSng (f32_of_Z (Z.of_N ns)))) ;;
               ldo _ <~ l_push OpRenum ;;
               lret c
           | _, _, _ => lret c
           end)
  | SRestore c e =>
      let '(f, x) := cg_expr e in
      fin x (ldo _ <~ l_push_restore (fst f) (match link_line_number (snd f) with Ok n => n | _ => None end) ;;
             lret c)
  | SReturn c => fin [] (simple c OpReturn)
  | SRun c e =>
      let '(f, x) := cg_expr e in
      fin x (ldo _ <~ (match link_string (snd f) with
                       | Some name => ldo _ <~ l_push (OpLiteral (VStr name)) ;; l_push OpLoadRun
                       | None => l_push_run (fst f) (match link_line_number (snd f) with Ok n => n | _ => None end)
                       end) ;;
             lret (fst c, snd (fst f)))
  | SSave c e =>
      let '(f, x) := cg_expr e in
      fin x (ldo _ <~ l_append (snd f) ;; ldo _ <~ l_push OpSave ;; lret (fst c, snd (fst f)))
  | SStop c => fin [] (simple c OpStop)
  | SSwap c a b =>
      (* accept visits a then b; the handler pops b first *)
      let '(va, e1) := cg_var a in
      let '(vb, e2) := cg_var b in
      fin (e1 ++ e2)
          (ldo _ <~ test_for_built_in vb false ;;
           ldo _ <~ test_for_built_in va false ;;
           ldo _ <~ push_as_expression vb ;;
           ldo _ <~ push_as_expression va ;;
           ldo _ <~ l_push OpSwap ;;
           ldo _ <~ push_as_pop vb ;;
           ldo _ <~ push_as_pop va ;;
           lret c)
  | STroff c => fin [] (simple c OpTroff)
  | STron c => fin [] (simple c OpTron)
  | SWend c => fin [] (ldo _ <~ l_push_wend c ;; lret c)
  | SWhile c e =>
      let '(f, x) := cg_expr e in
      fin x (ldo _ <~ l_push_while c (snd f) ;; lret (fst c, snd (fst f)))
  end.

(* ---------- Link::line_number_for / link_whiles / link ---------- *)

Definition line_number_for (syms : list (Z * (N * N))) (addr : N) : option N :=
  (* the greatest non-negative symbol whose code address is <= addr *)
  let best := fold_left (fun acc e =>
                 let '(k, (a, _)) := e in
                 if (0 <=? k)%Z && (a <=? addr) then
                   match acc with
                   | Some k' => if (k' <? k)%Z then Some k else acc
                   | None => Some k
                   end
                 else acc) syms None in
  match best with
  | Some k => if (k <=? 65529)%Z then Some (Z.to_N k) else None
  | None => None
  end.

Fixpoint link_whiles_loop (ws : list (bool * col * N * Z)) (stack : list (col * N * Z))
         (syms : list (Z * (N * N))) (unl : list (N * (col * Z))) (errs : list error)
  : list (N * (col * Z)) * list error :=
  match ws with
  | [] =>
      (unl, errs ++ map (fun w => match w with (c, a, _) => mkErr E_WhileWithoutWend (line_number_for syms a) c end) stack)
  | (true, c, a, s) :: r => link_whiles_loop r ((c, a, s) :: stack) syms unl errs
  | (false, c, a, s) :: r =>
      match stack with
      | [] => link_whiles_loop r stack syms unl (errs ++ [mkErr E_WendWithoutWhile (line_number_for syms a) c])
      | (wc, wa, ws') :: st' =>
          link_whiles_loop r st' syms (nassoc_set a (c, ws') (nassoc_set wa (wc, s) unl)) errs
      end
  end.

Definition patch_op (op : opcode) (dest : N * N) : option opcode :=
  match op with
  | OpIfNot _ => Some (OpIfNot (fst dest))
  | OpJump _ => Some (OpJump (fst dest))
  | OpLiteral (VRet _) => Some (OpLiteral (VRet (fst dest)))
  | OpLiteral (VNext _) => Some (OpLiteral (VNext (fst dest)))
  | OpRestore _ => Some (OpRestore (snd dest))
  | _ => None
  end.

Fixpoint list_set {A} (l : list A) (i : nat) (x : A) : list A :=
  match l, i with
  | [], _ => []
  | _ :: r, O => x :: r
  | y :: r, S i' => y :: list_set r i' x
  end.

(* Link::link : errors are produced in the iteration order of a HashMap; the
   correspondence compares them as sets *)
Definition link_link (l : link) : link * list error :=
  let '(unl, werrs) := link_whiles_loop (l_whiles l) [] (l_syms l) (l_unlinked l) [] in
  let step (acc : list opcode * list error) (e : N * (col * Z)) :=
    let '(ops, errs) := acc in
    let '(addr, (c, sym)) := e in
    let fail := (ops, errs ++ [mkErr E_Internal (line_number_for (l_syms l) addr) c]) in
    match zassoc_get sym (l_syms l) with
    | None => if (0 <=? sym)%Z then (ops, errs ++ [mkErr E_UndefinedLine (line_number_for (l_syms l) addr) c])
              else fail
    | Some dest =>
        match nthN ops addr with
        | Some op => match patch_op op dest with
                     | Some op' => (list_set ops (N.to_nat addr) op', errs)
                     | None => fail
                     end
        | None => fail
        end
    end in
  let '(ops, errs) := fold_left step unl (l_ops l, werrs) in
  (mkLink 0 ops (l_data l) (l_data_pos l) (l_direct_set l)
          (filter (fun e => (0 <=? fst e)%Z) (l_syms l)) [] [], errs).

(* ---------- program.rs ---------- *)
Record program := mkProg {
  pg_errors : list error;
  pg_ind_errors : list error;
  pg_direct : N;            (* direct_address *)
  pg_line : option N;
  pg_link : link
}.

Definition program_empty : program := mkProg [] [] 0 None link_empty.

(* Program::clear -- Link::clear keeps data_pos (and whiles, which are empty after link()) *)
Definition program_clear (p : program) : program :=
  let l := pg_link p in
  mkProg [] [] 0 None (mkLink 0 [] [] (l_data_pos l) false [] [] (l_whiles l)).

Definition prog_error (p : program) (e : error) : program :=
  mkProg (pg_errors p ++ [in_line e (pg_line p)]) (pg_ind_errors p) (pg_direct p) (pg_line p) (pg_link p).
Definition prog_raw_error (p : program) (e : error) : program :=
  mkProg (pg_errors p ++ [e]) (pg_ind_errors p) (pg_direct p) (pg_line p) (pg_link p).
Definition with_link (p : program) (l : link) : program :=
  mkProg (pg_errors p) (pg_ind_errors p) (pg_direct p) (pg_line p) l.

Definition last_is_end (ops : list opcode) : bool :=
  match rev ops with OpEnd :: _ => true | _ => false end.

(* Program::link *)
Definition program_link (p : program) : program :=
  (* a closing END statement serves as the final END unless a line or label sits behind it *)
  let at_end := existsb (fun e => fst (snd e) =? lenN (l_ops (pg_link p))) (l_syms (pg_link p)) in
  let p1 :=
    if last_is_end (l_ops (pg_link p)) && negb at_end then p
    else match l_push OpEnd (pg_link p) with
         | (l', Ok _) => with_link p l'
         | (l', Err e) => prog_raw_error (with_link p l') e
         | (l', _) => with_link p l'
         end in
  let '(l2, lerrs) := link_link (pg_link p1) in
  let errs := match pg_errors p1 with [] => lerrs | _ => pg_errors p1 end in
  if pg_direct p1 =? 0 then
    let da := lenN (l_ops l2) in
    let l3 := mkLink (l_cur l2) (l_ops l2) (l_data l2) (l_data_pos l2) true
                     (zassoc_set 65530 (da, lenN (l_data l2)) (l_syms l2)) (l_unlinked l2) (l_whiles l2) in
    mkProg [] errs da (pg_line p1) l3
  else mkProg errs (pg_ind_errors p1) (pg_direct p1) (pg_line p1) l2.

(* codegen(self, &ast) : Visitor::accept *)
Fixpoint append_stmt_frags (p : program) (fs : list frag) : program :=
  match fs with
  | [] => p
  | f :: r =>
      match l_append (snd f) (pg_link p) with
      | (l', Ok _) => append_stmt_frags (with_link p l') r
      | (l', Err e) => prog_error (with_link p l') e
      | (l', _) => with_link p l'
      end
  end.

Definition codegen_ast (p : program) (ast : list stmt) : program :=
  let gens := map cg_stmt ast in
  let p1 := fold_left prog_error (flat_map snd gens) p in
  append_stmt_frags p1 (map fst gens).

(* one source line, already lexed and parsed: (line number, parse result) *)
Definition codegen_line (p : program) (num : option N) (ast : res (list stmt)) : program :=
  let p0 := match num with Some _ => p | None => program_link p end in
  let p1 := mkProg (pg_errors p0) (pg_ind_errors p0) (pg_direct p0) num (pg_link p0) in
  let p2 :=
    match num with
    | Some n => match l_push_symbol (Z.of_N n) (pg_link p1) with (l', _) => with_link p1 l' end
    | None =>
        let l := pg_link p1 in
        mkProg [] (pg_ind_errors p1) (pg_direct p1) num
               (set_ops l (firstnN (pg_direct p1) (l_ops l)))
    end in
  match ast with
  | Ok stmts =>
      let p3 := codegen_ast p2 stmts in
      match num with
      | Some _ => p3
      | None => match l_push OpEnd (pg_link p3) with
                | (l', Ok _) => with_link p3 l'
                | (l', Err e) => prog_raw_error (with_link p3 l') e
                | (l', _) => with_link p3 l'
                end
      end
  | Err e => prog_raw_error p2 e
  | _ => p2
  end.
