(* src/lang/line.rs (Line, RENUM splice) and src/mach/listing.rs. *)
From BL Require Import Base.Prelude Base.Floats Mach.Val Lang.Token Lang.Lex Lang.Ast Lang.Parse.
From Coq Require Import String.
Local Open Scope N_scope.

Definition line := (option N * list token)%type.

Definition line_new (src : str) : res line := lex src.
Definition line_to_string (l : line) : str :=
  match fst l with
  | Some n => dec_of_N n ++ [c_space] ++ tokens_str (snd l)
  | None => tokens_str (snd l)
  end.
Definition line_ast (l : line) : res (list stmt) := parse (fst l) (snd l).

(* ---------- RenumVisitor ---------- *)
Definition changes := list (N * N).
Fixpoint ch_get (c : changes) (k : N) : option N :=
  match c with
  | [] => None
  | (a, b) :: r => if a =? k then Some b else ch_get r k
  end.
Fixpoint ch_set (c : changes) (k v : N) : changes :=
  match c with
  | [] => [(k, v)]
  | (a, b) :: r => if a =? k then (k, v) :: r else (a, b) :: ch_set r k v
  end.

(* RenumVisitor::line : numeric literal -> `n as u16` (saturating: negative is 0) *)
Definition renum_operand (ch : changes) (e : expr) : list (col * N) :=
  let look (c : col) (too_big : bool) (n : Z) :=
    (* an omitted operand has an empty column and nothing to rewrite; the -1 sentinel is not a line *)
    if too_big || (fst c =? snd c) || (n <? 0)%Z then [] else
    match ch_get ch (Z.to_N (Z.max 0%Z n)) with
    | Some nn => [(c, nn)]
    | None => []
    end in
  match e with
  | ESng c b => if f32_is_nan b then look c false 0%Z%Z
                else look c (f32_lt (f32_of_Z 65529) b) (f32_to_Z (f32_trunc b))
  | EDbl c b => if f64_is_nan b then look c false 0%Z%Z
                else look c (f64_lt (f64_of_Z 65529) b) (f64_to_Z (f64_trunc b))
  | EInt c n => look c false n
  | _ => []
  end.

(* post-order visit; only these statement kinds are handled by the crate's visitor *)
Fixpoint renum_visit (ch : changes) (s : stmt) : list (col * N) :=
  match s with
  | SGoto _ e | SGosub _ e | SRestore _ e | SRun _ e => renum_operand ch e
  | SDelete _ a b | SList _ a b => renum_operand ch a ++ renum_operand ch b
  | SOnGoto _ _ l | SOnGosub _ _ l => flat_map (renum_operand ch) l
  | SIf _ _ th el => flat_map (renum_visit ch) th ++ flat_map (renum_visit ch) el
  | _ => []
  end.

(* the new number replaces the characters [a, b) of the listed text (columns count characters) *)
Definition replace_chars (s : str) (c : col) (ins : str) : res str :=
  let '(a, b) := c in
  if b <? a then Panic
  else Ok (firstnN a s ++ ins ++ skipnN b s).

Definition line_renum (ch : changes) (l : line) : res line :=
  let number := match fst l with
                | Some n => match ch_get ch n with Some n' => Some n' | None => Some n end
                | None => None
                end in
  match parse (fst l) (snd l) with
  | Ok ast =>
      let reps := flat_map (renum_visit ch) ast in
      match reps with
      | [] => Ok (number, snd l)
      | _ =>
          do txt <- fold_left (fun acc r => do t <- acc; replace_chars t (fst r) (dec_of_N (snd r)))
                              (rev reps) (Ok (tokens_str (snd l)));
          do lx <- lex txt;
          Ok (number, snd lx)
      end
  | Err _ => Ok l
  | Panic => Panic
  | Hang => Hang
  end.

(* ---------- Listing ---------- *)
Record listing := mkListing {
  ls_lines : list (N * list token);       (* ascending line numbers *)
  ls_ind_errors : list error;
  ls_dir_errors : list error
}.
Definition listing_empty : listing := mkListing [] [] [].

Fixpoint lines_insert (ls : list (N * list token)) (n : N) (t : list token) : list (N * list token) :=
  match ls with
  | [] => [(n, t)]
  | (m, u) :: r => if n <? m then (n, t) :: ls else if n =? m then (n, t) :: r else (m, u) :: lines_insert r n t
  end.
Definition lines_remove (ls : list (N * list token)) (n : N) : list (N * list token) :=
  filter (fun e => negb (fst e =? n)) ls.
Definition lines_has (ls : list (N * list token)) (n : N) : bool :=
  existsb (fun e => fst e =? n) ls.
Definition in_rng (a b n : N) : bool := (a <=? n) && (n <=? b).

Definition with_lines (l : listing) (ls : list (N * list token)) : listing :=
  mkListing ls (ls_ind_errors l) (ls_dir_errors l).

(* Error::column(): the stored range shifted by the line-number prefix *)
Definition error_column (e : error) : N * N :=
  match eline e with
  | Some n => let off := lenN (dec_of_N n) + 1 in (fst (ecol e) + off, snd (ecol e) + off)
  | None => ecol e
  end.

(* Listing::list_line : the first line in [a, b], the text and underline ranges, the next range *)
Definition list_line (l : listing) (a b : N) : res (option (str * list (N * N) * (N * N))) :=
  if b <? a then Panic       (* BTreeMap::range with inverted bounds *)
  else
    match filter (fun e => in_rng a b (fst e)) (ls_lines l) with
    | [] => Ok None
    | (n, toks) :: _ =>
        let next := if n <? b then (n + 1, b) else (65530, 65530) in
        let cols := map error_column
                        (filter (fun e => match eline e with Some k => k =? n | None => false end)
                                (ls_ind_errors l)) in
        Ok (Some (line_to_string (Some n, toks), cols, next))
    end.

(* Listing::renum *)
Fixpoint renum_changes (ls : list (N * list token)) (new_start old_start step : N)
         (old_end new_num : N) (acc : changes) : res changes :=
  match ls with
  | [] => Ok acc
  | (ln, _) :: r =>
      if old_start <=? ln then
        if (old_end <=? 65529) && (new_start <=? old_end) then err E_IllegalFunctionCall
        else if 65529 <? new_num then err E_Overflow
        else
          let acc' := ch_set acc ln new_num in
          if 65535 <? new_num + step then err E_Overflow
          else renum_changes r new_start old_start step old_end (new_num + step) acc'
      else renum_changes r new_start old_start step ln new_num acc
  end.

Definition listing_renum (l : listing) (new_start old_start step : N) : res listing :=
  if step =? 0 then err E_IllegalFunctionCall else
  do ch <- renum_changes (ls_lines l) new_start old_start step 65530 new_start [];
  do ls <- fold_left (fun acc e =>
                        do ls <- acc;
                        do nl <- line_renum ch (Some (fst e), snd e);
                        match fst nl with
                        | Some n => Ok (lines_insert ls n (snd nl))
                        | None => Ok ls
                        end) (ls_lines l) (Ok []);
  Ok (with_lines l ls).
