(* src/mach/val.rs : runtime values and the TryFrom conversions. *)
From BL Require Import Base.Prelude Base.Floats.
Local Open Scope Z_scope.

Inductive val :=
| VStr (s : str)
| VSng (b : Z)      (* binary32 bit pattern *)
| VDbl (b : Z)      (* binary64 bit pattern *)
| VInt (n : Z)      (* i16: -32768 <= n <= 32767 *)
| VRet (a : N)
| VNext (a : N).

Inductive vtype := TInt | TSng | TDbl | TStr.

Definition in_i16 (z : Z) : bool := (-32768 <=? z) && (z <=? 32767).

(* Functions the model does not define: libm, powi/powf, wall clock, OS
   entropy.  They are parameters of every definition that needs them; the
   theorems quantify over all oracles. *)
Record oracle := {
  o_fn32 : N -> Z -> Z;        (* function id -> bits -> bits *)
  o_fn64 : N -> Z -> Z;
  o_powi32 : Z -> Z -> Z;      (* base bits, integer exponent *)
  o_powi64 : Z -> Z -> Z;
  o_powf32 : Z -> Z -> Z;
  o_powf64 : Z -> Z -> Z;
  o_entropy : N -> N;          (* k-th call of rand::random::<u32>() *)
  o_date : str;
  o_time : str
}.

(* floor, then range test [lo, hi] in the float's own format, then `as` cast
   (saturating at hi_cast).  NaN fails both comparisons. *)
Definition float_to_int32 (b : Z) (lo hi hi_cast : Z) : res Z :=
  let f := f32_floor b in
  if f32_le (f32_of_Z lo) f && f32_le f (f32_of_Z hi) then Ok (Z.min (f32_to_Z f) hi_cast)
  else err E_Overflow.
Definition float_to_int64 (b : Z) (lo hi hi_cast : Z) : res Z :=
  let f := f64_floor b in
  if f64_le (f64_of_Z lo) f && f64_le f (f64_of_Z hi) then Ok (Z.min (f64_to_Z f) hi_cast)
  else err E_Overflow.

Definition to_i16 (v : val) : res Z :=
  match v with
  | VInt n => Ok n
  | VSng b => float_to_int32 b (-32768) 32767 32767
  | VDbl b => float_to_int64 b (-32768) 32767 32767
  | _ => err E_TypeMismatch
  end.

Definition to_unsigned (maxv : Z) (v : val) : res Z :=
  match v with
  | VInt n => if 0 <=? n then Ok n else err E_Overflow
  | VSng b => float_to_int32 b 0 maxv maxv
  | VDbl b => float_to_int64 b 0 maxv maxv
  | _ => err E_TypeMismatch
  end.
Definition to_u16 := to_unsigned 65535.
Definition to_u32 := to_unsigned 4294967295.
Definition to_usize := to_unsigned 18446744073709551615.

(* TryFrom<Val> for LineNumber *)
Definition to_line_number (v : val) : res N :=
  do n <- to_u16 v;
  if n <=? 65529 then Ok (Z.to_N n) else err E_UndefinedLine.

Definition to_f32 (v : val) : res Z :=
  match v with
  | VInt n => Ok (f32_of_Z n)
  | VSng b => Ok b
  | VDbl b => Ok (f32_of_f64 b)
  | _ => err E_TypeMismatch
  end.
Definition to_f64 (v : val) : res Z :=
  match v with
  | VInt n => Ok (f64_of_Z n)
  | VSng b => Ok (f64_of_f32 b)
  | VDbl b => Ok b
  | _ => err E_TypeMismatch
  end.
Definition to_str (v : val) : res str :=
  match v with VStr s => Ok s | _ => err E_TypeMismatch end.

(* TryFrom<usize> for Val *)
Definition val_of_len (n : N) : res val :=
  if (n <=? 32767)%N then Ok (VInt (Z.of_N n)) else err E_Overflow.

Definition val_type (v : val) : option vtype :=
  match v with
  | VStr _ => Some TStr | VSng _ => Some TSng | VDbl _ => Some TDbl | VInt _ => Some TInt
  | _ => None
  end.
