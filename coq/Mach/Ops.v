(* src/mach/operation.rs *)
From BL Require Import Base.Prelude Base.Floats Mach.Val.
Local Open Scope Z_scope.

Definition chk (z : Z) : res val := if in_i16 z then Ok (VInt z) else err E_Overflow.

(* i16::checked_neg: -n, or OVERFLOW for -32768 *)
Definition op_negate (v : val) : res val :=
  match v with
  | VInt n => chk (- n)
  | VSng b => Ok (VSng (f32_neg b))
  | VDbl b => Ok (VDbl (f64_neg b))
  | _ => err E_TypeMismatch
  end.

(* i16::checked_pow(l, r) with 0 <= r: iterated checked multiplication.  For
   |l| >= 2 sixteen factors already leave the range, so the loop is cut there. *)
Fixpoint pow_iter (fuel : nat) (l acc : Z) : option Z :=
  match fuel with
  | O => Some acc
  | S f => let acc' := acc * l in
           if in_i16 acc' then pow_iter f l acc' else None
  end.
Definition checked_pow (l r : Z) : option Z :=
  if l =? 0 then Some (if r =? 0 then 1 else 0)
  else if l =? 1 then Some 1
  else if l =? -1 then Some (if Z.even r then 1 else -1)
  else if 16 <? r then None
  else pow_iter (Z.to_nat r) l 1.

Section WithOracle.
Variable O : oracle.

Definition op_power (l r : val) : res val :=
  match l, r with
  | VInt a, VInt b =>
      if 0 <=? b then match checked_pow a b with Some z => Ok (VInt z) | None => err E_Overflow end
      else Ok (VSng (o_powi32 O (f32_of_Z a) b))
  | VInt a, VSng b => Ok (VSng (o_powf32 O (f32_of_Z a) b))
  | VInt a, VDbl b => Ok (VDbl (o_powf64 O (f64_of_Z a) b))
  | VSng a, VInt b => Ok (VSng (o_powi32 O a b))
  | VSng a, VSng b => Ok (VSng (o_powf32 O a b))
  | VSng a, VDbl b => Ok (VDbl (o_powf64 O (f64_of_f32 a) b))
  | VDbl a, VInt b => Ok (VDbl (o_powi64 O a b))
  | VDbl a, VSng b => Ok (VDbl (o_powf64 O a (f64_of_f32 b)))
  | VDbl a, VDbl b => Ok (VDbl (o_powf64 O a b))
  | _, _ => err E_TypeMismatch
  end.
End WithOracle.

(* the promotion skeleton shared by * + - *)
Definition arith (fi : Z -> Z -> Z) (f32 f64 : Z -> Z -> Z) (l r : val) : res val :=
  match l, r with
  | VInt a, VInt b => chk (fi a b)
  | VInt a, VSng b => Ok (VSng (f32 (f32_of_Z a) b))
  | VInt a, VDbl b => Ok (VDbl (f64 (f64_of_Z a) b))
  | VSng a, VInt b => Ok (VSng (f32 a (f32_of_Z b)))
  | VSng a, VSng b => Ok (VSng (f32 a b))
  | VSng a, VDbl b => Ok (VDbl (f64 (f64_of_f32 a) b))
  | VDbl a, VInt b => Ok (VDbl (f64 a (f64_of_Z b)))
  | VDbl a, VSng b => Ok (VDbl (f64 a (f64_of_f32 b)))
  | VDbl a, VDbl b => Ok (VDbl (f64 a b))
  | _, _ => err E_TypeMismatch
  end.

Definition op_multiply := arith Z.mul f32_mul f64_mul.
Definition op_subtract := arith Z.sub f32_sub f64_sub.
Definition op_sum (l r : val) : res val :=
  match l, r with
  | VStr a, VStr b => Ok (VStr (a ++ b))
  | VStr _, _ => err E_TypeMismatch
  | _, _ => arith Z.add f32_add f64_add l r
  end.

Definition op_divide (l r : val) : res val :=
  match l, r with
  | VInt a, VInt b => Ok (VSng (f32_div (f32_of_Z a) (f32_of_Z b)))
  | VInt a, VSng b => Ok (VSng (f32_div (f32_of_Z a) b))
  | VInt a, VDbl b => Ok (VDbl (f64_div (f64_of_Z a) b))
  | VSng a, VInt b => Ok (VSng (f32_div a (f32_of_Z b)))
  | VSng a, VSng b => Ok (VSng (f32_div a b))
  | VSng a, VDbl b => Ok (VDbl (f64_div (f64_of_f32 a) b))
  | VDbl a, VInt b => Ok (VDbl (f64_div a (f64_of_Z b)))
  | VDbl a, VSng b => Ok (VDbl (f64_div a (f64_of_f32 b)))
  | VDbl a, VDbl b => Ok (VDbl (f64_div a b))
  | _, _ => err E_TypeMismatch
  end.

(* `\` : truncating division; zero divisor is DIVISION BY ZERO, a quotient out
   of range (-32768 \ -1) is OVERFLOW *)
Definition op_divint (l r : val) : res val :=
  do a <- to_i16 l;
  do b <- to_i16 r;
  if b =? 0 then err E_DivByZero else chk (Z.quot a b).

(* MOD : remainder with the sign of the dividend; -32768 MOD -1 = 0 *)
Definition op_remainder (l r : val) : res val :=
  do a <- to_i16 l;
  do b <- to_i16 r;
  if b =? 0 then err E_DivByZero else Ok (VInt (Z.rem a b)).

Definition bool_val (b : bool) : val := VInt (if b then -1 else 0).

Definition equal_bool (l r : val) : res bool :=
  let near32 a b := f32_le (f32_abs (f32_sub a b)) eps32 in
  let near64 a b := f64_le (f64_abs (f64_sub a b)) eps64 in
  match l, r with
  | VInt a, VInt b => Ok (a =? b)
  | VInt a, VSng b => Ok (near32 (f32_of_Z a) b)
  | VInt a, VDbl b => Ok (near64 (f64_of_Z a) b)
  | VSng a, VInt b => Ok (near32 a (f32_of_Z b))
  | VSng a, VSng b => Ok (near32 a b)
  | VSng a, VDbl b => Ok (near64 (f64_of_f32 a) b)
  | VDbl a, VInt b => Ok (near64 a (f64_of_Z b))
  | VDbl a, VSng b => Ok (near64 a (f64_of_f32 b))
  | VDbl a, VDbl b => Ok (near64 a b)
  | VStr a, VStr b => Ok (str_eqb a b)
  | _, _ => err E_TypeMismatch
  end.

Definition cmp_bool (ci : Z -> Z -> bool) (c32 c64 : Z -> Z -> bool) (cs : str -> str -> bool)
           (l r : val) : res bool :=
  match l, r with
  | VInt a, VInt b => Ok (ci a b)
  | VInt a, VSng b => Ok (c32 (f32_of_Z a) b)
  | VInt a, VDbl b => Ok (c64 (f64_of_Z a) b)
  | VSng a, VInt b => Ok (c32 a (f32_of_Z b))
  | VSng a, VSng b => Ok (c32 a b)
  | VSng a, VDbl b => Ok (c64 (f64_of_f32 a) b)
  | VDbl a, VInt b => Ok (c64 a (f64_of_Z b))
  | VDbl a, VSng b => Ok (c64 a (f64_of_f32 b))
  | VDbl a, VDbl b => Ok (c64 a b)
  | VStr a, VStr b => Ok (cs a b)
  | _, _ => err E_TypeMismatch
  end.
Definition less_bool := cmp_bool Z.ltb f32_lt f64_lt str_ltb.
Definition less_equal_bool := cmp_bool Z.leb f32_le f64_le str_leb.

Definition op_equal l r := do b <- equal_bool l r; Ok (bool_val b).
Definition op_not_equal l r := do b <- equal_bool l r; Ok (bool_val (negb b)).
Definition op_less l r := do b <- less_bool l r; Ok (bool_val b).
Definition op_greater l r := do b <- less_bool r l; Ok (bool_val b).
Definition op_less_equal l r := do b <- less_equal_bool l r; Ok (bool_val b).
Definition op_greater_equal l r := do b <- less_equal_bool r l; Ok (bool_val b).

(* 16-bit two's-complement bit operations on the signed reading *)
Definition lnot16 (a : Z) : Z := - a - 1.
Definition logic2 (f : Z -> Z -> Z) (l r : val) : res val :=
  do a <- to_i16 l;
  do b <- to_i16 r;
  Ok (VInt (f a b)).
Definition op_and := logic2 Z.land.
Definition op_or := logic2 Z.lor.
Definition op_xor := logic2 Z.lxor.
Definition op_imp := logic2 (fun a b => Z.lor (lnot16 a) b).
Definition op_eqv := logic2 (fun a b => lnot16 (Z.lxor a b)).
Definition op_not (v : val) : res val := do a <- to_i16 v; Ok (VInt (lnot16 a)).
