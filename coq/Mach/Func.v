(* src/mach/function.rs : built-in functions; Val::fmt and Val::from(&str). *)
From BL Require Import Base.Prelude Base.Floats Base.Decimal Mach.Val Mach.Ops.
From Coq Require Import String.
Local Open Scope Z_scope.

(* ---------- Val::fmt (Display) ---------- *)
Definition fmt_val (v : val) : str :=
  let lead (s : str) := match s with c :: _ => if (c =? 45)%N then s else c_space :: s | [] => [c_space] end in
  match v with
  | VStr s => s
  | VInt n => lead (dec_of_Z n)
  | VSng b => lead (fmt_f32 b)
  | VDbl b => lead (fmt_f64 b)
  | _ => []
  end.

(* ---------- Val::from(&str) ---------- *)
Definition digit_in_radix (radix : N) (c : N) : option N :=
  let d := if is_digit c then Some (c - 48)%N
           else if is_lower c then Some (c - 87)%N
           else if is_upper c then Some (c - 55)%N else None in
  match d with Some x => if (x <? radix)%N then Some x else None | None => None end.

Fixpoint radix_digits (radix : N) (s : str) (acc : N) : option N :=
  match s with
  | [] => Some acc
  | c :: r => match digit_in_radix radix c with
              | Some d => radix_digits radix r (if (acc <? 1000000)%N then acc * radix + d else acc)%N
              | None => None
              end
  end.

(* i16::from_str_radix *)
Definition i16_from_str_radix (s : str) (radix : N) : option Z :=
  let '(neg, body) :=
    match s with
    | c :: r => if (c =? 45)%N then (true, r) else if (c =? 43)%N then (false, r) else (false, s)
    | [] => (false, s)
    end in
  match body with
  | [] => None
  | _ => match radix_digits radix body 0%N with
         | Some n => let z := if neg then - Z.of_N n else Z.of_N n in
                     if in_i16 z then Some z else None
         | None => None
         end
  end.

Definition strip_suffix_type (s : str) : str :=
  match rev s with
  | c :: r => if (c =? 33)%N || (c =? 35)%N || (c =? 37)%N then rev r else s
  | [] => s
  end.

Definition val_from_str (s : str) : val :=
  let radix_try :=
    match s with
    | c :: r =>
        if (c =? 38)%N then
          match r with
          | h :: r' => if (h =? 72)%N || (h =? 104)%N
                       then match i16_from_str_radix r' 16 with Some z => Some (VInt z) | None => None end
                       else match i16_from_str_radix r 8 with Some z => Some (VInt z) | None => None end
          | [] => None
          end
        else None
    | [] => None
    end in
  match radix_try with
  | Some v => v
  | None =>
      let s1 := map (fun c => if (c =? 68)%N then 69%N else if (c =? 100)%N then 101%N else c) s in
      match parse_f64 (strip_suffix_type s1) with
      | Some b => VDbl b
      | None => VStr s
      end
  end.

(* char::is_whitespace, as used by str::trim *)
Definition is_uws (c : N) : bool :=
  ((9 <=? c) && (c <=? 13) || (c =? 32) || (c =? 133) || (c =? 160) || (c =? 5760)
   || ((8192 <=? c) && (c <=? 8202)) || (c =? 8232) || (c =? 8233) || (c =? 8239) || (c =? 8287)
   || (c =? 12288))%N.
Fixpoint trim_start (s : str) : str :=
  match s with c :: r => if is_uws c then trim_start r else s | [] => [] end.
Definition trim_end (s : str) : str := rev (trim_start (rev s)).
Definition trim (s : str) : str := trim_end (trim_start s).

(* ---------- the functions ---------- *)

Definition is_scalar_value (n : Z) : bool :=
  ((0 <=? n) && (n <? 55296)) || ((57344 <=? n) && (n <=? 1114111)).

Definition fn_abs (v : val) : res val :=
  match v with
  | VInt n => chk (Z.abs n)
  | VSng b => Ok (VSng (f32_abs b))
  | VDbl b => Ok (VDbl (f64_abs b))
  | _ => err E_TypeMismatch
  end.

Definition fn_asc (v : val) : res val :=
  do s <- to_str v;
  match s with
  | c :: _ => let n := Z.of_N c in
              if n <=? 32767 then Ok (VInt n)
              else if n <=? 16777216 then Ok (VSng (f32_of_Z n)) else Ok (VDbl (f64_of_Z n))
  | [] => err E_IllegalFunctionCall
  end.

Definition fn_cdbl (v : val) : res val := do b <- to_f64 v; Ok (VDbl b).
Definition fn_csng (v : val) : res val := do b <- to_f32 v; Ok (VSng b).
Definition fn_cint (v : val) : res val := do n <- to_i16 v; Ok (VInt n).

Definition fn_chr (v : val) : res val :=
  do n <- to_u32 v;
  if is_scalar_value n then Ok (VStr [Z.to_N n]) else err E_Overflow.

Definition fn_fix (v : val) : res val :=
  match v with
  | VInt n => Ok (VInt n)
  | VSng b => Ok (VSng (f32_trunc b))
  | VDbl b => Ok (VDbl (f64_trunc b))
  | _ => err E_TypeMismatch
  end.
Definition fn_int (v : val) : res val :=
  match v with
  | VInt n => Ok (VInt n)
  | VSng b => Ok (VSng (f32_floor b))
  | VDbl b => Ok (VDbl (f64_floor b))
  | _ => err E_TypeMismatch
  end.

(* {:X} / {:o} of an i16: the 16-bit two's-complement reading *)
Definition u16_of_i16 (n : Z) : N := Z.to_N (n mod 65536).
Fixpoint radix_fuel (fuel : nat) (radix : N) (n : N) (acc : str) : str :=
  match fuel with
  | O => acc
  | S f => let d := (n mod radix)%N in
           let c := if (d <? 10)%N then (48 + d)%N else (55 + d)%N in
           let q := (n / radix)%N in
           if (q =? 0)%N then c :: acc else radix_fuel f radix q (c :: acc)
  end.
Definition fn_hex (v : val) : res val := do n <- to_i16 v; Ok (VStr (radix_fuel 16 16 (u16_of_i16 n) [])).
Definition fn_oct (v : val) : res val := do n <- to_i16 v; Ok (VStr (radix_fuel 16 8 (u16_of_i16 n) [])).

(* arguments in push order: [start;] string; pattern *)
Definition fn_instr (args : list val) : res val :=
  match rev args with
  | pat :: strv :: rest =>
      do p <- to_str pat;
      do s <- to_str strv;
      do start <- match rest with
                  | sv :: _ => do n <- to_i16 sv; Ok (n mod 18446744073709551616)   (* `as usize` *)
                  | [] => Ok 1
                  end;
      if start =? 0 then err E_IllegalFunctionCall
      else if Z.of_N (lenN s) <=? start - 1 then Ok (VInt 0)
      else match find_sub p (skipnN (Z.to_N (start - 1)) s) with
           | Some i => val_of_len (i + Z.to_N start)
           | None => Ok (VInt 0)
           end
  | _ => err E_Internal
  end.

Definition fn_left (sv lv : val) : res val :=
  do n <- to_usize lv;
  do s <- to_str sv;
  Ok (VStr (firstnN (Z.to_N n) s)).

Definition fn_len (v : val) : res val := do s <- to_str v; val_of_len (lenN s).

(* arguments in push order: string; pos [; len] *)
Definition fn_mid (args : list val) : res val :=
  match args with
  | [sv; pv; lv] =>
      do l <- to_u16 lv;
      do p <- to_usize pv;
      if p =? 0 then err E_Overflow else
      do s <- to_str sv;
      Ok (VStr (firstnN (Z.to_N l) (skipnN (Z.to_N (p - 1)) s)))
  | [sv; pv] =>
      do p <- to_usize pv;
      if p =? 0 then err E_Overflow else
      do s <- to_str sv;
      Ok (VStr (skipnN (Z.to_N (p - 1)) s))
  | _ => err E_Internal
  end.

Definition fn_pos (print_col : N) : res val := val_of_len print_col.

Definition fn_right (sv lv : val) : res val :=
  do n <- to_usize lv;
  if n =? 0 then Ok (VStr []) else
  do s <- to_str sv;
  Ok (VStr (skipnN (lenN s - Z.to_N n) s)).

Definition fn_sgn (v : val) : res val :=
  match v with
  | VInt n => Ok (VInt (Z.sgn n))
  | VSng b => Ok (VInt (if f32_is_zero b then 0 else if f32_sign_neg b then -1 else 1))
  | VDbl b => Ok (VInt (if f64_is_zero b then 0 else if f64_sign_neg b then -1 else 1))
  | _ => err E_TypeMismatch
  end.

Definition fn_spc (v : val) : res val :=
  do n <- to_usize v;
  if 255 <? n then err E_Overflow else Ok (VStr (repeatN c_space (Z.to_N n))).

Definition fn_sqr (v : val) : res val :=
  match v with
  | VInt n => Ok (VSng (f32_sqrt (f32_of_Z n)))
  | VSng b => Ok (VSng (f32_sqrt b))
  | VDbl b => Ok (VDbl (f64_sqrt b))
  | _ => err E_TypeMismatch
  end.

Definition fn_str (v : val) : res val :=
  match v with
  | VInt _ | VSng _ | VDbl _ => Ok (VStr (fmt_val v))
  | _ => err E_TypeMismatch
  end.

Definition fn_string (nv cv : val) : res val :=
  do n <- to_usize nv;
  if 255 <? n then err E_Overflow else
  do c <- match cv with
          | VStr s => match s with c :: _ => Ok c | [] => err E_IllegalFunctionCall end
          | _ => do u <- to_u32 cv; if is_scalar_value u then Ok (Z.to_N u) else err E_Overflow
          end;
  Ok (VStr (repeatN c (Z.to_N n))).

Definition fn_tab (print_col : N) (v : val) : res val :=
  do t <- to_i16 v;
  if (t <? -255) || (255 <? t) then err E_Overflow else
  let col := Z.of_N print_col in
  let len := if t <? 0 then (- t) - (col mod (- t))
             else if col <? t then t - col else 0 in
  Ok (VStr (repeatN c_space (Z.to_N len))).

(* VAL: longest prefix (after trimming) that Val::from reads as a number *)
Fixpoint val_scan (fuel : nat) (s : str) : val :=
  match fuel with
  | O => VInt 0
  | S f => match s with
           | [] => VInt 0
           | _ => match val_from_str s with
                  | VStr _ => val_scan f (removelast s)
                  | v => v
                  end
           end
  end.
Definition fn_val (v : val) : res val :=
  match v with
  | VStr s => let t := trim s in Ok (val_scan (S (List.length t)) t)
  | _ => err E_TypeMismatch
  end.

Section WithOracle.
Variable O : oracle.

(* libm functions: ids 1 atn, 2 cos, 3 exp, 4 log, 5 sin, 6 tan *)
Definition fn_libm (id : N) (v : val) : res val :=
  match v with
  | VInt n => Ok (VSng (o_fn32 O id (f32_of_Z n)))
  | VSng b => Ok (VSng (o_fn32 O id b))
  | VDbl b => Ok (VDbl (o_fn64 O id b))
  | _ => err E_TypeMismatch
  end.

(* RND: Wichmann-Hill on three u32 words; args = [] or [x] *)
Definition rnd_state := (N * N * N)%type.
Definition fn_rnd (st : rnd_state) (args : list val) : res (rnd_state * val) :=
  do x <- match args with [] => Ok (f32_of_Z 1) | a :: _ => to_f32 a end;
  let '(s0, s1, s2) := st in
  let '(s0, s1, s2) :=
    if f32_lt x 0 then
      let b := Z.to_N x in
      let seed := (b / 16777216 + ((b / 65536) mod 256) * 256 + ((b / 256) mod 256) * 65536)%N in
      (seed, seed, seed)
    else (s0, s1, s2) in
  let '(s0, s1, s2) :=
    if f32_eq x 0 then (s0, s1, s2)
    else ((171 * s0) mod 30269, (172 * s1) mod 30307, (170 * s2) mod 30323)%N in
  let q a d := f32_div (f32_of_Z (Z.of_N a)) (f32_of_Z d) in
  let sum := f32_add (f32_add (q s0 30269) (q s1 30307)) (q s2 30323) in
  Ok ((s0, s1, s2), VSng (f32_fract sum)).
End WithOracle.

(* Function::opcode_and_arity -- names with their arity ranges; the opcode is
   identified by the name itself in the model *)
Definition builtin_arity (name : str) : option (N * N) :=
  let t := [("ABS", (1, 1)); ("ASC", (1, 1)); ("ATN", (1, 1)); ("CDBL", (1, 1)); ("CHR$", (1, 1));
            ("CINT", (1, 1)); ("COS", (1, 1)); ("CSNG", (1, 1)); ("DATE$", (0, 0)); ("EXP", (1, 1));
            ("FIX", (1, 1)); ("HEX$", (1, 1)); ("INKEY$", (0, 0)); ("INSTR", (2, 3)); ("INT", (1, 1));
            ("LEFT$", (2, 2)); ("LEN", (1, 1)); ("LOG", (1, 1)); ("MID$", (2, 3)); ("OCT$", (1, 1));
            ("POS", (0, 1)); ("RIGHT$", (2, 2)); ("RND", (0, 1)); ("SGN", (1, 1)); ("SIN", (1, 1));
            ("SPC", (1, 1)); ("SQR", (1, 1)); ("STR$", (1, 1)); ("STRING$", (2, 2)); ("TAB", (1, 1));
            ("TAN", (1, 1)); ("TIME$", (0, 0)); ("VAL", (1, 1))]%string%N in
  let fix go (l : list (string * (N * N))) :=
    match l with
    | [] => None
    | (n, a) :: r => if str_eqb name (s2l n) then Some a else go r
    end in
  go t.
