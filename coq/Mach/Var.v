(* src/mach/var.rs : the string-keyed sparse variable store. *)
From BL Require Import Base.Prelude Base.Floats Mach.Val.
Local Open Scope Z_scope.

Record varstore := mkVars {
  vs_vars : list (str * val);
  vs_dims : list (str * list Z);
  vs_types : list vtype            (* 26 entries, 'A'..'Z' *)
}.

Definition vars_empty : varstore := mkVars [] [] (repeat TSng 26).

Definition type_of_letter (types : list vtype) (c : N) : option vtype :=
  if is_upper c then nth_error types (N.to_nat (c - 65)) else None.

Fixpoint after_last_dot (s : str) (acc : str) : str :=
  match s with
  | [] => acc
  | c :: r => if (c =? 46)%N then after_last_dot r r else after_last_dot r acc
  end.

(* the type a key is stored at: suffix of the key, else DEFtype of its first letter *)
Definition key_type (types : list vtype) (k : str) : option vtype :=
  if ends_with_chr k 33 then Some TSng
  else if ends_with_chr k 35 then Some TDbl
  else if ends_with_chr k 37 then Some TInt
  else if ends_with_chr k 36 then Some TStr
  else match after_last_dot k k with      (* a function parameter "FNX.P" is typed by its own name P *)
       | c :: _ => type_of_letter types c
       | [] => None
       end.

Definition zero_of (t : vtype) : val :=
  match t with TInt => VInt 0 | TSng => VSng 0 | TDbl => VDbl 0 | TStr => VStr [] end.

Definition var_fetch (vs : varstore) (k : str) : res val :=
  match alist_get k (vs_vars vs) with
  | Some v => Ok v
  | None => match key_type (vs_types vs) k with
            | Some t => Ok (zero_of t)
            | None => match k with
                      | [] => Ok (VSng 0)   (* debug_assert!(false) in the crate; release value *)
                      | _ => Panic          (* types[] indexed by a non-letter *)
                      end
            end
  end.

Definition is_default (v : val) : bool :=
  match v with
  | VStr s => match s with [] => true | _ => false end
  | VInt n => n =? 0
  | VSng b => f32_is_zero b
  | VDbl b => f64_is_zero b
  | _ => false
  end.

(* a default value frees the slot; only a new entry needs a free slot *)
Definition update_val (vs : varstore) (k : str) (v : val) : res varstore :=
  if is_default v then Ok (mkVars (alist_remove k (vs_vars vs)) (vs_dims vs) (vs_types vs))
  else match alist_get k (vs_vars vs) with
       | Some _ => Ok (mkVars (alist_set k v (vs_vars vs)) (vs_dims vs) (vs_types vs))
       | None => if (65535 <? lenN (vs_vars vs))%N then err E_OutOfMemory
                 else Ok (mkVars (alist_set k v (vs_vars vs)) (vs_dims vs) (vs_types vs))
       end.

(* conversion of a value to the type of the receiving variable *)
Definition convert_to (t : vtype) (v : val) : res val :=
  match t with
  | TStr => match v with
            | VStr s => if (255 <? lenN s)%N then err E_StringTooLong else Ok v
            | _ => err E_TypeMismatch
            end
  | TInt => match v with VInt _ => Ok v | _ => do n <- to_i16 v; Ok (VInt n) end
  | TSng => match v with VSng _ => Ok v | _ => do b <- to_f32 v; Ok (VSng b) end
  | TDbl => match v with VDbl _ => Ok v | _ => do b <- to_f64 v; Ok (VDbl b) end
  end.

Definition var_store (vs : varstore) (k : str) (v : val) : res varstore :=
  match key_type (vs_types vs) k with
       | Some t => do v' <- convert_to t v; update_val vs k v'
       | None => match k with
                 | [] => err E_Internal
                 | _ => Panic      (* index computed from a non-letter: subtraction overflow / out of bounds *)
                 end
       end.

(* subscripts: each converted to i16, negative is SUBSCRIPT OUT OF RANGE *)
Fixpoint subscripts (arr : list val) : res (list Z) :=
  match arr with
  | [] => Ok []
  | v :: r => do n <- to_i16 v;
              if n <? 0 then err E_Subscript else
              do rest <- subscripts r; Ok (n :: rest)
  end.

Fixpoint all_le (rs ds : list Z) : bool :=
  match rs, ds with
  | r :: rs', d :: ds' => (r <=? d) && all_le rs' ds'
  | _, _ => true
  end.

Definition array_key (name : str) (idx : list Z) : str :=
  name ++ flat_map (fun i => c_comma :: dec_of_Z i) idx ++ c_comma :: name.

(* returns the store (possibly with a new implicit DIM 10) and the key *)
Definition build_array_key (vs : varstore) (name : str) (arr : list val) : varstore * res str :=
  match subscripts arr with
  | Ok req =>
      let '(vs1, dim) :=
        match alist_get name (vs_dims vs) with
        | Some d => (vs, d)
        | None => let d := repeat 10 (List.length req) in
                  (mkVars (vs_vars vs) (alist_set name d (vs_dims vs)) (vs_types vs), d)
        end in
      if negb (Nat.eqb (List.length dim) (List.length req)) then (vs1, err E_Subscript)
      else if negb (all_le req dim) then (vs1, err E_Subscript)
      else (vs1, Ok (array_key name req))
  | Err e => (vs, Err e)
  | Panic => (vs, Panic)
  | Hang => (vs, Hang)
  end.

(* On an error after the implicit DIM the crate keeps the new dims entry; the
   second component tells whether the operation succeeded. *)
Definition var_store_array (vs : varstore) (name : str) (arr : list val) (v : val) : varstore * res unit :=
  let '(vs1, rk) := build_array_key vs name arr in
  match rk with
  | Ok k => match var_store vs1 k v with
            | Ok vs2 => (vs2, Ok tt)
            | Err e => (vs1, Err e)
            | Panic => (vs1, Panic)
            | Hang => (vs1, Hang)
            end
  | Err e => (vs1, Err e)
  | Panic => (vs1, Panic)
  | Hang => (vs1, Hang)
  end.

Definition var_fetch_array (vs : varstore) (name : str) (arr : list val) : varstore * res val :=
  let '(vs1, rk) := build_array_key vs name arr in
  match rk with
  | Ok k => (vs1, var_fetch vs1 k)
  | Err e => (vs1, Err e)
  | Panic => (vs1, Panic)
  | Hang => (vs1, Hang)
  end.

Definition var_dimension (vs : varstore) (name : str) (arr : list val) : res varstore :=
  match alist_get name (vs_dims vs) with
  | Some _ => err E_Redim
  | None => do d <- subscripts arr;
            Ok (mkVars (vs_vars vs) (alist_set name d (vs_dims vs)) (vs_types vs))
  end.

Definition var_erase (vs : varstore) (name : str) : res varstore :=
  match alist_get name (vs_dims vs) with
  | None => err E_IllegalFunctionCall
  | Some _ =>
      let pat := name ++ [c_comma] in
      Ok (mkVars (filter (fun kv => negb (starts_with pat (fst kv))) (vs_vars vs))
                 (alist_remove name (vs_dims vs)) (vs_types vs))
  end.

Fixpoint set_range {A} (l : list A) (from to : nat) (x : A) (i : nat) : list A :=
  match l with
  | [] => []
  | y :: r => (if (Nat.leb from i && Nat.leb i to)%bool then x else y) :: set_range r from to x (S i)
  end.

Definition vtype_eqb (a b : vtype) : bool :=
  match a, b with TInt, TInt | TSng, TSng | TDbl, TDbl | TStr, TStr => true | _, _ => false end.

Definition last_is_alpha (k : str) : bool :=
  match rev k with c :: _ => is_alpha c | [] => false end.

(* DEFINT/DEFSNG/DEFDBL/DEFSTR from-to *)
Definition var_def (vs : varstore) (t : vtype) (from to : val) : res varstore :=
  do f <- to_str from;
  do o <- to_str to;
  match f, o with
  | cf :: _, ct :: _ =>
      if negb (is_upper cf && is_upper ct) then Panic
      else
        let types' := set_range (vs_types vs) (N.to_nat (cf - 65)) (N.to_nat (ct - 65)) t 0 in
        let keep (kv : str * val) :=
          (* only unsuffixed names whose letter lies in the range change type *)
          let k := fst kv in
          let suffixed := ends_with_chr k 33 || ends_with_chr k 35 || ends_with_chr k 37 || ends_with_chr k 36 in
          let in_range := match after_last_dot k k with
                          | c :: _ => (cf <=? c)%N && (c <=? ct)%N
                          | [] => false
                          end in
          if suffixed || negb in_range then true
          else match val_type (snd kv) with
               | Some t' => vtype_eqb t t'
               | None => true
               end in
        Ok (mkVars (filter keep (vs_vars vs)) (vs_dims vs) types')
  | _, _ => err E_IllegalFunctionCall
  end.
