(* src/mach/runtime.rs : the virtual machine behind enter / execute / interrupt. *)
From BL Require Import Base.Prelude Base.Floats Mach.Val Mach.Ops Mach.Func Mach.Var
     Lang.Token Lang.Lex Lang.Ast Lang.Parse Mach.Compile Mach.Listing.
From Coq Require Import String.
Local Open Scope N_scope.

Inductive rstate :=
| StIntro | StStopped | StListing (a b : N) | StRuntimeError (e : error) | StRunning
| StInput | StInputRedo | StInputRunning | StInterrupt | StInkey.

Inductive event :=
| EvErrors (l : list error)
| EvInput (prompt : str) (caps : bool)
| EvPrint (s : str)
| EvList (s : str) (cols : list (N * N))
| EvRunning | EvStopped
| EvLoad (s : str) | EvRun (s : str) | EvSave (s : str)
| EvCls | EvInkey.

Record rt := mkRt {
  r_prompt : str;
  r_listing : listing;
  r_snap : N;                       (* live get_listing() snapshots *)
  r_dirty : bool;
  r_prog : program;
  r_pc : N;
  r_tr : option N;
  r_tron : bool;
  r_entry : N;
  r_stack : list val;               (* top of stack first *)
  r_slen : N;                       (* = lenN r_stack, kept so that the limit test is O(1) *)
  r_vars : varstore;
  r_state : rstate;
  r_cont : rstate;
  r_cont_pc : N;
  r_col : N;                        (* print_col *)
  r_rand : N * N * N;
  r_fns : list (str * (N * N));
  r_ent : N                         (* number of entropy words drawn so far *)
}.

Definition MAX_LINE_LEN : N := 1024.

Definition rt_default : rt :=
  mkRt (s2l "READY.") listing_empty 0 false program_empty 0 None false 1 [] 0 vars_empty
       StIntro StStopped 0 0 (1, 1, 1) [] 0.

(* field updates *)
Definition set_state (r : rt) (s : rstate) : rt :=
  mkRt (r_prompt r) (r_listing r) (r_snap r) (r_dirty r) (r_prog r) (r_pc r) (r_tr r) (r_tron r) (r_entry r)
       (r_stack r) (r_slen r) (r_vars r) s (r_cont r) (r_cont_pc r) (r_col r) (r_rand r) (r_fns r) (r_ent r).
Definition set_cont (r : rt) (s : rstate) : rt :=
  mkRt (r_prompt r) (r_listing r) (r_snap r) (r_dirty r) (r_prog r) (r_pc r) (r_tr r) (r_tron r) (r_entry r)
       (r_stack r) (r_slen r) (r_vars r) (r_state r) s (r_cont_pc r) (r_col r) (r_rand r) (r_fns r) (r_ent r).
Definition set_cont_pc (r : rt) (a : N) : rt :=
  mkRt (r_prompt r) (r_listing r) (r_snap r) (r_dirty r) (r_prog r) (r_pc r) (r_tr r) (r_tron r) (r_entry r)
       (r_stack r) (r_slen r) (r_vars r) (r_state r) (r_cont r) a (r_col r) (r_rand r) (r_fns r) (r_ent r).
Definition set_pc (r : rt) (a : N) : rt :=
  mkRt (r_prompt r) (r_listing r) (r_snap r) (r_dirty r) (r_prog r) a (r_tr r) (r_tron r) (r_entry r)
       (r_stack r) (r_slen r) (r_vars r) (r_state r) (r_cont r) (r_cont_pc r) (r_col r) (r_rand r) (r_fns r) (r_ent r).
Definition set_stack_len (r : rt) (s : list val) (n : N) : rt :=
  mkRt (r_prompt r) (r_listing r) (r_snap r) (r_dirty r) (r_prog r) (r_pc r) (r_tr r) (r_tron r) (r_entry r)
       s n (r_vars r) (r_state r) (r_cont r) (r_cont_pc r) (r_col r) (r_rand r) (r_fns r) (r_ent r).
Definition set_stack (r : rt) (s : list val) : rt := set_stack_len r s (lenN s).
Definition set_vars (r : rt) (v : varstore) : rt :=
  mkRt (r_prompt r) (r_listing r) (r_snap r) (r_dirty r) (r_prog r) (r_pc r) (r_tr r) (r_tron r) (r_entry r)
       (r_stack r) (r_slen r) v (r_state r) (r_cont r) (r_cont_pc r) (r_col r) (r_rand r) (r_fns r) (r_ent r).
Definition set_col (r : rt) (c : N) : rt :=
  mkRt (r_prompt r) (r_listing r) (r_snap r) (r_dirty r) (r_prog r) (r_pc r) (r_tr r) (r_tron r) (r_entry r)
       (r_stack r) (r_slen r) (r_vars r) (r_state r) (r_cont r) (r_cont_pc r) c (r_rand r) (r_fns r) (r_ent r).
Definition set_entry (r : rt) (a : N) : rt :=
  mkRt (r_prompt r) (r_listing r) (r_snap r) (r_dirty r) (r_prog r) (r_pc r) (r_tr r) (r_tron r) a
       (r_stack r) (r_slen r) (r_vars r) (r_state r) (r_cont r) (r_cont_pc r) (r_col r) (r_rand r) (r_fns r) (r_ent r).
Definition set_listing (r : rt) (l : listing) : rt :=
  mkRt (r_prompt r) l (r_snap r) (r_dirty r) (r_prog r) (r_pc r) (r_tr r) (r_tron r) (r_entry r)
       (r_stack r) (r_slen r) (r_vars r) (r_state r) (r_cont r) (r_cont_pc r) (r_col r) (r_rand r) (r_fns r) (r_ent r).
Definition set_dirty (r : rt) (d : bool) : rt :=
  mkRt (r_prompt r) (r_listing r) (r_snap r) d (r_prog r) (r_pc r) (r_tr r) (r_tron r) (r_entry r)
       (r_stack r) (r_slen r) (r_vars r) (r_state r) (r_cont r) (r_cont_pc r) (r_col r) (r_rand r) (r_fns r) (r_ent r).
Definition set_prog (r : rt) (p : program) : rt :=
  mkRt (r_prompt r) (r_listing r) (r_snap r) (r_dirty r) p (r_pc r) (r_tr r) (r_tron r) (r_entry r)
       (r_stack r) (r_slen r) (r_vars r) (r_state r) (r_cont r) (r_cont_pc r) (r_col r) (r_rand r) (r_fns r) (r_ent r).
Definition set_tr (r : rt) (t : option N) : rt :=
  mkRt (r_prompt r) (r_listing r) (r_snap r) (r_dirty r) (r_prog r) (r_pc r) t (r_tron r) (r_entry r)
       (r_stack r) (r_slen r) (r_vars r) (r_state r) (r_cont r) (r_cont_pc r) (r_col r) (r_rand r) (r_fns r) (r_ent r).
Definition set_tron (r : rt) (t : bool) : rt :=
  mkRt (r_prompt r) (r_listing r) (r_snap r) (r_dirty r) (r_prog r) (r_pc r) (r_tr r) t (r_entry r)
       (r_stack r) (r_slen r) (r_vars r) (r_state r) (r_cont r) (r_cont_pc r) (r_col r) (r_rand r) (r_fns r) (r_ent r).
Definition set_fns (r : rt) (f : list (str * (N * N))) : rt :=
  mkRt (r_prompt r) (r_listing r) (r_snap r) (r_dirty r) (r_prog r) (r_pc r) (r_tr r) (r_tron r) (r_entry r)
       (r_stack r) (r_slen r) (r_vars r) (r_state r) (r_cont r) (r_cont_pc r) (r_col r) (r_rand r) f (r_ent r).
Definition set_rand (r : rt) (x : N * N * N) (ent : N) : rt :=
  mkRt (r_prompt r) (r_listing r) (r_snap r) (r_dirty r) (r_prog r) (r_pc r) (r_tr r) (r_tron r) (r_entry r)
       (r_stack r) (r_slen r) (r_vars r) (r_state r) (r_cont r) (r_cont_pc r) (r_col r) x (r_fns r) ent.
Definition set_snap (r : rt) (n : N) : rt :=
  mkRt (r_prompt r) (r_listing r) n (r_dirty r) (r_prog r) (r_pc r) (r_tr r) (r_tron r) (r_entry r)
       (r_stack r) (r_slen r) (r_vars r) (r_state r) (r_cont r) (r_cont_pc r) (r_col r) (r_rand r) (r_fns r) (r_ent r).
Definition set_data_pos (r : rt) (a : N) : rt :=
  let p := r_prog r in
  let l := pg_link p in
  set_prog r (with_link p (mkLink (l_cur l) (l_ops l) (l_data l) a (l_direct_set l) (l_syms l) (l_unlinked l) (l_whiles l))).

Definition is_stopped (s : rstate) : bool := match s with StStopped => true | _ => false end.
Definition is_running (s : rstate) : bool := match s with StRunning => true | _ => false end.

(* ---------- the VM monad: state is kept on errors ---------- *)
Definition RM (A : Type) := rt -> rt * res A.
Definition rret {A} (a : A) : RM A := fun r => (r, Ok a).
Definition rbind {A B} (m : RM A) (f : A -> RM B) : RM B :=
  fun r => match m r with
           | (r', Ok a) => f a r'
           | (r', Err e) => (r', Err e)
           | (r', Panic) => (r', Panic)
           | (r', Hang) => (r', Hang)
           end.
Notation "'rdo' x <~ m ;; k" := (rbind m (fun x => k))
  (at level 200, x pattern, m at level 100, k at level 200, right associativity).
Definition rfail {A} (code : N) : RM A := fun r => (r, err code).
Definition rlift {A} (x : res A) : RM A := fun r => (r, x).
Definition rget : RM rt := fun r => (r, Ok r).
Definition rmod (f : rt -> rt) : RM unit := fun r => (f r, Ok tt).

(* Stack::push / pop / pop_n *)
Definition push (v : val) : RM unit :=
  fun r => let r' := set_stack_len r (v :: r_stack r) (r_slen r + 1) in
           (r', if MAX_POOL <? r_slen r' then err E_OutOfMemory else Ok tt).
Definition pop : RM val :=
  fun r => match r_stack r with
           | v :: s => (set_stack_len r s (r_slen r - 1), Ok v)
           | [] => (r, err E_Internal)
           end.
Definition pop2 : RM (val * val) :=
  rdo two <~ pop ;; rdo one <~ pop ;; rret (one, two).
(* pop_n: the n topmost values, oldest first *)
Definition pop_n (n : Z) : RM (list val) :=
  fun r => if (n <? 0)%Z || (r_slen r <? Z.to_N n) then (r, err E_Internal)
           else (set_stack_len r (skipnN (Z.to_N n) (r_stack r)) (r_slen r - Z.to_N n),
                 Ok (rev (firstnN (Z.to_N n) (r_stack r)))).
Definition pop_vec : RM (list val) :=
  rdo v <~ pop ;;
  match v with
  | VInt n => pop_n n
  | _ => rfail E_Internal
  end.
Definition pop_1_push (f : val -> res val) : RM unit :=
  rdo v <~ pop ;; rdo x <~ rlift (f v) ;; push x.
Definition pop_2_push (f : val -> val -> res val) : RM unit :=
  rdo p <~ pop2 ;; rdo x <~ rlift (f (fst p) (snd p)) ;; push x.
Definition stack_is_full (r : rt) : bool := (MAX_POOL - 32) <? r_slen r.

Definition prog_line_for (r : rt) (a : N) : option N := line_number_for (l_syms (pg_link (r_prog r))) a.
Definition cur_line (r : rt) : option N := prog_line_for r (r_pc r - 1).

(* ---------- statements ---------- *)
Section WithOracle.
Variable O : oracle.

Definition do_clear : RM unit :=
  fun r =>
    let k := r_ent r in
    let w i := (o_entropy O (k + i) mod 16777216) + 1 in
    let r1 := set_rand r (w 0, w 1, w 2) (k + 3) in
    let r2 := set_data_pos r1 0 in
    let r3 := set_stack_len r2 [] 0 in
    let r4 := set_vars r3 vars_empty in
    let r5 := set_fns r4 [] in
    (set_cont r5 StStopped, Ok tt).

(* r#end *)
Definition do_end : RM event :=
  fun r =>
    let r1 := if r_pc r <? r_entry r
              then set_cont_pc (set_state (set_cont r (r_state r)) (r_cont r)) (r_pc r)
              else r in
    let r2 := if r_pc r1 =? r_entry r1 then set_cont r1 StStopped else r1 in
    (set_state r2 StStopped, Ok EvStopped).

Definition do_new : RM event :=
  rdo _ <~ do_clear ;;
  rdo _ <~ rmod (fun r => set_tron (set_state (set_dirty (set_listing r listing_empty) true) StStopped) false) ;;
  rret EvStopped.

Definition do_cont : RM (option event) :=
  rdo r <~ rget ;;
  if is_stopped (r_cont r) then rfail E_CantContinue
  else if is_running (r_state r) then
    rdo _ <~ rmod (fun r => set_pc (set_cont (set_state r (r_cont r)) StStopped) (r_cont_pc r)) ;;
    rdo r' <~ rget ;;
    if is_running (r_state r') then rret None else rret (Some EvRunning)
  else rfail E_CantContinue.

Definition do_def (name : str) : RM unit :=
  rdo r <~ rget ;;
  if r_entry r <=? r_pc r then rfail E_IllegalDirect
  else
    rdo v <~ pop ;;
    match v with
    | VInt len => rmod (fun r => set_fns r (alist_set name (Z.to_N (len mod 18446744073709551616), r_pc r + 1) (r_fns r)))
    | _ => rfail E_Internal
    end.

Definition do_deftype (t : vtype) : RM unit :=
  rdo p <~ pop2 ;;
  fun r => match var_def (r_vars r) t (fst p) (snd p) with
           | Ok vs => (set_vars r vs, Ok tt)
           | Err e => (r, Err e)
           | Panic => (r, Panic)
           | Hang => (r, Hang)
           end.

(* Arc::make_mut(&mut source): a live snapshot keeps its own copy, the edit proceeds
   (before /repo commit 20d8377 this was Arc::get_mut(..).unwrap(), a panic while a snapshot was alive) *)
Definition need_unique : RM unit := fun r => (r, Ok tt).

Definition do_delete : RM event :=
  rdo p <~ pop2 ;;
  rdo from <~ rlift (to_line_number (fst p)) ;;
  rdo to <~ rlift (to_line_number (snd p)) ;;
  if to <? from then (fun r => (r, Panic))
  else
    rdo r <~ rget ;;
    let ls := ls_lines (r_listing r) in
    let hit := existsb (fun e => in_rng from to (fst e)) ls in
    rdo _ <~ (if hit then
                rdo _ <~ need_unique ;;
                rmod (fun r => set_state (set_dirty (set_listing r (with_lines (r_listing r)
                         (filter (fun e => negb (in_rng from to (fst e))) (ls_lines (r_listing r))))) true) StStopped)
              else rret tt) ;;
    do_end.

Definition do_fn (name : str) : RM unit :=
  rdo args <~ pop_vec ;;
  rdo r <~ rget ;;
  match alist_get name (r_fns r) with
  | Some (arity, addr) =>
      if arity =? lenN args then
        rdo _ <~ push (VRet (r_pc r)) ;;
        rdo _ <~ fold_left (fun m a => rdo _ <~ m ;; push a) (rev args) (rret tt) ;;
        rmod (fun r => set_pc r addr)
      else rfail E_IllegalFunctionCall
  | None => rfail E_UndefinedFn
  end.

Definition strip_quotes (f : str) : str :=
  match f with
  | q :: r => if (q =? 34) && (2 <=? utf8_len f) && ends_with_chr f 34 then removelast r else f
  | [] => f
  end.

Definition do_input (name : str) : RM (option event) :=
  rdo r <~ rget ;;
  match r_state r with
  | StRunning => rdo _ <~ rmod (fun r => set_pc (set_state r StInput) (r_pc r - 1)) ;; rret (Some EvRunning)
  | StInputRunning =>
      match name with
      | [] => rdo _ <~ rmod (fun r => set_state r StRunning) ;;
              rdo _ <~ pop ;; rdo _ <~ pop ;; rdo _ <~ pop ;; rdo _ <~ pop ;; rret None
      | _ =>
          rdo v <~ pop ;;
          match v with
          | VStr field =>
              let f := trim field in
              rdo _ <~ (if ends_with_chr name 36 then push (VStr (strip_quotes f))
                        else match f with
                             | [] => push (VInt 0)
                             | _ => push (val_from_str f)
                             end) ;;
              rret None
          | _ => rfail E_Internal
          end
      end
  | _ => rfail E_Internal
  end.

Fixpoint letmid_loop (orig ins : str) (index pos len : N) : str :=
  match orig with
  | [] => []
  | ch :: r =>
      if (pos <=? index + 1) && (0 <? len) then
        match ins with
        | c :: ins' => c :: letmid_loop r ins' (index + 1) pos (len - 1)
        | [] => ch :: letmid_loop r [] (index + 1) pos (len - 1)
        end
      else ch :: letmid_loop r ins (index + 1) pos len
  end.

Definition do_letmid : RM unit :=
  rdo pv <~ pop ;; rdo pos <~ rlift (to_usize pv) ;;
  rdo lv <~ pop ;; rdo len <~ rlift (to_usize lv) ;;
  rdo iv <~ pop ;; rdo ins <~ rlift (to_str iv) ;;
  if (pos =? 0)%Z then rfail E_IllegalFunctionCall
  else
    rdo ov <~ pop ;; rdo orig <~ rlift (to_str ov) ;;
    push (VStr (letmid_loop orig ins 0 (Z.to_N pos) (Z.to_N len))).

Definition do_list : RM event :=
  rdo p <~ pop2 ;;
  rdo from <~ rlift (to_line_number (fst p)) ;;
  rdo to <~ rlift (to_line_number (snd p)) ;;
  rdo _ <~ rmod (fun r => set_state r (StListing from to)) ;;
  rret EvRunning.

Definition do_load (run : bool) (save : bool) : RM event :=
  rdo v <~ pop ;;
  match v with
  | VStr s =>
      rdo _ <~ do_end ;;
      rdo r <~ rget ;;
      if run then rret (EvRun s)
      else if r_pc r <? r_entry r then rfail E_IllegalDirect
      else rret (if save then EvSave s else EvLoad s)
  | _ => rfail E_TypeMismatch
  end.

(* NEXT: frames are searched from the top of the stack *)
Fixpoint do_next (fuel : nat) (name : str) : RM unit :=
  match fuel with
  | 0%nat => rfail E_NextWithoutFor
  | S f =>
      fun r =>
        match r_stack r with
        | VNext next :: s1 =>
            (rdo nv <~ pop ;; rdo stepv <~ pop ;; rdo tov <~ pop ;;
             match nv with
             | VStr vname =>
                 if negb (match name with [] => true | _ => false end) && negb (str_eqb vname name)
                 then do_next f name
                 else
                   rdo r1 <~ rget ;;
                   rdo cur0 <~ rlift (var_fetch (r_vars r1) vname) ;;
                   rdo cur <~ rlift (op_sum cur0 stepv) ;;
                   rdo _ <~ (fun r => match var_store (r_vars r) vname cur with
                                      | Ok vs => (set_vars r vs, Ok tt)
                                      | Err e => (r, Err e) | Panic => (r, Panic) | Hang => (r, Hang)
                                      end) ;;
                   match to_f64 stepv with
                   | Ok st =>
                       rdo lt <~ rlift (if f64_lt st 0 then op_less cur tov else op_less tov cur) ;;
                       let done := match lt with VInt n => (n =? -1)%Z | _ => false end in
                       if done then rret tt
                       else
                         rdo _ <~ push tov ;; rdo _ <~ push stepv ;; rdo _ <~ push (VStr vname) ;;
                         rdo _ <~ push (VNext next) ;;
                         rmod (fun r => set_pc r next)
                   | _ => do_next f name
                   end
             | _ => do_next f name
             end) (set_stack_len r s1 (r_slen r - 1))
        | _ :: s1 => (set_stack_len r s1 (r_slen r - 1), err E_NextWithoutFor)
        | [] => (r, err E_NextWithoutFor)
        end
  end.

Definition do_on : RM unit :=
  rdo sv <~ pop ;; rdo select <~ rlift (to_i16 sv) ;;
  rdo lv <~ pop ;; rdo len <~ rlift (to_i16 lv) ;;
  if ((select <? 0) || (len <? 0))%Z then rfail E_IllegalFunctionCall
  else if ((select =? 0) || (len <? select))%Z then rmod (fun r => set_pc r (r_pc r + Z.to_N len))
  else rmod (fun r => set_pc r (r_pc r + Z.to_N (select - 1))).

Definition advance_col (col : N) (s : str) : N :=
  fold_left (fun c ch => if ch =? 10 then 0 else c + 1) s col.

Definition do_print : RM event :=
  rdo item <~ pop ;;
  let text := match item with
              | VStr s => s
              | _ => fmt_val item ++ [c_space]
              end in
  rdo _ <~ rmod (fun r => set_col r (advance_col (r_col r) text)) ;;
  rret (EvPrint text).

Definition do_read : RM unit :=
  rdo r <~ rget ;;
  let l := pg_link (r_prog r) in
  match nthN (l_data l) (l_data_pos l) with
  | Some v => rdo _ <~ rmod (fun r => set_data_pos r (l_data_pos l + 1)) ;; push v
  | None => rfail E_OutOfData
  end.

Definition do_renum : RM event :=
  rdo r <~ rget ;;
  if r_pc r <? r_entry r then rfail E_IllegalDirect
  else match ls_ind_errors (r_listing r) with
       | _ :: _ => rret (EvErrors (ls_ind_errors (r_listing r)))
       | [] =>
           rdo sv <~ pop ;; rdo step <~ rlift (to_u16 sv) ;;
           rdo ov <~ pop ;; rdo old_start <~ rlift (to_u16 ov) ;;
           rdo nv <~ pop ;; rdo new_start <~ rlift (to_u16 nv) ;;
           rdo _ <~ (fun r => match listing_renum (r_listing r) (Z.to_N new_start) (Z.to_N old_start) (Z.to_N step) with
                              | Ok l => (set_listing r l, Ok tt)
                              | Err e => (r, Err e) | Panic => (r, Panic) | Hang => (r, Hang)
                              end) ;;
           rdo _ <~ rmod (fun r => set_state (set_dirty r true) StStopped) ;;
           do_end
       end.

Definition is_assignable (v : val) : bool :=
  match v with VStr _ | VSng _ | VDbl _ | VInt _ => true | _ => false end.

Fixpoint return_loop (s : list val) (ret : option val) (first : bool) : option (list val * option val * N) :=
  match s with
  | [] => None
  | VRet addr :: r => Some (r, ret, addr)
  | v :: r => return_loop r (if first && is_assignable v then Some v else ret) false
  end.

Definition do_return : RM unit :=
  fun r =>
    match return_loop (r_stack r) None true with
    | None => (set_stack r [], err E_ReturnWithoutGosub)
    | Some (rest, ret, addr) =>
        let r1 := set_stack r rest in
        match ret with
        | Some v => (rdo _ <~ push v ;; rmod (fun r => set_pc r addr)) r1
        | None => (set_pc r1 addr, Ok tt)
        end
    end.

Definition same_kind (a b : val) : bool :=
  match a, b with
  | VInt _, VInt _ | VSng _, VSng _ | VDbl _, VDbl _ | VStr _, VStr _ => true
  | _, _ => false
  end.

Definition do_swap : RM unit :=
  rdo p <~ pop2 ;;
  let '(v1, v2) := p in
  if same_kind v1 v2 then rdo _ <~ push v1 ;; push v2
  else rdo _ <~ push v2 ;; rdo _ <~ push v1 ;; rfail E_TypeMismatch.

Definition with_vars {A} (f : varstore -> varstore * res A) : RM A :=
  fun r => let '(vs, x) := f (r_vars r) in (set_vars r vs, x).

Definition libm_id (name : str) : N :=
  if str_eqb name (s2l "ATN") then 1 else if str_eqb name (s2l "COS") then 2
  else if str_eqb name (s2l "EXP") then 3 else if str_eqb name (s2l "LOG") then 4
  else if str_eqb name (s2l "SIN") then 5 else 6.

Definition do_builtin (name : str) : RM (option event) :=
  let isn (s : string) := str_eqb name (s2l s) in
  let one (f : val -> res val) := rdo _ <~ pop_1_push f ;; rret None in
  let two (f : val -> val -> res val) := rdo _ <~ pop_2_push f ;; rret None in
  if isn "ABS"%string then one fn_abs else if isn "ASC"%string then one fn_asc
  else if isn "ATN"%string || isn "COS"%string || isn "EXP"%string || isn "LOG"%string || isn "SIN"%string || isn "TAN"%string
       then one (fn_libm O (libm_id name))
  else if isn "CDBL"%string then one fn_cdbl else if isn "CHR$"%string then one fn_chr
  else if isn "CINT"%string then one fn_cint else if isn "CSNG"%string then one fn_csng
  else if isn "DATE$"%string then rdo _ <~ push (VStr (o_date O)) ;; rret None
  else if isn "FIX"%string then one fn_fix else if isn "HEX$"%string then one fn_hex
  else if isn "INKEY$"%string then rdo _ <~ rmod (fun r => set_state r StInkey) ;; rret (Some EvInkey)
  else if isn "INSTR"%string then rdo v <~ pop_vec ;; rdo x <~ rlift (fn_instr v) ;; rdo _ <~ push x ;; rret None
  else if isn "INT"%string then one fn_int else if isn "LEFT$"%string then two fn_left
  else if isn "LEN"%string then one fn_len
  else if isn "MID$"%string then rdo v <~ pop_vec ;; rdo x <~ rlift (fn_mid v) ;; rdo _ <~ push x ;; rret None
  else if isn "OCT$"%string then one fn_oct
  else if isn "POS"%string then rdo _ <~ pop_vec ;; rdo r <~ rget ;; rdo x <~ rlift (fn_pos (r_col r)) ;;
                         rdo _ <~ push x ;; rret None
  else if isn "RIGHT$"%string then two fn_right
  else if isn "RND"%string then
    rdo v <~ pop_vec ;; rdo r <~ rget ;;
    rdo sx <~ rlift (fn_rnd (r_rand r) v) ;;
    rdo _ <~ rmod (fun r => set_rand r (fst sx) (r_ent r)) ;;
    rdo _ <~ push (snd sx) ;; rret None
  else if isn "SGN"%string then one fn_sgn else if isn "SPC"%string then one fn_spc
  else if isn "SQR"%string then one fn_sqr else if isn "STR$"%string then one fn_str
  else if isn "STRING$"%string then two fn_string
  else if isn "TAB"%string then rdo v <~ pop ;; rdo r <~ rget ;; rdo x <~ rlift (fn_tab (r_col r) v) ;;
                         rdo _ <~ push x ;; rret None
  else if isn "TIME$"%string then rdo _ <~ push (VStr (o_time O)) ;; rret None
  else if isn "VAL"%string then one fn_val
  else rfail E_Internal.

Definition binop_fn (b : binop) : val -> val -> res val :=
  match b with
  | BPow => op_power O | BMul => op_multiply | BDiv => op_divide | BDivInt => op_divint
  | BMod => op_remainder | BAdd => op_sum | BSub => op_subtract | BEq => op_equal | BNe => op_not_equal
  | BLt => op_less | BLe => op_less_equal | BGt => op_greater | BGe => op_greater_equal
  | BAnd => op_and | BOr => op_or | BXor => op_xor | BImp => op_imp | BEqv => op_eqv
  end.

(* one dispatched opcode (pc already incremented).  Some ev = execute_loop returns ev *)
Definition exec_op (has_ind_errors : bool) (op : opcode) : RM (option event) :=
  let none (m : RM unit) := rdo _ <~ m ;; rret None in
  let ev (m : RM event) := rdo e <~ m ;; rret (Some e) in
  match op with
  | OpLiteral v => none (push v)
  | OpPop name =>
      none (rdo v <~ pop ;;
            fun r => match var_store (r_vars r) name v with
                     | Ok vs => (set_vars r vs, Ok tt)
                     | Err e => (r, Err e) | Panic => (r, Panic) | Hang => (r, Hang)
                     end)
  | OpPush name => none (rdo r <~ rget ;; rdo v <~ rlift (var_fetch (r_vars r) name) ;; push v)
  | OpPopArr name =>
      none (rdo vec <~ pop_vec ;; rdo v <~ pop ;;
            with_vars (fun vs => var_store_array vs name vec v))
  | OpPushArr name =>
      none (rdo vec <~ pop_vec ;;
            rdo v <~ with_vars (fun vs => var_fetch_array vs name vec) ;;
            push v)
  | OpDimArr name =>
      none (rdo vec <~ pop_vec ;;
            fun r => match var_dimension (r_vars r) name vec with
                     | Ok vs => (set_vars r vs, Ok tt)
                     | Err e => (r, Err e) | Panic => (r, Panic) | Hang => (r, Hang)
                     end)
  | OpEraseArr name =>
      none (fun r => match var_erase (r_vars r) name with
                     | Ok vs => (set_vars r vs, Ok tt)
                     | Err e => (r, Err e) | Panic => (r, Panic) | Hang => (r, Hang)
                     end)
  | OpIfNot addr =>
      none (rdo v <~ pop ;;
            match v with
            | VInt n => if (n =? 0)%Z then rmod (fun r => set_pc r addr) else rret tt
            | VSng b => if f32_is_zero b then rmod (fun r => set_pc r addr) else rret tt
            | VDbl b => if f64_is_zero b then rmod (fun r => set_pc r addr) else rret tt
            | _ => rfail E_TypeMismatch
            end)
  | OpJump addr =>
      rdo _ <~ rmod (fun r => set_pc r addr) ;;
      rdo r <~ rget ;;
      if has_ind_errors && (r_pc r <? r_entry r) then
        rdo _ <~ rmod (fun r => set_cont (set_state r StStopped) StStopped) ;;
        rret (Some (EvErrors (ls_ind_errors (r_listing r))))
      else rret None
  | OpClear => none do_clear
  | OpCls => rdo _ <~ rmod (fun r => set_col r 0) ;; rret (Some EvCls)
  | OpCont => do_cont
  | OpDef name => none (do_def name)
  | OpDefdbl => none (do_deftype TDbl)
  | OpDefint => none (do_deftype TInt)
  | OpDefsng => none (do_deftype TSng)
  | OpDefstr => none (do_deftype TStr)
  | OpDelete => ev do_delete
  | OpEnd => ev do_end
  | OpFn name => none (do_fn name)
  | OpInput name => do_input name
  | OpLetMid => none do_letmid
  | OpList => ev do_list
  | OpLoad => ev (do_load false false)
  | OpLoadRun => ev (do_load true false)
  | OpNew => ev do_new
  | OpOn => none do_on
  | OpNext name => none (fun r => do_next (S (N.to_nat (r_slen r))) name r)
  | OpPrint => ev do_print
  | OpRead => none do_read
  | OpRenum => ev do_renum
  | OpRestore addr => none (rmod (fun r => set_data_pos r addr))
  | OpReturn => none do_return
  | OpSave => ev (do_load false true)
  | OpStop => rfail E_Break
  | OpSwap => none do_swap
  | OpTroff => none (rmod (fun r => set_tron r false))
  | OpTron => none (rmod (fun r => set_tr (set_tron r true) (prog_line_for r (r_pc r - 1))))
  | OpNeg => none (pop_1_push op_negate)
  | OpNot => none (pop_1_push op_not)
  | OpBin b => none (pop_2_push (binop_fn b))
  | OpBuiltin name => do_builtin name
  end.

(* fetch and dispatch one opcode *)
Definition one_op (has_ind_errors : bool) : RM (option event) :=
  rdo r <~ rget ;;
  match nthN (l_ops (pg_link (r_prog r))) (r_pc r) with
  | None => rfail E_Internal
  | Some op =>
      rdo _ <~ rmod (fun r => set_pc r (r_pc r + 1)) ;;
      exec_op has_ind_errors op
  end.

Definition line_changed (a b : option N) : bool :=
  match a, b with
  | Some x, Some y => negb (x =? y)
  | None, None => false
  | _, _ => true
  end.

(* execute_loop: `fuel` iterations *)
Fixpoint exec_loop (fuel : nat) (has_ind_errors : bool) : RM event :=
  match fuel with
  | 0%nat => rret EvRunning
  | S f =>
      rdo r <~ rget ;;
      let tr := prog_line_for r (r_pc r) in
      let traced := r_tron r && line_changed tr (r_tr r) in
      rdo _ <~ (if traced then rmod (fun r => set_tr r tr) else rret tt) ;;
      match (if traced then tr else None) with
      | Some num =>
          let text := [91] ++ dec_of_N num ++ [93] in
          rdo _ <~ rmod (fun r => set_col r (r_col r + lenN text)) ;;
          rret (EvPrint text)
      | None =>
          rdo e <~ one_op has_ind_errors ;;
          match e with
          | Some ev => rret ev
          | None => exec_loop f has_ind_errors
          end
      end
  end.

(* ---------- the public API ---------- *)

(* ready_prompt *)
Definition ready_prompt (r : rt) : rt * option event :=
  if negb (r_entry r =? 0) then
    let r1 := set_entry r 0 in
    let nl := if 0 <? r_col r1 then [c_nl] else [] in
    let r2 := if 0 <? r_col r1 then set_col r1 0 else r1 in
    let pr := match r_prompt r2 with [] => [] | p => p ++ [c_nl] end in
    (r2, Some (EvPrint (nl ++ pr)))
  else (r, None).

Definition intro_text : str := s2l "64K BASIC 0.7.1" ++ [c_nl].

Definition execute_input : RM event :=
  rdo len <~ pop ;;
  rdo caps <~ pop ;;
  rdo r <~ rget ;;
  match r_stack r with
  | VStr p :: _ =>
      let is_caps := negb (match caps with VInt n => (n =? 0)%Z | _ => false end) in
      rdo _ <~ push caps ;;
      rdo _ <~ push len ;;
      rdo _ <~ rmod (fun r => set_col r 0) ;;
      rret (EvInput (p ++ [63; 32]) is_caps)
  | _ => rfail E_Internal
  end.

Fixpoint unwind_input (s : list val) : list val * option N :=
  match s with
  | [] => ([], None)
  | VRet a :: r => (r, Some a)
  | _ :: r => unwind_input r
  end.

Definition rt_execute (r : rt) (iterations : N) : res (rt * event) :=
  (* the `match &self.state` prelude: Some = return this event now *)
  let pre : res (rt * option event) :=
    match r_state r with
    | StIntro => Ok (set_state r StStopped, Some (EvPrint intro_text))
    | StStopped => match ready_prompt r with
                   | (r', Some e) => Ok (r', Some e)
                   | (r', None) => Ok (r', Some EvStopped)
                   end
    | StInterrupt => Ok (set_state r (StRuntimeError (mkErr E_Break (cur_line r) (0, 0))), None)
    | StListing a b =>
        do ll <- list_line (r_listing r) a b;
        match ll with
        | Some (text, cols, (a', b')) => Ok (set_state r (StListing a' b'), Some (EvList text cols))
        | None => Ok (set_state r StRunning, None)
        end
    | StInput =>
        match execute_input r with
        | (r', Ok e) => Ok (r', Some e)
        | (r', Err e) => Ok (set_state r' (StRuntimeError (in_line e (cur_line r'))), None)
        | (_, Panic) => Panic
        | (_, Hang) => Hang
        end
    | StInputRedo => Ok (set_state r StInput, Some (EvErrors [mkErr E_Redo None (0, 0)]))
    | StInputRunning | StRunning =>
        match ls_dir_errors (r_listing r) with
        | _ :: _ => Ok (set_state r StStopped, Some (EvErrors (ls_dir_errors (r_listing r))))
        | [] => Ok (r, None)
        end
    | StInkey => Ok (r, Some EvInkey)
    | StRuntimeError _ => Ok (r, None)
    end in
  do pr <- pre;
  let '(r1, early) := pr in
  match early with
  | Some e => Ok (r1, e)
  | None =>
      match r_state r1 with
      | StRuntimeError e =>
          if 0 <? r_col r1 then Ok (set_col r1 0, EvPrint [c_nl])
          else Ok (set_state r1 StStopped, EvErrors [e])
      | _ =>
          let has := match ls_ind_errors (r_listing r1) with [] => false | _ => true end in
          match exec_loop (N.to_nat iterations) has r1 with
          | (r2, Ok ev) =>
              match r_state r2, ev with
              | StStopped, EvStopped =>
                  match ready_prompt r2 with
                  | (r3, Some e) => Ok (r3, e)
                  | (r3, None) => Ok (r3, EvStopped)
                  end
              | _, _ => Ok (r2, ev)
              end
          | (r2, Err e) =>
              match r_state r2 with
              | StInputRunning =>
                  let '(s, a) := unwind_input (r_stack r2) in
                  let r3 := set_stack r2 s in
                  let r4 := match a with Some addr => set_pc r3 addr | None => r3 end in
                  Ok (set_state r4 StInputRedo, EvRunning)
              | st =>
                  let r3 := set_cont_pc (set_cont (set_state r2 (StRuntimeError (in_line e (cur_line r2)))) st) (r_pc r2) in
                  let r4 := if (r_entry r3 <=? r_pc r3) || stack_is_full r3
                            then set_cont (set_stack r3 []) StStopped else r3 in
                  Ok (r4, EvRunning)
              end
          | (_, Panic) => Panic
          | (_, Hang) => Hang
          end
      end
  end.

(* interrupt() *)
Definition rt_interrupt (r : rt) : rt :=
  let r1 := set_cont_pc (set_cont (set_state r StInterrupt) (r_state r)) (r_pc r) in
  if r_entry r1 <=? r_pc r1 then set_stack (set_cont r1 StStopped) [] else r1.

(* do_input: split the reply *)
Fixpoint split_fields (s : str) (cur : str) (in_quote : bool) : list str :=
  match s with
  | [] => [rev cur]
  | c :: r =>
      if c =? 34 then split_fields r (c :: cur) (negb in_quote)
      else if (c =? 44) && negb in_quote then rev cur :: split_fields r [] in_quote
      else split_fields r (c :: cur) in_quote
  end.

Definition enter_input (r : rt) (s : str) : rt :=
  if MAX_LINE_LEN <? utf8_len s then set_state r StInputRedo
  else
    match r_stack r with
    | VInt n :: _ =>
        let fields := if (n <=? 1)%Z then [s] else split_fields s [] false in
        if negb (n <=? 1)%Z && negb (Z.of_N (lenN fields) =? n)%Z then set_state r StInputRedo
        else
          let m := (rdo _ <~ push (VRet (r_pc r)) ;;
                    rdo _ <~ fold_left (fun m f => rdo _ <~ m ;; push (VStr f)) (rev fields) (rret tt) ;;
                    rmod (fun r => set_state r StInputRunning)) in
          match m r with
          | (r', Ok _) => r'
          | (r', Err e) =>
              (* self.clear(); self.state = State::RuntimeError(error) *)
              set_state (fst (do_clear r')) (StRuntimeError e)
          | (r', _) => fst (do_clear r')
          end
    | _ => set_state (fst (do_clear r)) (StRuntimeError (mkErr E_Internal None (0, 0)))
    end.

Definition enter_inkey (r : rt) (s : str) : rt :=
  let s' := if MAX_LINE_LEN <? utf8_len s then [] else s in
  match push (VStr s') r with
  | (r', Ok _) => set_state r' StRunning
  | (r', _) => set_state (fst (do_clear r')) StRunning
  end.

(* compile the stored program: program.clear(); program.codegen(listing.lines()) *)
Definition compile_listing (p : program) (ls : list (N * list token)) : program :=
  fold_left (fun p e => codegen_line p (Some (fst e)) (parse (Some (fst e)) (snd e))) ls (program_clear p).

Definition enter_direct (r : rt) (l : line) : rt :=
  let r1 := if r_dirty r
            then (* addresses kept from the previous compile are discarded with it *)
                 set_cont (set_fns (set_stack_len
                   (set_dirty (set_prog r (compile_listing (r_prog r) (ls_lines (r_listing r)))) false) [] 0) []) StStopped
            else r in
  let p := program_link (codegen_line (r_prog r1) None (parse None (snd l))) in
  let ls := r_listing r1 in
  let r2 := set_prog r1 p in
  let r3 := set_entry (set_tr (set_pc r2 (pg_direct p)) None) (pg_direct p) in
  set_state (set_listing r3 (mkListing (ls_lines ls) (pg_ind_errors p) (pg_errors p))) StRunning.

Definition enter_indirect (r : rt) (l : line) : res rt :=
  let r1 := set_cont r StStopped in
  match fst l, snd l with
       | Some n, [] =>
           Ok (set_dirty (set_listing r1 (with_lines (r_listing r1) (lines_remove (ls_lines (r_listing r1)) n)))
                         (r_dirty r1 || lines_has (ls_lines (r_listing r1)) n))
       | Some n, toks =>
           Ok (set_dirty (set_listing r1 (with_lines (r_listing r1) (lines_insert (ls_lines (r_listing r1)) n toks))) true)
       | None, _ => Ok r1
       end.

(* enter(): returns the new state and the "good candidate for history" flag *)
Definition rt_enter (r : rt) (s : str) : res (rt * bool) :=
  match r_state r with
  | StInput => Ok (set_col (enter_input r s) 0, true)
  | StInkey => Ok (enter_inkey r s, false)
  | _ =>
      if MAX_LINE_LEN <? utf8_len s
      then Ok (set_state r (StRuntimeError (mkErr E_LineBufferOverflow None (0, 0))), false)
      else
        do l <- line_new s;
        match fst l with
        | None => match snd l with
                  | [] => Ok (r, false)
                  | _ => Ok (enter_direct r l, true)
                  end
        | Some _ => do r' <- enter_indirect r l; Ok (r', false)
        end
  end.

(* get_listing: a snapshot; `hold` says whether the caller keeps it alive *)
Definition rt_get_listing (r : rt) (hold : bool) : rt := if hold then set_snap r (r_snap r + 1) else r.
Definition rt_drop_listing (r : rt) : rt := set_snap r (r_snap r - 1).

(* set_listing(listing, run) *)
Definition rt_set_listing (r : rt) (ls : list (N * list token)) (run : bool) : res rt :=
  let '(r1, _) := do_new r in
  let r2 := set_listing r1 (mkListing ls [] []) in
  if run then do x <- rt_enter r2 (s2l "RUN"); Ok (fst x) else Ok r2.

End WithOracle.
