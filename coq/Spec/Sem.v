(* SPEC: statement-by-statement reference semantics of a stored program, read
   off the manual.  No code addresses, no value stack: control is a
   continuation (the statements still to run on the current line, and the
   current line number), FOR / GOSUB frames are a list, DATA is the list of
   constants in source order, WHILE/WEND are paired by source position.

   Value-level operations (Ops, Func, Var) are shared with the model: this
   file is about control flow (C01), DATA (C09), user functions (C10) and the
   frame discipline (C18).  `Undefined` marks what the manual does not fix. *)
From BL Require Import Base.Prelude Base.Floats Mach.Val Mach.Ops Mach.Func Mach.Var
     Lang.Token Lang.Ast.
From Coq Require Import String.
Local Open Scope N_scope.

Definition sline := (N * stmt)%type.                 (* statement with the line it is written on *)
Definition kont := (list sline * N)%type.            (* rest of the current line; current line number *)

Inductive frame :=
| FFor (v : str) (to step : val) (k : kont)
| FGosub (k : kont).

Inductive sevent :=
| SePrint (s : str)
| SeInput (prompt : str) (caps : bool)
| SeCls.

Inductive halt :=
| HEnd                       (* END, or the program ran off its last line *)
| HError (code : N) (line : N)
| HNeedInput                 (* the script of replies is exhausted *)
| HUndefined                 (* behaviour the manual does not fix *)
| HFuel.

Record sst := mkS {
  s_vars : varstore;
  s_frames : list frame;
  s_dpos : N;
  s_fns : list (str * (list str * expr * N));     (* name -> mangled parameters, body, line of the DEF *)
  s_tron : bool;
  s_tr : option N;
  s_col : N;
  s_rand : option (N * N * N);
  s_inputs : list str;
  s_active : list str;                              (* user functions being evaluated *)
  s_locals : list (str * val);                      (* parameters of the functions being evaluated *)
  s_out : list sevent                               (* newest first *)
}.

Definition program_t := list (N * list stmt).

Definition emit (s : sst) (e : sevent) : sst :=
  mkS (s_vars s) (s_frames s) (s_dpos s) (s_fns s) (s_tron s) (s_tr s) (s_col s) (s_rand s) (s_inputs s)
      (s_active s) (s_locals s) (e :: s_out s).
Definition with_vars (s : sst) (v : varstore) : sst :=
  mkS v (s_frames s) (s_dpos s) (s_fns s) (s_tron s) (s_tr s) (s_col s) (s_rand s) (s_inputs s) (s_active s) (s_locals s) (s_out s).
Definition with_frames (s : sst) (f : list frame) : sst :=
  mkS (s_vars s) f (s_dpos s) (s_fns s) (s_tron s) (s_tr s) (s_col s) (s_rand s) (s_inputs s) (s_active s) (s_locals s) (s_out s).
Definition with_dpos (s : sst) (d : N) : sst :=
  mkS (s_vars s) (s_frames s) d (s_fns s) (s_tron s) (s_tr s) (s_col s) (s_rand s) (s_inputs s) (s_active s) (s_locals s) (s_out s).
Definition with_fns (s : sst) (f : list (str * (list str * expr * N))) : sst :=
  mkS (s_vars s) (s_frames s) (s_dpos s) f (s_tron s) (s_tr s) (s_col s) (s_rand s) (s_inputs s) (s_active s) (s_locals s) (s_out s).
Definition with_trace (s : sst) (on : bool) (tr : option N) : sst :=
  mkS (s_vars s) (s_frames s) (s_dpos s) (s_fns s) on tr (s_col s) (s_rand s) (s_inputs s) (s_active s) (s_locals s) (s_out s).
Definition with_col (s : sst) (c : N) : sst :=
  mkS (s_vars s) (s_frames s) (s_dpos s) (s_fns s) (s_tron s) (s_tr s) c (s_rand s) (s_inputs s) (s_active s) (s_locals s) (s_out s).
Definition with_rand (s : sst) (r : option (N * N * N)) : sst :=
  mkS (s_vars s) (s_frames s) (s_dpos s) (s_fns s) (s_tron s) (s_tr s) (s_col s) r (s_inputs s) (s_active s) (s_locals s) (s_out s).
Definition with_inputs (s : sst) (i : list str) : sst :=
  mkS (s_vars s) (s_frames s) (s_dpos s) (s_fns s) (s_tron s) (s_tr s) (s_col s) (s_rand s) i (s_active s) (s_locals s) (s_out s).
Definition with_active (s : sst) (a : list str) : sst :=
  mkS (s_vars s) (s_frames s) (s_dpos s) (s_fns s) (s_tron s) (s_tr s) (s_col s) (s_rand s) (s_inputs s) a (s_locals s) (s_out s).

Definition with_locals (s : sst) (l : list (str * val)) : sst :=
  mkS (s_vars s) (s_frames s) (s_dpos s) (s_fns s) (s_tron s) (s_tr s) (s_col s) (s_rand s) (s_inputs s) (s_active s) l (s_out s).

Definition col_after (col : N) (t : str) : N := fold_left (fun c ch => if ch =? 10 then 0 else c + 1) t col.
Definition print_text (s : sst) (t : str) : sst := with_col (emit s (SePrint t)) (col_after (s_col s) t).

(* evaluation outcome: a value, a BASIC error code, or undefined *)
Inductive ev (A : Type) := EvOk (a : A) | EvErr (code : N) | EvUndef.
Arguments EvOk {A} a. Arguments EvErr {A} code. Arguments EvUndef {A}.

Definition of_res {A} (r : res A) : ev A :=
  match r with Ok a => EvOk a | Err e => EvErr (ecode e) | _ => EvUndef end.

Definition SM (A : Type) := sst -> sst * ev A.
Definition sret {A} (a : A) : SM A := fun s => (s, EvOk a).
Definition sbind {A B} (m : SM A) (f : A -> SM B) : SM B :=
  fun s => match m s with
           | (s', EvOk a) => f a s'
           | (s', EvErr c) => (s', EvErr c)
           | (s', EvUndef) => (s', EvUndef)
           end.
Notation "'sdo' x <~ m ;; k" := (sbind m (fun x => k))
  (at level 200, x pattern, m at level 100, k at level 200, right associativity).
Definition slift {A} (r : res A) : SM A := fun s => (s, of_res r).
Definition sundef {A} : SM A := fun s => (s, EvUndef).
Definition serr {A} (c : N) : SM A := fun s => (s, EvErr c).
Definition sget : SM sst := fun s => (s, EvOk s).

Section Sem.
Variable O : oracle.
Variable prog : program_t.

(* ---------- expressions ---------- *)
Definition apply_binop (b : binop) (l r : val) : res val :=
  match b with
  | BPow => op_power O l r | BMul => op_multiply l r | BDiv => op_divide l r | BDivInt => op_divint l r
  | BMod => op_remainder l r | BAdd => op_sum l r | BSub => op_subtract l r | BEq => op_equal l r
  | BNe => op_not_equal l r | BLt => op_less l r | BLe => op_less_equal l r | BGt => op_greater l r
  | BGe => op_greater_equal l r | BAnd => op_and l r | BOr => op_or l r | BXor => op_xor l r
  | BImp => op_imp l r | BEqv => op_eqv l r
  end.

Definition is_name (n : str) (lit : string) : bool := str_eqb n (s2l lit).

(* built-in functions on already evaluated arguments *)
Definition apply_builtin (name : str) (args : list val) : SM val :=
  let one (f : val -> res val) := match args with [a] => slift (f a) | _ => sundef end in
  let two (f : val -> val -> res val) := match args with [a; b] => slift (f a b) | _ => sundef end in
  if is_name name "ABS" then one fn_abs else if is_name name "ASC" then one fn_asc
  else if is_name name "CDBL" then one fn_cdbl else if is_name name "CHR$" then one fn_chr
  else if is_name name "CINT" then one fn_cint else if is_name name "CSNG" then one fn_csng
  else if is_name name "FIX" then one fn_fix else if is_name name "HEX$" then one fn_hex
  else if is_name name "INSTR" then slift (fn_instr args)
  else if is_name name "INT" then one fn_int else if is_name name "LEFT$" then two fn_left
  else if is_name name "LEN" then one fn_len else if is_name name "MID$" then slift (fn_mid args)
  else if is_name name "OCT$" then one fn_oct
  else if is_name name "POS" then (sdo s <~ sget ;; slift (fn_pos (s_col s)))
  else if is_name name "RIGHT$" then two fn_right
  else if is_name name "RND" then
    (sdo s <~ sget ;;
     let seeded := match args with
                   | [a] => match to_f32 a with Ok x => f32_lt x 0 | _ => false end
                   | _ => false
                   end in
     match s_rand s, seeded with
     | None, false => match args with
                      | [a] => match to_f32 a with Ok _ => sundef | _ => serr E_TypeMismatch end
                      | _ => sundef
                      end
     | st, _ =>
         match fn_rnd (match st with Some x => x | None => (1, 1, 1) end) args with
         | Ok (st', v) => fun s => (with_rand s (Some st'), EvOk v)
         | Err e => serr (ecode e)
         | _ => sundef
         end
     end)
  else if is_name name "SGN" then one fn_sgn else if is_name name "SPC" then one fn_spc
  else if is_name name "SQR" then one fn_sqr else if is_name name "STR$" then one fn_str
  else if is_name name "STRING$" then two fn_string
  else if is_name name "TAB" then (sdo s <~ sget ;; match args with [a] => slift (fn_tab (s_col s) a) | _ => sundef end)
  else if is_name name "VAL" then one fn_val
  else sundef.      (* libm functions, DATE$, TIME$, INKEY$: outside the defined fragment *)

Definition fetch_var (name : str) : SM val :=
  sdo s <~ sget ;;
  match alist_get name (s_locals s) with
  | Some v => sret v                                  (* a parameter of the function being evaluated *)
  | None => slift (var_fetch (s_vars s) name)
  end.

(* FNX.P -> P : the parameter's own name decides its type *)
Fixpoint after_dot (s : str) (acc : str) : str :=
  match s with
  | [] => acc
  | c :: r => if c =? 46 then after_dot r r else after_dot r acc
  end.
(* a variable holding zero holds +0: assignment does not keep the sign of a negative zero, and a
   parameter is a variable assigned the argument *)
Definition stored_form (v : val) : val :=
  match v with
  | VSng b => if f32_is_zero b then VSng 0 else v
  | VDbl b => if f64_is_zero b then VDbl 0 else v
  | _ => v
  end.
Definition param_value (types : list vtype) (mangled : str) (v : val) : res val :=
  match key_type types (after_dot mangled mangled) with
  | Some t => do x <- convert_to t v; Ok (stored_form x)
  | None => err E_Internal
  end.
Definition store_var (name : str) (v : val) : SM unit :=
  fun s => match var_store (s_vars s) name v with
           | Ok vs => (with_vars s vs, EvOk tt)
           | Err e => (s, EvErr (ecode e))
           | _ => (s, EvUndef)
           end.
Definition fetch_arr (name : str) (idx : list val) : SM val :=
  fun s => let '(vs, r) := var_fetch_array (s_vars s) name idx in (with_vars s vs, of_res r).
Definition store_arr (name : str) (idx : list val) (v : val) : SM unit :=
  fun s => let '(vs, r) := var_store_array (s_vars s) name idx v in (with_vars s vs, of_res r).

Definition trace_line (n : N) : SM unit :=
  fun s => if s_tron s && negb (match s_tr s with Some k => k =? n | None => false end)
           then let t := [91] ++ dec_of_N n ++ [93] in
                (with_col (emit (with_trace s true (Some n)) (SePrint t)) (s_col s + lenN t), EvOk tt)
           else (s, EvOk tt).

Fixpoint eval (fuel : nat) (cur_line : N) (e : expr) : SM val :=
  match fuel with
  | 0%nat => sundef
  | S f =>
      let eval_list := fix go (l : list expr) : SM (list val) :=
        match l with
        | [] => sret []
        | x :: r => sdo v <~ eval f cur_line x ;; sdo vs <~ go r ;; sret (v :: vs)
        end in
      match e with
      | ESng _ b => sret (VSng b)
      | EDbl _ b => sret (VDbl b)
      | EInt _ n => sret (VInt n)
      | EStr _ s => sret (VStr s)
      | ENeg _ x => sdo v <~ eval f cur_line x ;; slift (op_negate v)
      | ENot _ x => sdo v <~ eval f cur_line x ;; slift (op_not v)
      | EBin _ b l r => sdo a <~ eval f cur_line l ;; sdo c <~ eval f cur_line r ;; slift (apply_binop b a c)
      | EUnary _ i =>
          let name := ident_str i in
          match builtin_arity name with
          | Some (0, 0) => sundef                       (* DATE$ TIME$ INKEY$ *)
          | _ => fetch_var name
          end
      | EArray _ i args =>
          let name := ident_str i in
          sdo vs <~ eval_list args ;;
          match builtin_arity name with
          | Some (lo, hi) =>
              if (lo <=? lenN args) && (lenN args <=? hi) then apply_builtin name vs
              else sundef                               (* compile-time error *)
          | None =>
              if starts_with (s2l "FN") name then
                sdo s <~ sget ;;
                match alist_get name (s_fns s) with
                | None => serr E_UndefinedFn
                | Some (params, body, def_line) =>
                    if negb (lenN params =? lenN vs) then serr E_IllegalFunctionCall
                    else if existsb (str_eqb name) (s_active s) then sundef   (* recursion *)
                    else
                      sdo st0 <~ sget ;;
                      sdo bound <~ (fix bind (ps : list str) (xs : list val) : SM (list (str * val)) :=
                                      match ps, xs with
                                      | p :: ps', x :: xs' =>
                                          (* an argument that cannot be converted fails inside the function:
                                             the manual does not say which line that is *)
                                          sdo x' <~ (match param_value (vs_types (s_vars st0)) p x with
                                                     | Ok y => sret y
                                                     | _ => sundef
                                                     end) ;;
                                          sdo more <~ bind ps' xs' ;;
                                          sret ((p, x') :: more)
                                      | _, _ => sret []
                                      end) params vs ;;
                      let saved := s_locals st0 in
                      sdo _ <~ (fun s => (with_locals s (bound ++ saved), EvOk tt)) ;;
                      sdo _ <~ trace_line def_line ;;
                      sdo _ <~ (fun s => (with_active s (name :: s_active s), EvOk tt)) ;;
                      (fun s => match eval f def_line body s with
                                | (s', EvOk v) =>
                                    let s2 := with_locals (with_active s' (tl (s_active s'))) saved in
                                    (match trace_line cur_line s2 with (s3, _) => (s3, EvOk v) end)
                                | (s', EvErr _) => (s', EvUndef)      (* error inside a function body *)
                                | (s', EvUndef) => (s', EvUndef)
                                end)
                end
              else fetch_arr name vs
          end
      end
  end.

Fixpoint eval_all (fuel : nat) (line : N) (l : list expr) : SM (list val) :=
  match l with
  | [] => sret []
  | x :: r => sdo v <~ eval fuel line x ;; sdo vs <~ eval_all fuel line r ;; sret (v :: vs)
  end.

(* ---------- static structure ---------- *)
Definition tag_line (n : N) (l : list stmt) : list sline := map (fun s => (n, s)) l.

Definition line_stmts (n : N) : option (list sline) :=
  match find (fun e => fst e =? n) prog with
  | Some (_, l) => Some (tag_line n l)
  | None => None
  end.
Definition next_line_after (n : N) : option (N * list stmt) :=
  find (fun e => n <? fst e) prog.

(* DATA constants in source order (IF branches in emission order: THEN, ELSE) *)
Definition data_const (e : expr) : option val :=
  match e with
  | ESng _ b => Some (VSng b) | EDbl _ b => Some (VDbl b) | EInt _ n => Some (VInt n) | EStr _ s => Some (VStr s)
  | ENeg _ (ESng _ b) => Some (VSng (f32_neg b))
  | ENeg _ (EDbl _ b) => Some (VDbl (f64_neg b))
  | ENeg _ (EInt _ n) => if (n =? -32768)%Z then None else Some (VInt (- n))
  | _ => None
  end.
Fixpoint stmt_data (s : stmt) : list (option val) :=
  match s with
  | SData _ l => map data_const l
  | SIf _ _ th el => flat_map stmt_data th ++ flat_map stmt_data el
  | _ => []
  end.
Definition line_data (l : list stmt) : list (option val) := flat_map stmt_data l.
Definition all_data : list (option val) := flat_map (fun e => line_data (snd e)) prog.
Definition data_index_of_line (n : N) : N :=
  lenN (flat_map (fun e => if fst e <? n then line_data (snd e) else []) prog).

(* WHILE / WEND pairing by source position.  Every WHILE and WEND occurrence is
   listed in source order with the continuation that follows it. *)
Fixpoint occurrences (line : N) (l : list stmt) (after : list sline) {struct l} : list (bool * kont * kont) :=
  (* (is_while, continuation starting AT the statement, continuation AFTER it) *)
  match l with
  | [] => []
  | s :: r =>
      let rest := tag_line line r ++ after in
      match s with
      | SWhile _ _ => (true, ((line, s) :: rest, line), (rest, line)) :: occurrences line r after
      | SWend _ => (false, ((line, s) :: rest, line), (rest, line)) :: occurrences line r after
      | _ => occurrences line r after
      end
  end.
Definition all_occurrences : list (bool * kont * kont) :=
  flat_map (fun e => occurrences (fst e) (snd e) []) prog.

(* a WHILE or WEND inside an IF branch: the pairing is left undefined here *)
Fixpoint has_loop_word (s : stmt) : bool :=
  match s with
  | SWhile _ _ | SWend _ => true
  | SIf _ _ th el => existsb has_loop_word th || existsb has_loop_word el
  | _ => false
  end.
Definition nested_loop_words : bool :=
  existsb (fun e => existsb (fun s => match s with
                                      | SIf _ _ th el => existsb has_loop_word th || existsb has_loop_word el
                                      | _ => false
                                      end) (snd e)) prog.

(* pairs (while_at, after_while, wend_at, after_wend); None if unbalanced *)
Fixpoint pair_up (occ : list (bool * kont * kont)) (stack : list (kont * kont))
  : option (list (kont * kont * kont * kont)) :=
  match occ with
  | [] => match stack with [] => Some [] | _ => None end
  | (true, at_, aft) :: r => pair_up r ((at_, aft) :: stack)
  | (false, at_, aft) :: r =>
      match stack with
      | [] => None
      | (wat, waft) :: st => match pair_up r st with
                             | Some l => Some ((wat, waft, at_, aft) :: l)
                             | None => None
                             end
      end
  end.
Definition while_pairs := if nested_loop_words then None else pair_up all_occurrences [].

(* continuations are compared by their position: line and number of statements left *)
Definition kont_eqb (a b : kont) : bool := (snd a =? snd b) && (lenN (fst a) =? lenN (fst b)).

(* ---------- statements ---------- *)
Inductive step_result :=
| Go (k : kont)
| Halt (h : halt).

Definition goto_line (target : expr) : option kont :=
  match target with
  | ESng _ b => let n := Z.to_N (f32_to_Z b) in
                match line_stmts n with Some l => Some (l, n) | None => None end
  | _ => None
  end.

Definition var_name (v : var) : str := match v with VUnary _ i | VArray _ i _ => ident_str i end.

Definition assign (fuel : nat) (line : N) (v : var) (x : val) : SM unit :=
  match v with
  | VUnary _ i => store_var (ident_str i) x
  | VArray _ i args => sdo idx <~ eval_all fuel line args ;; store_arr (ident_str i) idx x
  end.

Definition read_var (fuel : nat) (line : N) (v : var) : SM val := eval fuel line (expr_of_var v).

Definition truthy (v : val) : ev bool :=
  match v with
  | VInt n => EvOk (negb (n =? 0)%Z)
  | VSng b => EvOk (negb (f32_is_zero b))
  | VDbl b => EvOk (negb (f64_is_zero b))
  | _ => EvErr E_TypeMismatch
  end.

(* NEXT: frames from the top; a GOSUB frame on top is NEXT WITHOUT FOR *)
Fixpoint next_frames (fuel : nat) (name : str) (after : kont) : SM kont :=
  match fuel with
  | 0%nat => sundef
  | S f =>
      sdo s <~ sget ;;
      match s_frames s with
      | FFor v to step k :: rest =>
          sdo _ <~ (fun s => (with_frames s rest, EvOk tt)) ;;
          if negb (match name with [] => true | _ => false end) && negb (str_eqb v name)
          then next_frames f name after
          else
            sdo cur0 <~ fetch_var v ;;
            sdo cur <~ slift (op_sum cur0 step) ;;
            sdo _ <~ store_var v cur ;;
            match to_f64 step with
            | Ok st =>
                sdo lt <~ slift (if f64_lt st 0 then op_less cur to else op_less to cur) ;;
                match lt with
                | VInt 0 => sdo _ <~ (fun s => (with_frames s (FFor v to step k :: s_frames s), EvOk tt)) ;; sret k
                | _ => sret after
                end
            | _ => sundef
            end
      | _ => serr E_NextWithoutFor
      end
  end.

Fixpoint return_frames (fs : list frame) : option (kont * list frame) :=
  match fs with
  | [] => None
  | FGosub k :: r => Some (k, r)
  | FFor _ _ _ _ :: r => return_frames r
  end.

Definition split_reply (n : N) (reply : str) : list str :=
  if n <=? 1 then [reply]
  else (fix go (s : str) (cur : str) (q : bool) : list str :=
          match s with
          | [] => [rev cur]
          | c :: r => if c =? 34 then go r (c :: cur) (negb q)
                      else if (c =? 44) && negb q then rev cur :: go r [] q
                      else go r (c :: cur) q
          end) reply [] false.

Definition field_value (name : str) (field : str) : val :=
  let f := trim field in
  if ends_with_chr name 36 then
    match f with
    | q :: r => if (q =? 34) && (2 <=? lenN f) && ends_with_chr f 34 then VStr (removelast r) else VStr f
    | [] => VStr f
    end
  else match f with [] => VInt 0 | _ => val_from_str f end.

(* one statement.  `rest` is the continuation after it. *)
Definition exec (fuel : nat) (line : N) (s : stmt) (rest : kont) : sst -> sst * step_result :=
  let run (m : SM step_result) : sst -> sst * step_result :=
    fun st => match m st with
              | (st', EvOk r) => (st', r)
              | (st', EvErr c) => (st', Halt (HError c line))
              | (st', EvUndef) => (st', Halt HUndefined)
              end in
  let continue_ : SM step_result := sret (Go rest) in
  let jump (e : expr) : SM step_result :=
    match goto_line e with Some k => sret (Go k) | None => sundef end in
  match s with
  | SLet _ v e => run (sdo x <~ eval fuel line e ;; sdo _ <~ assign fuel line v x ;; continue_)
  | SPrint _ items =>
      run ((fix go (l : list expr) : SM step_result :=
              match l with
              | [] => continue_
              | x :: r =>
                  sdo v <~ eval fuel line x ;;
                  sdo _ <~ (fun st => (print_text st (match v with VStr t => t | _ => fmt_val v ++ [c_space] end), EvOk tt)) ;;
                  go r
              end) items)
  | SIf c p th el =>
      run (sdo v <~ eval fuel line p ;;
           match truthy v with
           | EvOk true =>
               (* after the THEN part control passes over the ELSE part: that point belongs to this line
                  (a RETURN or NEXT that comes back to it re-enters the line) *)
               let over_else := match el with
                                | [] => []
                                | _ => [(line, SIf c (EInt c 1) [] [])]
                                end in
               sret (Go (tag_line line th ++ over_else ++ fst rest, snd rest))
           | EvOk false => sret (Go (tag_line line el ++ fst rest, snd rest))
           | EvErr c => serr c
           | EvUndef => sundef
           end)
  | SGoto _ e => run (jump e)
  | SGosub _ e =>
      run (match goto_line e with
           | Some k => sdo _ <~ (fun st => (with_frames st (FGosub rest :: s_frames st), EvOk tt)) ;; sret (Go k)
           | None => sundef
           end)
  | SReturn _ =>
      run (sdo st <~ sget ;;
           match return_frames (s_frames st) with
           | Some (k, fs) => sdo _ <~ (fun st => (with_frames st fs, EvOk tt)) ;; sret (Go k)
           | None => sdo _ <~ (fun st => (with_frames st [], EvOk tt)) ;; serr E_ReturnWithoutGosub
           end)
  | SOnGoto _ e targets | SOnGosub _ e targets =>
      let is_gosub := match s with SOnGosub _ _ _ => true | _ => false end in
      run (sdo v <~ eval fuel line e ;;
           sdo sel <~ slift (to_i16 v) ;;
           if (sel <? 0)%Z then serr E_IllegalFunctionCall
           else if (sel =? 0)%Z || (Z.of_N (lenN targets) <? sel)%Z then continue_
           else match nthN targets (Z.to_N (sel - 1)) with
                | Some t =>
                    match goto_line t with
                    | Some k =>
                        sdo _ <~ (if is_gosub then (fun st => (with_frames st (FGosub rest :: s_frames st), EvOk tt))
                                  else sret tt) ;;
                        sret (Go k)
                    | None => sundef
                    end
                | None => sundef
                end)
  | SFor _ v e1 e2 e3 =>
      run (sdo x <~ eval fuel line e1 ;;
           sdo _ <~ assign fuel line v x ;;
           sdo y <~ eval fuel line e2 ;;
           sdo z <~ eval fuel line e3 ;;
           sdo _ <~ (fun st => (with_frames st (FFor (var_name v) y z rest :: s_frames st), EvOk tt)) ;;
           continue_)
  | SNext _ vars =>
      run ((fix go (vs : list var) : SM step_result :=
              match vs with
              | [] => continue_
              | v :: r =>
                  (* the continuation after this NEXT is the remaining NEXT variables, then `rest` *)
                  let after : kont :=
                    match r with
                    | [] => rest
                    | _ => ((line, SNext (0, 0) r) :: fst rest, snd rest)
                    end in
                  sdo st <~ sget ;;
                  sdo k <~ next_frames (S (List.length (s_frames st))) (var_name v) after ;;
                  sret (Go k)
              end) vars)
  | SWhile _ e =>
      run (sdo v <~ eval fuel line e ;;
           match truthy v with
           | EvOk true => continue_
           | EvOk false =>
               match while_pairs with
               | Some ps =>
                   match find (fun p => match p with (_, waft, _, _) => kont_eqb waft rest end) ps with
                   | Some (_, _, _, after_wend) => sret (Go after_wend)
                   | None => sundef
                   end
               | None => sundef
               end
           | EvErr c => serr c
           | EvUndef => sundef
           end)
  | SWend _ =>
      run (match while_pairs with
           | Some ps =>
               match find (fun p => match p with (_, _, _, aft) => kont_eqb aft rest end) ps with
               | Some (while_at, _, _, _) => sret (Go while_at)
               | None => sundef
               end
           | None => sundef
           end)
  | SEnd _ => fun st => (st, Halt HEnd)
  | SStop _ => fun st => (st, Halt (HError E_Break line))
  | SData _ _ => run continue_
  | SRead _ vars =>
      run ((fix go (vs : list var) : SM step_result :=
              match vs with
              | [] => continue_
              | v :: r =>
                  sdo st <~ sget ;;
                  match nthN all_data (s_dpos st) with
                  | Some (Some x) =>
                      sdo _ <~ (fun st => (with_dpos st (s_dpos st + 1), EvOk tt)) ;;
                      sdo _ <~ assign fuel line v x ;;
                      go r
                  | Some None => sundef
                  | None => serr E_OutOfData
                  end
              end) vars)
  | SRestore _ e =>
      run (match e with
           | ESng _ b =>
               if f32_lt b 0 then sdo _ <~ (fun st => (with_dpos st 0, EvOk tt)) ;; continue_
               else let n := Z.to_N (f32_to_Z b) in
                    match line_stmts n with
                    | Some _ => sdo _ <~ (fun st => (with_dpos st (data_index_of_line n), EvOk tt)) ;; continue_
                    | None => sundef
                    end
           | _ => sundef
           end)
  | SDim _ vars =>
      run ((fix go (vs : list var) : SM step_result :=
              match vs with
              | [] => continue_
              | VArray _ i args :: r =>
                  sdo idx <~ eval_all fuel line args ;;
                  sdo _ <~ (fun st => match var_dimension (s_vars st) (ident_str i) idx with
                                      | Ok vs' => (with_vars st vs', EvOk tt)
                                      | Err e => (st, EvErr (ecode e))
                                      | _ => (st, EvUndef)
                                      end) ;;
                  go r
              | _ => sundef
              end) vars)
  | SErase _ vars =>
      run ((fix go (vs : list var) : SM step_result :=
              match vs with
              | [] => continue_
              | v :: r =>
                  sdo _ <~ (fun st => match var_erase (s_vars st) (var_name v) with
                                      | Ok vs' => (with_vars st vs', EvOk tt)
                                      | Err e => (st, EvErr (ecode e))
                                      | _ => (st, EvUndef)
                                      end) ;;
                  go r
              end) vars)
  | SDef _ f params body =>
      run (sdo _ <~ (fun st => (with_fns st (alist_set (var_name f) (map var_name params, body, line) (s_fns st)), EvOk tt)) ;;
           continue_)
  | SDefdbl _ a b | SDefint _ a b | SDefsng _ a b | SDefstr _ a b =>
      let t := match s with SDefdbl _ _ _ => TDbl | SDefint _ _ _ => TInt | SDefsng _ _ _ => TSng | _ => TStr end in
      run (sdo _ <~ (fun st => match var_def (s_vars st) t (VStr (var_name a)) (VStr (var_name b)) with
                               | Ok vs' => (with_vars st vs', EvOk tt)
                               | Err e => (st, EvErr (ecode e))
                               | _ => (st, EvUndef)
                               end) ;;
           continue_)
  | SSwap _ a b =>
      (* written SWAP b, a *)
      run (sdo vb <~ read_var fuel line b ;;
           sdo va <~ read_var fuel line a ;;
           match val_type va, val_type vb with
           | Some ta, Some tb =>
               if vtype_eqb ta tb then
                 sdo _ <~ assign fuel line b va ;; sdo _ <~ assign fuel line a vb ;; continue_
               else serr E_TypeMismatch
           | _, _ => sundef
           end)
  | SMid _ v pos len e =>
      run (sdo orig <~ read_var fuel line v ;;
           sdo ins <~ eval fuel line e ;;
           sdo lv <~ eval fuel line len ;;
           sdo pv <~ eval fuel line pos ;;
           sdo p <~ slift (to_usize pv) ;;
           sdo l <~ slift (to_usize lv) ;;
           sdo i <~ slift (to_str ins) ;;
           if (p =? 0)%Z then serr E_IllegalFunctionCall
           else
             sdo o <~ slift (to_str orig) ;;
             let k := N.min (Z.to_N l) (N.min (lenN i) (lenN o - (Z.to_N p - 1))) in
             let res := firstnN (Z.to_N p - 1) o ++ firstnN k i ++ skipnN (Z.to_N p - 1 + k) o in
             sdo _ <~ assign fuel line v (VStr res) ;; continue_)
  | SInput _ caps prompt vars =>
      run (sdo st <~ sget ;;
           let pr := match prompt with EStr _ p => p | _ => [] end in
           let cp := match caps with EInt _ 0 => false | _ => true end in
           sdo _ <~ (fun st => (with_col (emit st (SeInput (pr ++ [63; 32]) cp)) 0, EvOk tt)) ;;
           match s_inputs st with
           | [] => fun st => (st, EvOk (Halt HNeedInput))
           | reply :: more =>
               sdo _ <~ (fun st => (with_inputs st more, EvOk tt)) ;;
               let fields := split_reply (lenN vars) reply in
               if negb (lenN fields =? lenN vars) then sundef
               else
                 (fix go (vs : list var) (fs : list str) : SM step_result :=
                    match vs, fs with
                    | v :: vr, f :: fr =>
                        fun st => match assign fuel line v (field_value (var_name v) f) st with
                                  | (st', EvOk _) => go vr fr st'
                                  | (st', _) => (st', EvUndef)      (* REDO FROM START: see C17 *)
                                  end
                    | _, _ => continue_
                    end) vars fields
           end)
  | STron _ => run (sdo _ <~ (fun st => (with_trace st true (Some line), EvOk tt)) ;; continue_)
  | STroff _ => run (sdo _ <~ (fun st => (with_trace st false (s_tr st), EvOk tt)) ;; continue_)
  | SCls _ => run (sdo _ <~ (fun st => (with_col (emit st SeCls) 0, EvOk tt)) ;; continue_)
  | SClear _ =>
      run (sdo _ <~ (fun st => (with_rand (with_fns (with_dpos (with_frames (with_vars st vars_empty) []) 0) []) None, EvOk tt)) ;;
           continue_)
  | SCont _ | SDelete _ _ _ | SList _ _ _ | SLoad _ _ | SNew _ | SRenum _ _ _ _ | SRun _ _ | SSave _ _ =>
      fun st => (st, Halt HUndefined)
  end.

(* the run: a statement is traced when it is on another line than the last traced one *)
Definition traces (s : stmt) : bool :=
  match s with SData _ _ => false | _ => true end.

Fixpoint run (fuel : nat) (k : kont) (st : sst) : sst * halt :=
  match fuel with
  | 0%nat => (st, HFuel)
  | S f =>
      match fst k with
      | (line, s) :: more =>
          let st1 := if traces s then fst (trace_line line st) else st in
          match exec 200 line s (more, snd k) st1 with
          | (st2, Go k') => run f k' st2
          | (st2, Halt h) => (st2, h)
          end
      | [] =>
          match next_line_after (snd k) with
          | Some (n, l) => run f (tag_line n l, n) st
          | None =>
              (* the END that closes the program belongs to its last line *)
              match rev prog with
              | (n, _) :: _ => (fst (trace_line n st), HEnd)
              | [] => (st, HEnd)
              end
          end
      end
  end.

End Sem.

(* what the interpreter refuses before running anything: unbalanced WHILE/WEND and references to
   lines that do not exist (anywhere in the program, executed or not) *)
Fixpoint stmt_targets (s : stmt) : list expr :=
  match s with
  | SGoto _ e | SGosub _ e | SRun _ e => [e]
  | SRestore _ e => [e]
  | SOnGoto _ _ l | SOnGosub _ _ l => l
  | SIf _ _ th el => flat_map stmt_targets th ++ flat_map stmt_targets el
  | _ => []
  end.
Definition target_ok (prog : program_t) (e : expr) : bool :=
  match e with
  | ESng _ b => if f32_lt b 0 then true
                else existsb (fun l => fst l =? Z.to_N (f32_to_Z b)) prog
  | _ => true
  end.
Definition static_ok (prog : program_t) : bool :=
  (match while_pairs prog with Some _ => true | None => negb (nested_loop_words prog) && false end
   || nested_loop_words prog)
  && forallb (fun l => forallb (target_ok prog) (flat_map stmt_targets (snd l))) prog.

(* RUN [n]: CLEAR, then start at the first line (or at line n) *)
Definition sem_start (tron : bool) (inputs : list str) : sst :=
  mkS vars_empty [] 0 [] tron None 0 None inputs [] [] [].

Definition sem_run (O : oracle) (prog : program_t) (tron : bool) (inputs : list str) (fuel : nat) : sst * halt :=
  if negb (static_ok prog) then (sem_start tron inputs, HUndefined)
  else match prog with
       | [] => (sem_start tron inputs, HEnd)
       | (n, l) :: _ => run O prog fuel (tag_line n l, n) (sem_start tron inputs)
       end.
