(* GENERATED on every run by tools/tables.py from /repo/src/lang/{token,parse,error,mod}.rs and src/mach/{function,mod,stack}.rs.
   Do not edit: Proofs/SourceTables.v proves that the model's tables are these. *)
From Coq Require Import String NArith List.
Import ListNotations.
From BL Require Import Base.Prelude Lang.Token.
Local Open Scope string_scope.

Definition src_keywords : list (string * token) :=
  [("RESTORE", TWord WRestore);
   ("DEFDBL", TWord WDefdbl);
   ("DEFINT", TWord WDefint);
   ("DEFSNG", TWord WDefsng);
   ("DEFSTR", TWord WDefstr);
   ("DELETE", TWord WDelete);
   ("RETURN", TWord WReturn);
   ("CLEAR", TWord WClear);
   ("ERASE", TWord WErase);
   ("GOSUB", TWord WGosub);
   ("INPUT", TWord WInput);
   ("PRINT", TWord WPrint);
   ("RENUM", TWord WRenum);
   ("TROFF", TWord WTroff);
   ("WHILE", TWord WWhile);
   ("CONT", TWord WCont);
   ("DATA", TWord WData);
   ("ELSE", TWord WElse);
   ("GOTO", TWord WGoto);
   ("NEXT", TWord WNext);
   ("LIST", TWord WList);
   ("LOAD", TWord WLoad);
   ("READ", TWord WRead);
   ("SAVE", TWord WSave);
   ("STEP", TWord WStep);
   ("STOP", TWord WStop);
   ("SWAP", TWord WSwap);
   ("THEN", TWord WThen);
   ("TRON", TWord WTron);
   ("WEND", TWord WWend);
   ("AND", TOp OAnd);
   ("CLS", TWord WCls);
   ("DEF", TWord WDef);
   ("DIM", TWord WDim);
   ("END", TWord WEnd);
   ("EQV", TOp OEqv);
   ("FOR", TWord WFor);
   ("IMP", TOp OImp);
   ("LET", TWord WLet);
   ("MOD", TOp OMod);
   ("NEW", TWord WNew);
   ("NOT", TOp ONot);
   ("REM", TWord WRem1);
   ("RUN", TWord WRun);
   ("XOR", TOp OXor);
   ("IF", TWord WIf);
   ("ON", TWord WOn);
   ("OR", TOp OOr);
   ("TO", TWord WTo)].

Definition src_minutia : list (N * token) :=
  [(40, TLParen); (41, TRParen); (44, TComma); (58, TColon); (59, TSemicolon); (63, TWord WPrint); (39, TWord WRem2); (94, TOp OCaret); (42, TOp OMul); (47, TOp ODiv); (92, TOp ODivInt); (43, TOp OPlus); (45, TOp OMinus); (61, TOp OEq); (60, TOp OLt); (62, TOp OGt)]%N.

Definition src_word_display : list (word * string) :=
  [(WClear, "CLEAR"); (WCls, "CLS"); (WCont, "CONT"); (WData, "DATA"); (WDef, "DEF"); (WDefdbl, "DEFDBL"); (WDefint, "DEFINT"); (WDefsng, "DEFSNG"); (WDefstr, "DEFSTR"); (WDelete, "DELETE"); (WDim, "DIM"); (WElse, "ELSE"); (WEnd, "END"); (WErase, "ERASE"); (WFor, "FOR"); (WGosub, "GOSUB"); (WGoto, "GOTO"); (WIf, "IF"); (WInput, "INPUT"); (WLet, "LET"); (WList, "LIST"); (WLoad, "LOAD"); (WNew, "NEW"); (WNext, "NEXT"); (WOn, "ON"); (WPrint, "PRINT"); (WRead, "READ"); (WRem1, "REM"); (WRem2, "'"); (WRenum, "RENUM"); (WRestore, "RESTORE"); (WReturn, "RETURN"); (WRun, "RUN"); (WSave, "SAVE"); (WStep, "STEP"); (WStop, "STOP"); (WSwap, "SWAP"); (WThen, "THEN"); (WTo, "TO"); (WTroff, "TROFF"); (WTron, "TRON"); (WWend, "WEND"); (WWhile, "WHILE")].

Definition src_op_display : list (operator * string) :=
  [(OCaret, "^"); (OMul, "*"); (ODiv, "/"); (ODivInt, "\"); (OMod, "MOD"); (OPlus, "+"); (OMinus, "-"); (OEq, "="); (ONe, "<>"); (OLt, "<"); (OLe, "<="); (OGt, ">"); (OGe, ">="); (ONot, "NOT"); (OAnd, "AND"); (OOr, "OR"); (OXor, "XOR"); (OImp, "IMP"); (OEqv, "EQV")].

Definition src_op_is_word : list (operator * bool) :=
  [(OCaret, false); (OMul, false); (ODiv, false); (ODivInt, false); (OMod, true); (OPlus, false); (OMinus, false); (OEq, false); (ONe, false); (OLt, false); (OLe, false); (OGt, false); (OGe, false); (ONot, true); (OAnd, true); (OOr, true); (OXor, true); (OImp, true); (OEqv, true)].

Definition src_unary_prec : list (operator * N) :=
  [(OCaret, 0); (OMul, 0); (ODiv, 0); (ODivInt, 0); (OMod, 0); (OPlus, 12); (OMinus, 12); (OEq, 0); (ONe, 0); (OLt, 0); (OLe, 0); (OGt, 0); (OGe, 0); (ONot, 6); (OAnd, 0); (OOr, 0); (OXor, 0); (OImp, 0); (OEqv, 0)]%N.

Definition src_binary_prec : list (operator * N) :=
  [(OCaret, 13); (OMul, 11); (ODiv, 11); (ODivInt, 10); (OMod, 9); (OPlus, 8); (OMinus, 8); (OEq, 7); (ONe, 7); (OLt, 7); (OLe, 7); (OGt, 7); (OGe, 7); (ONot, 0); (OAnd, 5); (OOr, 4); (OXor, 3); (OImp, 2); (OEqv, 1)]%N.

Definition src_arity : list (string * (N * N)) :=
  [("ABS", (1, 1));
   ("ASC", (1, 1));
   ("ATN", (1, 1));
   ("CDBL", (1, 1));
   ("CHR$", (1, 1));
   ("CINT", (1, 1));
   ("COS", (1, 1));
   ("CSNG", (1, 1));
   ("DATE$", (0, 0));
   ("EXP", (1, 1));
   ("FIX", (1, 1));
   ("HEX$", (1, 1));
   ("INKEY$", (0, 0));
   ("INSTR", (2, 3));
   ("INT", (1, 1));
   ("LEFT$", (2, 2));
   ("LEN", (1, 1));
   ("LOG", (1, 1));
   ("MID$", (2, 3));
   ("OCT$", (1, 1));
   ("POS", (0, 1));
   ("RIGHT$", (2, 2));
   ("RND", (0, 1));
   ("SGN", (1, 1));
   ("SIN", (1, 1));
   ("SPC", (1, 1));
   ("SQR", (1, 1));
   ("STR$", (1, 1));
   ("STRING$", (2, 2));
   ("TAB", (1, 1));
   ("TAN", (1, 1));
   ("TIME$", (0, 0));
   ("VAL", (1, 1))]%N.

Definition src_triple_merges : list (operator * operator * operator) :=
  [(OLt, OGt, ONe); (OLt, OEq, OLe); (OEq, OGt, OGe); (OEq, OLt, OLe); (OGt, OLt, ONe); (OGt, OEq, OGe)].

Definition src_double_merges : list (operator * operator * operator) :=
  [(OEq, OGt, OGe); (OEq, OLt, OLe); (OGt, OEq, OGe); (OLt, OEq, OLe); (OLt, OGt, ONe); (OGt, OLt, ONe)].

Definition src_E_Break : N := 0%N.
Definition src_E_NextWithoutFor : N := 1%N.
Definition src_E_SyntaxError : N := 2%N.
Definition src_E_ReturnWithoutGosub : N := 3%N.
Definition src_E_OutOfData : N := 4%N.
Definition src_E_IllegalFunctionCall : N := 5%N.
Definition src_E_Overflow : N := 6%N.
Definition src_E_OutOfMemory : N := 7%N.
Definition src_E_UndefinedLine : N := 8%N.
Definition src_E_SubscriptOutOfRange : N := 9%N.
Definition src_E_RedimensionedArray : N := 10%N.
Definition src_E_DivisionByZero : N := 11%N.
Definition src_E_IllegalDirect : N := 12%N.
Definition src_E_TypeMismatch : N := 13%N.
Definition src_E_OutOfStringSpace : N := 14%N.
Definition src_E_StringTooLong : N := 15%N.
Definition src_E_CantContinue : N := 17%N.
Definition src_E_UndefinedUserFunction : N := 18%N.
Definition src_E_RedoFromStart : N := 21%N.
Definition src_E_LineBufferOverflow : N := 23%N.
Definition src_E_ForWithoutNext : N := 26%N.
Definition src_E_WhileWithoutWend : N := 29%N.
Definition src_E_WendWithoutWhile : N := 30%N.
Definition src_E_InternalError : N := 51%N.
Definition src_E_FileNotFound : N := 53%N.
Definition src_E_FileAlreadyExists : N := 58%N.
Definition src_E_BadFileName : N := 64%N.
Definition src_E_DirectStatementInFile : N := 66%N.

Definition src_max_line_number : N := 65529%N.

Definition src_max_line_len : N := 1024%N.

Definition src_max_pool : N := 65535%N.   (* Stack::max_len = u16::max_value() *)

Definition src_full_headroom : N := 32%N.
