(* C05: & constants.  A hexadecimal or octal constant is listed as the text the scanner reads it from: &H and the digits,
   & and the digits.  Scanning that text again -- in front of anything that is not another digit -- gives the same token. *)
From BL Require Import Base.Prelude Lang.Token Lang.Lex.
From Coq Require Import Lia.
Local Open Scope N_scope.

Definition oct_digit (c : N) : bool := (48 <=? c) && (c <=? 55).
Definition hex_digit (c : N) : bool := oct_digit c || ((56 <=? c) && (c <=? 57)) || ((65 <=? c) && (c <=? 70)).
Definition radix_digit (hex : bool) (c : N) : bool := if hex then hex_digit c else oct_digit c.

(* what follows the constant does not continue it *)
Definition stops (hex : bool) (rest : str) : Prop :=
  match rest with [] => True | c0 :: _ => radix_digit hex (to_upper c0) = false end.
(* the scanner hands the character it stopped at back in upper case *)
Definition handed_back (rest : str) : str := match rest with [] => [] | c0 :: r => to_upper c0 :: r end.

Lemma digit_upper hex c : radix_digit hex c = true -> to_upper c = c.
Proof.
  unfold radix_digit, hex_digit, oct_digit, to_upper, is_lower. intros H.
  destruct (N.leb_spec 97 c); [| reflexivity]. cbn [andb]. destruct (N.leb_spec c 122); [| reflexivity].
  exfalso. destruct hex;
    repeat match type of H with context [?a <=? ?b] => destruct (N.leb_spec a b) end; cbn in H; try discriminate; lia.
Qed.

Lemma radix_test hex c :
  (((48 <=? c) && (c <=? 55)) || (hex && (((56 <=? c) && (c <=? 57)) || ((65 <=? c) && (c <=? 70))))) = radix_digit hex c.
Proof. unfold radix_digit, hex_digit, oct_digit. destruct hex; cbn [andb]; [rewrite Bool.orb_assoc; reflexivity | rewrite Bool.orb_false_r; reflexivity]. Qed.

Lemma radix_loop_reads hex : forall s rest acc, all_b (radix_digit hex) s = true -> stops hex rest ->
  radix_loop (s ++ rest) hex acc = (rev acc ++ s, handed_back rest).
Proof.
  induction s as [| c s IH]; intros rest acc Hs Hr.
  - cbn [app]. rewrite app_nil_r. destruct rest as [| c0 r]; [reflexivity |]. cbn [radix_loop handed_back stops] in *.
    rewrite radix_test, Hr. reflexivity.
  - cbn [all_b] in Hs. apply andb_prop in Hs. destruct Hs as [Hc Hs]. cbn [app radix_loop].
    rewrite (digit_upper hex c Hc), radix_test, Hc. rewrite (IH rest (c :: acc) Hs Hr). cbn [rev]. rewrite <- app_assoc. reflexivity.
Qed.

(* the text behind the & *)
Theorem hex_constant_reads_back : forall s rest, all_b hex_digit s = true -> stops true rest ->
  lex_radix (72 :: s ++ rest) = (TLit (LHex s), handed_back rest).
Proof. intros s rest Hs Hr. cbn [lex_radix]. change ((72 =? 72) || (72 =? 104)) with true. cbv iota. rewrite (radix_loop_reads true s rest [] Hs Hr). reflexivity. Qed.

Theorem oct_constant_reads_back : forall s rest, s <> [] -> all_b oct_digit s = true -> stops false rest ->
  lex_radix (s ++ rest) = (TLit (LOct s), handed_back rest).
Proof.
  intros s rest Hne Hs Hr. destruct s as [| c s']; [contradiction |]. cbn [app lex_radix].
  assert (Hc : oct_digit c = true) by (cbn [all_b] in Hs; apply andb_prop in Hs; tauto).
  assert (Hh : ((c =? 72) || (c =? 104)) = false).
  { unfold oct_digit in Hc. apply andb_prop in Hc. destruct Hc as [H1 H2]. apply N.leb_le in H1, H2.
    apply Bool.orb_false_iff. split; apply N.eqb_neq; lia. }
  rewrite Hh. change (c :: s' ++ rest) with ((c :: s') ++ rest). rewrite (radix_loop_reads false (c :: s') rest [] Hs Hr). reflexivity.
Qed.

(* ... which is the listed text: lit_str is & + H + digits, & + digits *)
Theorem radix_listing_is_the_source_text : forall s, lit_str (LHex s) = 38 :: 72 :: s /\ lit_str (LOct s) = 38 :: s.
Proof. intros s. split; reflexivity. Qed.

Example radix_demo :
  all_b hex_digit [49; 70] = true /\ stops true [32; 43] /\ all_b oct_digit [49; 55] = true /\ stops false [56] /\ stops false [58]
  /\ lex_radix (72 :: [49; 70] ++ [58]) = (TLit (LHex [49; 70]), [58]) /\ lex_radix ([49; 55] ++ [43]) = (TLit (LOct [49; 55]), [43]).
Proof. repeat split; reflexivity. Qed.
