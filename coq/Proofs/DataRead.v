(* C09: READ walks the DATA segment in order; RESTORE, CLEAR and RUN reposition the pointer. *)
From BL Require Import Base.Prelude Base.Floats Mach.Val Mach.Ops Mach.Func Mach.Var
     Lang.Token Lang.Lex Lang.Ast Lang.Parse Mach.Compile Mach.Listing Mach.Runtime.
From Coq Require Import Lia.
Local Open Scope N_scope.

Definition data_of (r : rt) : list val := l_data (pg_link (r_prog r)).
Definition data_pos (r : rt) : N := l_data_pos (pg_link (r_prog r)).

(* one READ: the constant under the pointer goes to the stack and the pointer moves on by one; nothing else moves *)
Theorem read_one : forall r v, nthN (data_of r) (data_pos r) = Some v -> r_slen r + 1 <= MAX_POOL ->
  exists r', do_read r = (r', Ok tt)
    /\ r_stack r' = v :: r_stack r /\ data_pos r' = data_pos r + 1 /\ data_of r' = data_of r
    /\ r_vars r' = r_vars r /\ r_pc r' = r_pc r /\ l_ops (pg_link (r_prog r')) = l_ops (pg_link (r_prog r)).
Proof.
  intros r v Hn Hs. unfold do_read, rbind, rget. unfold data_of, data_pos in *. rewrite Hn. cbn [rmod].
  unfold push. cbn. destruct (N.ltb_spec MAX_POOL (r_slen r + 1)); [lia |].
  eexists. split; [reflexivity |]. cbn. repeat split; reflexivity.
Qed.

(* reading past the last constant is OUT OF DATA and changes nothing *)
Theorem read_past_end : forall r, lenN (data_of r) <= data_pos r -> do_read r = (r, err E_OutOfData).
Proof.
  intros r H. unfold do_read, rbind, rget. unfold data_of, data_pos in *.
  assert (Hn : nthN (l_data (pg_link (r_prog r))) (l_data_pos (pg_link (r_prog r))) = None).
  { unfold nthN. apply nth_error_None. unfold lenN in H. lia. }
  rewrite Hn. reflexivity.
Qed.

(* k READs in a row deliver the k constants from the pointer on, in source order (the last one read is on top) *)
Fixpoint reads (k : nat) : RM unit :=
  match k with O => rret tt | S m => rdo _ <~ do_read ;; reads m end.

Theorem read_sequence : forall k r vs, firstn k (skipnN (data_pos r) (data_of r)) = vs -> length vs = k ->
  r_slen r + N.of_nat k <= MAX_POOL ->
  exists r', reads k r = (r', Ok tt) /\ r_stack r' = rev vs ++ r_stack r /\ data_pos r' = data_pos r + N.of_nat k
             /\ data_of r' = data_of r /\ r_vars r' = r_vars r.
Proof.
  induction k as [| k IH]; intros r vs Hf Hl Hs.
  - destruct vs; [| discriminate]. exists r. cbn. repeat split; try reflexivity. lia.
  - destruct vs as [| v vs]; [discriminate |].
    assert (Hn : nthN (data_of r) (data_pos r) = Some v).
    { unfold nthN, skipnN in *. destruct (skipn (N.to_nat (data_pos r)) (data_of r)) as [| x rest] eqn:Es; [discriminate |].
      cbn in Hf. injection Hf as -> _. rewrite <- (firstn_skipn (N.to_nat (data_pos r)) (data_of r)), Es.
      rewrite nth_error_app2 by (rewrite firstn_length; lia).
      assert (Hlen : (N.to_nat (data_pos r) <= length (data_of r))%nat).
      { destruct (Nat.le_gt_cases (N.to_nat (data_pos r)) (length (data_of r))); [assumption |].
        rewrite skipn_all2 in Es by lia. discriminate. }
      rewrite firstn_length, Nat.min_l by exact Hlen. rewrite Nat.sub_diag. reflexivity. }
    destruct (read_one r v Hn ltac:(lia)) as (r1 & E1 & S1 & P1 & D1 & V1 & _ & _).
    assert (Hf1 : firstn k (skipnN (data_pos r1) (data_of r1)) = vs).
    { rewrite P1, D1. unfold skipnN in *. replace (N.to_nat (data_pos r + 1)) with (S (N.to_nat (data_pos r))) by lia.
      destruct (skipn (N.to_nat (data_pos r)) (data_of r)) as [| x rest] eqn:Es; [discriminate |].
      cbn in Hf. injection Hf as _ Hf.
      replace (skipn (S (N.to_nat (data_pos r))) (data_of r)) with rest; [exact Hf |].
      clear - Es. revert Es. generalize (N.to_nat (data_pos r)). generalize (data_of r).
      induction l as [| y l IHl]; intros m Es; destruct m; cbn in *; try discriminate.
      - injection Es as _ <-. reflexivity.
      - apply IHl. exact Es. }
    assert (Hs1 : r_slen r1 + N.of_nat k <= MAX_POOL).
    { unfold do_read, rbind, rget in E1. unfold data_of, data_pos in Hn. rewrite Hn in E1. cbn [rmod] in E1. unfold push in E1. cbn in E1.
      injection E1 as <- _. cbn. lia. }
    destruct (IH r1 vs Hf1 ltac:(cbn in Hl; lia) Hs1) as (r2 & E2 & S2 & P2 & D2 & V2).
    exists r2. cbn [reads]. unfold rbind. rewrite E1. split; [exact E2 |].
    rewrite S2, S1, P2, P1, D2, D1, V2, V1. cbn [rev]. rewrite <- app_assoc. repeat split; try reflexivity. lia.
Qed.

(* RESTORE moves the pointer to the data address the linker resolved; CLEAR (hence RUN) rewinds it to the first constant *)
Theorem restore_sets_pointer : forall O h a r, data_pos (fst (exec_op O h (OpRestore a) r)) = a
  /\ data_of (fst (exec_op O h (OpRestore a) r)) = data_of r.
Proof. intros. cbn. split; reflexivity. Qed.

Theorem clear_rewinds : forall O r, data_pos (fst (do_clear O r)) = 0 /\ data_of (fst (do_clear O r)) = data_of r.
Proof. intros. cbn. split; reflexivity. Qed.

(* a line's symbol carries the number of constants that precede the line: RESTORE n lands on the first constant at or after line n *)
Theorem line_symbol_data_address : forall n l l', l_push_symbol n l = (l', Ok tt) ->
  exists a, zassoc_get n (l_syms l') = Some (a, lenN (l_data l)).
Proof.
  intros n l l' H. unfold l_push_symbol in H. injection H as <-. cbn. exists (lenN (l_ops l)).
  induction (l_syms l) as [| [k v] t IH]; cbn.
  - rewrite Z.eqb_refl. reflexivity.
  - destruct (Z.eqb_spec n k) as [-> | Hne]; cbn; [rewrite Z.eqb_refl; reflexivity |].
    destruct (Z.eqb_spec n k); [contradiction | exact IH].
Qed.
