(* C13 -- interrupt and CONT are transparent: Proofs/ContTrip.v brings the machine back up to three fields, Proofs/DeadFields.v
   shows that no run reads them; together: the calls after CONT return the events the uninterrupted machine would have returned. *)
From BL Require Import Base.Prelude Base.Floats Mach.Val Mach.Ops Mach.Func Mach.Var
     Lang.Token Lang.Lex Lang.Ast Lang.Parse Mach.Compile Mach.Listing Mach.Runtime Proofs.RMFrame Proofs.Dirty Proofs.Slicing Proofs.ContTrip Proofs.DeadFields.
From Coq Require Import Lia.
Local Open Scope N_scope.

Section ContRun.
Variable O : oracle.

(* the same answer, on machines that differ in the three fields *)
Definition same_up_to (ops : list opcode) (x y : res (rt * event)) : Prop :=
  match y with
  | Ok (r3, e) => exists c t, x = Ok (L c t ops r3, e)
  | Err e => x = Err e
  | Panic => x = Panic
  | Hang => x = Hang
  end.

Lemma after_loop_lens : forall c t ops r2 x,
  same_up_to ops (after_loop (L c t ops r2, x)) (after_loop (r2, x)).
Proof.
  intros c t ops r2 x.
  destruct x as [ev | e | |]; cbn [after_loop]; try reflexivity.
  - change (r_state (L c t ops r2)) with (r_state r2).
    destruct (r_state r2); try (cbn [same_up_to]; do 2 eexists; reflexivity).
    destruct ev; try (cbn [same_up_to]; do 2 eexists; reflexivity).
    unfold ready_prompt. change (r_entry (L c t ops r2)) with (r_entry r2).
    destruct (negb (r_entry r2 =? 0)); [| cbn [same_up_to]; do 2 eexists; reflexivity].
    lens_cbn. destruct (0 <? r_col r2); cbn [same_up_to]; do 2 eexists; reflexivity.
  - change (r_state (L c t ops r2)) with (r_state r2).
    destruct (r_state r2);
      try (lens_cbn; unfold stack_is_full; lens_cbn;
           match goal with |- context [if ?b then _ else _] => destruct b end; cbn [same_up_to]; do 2 eexists; reflexivity).
    change (r_stack (L c t ops r2)) with (r_stack r2). destruct (unwind_input (r_stack r2)) as [s [a |]];
      cbn [same_up_to]; do 2 eexists; reflexivity.
Qed.

Definition has_ind (r : rt) : bool := match ls_ind_errors (r_listing r) with [] => false | _ => true end.

(* one execute() call of a running machine *)
Theorem execute_ignores_dead_fields : forall r k e0 c t ops,
  r_state r = StRunning -> ls_dir_errors (r_listing r) = [] ->
  safe_run O e0 (N.to_nat k) (has_ind r) r -> firstnN e0 ops = firstnN e0 (l_ops (pg_link (r_prog r))) ->
  same_up_to ops (rt_execute O (L c t ops r) k) (rt_execute O r k).
Proof.
  intros r k e0 c t ops Hs Hd Hsafe Hag.
  rewrite (exec_running O r k Hs Hd). rewrite (exec_running O (L c t ops r) k) by assumption.
  change (r_listing (L c t ops r)) with (r_listing r). fold (has_ind r).
  destruct (run_ignores_dead_fields O (N.to_nat k) (has_ind r) e0 r c t ops Hsafe Hag) as [c' [t' E]]. rewrite E.
  destruct (exec_loop O (N.to_nat k) (has_ind r) r) as [r2 x]. cbn [fst snd]. apply after_loop_lens.
Qed.

(* ---------- the statement of C13 for interrupts ---------- *)
(* what RUN leaves behind besides a linked program *)
Definition tidy (r : rt) : Prop :=
  r_cont r = StStopped /\ r_listing r = mkListing (ls_lines (r_listing r)) (pg_ind_errors (r_prog r)) []
  /\ pg_errors (r_prog r) = [] /\ pg_line (r_prog r) = None.

Lemma resumed_is_lens : forall r, r_state r = StRunning -> r_pc r < r_entry r -> r_col r = 0 -> Linked (r_prog r) -> tidy r ->
  r_entry r = pg_direct (r_prog r) ->
  resumed (at_prompt (rt_interrupt r))
  = L (r_pc r) None (firstnN (pg_direct (r_prog r)) (l_ops (pg_link (r_prog r))) ++ [OpCont; OpEnd]) r.
Proof.
  intros r Hs Hpc Hcol HL (Hc & Hl & Hpe & Hpl) He. rewrite (interrupt_in_program r Hpc), Hs.
  destruct HL as [Hu Hw Hcu _ _ _ _ _ _].
  destruct r as [prompt listing snap dirty prog pc tr tron entry stack slen vars state cont cont_pc col rand fns ent].
  destruct prog as [perrs pind pdir pline plink]. destruct plink as [lcur lops ldata ldpos ldset lsyms lunl lwh].
  cbn in Hs, Hcol, Hu, Hw, Hcu, Hc, Hl, Hpe, Hpl, He. subst.
  unfold resumed, entered, at_prompt, cont_prog, L, with_ops. cbn. rewrite Hl. reflexivity.
Qed.

Theorem interrupt_is_transparent : forall r k,
  r_state r = StRunning -> r_pc r < r_entry r -> r_dirty r = false -> r_tron r = false -> Linked (r_prog r) ->
  r_entry r = pg_direct (r_prog r) -> r_col r = 0 -> tidy r ->
  safe_run O (r_entry r) (N.to_nat k) (has_ind r) r ->
  let rB := at_prompt (rt_interrupt r) in
  rt_enter O rB cont_text = Ok (entered rB, true)
  /\ same_up_to (firstnN (pg_direct (r_prog r)) (l_ops (pg_link (r_prog r))) ++ [OpCont; OpEnd])
                (rt_execute O (entered rB) (N.succ k)) (rt_execute O r k).
Proof.
  intros r k Hs Hpc Hd Ht HL He Hcol Htidy Hsafe. cbn zeta.
  destruct (interrupt_cont_round_trip O r k Hs Hpc Hd Ht HL He) as (H1 & H2 & _). split; [exact H1 |].
  rewrite H2. rewrite (resumed_is_lens r Hs Hpc Hcol HL Htidy He).
  destruct Htidy as (Hc & Hl & _).
  apply (execute_ignores_dead_fields r k (r_entry r)); [exact Hs | rewrite Hl; reflexivity | exact Hsafe |].
  rewrite He. destruct HL as [_ _ _ _ _ _ Hlen _ _].
  rewrite firstnN_app_le by (rewrite lenN_firstnN by assumption; lia).
  unfold firstnN. rewrite firstn_firstn, Nat.min_id. reflexivity.
Qed.

(* ---------- the calls that follow, for as long as the machine keeps running ---------- *)
Fixpoint safe_calls (e0 : N) (ks : list N) (r : rt) : Prop :=
  match ks with
  | [] => True
  | k :: ks' => r_state r = StRunning /\ ls_dir_errors (r_listing r) = [] /\ safe_run O e0 (N.to_nat k) (has_ind r) r /\
                match rt_execute O r k with Ok (r3, _) => safe_calls e0 ks' r3 | _ => True end
  end.

Definition same_trace (ops : list opcode) (x y : res (rt * list event)) : Prop :=
  match y with
  | Ok (r3, evs) => exists c t, x = Ok (L c t ops r3, evs)
  | Err e => x = Err e
  | Panic => x = Panic
  | Hang => x = Hang
  end.

Theorem calls_ignore_dead_fields : forall ks r e0 c t ops,
  forallb not_edit (l_ops (pg_link (r_prog r))) = true ->
  safe_calls e0 ks r -> firstnN e0 ops = firstnN e0 (l_ops (pg_link (r_prog r))) ->
  same_trace ops (execs O (L c t ops r) ks) (execs O r ks).
Proof.
  induction ks as [| k ks IH]; intros r e0 c t ops Hno Hsafe Hag; [cbn [execs same_trace]; do 2 eexists; reflexivity |].
  destruct Hsafe as (Hs & Hd & Hrun & Hnext). cbn [execs].
  pose proof (execute_ignores_dead_fields r k e0 c t ops Hs Hd Hrun Hag) as H1.
  destruct (rt_execute O r k) as [[r3 ev] | e | |] eqn:E; cbn [same_up_to] in H1; cbn [bind].
  - destruct H1 as [c1 [t1 E1]]. rewrite E1. cbn [bind fst snd].
    destruct (noedit_execute_frame O r k r3 ev Hno E) as (_ & _ & Hops).
    assert (Hno3 : forallb not_edit (l_ops (pg_link (r_prog r3))) = true) by (rewrite Hops; exact Hno).
    assert (Hag3 : firstnN e0 ops = firstnN e0 (l_ops (pg_link (r_prog r3)))) by (rewrite Hops; exact Hag).
    pose proof (IH r3 e0 c1 t1 ops Hno3 Hnext Hag3) as H2.
    destruct (execs O r3 ks) as [[r4 evs] | e | |]; cbn [same_trace] in H2 |- *; cbn [bind fst snd].
    + destruct H2 as [c2 [t2 E2]]. rewrite E2. cbn [bind fst snd]. do 2 eexists; reflexivity.
    + rewrite H2. reflexivity.
    + rewrite H2. reflexivity.
    + rewrite H2. reflexivity.
  - rewrite H1. reflexivity.
  - rewrite H1. reflexivity.
  - rewrite H1. reflexivity.
Qed.

(* deciding the premise on a given machine *)
Fixpoint safe_run_b (e0 : N) (fuel : nat) (h : bool) (r : rt) : bool :=
  match fuel with
  | 0%nat => true
  | S f => (r_pc r <? e0) && negb (r_tron r) && is_stopped (r_cont r) &&
           match one_op O h r with (r2, Ok None) => safe_run_b e0 f h r2 | _ => true end
  end.

Lemma safe_run_b_ok : forall fuel e0 h r, safe_run_b e0 fuel h r = true -> safe_run O e0 fuel h r.
Proof.
  induction fuel as [| f IH]; intros e0 h r H; [exact I |]. cbn [safe_run_b] in H. cbn [safe_run].
  repeat (apply andb_prop in H; destruct H as [H ?]).
  split; [apply N.ltb_lt; assumption |]. split; [destruct (r_tron r); [discriminate | reflexivity] |].
  split; [destruct (r_cont r); try discriminate; reflexivity |].
  destruct (one_op O h r) as [r2 [[ev |] | e | |]]; try exact I. apply IH. assumption.
Qed.
End ContRun.

(* ---------- non-vacuity: a loop interrupted inside a comparison, cursor in column 0 ---------- *)
From BL Require Import Drv.Driver.
Require Import String.

Definition loop_machine : rt :=
  let O := dummy_oracle in
  let r0 := ok_ex (rt_execute O rt_default 5000) in
  let r1 := ok_rt (rt_enter O r0 (s2l "10 A=A+1")) in
  let r2 := ok_rt (rt_enter O r1 (s2l "20 IF A<9 THEN 10")) in
  let r3 := ok_rt (rt_enter O r2 (s2l "30 PRINT A;")) in
  let r4 := ok_ex (rt_execute O r3 5000) in
  let r5 := ok_rt (rt_enter O r4 (s2l "RUN")) in
  ok_ex (rt_execute O r5 8).

Example transparent_premises :
  let r := loop_machine in
  r_state r = StRunning /\ r_pc r < r_entry r /\ r_dirty r = false /\ r_tron r = false /\ Linked (r_prog r)
  /\ r_entry r = pg_direct (r_prog r) /\ r_col r = 0 /\ tidy r /\ r_stack r <> nil
  /\ safe_run dummy_oracle (r_entry r) (N.to_nat 200) (has_ind r) r
  /\ forallb not_edit (l_ops (pg_link (r_prog r))) = true.
Proof.
  cbn zeta. split; [vm_compute; reflexivity |]. split; [vm_compute; reflexivity |]. split; [vm_compute; reflexivity |].
  split; [vm_compute; reflexivity |]. split; [apply linked_b_ok; vm_compute; reflexivity |]. split; [vm_compute; reflexivity |].
  split; [vm_compute; reflexivity |]. split; [unfold tidy; vm_compute; repeat split |].
  split; [vm_compute; discriminate |]. split; [apply safe_run_b_ok; vm_compute; reflexivity | vm_compute; reflexivity].
Qed.

(* and the statement on this machine, computed: the CONT call with budget 201 prints what the uninterrupted call with budget 200 prints *)
Example transparent_on_loop_machine :
  let r := loop_machine in
  match rt_execute dummy_oracle (entered (at_prompt (rt_interrupt r))) 201, rt_execute dummy_oracle r 200 with
  | Ok (_, e1), Ok (_, e2) => e1 = e2 /\ e1 = EvPrint (s2l " 9 ")
  | _, _ => False
  end.
Proof. vm_compute. split; reflexivity. Qed.
