(* C13 -- interrupt and CONT are transparent: Proofs/ContTrip.v brings the machine back up to three fields, Proofs/DeadFields.v
   shows that no run reads them; together: the calls after CONT return the events the uninterrupted machine would have returned. *)
From BL Require Import Base.Prelude Base.Floats Mach.Val Mach.Ops Mach.Func Mach.Var
     Lang.Token Lang.Lex Lang.Ast Lang.Parse Mach.Compile Mach.Listing Mach.Runtime Proofs.RMFrame Proofs.Dirty Proofs.Slicing Proofs.ContTrip Proofs.DeadFields.
From Coq Require Import Lia.
Local Open Scope N_scope.

Section ContRun.
Variable O : oracle.

(* the same answer, on machines that differ in the three fields *)
Definition same_up_to (ops : list opcode) (x y : res (rt * event)) : Prop :=
  match y with
  | Ok (r3, e) => exists c t, x = Ok (L c t ops r3, e)
  | Err e => x = Err e
  | Panic => x = Panic
  | Hang => x = Hang
  end.

Lemma after_loop_lens : forall c t ops r2 x,
  same_up_to ops (after_loop (L c t ops r2, x)) (after_loop (r2, x)).
Proof.
  intros c t ops r2 x.
  destruct x as [ev | e | |]; cbn [after_loop]; try reflexivity.
  - change (r_state (L c t ops r2)) with (r_state r2).
    destruct (r_state r2); try (cbn [same_up_to]; do 2 eexists; reflexivity).
    destruct ev; try (cbn [same_up_to]; do 2 eexists; reflexivity).
    unfold ready_prompt. change (r_entry (L c t ops r2)) with (r_entry r2).
    destruct (negb (r_entry r2 =? 0)); [| cbn [same_up_to]; do 2 eexists; reflexivity].
    lens_cbn. destruct (0 <? r_col r2); cbn [same_up_to]; do 2 eexists; reflexivity.
  - change (r_state (L c t ops r2)) with (r_state r2).
    destruct (r_state r2);
      try (lens_cbn; unfold stack_is_full; lens_cbn;
           match goal with |- context [if ?b then _ else _] => destruct b end; cbn [same_up_to]; do 2 eexists; reflexivity).
    change (r_stack (L c t ops r2)) with (r_stack r2). destruct (unwind_input (r_stack r2)) as [s [a |]];
      cbn [same_up_to]; do 2 eexists; reflexivity.
Qed.

Definition has_ind (r : rt) : bool := match ls_ind_errors (r_listing r) with [] => false | _ => true end.

(* one execute() call of a running machine *)
Theorem execute_ignores_dead_fields : forall r k e0 c t ops,
  r_state r = StRunning -> ls_dir_errors (r_listing r) = [] ->
  safe_run O e0 (N.to_nat k) (has_ind r) r -> firstnN e0 ops = firstnN e0 (l_ops (pg_link (r_prog r))) ->
  same_up_to ops (rt_execute O (L c t ops r) k) (rt_execute O r k).
Proof.
  intros r k e0 c t ops Hs Hd Hsafe Hag.
  rewrite (exec_running O r k Hs Hd). rewrite (exec_running O (L c t ops r) k) by assumption.
  change (r_listing (L c t ops r)) with (r_listing r). fold (has_ind r).
  destruct (run_ignores_dead_fields O (N.to_nat k) (has_ind r) e0 r c t ops Hsafe Hag) as [c' [t' E]]. rewrite E.
  destruct (exec_loop O (N.to_nat k) (has_ind r) r) as [r2 x]. cbn [fst snd]. apply after_loop_lens.
Qed.

(* ---------- the statement of C13 for interrupts ---------- *)
(* what RUN leaves behind besides a linked program *)
Definition tidy (r : rt) : Prop :=
  r_cont r = StStopped /\ r_listing r = mkListing (ls_lines (r_listing r)) (pg_ind_errors (r_prog r)) []
  /\ pg_errors (r_prog r) = [] /\ pg_line (r_prog r) = None.

Lemma resumed_is_lens : forall r, r_state r = StRunning -> r_pc r < r_entry r -> r_col r = 0 -> Linked (r_prog r) -> tidy r ->
  r_entry r = pg_direct (r_prog r) ->
  resumed (at_prompt (rt_interrupt r))
  = L (r_pc r) None (firstnN (pg_direct (r_prog r)) (l_ops (pg_link (r_prog r))) ++ [OpCont; OpEnd]) r.
Proof.
  intros r Hs Hpc Hcol HL (Hc & Hl & Hpe & Hpl) He. rewrite (interrupt_in_program r Hpc), Hs.
  destruct HL as [Hu Hw Hcu _ _ _ _ _ _].
  destruct r as [prompt listing snap dirty prog pc tr tron entry stack slen vars state cont cont_pc col rand fns ent].
  destruct prog as [perrs pind pdir pline plink]. destruct plink as [lcur lops ldata ldpos ldset lsyms lunl lwh].
  cbn in Hs, Hcol, Hu, Hw, Hcu, Hc, Hl, Hpe, Hpl, He. subst.
  unfold resumed, entered, at_prompt, cont_prog, L, with_ops. cbn. rewrite Hl. reflexivity.
Qed.

Theorem interrupt_is_transparent : forall r k,
  r_state r = StRunning -> r_pc r < r_entry r -> r_dirty r = false -> r_tron r = false -> Linked (r_prog r) ->
  r_entry r = pg_direct (r_prog r) -> r_col r = 0 -> tidy r ->
  safe_run O (r_entry r) (N.to_nat k) (has_ind r) r ->
  let rB := at_prompt (rt_interrupt r) in
  rt_enter O rB cont_text = Ok (entered rB, true)
  /\ same_up_to (firstnN (pg_direct (r_prog r)) (l_ops (pg_link (r_prog r))) ++ [OpCont; OpEnd])
                (rt_execute O (entered rB) (N.succ k)) (rt_execute O r k).
Proof.
  intros r k Hs Hpc Hd Ht HL He Hcol Htidy Hsafe. cbn zeta.
  destruct (interrupt_cont_round_trip O r k Hs Hpc Hd Ht HL He) as (H1 & H2 & _). split; [exact H1 |].
  rewrite H2. rewrite (resumed_is_lens r Hs Hpc Hcol HL Htidy He).
  destruct Htidy as (Hc & Hl & _).
  apply (execute_ignores_dead_fields r k (r_entry r)); [exact Hs | rewrite Hl; reflexivity | exact Hsafe |].
  rewrite He. destruct HL as [_ _ _ _ _ _ Hlen _ _].
  rewrite firstnN_app_le by (rewrite lenN_firstnN by assumption; lia).
  unfold firstnN. rewrite firstn_firstn, Nat.min_id. reflexivity.
Qed.

(* ---------- STOP ---------- *)
(* the machine the STOP instruction leaves behind: the error path of execute() has saved state and address *)
Definition stopped_at (r : rt) : rt :=
  let r2 := set_pc r (r_pc r + 1) in
  set_cont_pc (set_cont (set_state r2 (StRuntimeError (in_line (mkErr E_Break None (0, 0)) (cur_line r2)))) StRunning) (r_pc r2).

Lemma stop_stops : forall r j, r_state r = StRunning -> ls_dir_errors (r_listing r) = [] -> r_tron r = false ->
  nthN (l_ops (pg_link (r_prog r))) (r_pc r) = Some OpStop -> r_pc r + 1 < r_entry r -> stack_is_full r = false ->
  rt_execute O r (N.succ j) = Ok (stopped_at r, EvRunning).
Proof.
  intros r j Hs Hd Ht Hop Hpc Hfull. rewrite (exec_running O r (N.succ j) Hs Hd). rewrite N2Nat.inj_succ.
  rewrite (exec_loop_S_notron O _ _ r Ht). rewrite one_op_eq, Hop. cbn [exec_op]. unfold rfail, err. cbn [after_loop].
  change (r_state (set_pc r (r_pc r + 1))) with (r_state r). rewrite Hs.
  cbn [r_entry r_pc set_cont_pc set_cont set_state set_pc].
  destruct (N.leb_spec (r_entry r) (r_pc r + 1)); [lia |]. cbn [orb].
  assert (Hf : stack_is_full (set_cont_pc (set_cont (set_state (set_pc r (r_pc r + 1))
                 (StRuntimeError (in_line (mkErr E_Break None (0, 0)) (cur_line (set_pc r (r_pc r + 1)))))) StRunning) (r_pc r + 1)) = false)
    by exact Hfull.
  rewrite Hf. reflexivity.
Qed.

Lemma resumed_after_stop : forall r, r_state r = StRunning -> r_col r = 0 -> Linked (r_prog r) -> tidy r ->
  r_entry r = pg_direct (r_prog r) ->
  resumed (at_prompt (stopped_at r))
  = L (r_pc r + 1) None (firstnN (pg_direct (r_prog r)) (l_ops (pg_link (r_prog r))) ++ [OpCont; OpEnd]) (set_pc r (r_pc r + 1)).
Proof.
  intros r Hs Hcol HL (Hc & Hl & Hpe & Hpl) He.
  destruct HL as [Hu Hw Hcu _ _ _ _ _ _].
  destruct r as [prompt listing snap dirty prog pc tr tron entry stack slen vars state cont cont_pc col rand fns ent].
  destruct prog as [perrs pind pdir pline plink]. destruct plink as [lcur lops ldata ldpos ldset lsyms lunl lwh].
  cbn in Hs, Hcol, Hu, Hw, Hcu, Hc, Hl, Hpe, Hpl, He. subst.
  unfold resumed, entered, at_prompt, stopped_at, cont_prog, L, with_ops. cbn. rewrite Hl. reflexivity.
Qed.

(* STOP, the report, the prompt, CONT: the call returns what the machine would have returned had STOP been skipped *)
Theorem stop_is_transparent : forall r j k k1 k2 k3,
  r_state r = StRunning -> r_pc r + 1 < r_entry r -> r_dirty r = false -> r_tron r = false -> Linked (r_prog r) ->
  r_entry r = pg_direct (r_prog r) -> r_col r = 0 -> tidy r -> stack_is_full r = false ->
  nthN (l_ops (pg_link (r_prog r))) (r_pc r) = Some OpStop ->
  let r2 := set_pc r (r_pc r + 1) in
  safe_run O (r_entry r) (N.to_nat k) (has_ind r) r2 ->
  let rS := stopped_at r in
  let rB := at_prompt rS in
  rt_execute O r (N.succ j) = Ok (rS, EvRunning)
  /\ execs O rS [k1; k2; k3] = Ok (rB, [EvErrors [in_line (mkErr E_Break None (0, 0)) (cur_line r2)];
                                          EvPrint (match r_prompt r with [] => [] | p => p ++ [c_nl] end); EvStopped])
  /\ rt_enter O rB cont_text = Ok (entered rB, true)
  /\ same_up_to (firstnN (pg_direct (r_prog r)) (l_ops (pg_link (r_prog r))) ++ [OpCont; OpEnd])
                (rt_execute O (entered rB) (N.succ k)) (rt_execute O r2 k).
Proof.
  intros r j k k1 k2 k3 Hs Hpc Hd Ht HL He Hcol Htidy Hfull Hop. cbn zeta. intros Hsafe.
  assert (Hdir : ls_dir_errors (r_listing r) = []) by (destruct Htidy as (_ & Hl & _); rewrite Hl; reflexivity).
  split; [exact (stop_stops r j Hs Hdir Ht Hop Hpc Hfull) |].
  assert (HeS : r_entry (stopped_at r) <> 0) by (cbn; lia).
  pose proof (error_then_prompt O (stopped_at r) _ k1 k1 k2 k3 eq_refl HeS) as Hprompt. cbn zeta in Hprompt.
  change (r_col (stopped_at r)) with (r_col r) in Hprompt. rewrite Hcol in Hprompt. cbn [N.ltb N.compare] in Hprompt.
  split; [exact Hprompt |].
  assert (HLB : Linked (r_prog (at_prompt (stopped_at r)))) by exact HL.
  destruct (cont_at_prompt_resumes O (at_prompt (stopped_at r)) k I eq_refl Hd Ht HLB) as (H1 & H2 & _).
  split; [exact H1 |]. rewrite H2. rewrite (resumed_after_stop r Hs Hcol HL Htidy He).
  destruct Htidy as (Hc & Hl & _).
  apply (execute_ignores_dead_fields (set_pc r (r_pc r + 1)) k (r_entry r)); [exact Hs | exact Hdir | exact Hsafe |].
  cbn [r_prog set_pc]. rewrite He. destruct HL as [_ _ _ _ _ _ Hlen _ _].
  rewrite firstnN_app_le by (rewrite lenN_firstnN by assumption; lia).
  unfold firstnN. rewrite firstn_firstn, Nat.min_id. reflexivity.
Qed.

(* ---------- END ---------- *)
(* the machine at the prompt after an END statement inside the program *)
Definition ended_at (r : rt) : rt :=
  let r2 := set_pc r (r_pc r + 1) in
  set_entry (set_state (set_cont_pc (set_state (set_cont r2 StRunning) (r_cont r)) (r_pc r2)) StStopped) 0.

Lemma end_ends : forall r j, r_state r = StRunning -> ls_dir_errors (r_listing r) = [] -> r_tron r = false ->
  nthN (l_ops (pg_link (r_prog r))) (r_pc r) = Some OpEnd -> r_pc r + 1 < r_entry r -> r_col r = 0 ->
  rt_execute O r (N.succ j) = Ok (ended_at r, EvPrint (match r_prompt r with [] => [] | p => p ++ [c_nl] end)).
Proof.
  intros r j Hs Hd Ht Hop Hpc Hcol. rewrite (exec_running O r (N.succ j) Hs Hd). rewrite N2Nat.inj_succ.
  rewrite (exec_loop_S_notron O _ _ r Ht). rewrite one_op_eq, Hop. cbn [exec_op]. unfold rbind, do_end.
  cbn [r_pc r_entry set_pc]. destruct (N.ltb_spec (r_pc r + 1) (r_entry r)); [| lia].
  cbn [r_pc r_entry set_cont_pc set_state set_cont set_pc r_state r_cont].
  destruct (N.eqb_spec (r_pc r + 1) (r_entry r)); [lia |]. unfold rret. cbn [after_loop r_state set_state].
  unfold ready_prompt. cbn [r_entry set_state set_cont_pc set_cont set_pc].
  destruct (N.eqb_spec (r_entry r) 0); [lia |]. cbn [negb r_col set_entry set_state set_cont_pc set_cont set_pc]. rewrite Hcol.
  cbn [N.ltb N.compare app r_prompt set_entry set_state set_cont_pc set_cont set_pc]. rewrite Hs. reflexivity.
Qed.

Lemma resumed_after_end : forall r, r_state r = StRunning -> r_col r = 0 -> Linked (r_prog r) -> tidy r ->
  r_entry r = pg_direct (r_prog r) ->
  resumed (ended_at r)
  = L (r_pc r + 1) None (firstnN (pg_direct (r_prog r)) (l_ops (pg_link (r_prog r))) ++ [OpCont; OpEnd]) (set_pc r (r_pc r + 1)).
Proof.
  intros r Hs Hcol HL (Hc & Hl & Hpe & Hpl) He.
  destruct HL as [Hu Hw Hcu _ _ _ _ _ _].
  destruct r as [prompt listing snap dirty prog pc tr tron entry stack slen vars state cont cont_pc col rand fns ent].
  destruct prog as [perrs pind pdir pline plink]. destruct plink as [lcur lops ldata ldpos ldset lsyms lunl lwh].
  cbn in Hs, Hcol, Hu, Hw, Hcu, Hc, Hl, Hpe, Hpl, He. subst.
  unfold resumed, entered, ended_at, cont_prog, L, with_ops. cbn. rewrite Hl. reflexivity.
Qed.

(* END, the prompt, CONT: the call returns what the machine would have returned had END been skipped *)
Theorem end_is_transparent : forall r j k,
  r_state r = StRunning -> r_pc r + 1 < r_entry r -> r_dirty r = false -> r_tron r = false -> Linked (r_prog r) ->
  r_entry r = pg_direct (r_prog r) -> r_col r = 0 -> tidy r ->
  nthN (l_ops (pg_link (r_prog r))) (r_pc r) = Some OpEnd ->
  let r2 := set_pc r (r_pc r + 1) in
  safe_run O (r_entry r) (N.to_nat k) (has_ind r) r2 ->
  let rB := ended_at r in
  rt_execute O r (N.succ j) = Ok (rB, EvPrint (match r_prompt r with [] => [] | p => p ++ [c_nl] end))
  /\ rt_enter O rB cont_text = Ok (entered rB, true)
  /\ same_up_to (firstnN (pg_direct (r_prog r)) (l_ops (pg_link (r_prog r))) ++ [OpCont; OpEnd])
                (rt_execute O (entered rB) (N.succ k)) (rt_execute O r2 k).
Proof.
  intros r j k Hs Hpc Hd Ht HL He Hcol Htidy Hop. cbn zeta. intros Hsafe.
  assert (Hdir : ls_dir_errors (r_listing r) = []) by (destruct Htidy as (_ & Hl & _); rewrite Hl; reflexivity).
  split; [exact (end_ends r j Hs Hdir Ht Hop Hpc Hcol) |].
  assert (HLB : Linked (r_prog (ended_at r))) by exact HL.
  assert (HcB : r_cont (ended_at r) = StRunning) by reflexivity.
  destruct (cont_at_prompt_resumes O (ended_at r) k I HcB Hd Ht HLB) as (H1 & H2 & _).
  split; [exact H1 |]. rewrite H2. rewrite (resumed_after_end r Hs Hcol HL Htidy He).
  apply (execute_ignores_dead_fields (set_pc r (r_pc r + 1)) k (r_entry r)); [exact Hs | exact Hdir | exact Hsafe |].
  cbn [r_prog set_pc]. rewrite He. destruct HL as [_ _ _ _ _ _ Hlen _ _].
  rewrite firstnN_app_le by (rewrite lenN_firstnN by assumption; lia).
  unfold firstnN. rewrite firstn_firstn, Nat.min_id. reflexivity.
Qed.

(* ---------- an interrupt while the program waits at an INPUT prompt ---------- *)
Lemma lensed_execute_input : lensed execute_input.
Proof. unfold execute_input. lz. Qed.

(* a call in the prompt state: the prompt event (or the error) is the same *)
Theorem prompt_ignores_dead_fields : forall r k c t ops, r_state r = StInput ->
  same_up_to ops (rt_execute O (L c t ops r) k) (rt_execute O r k).
Proof.
  intros r k c t ops Hs. unfold rt_execute. change (r_state (L c t ops r)) with (r_state r). rewrite Hs.
  destruct (lensed_execute_input c t ops r) as [c1 [t1 E]]. rewrite E.
  destruct (execute_input r) as [r1 [ev | e | |]]; cbn [fst snd bind same_up_to].
  - do 2 eexists. reflexivity.
  - (* the error is reported through the error state on the next call; this call answers the forced line break or the error *)
    cbn [r_state set_state r_col]. change (r_col (L c1 t1 ops r1)) with (r_col r1).
    change (cur_line (L c1 t1 ops r1)) with (cur_line r1).
    destruct (0 <? r_col r1); cbn [same_up_to]; do 2 eexists; reflexivity.
  - reflexivity.
  - reflexivity.
Qed.

Lemma resumed_in_wait : forall r, r_state r = StInput -> r_pc r < r_entry r -> r_col r = 0 -> Linked (r_prog r) -> tidy r ->
  r_entry r = pg_direct (r_prog r) ->
  resumed (at_prompt (rt_interrupt r))
  = L (r_pc r) None (firstnN (pg_direct (r_prog r)) (l_ops (pg_link (r_prog r))) ++ [OpCont; OpEnd]) r.
Proof.
  intros r Hs Hpc Hcol HL (Hc & Hl & Hpe & Hpl) He. rewrite (interrupt_in_program r Hpc), Hs.
  destruct HL as [Hu Hw Hcu _ _ _ _ _ _].
  destruct r as [prompt listing snap dirty prog pc tr tron entry stack slen vars state cont cont_pc col rand fns ent].
  destruct prog as [perrs pind pdir pline plink]. destruct plink as [lcur lops ldata ldpos ldset lsyms lunl lwh].
  cbn in Hs, Hcol, Hu, Hw, Hcu, Hc, Hl, Hpe, Hpl, He. subst.
  unfold resumed, entered, at_prompt, cont_prog, L, with_ops. cbn. rewrite Hl. reflexivity.
Qed.

(* interrupt at the prompt, ?BREAK, READY, CONT: the CONT call gives control back at once, and the next call asks the same question *)
Theorem interrupt_at_prompt_is_transparent : forall r k k',
  r_state r = StInput -> r_pc r < r_entry r -> r_dirty r = false -> r_tron r = false -> Linked (r_prog r) ->
  r_entry r = pg_direct (r_prog r) -> r_col r = 0 -> tidy r ->
  let rB := at_prompt (rt_interrupt r) in
  rt_enter O rB cont_text = Ok (entered rB, true)
  /\ rt_execute O (entered rB) (N.succ k) = Ok (resumed rB, EvRunning)
  /\ same_up_to (firstnN (pg_direct (r_prog r)) (l_ops (pg_link (r_prog r))) ++ [OpCont; OpEnd])
                (rt_execute O (resumed rB) k') (rt_execute O r k').
Proof.
  intros r k k' Hs Hpc Hd Ht HL He Hcol Htidy. cbn zeta.
  rewrite (interrupt_in_program r Hpc), Hs.
  set (rB := at_prompt (set_cont_pc (set_cont (set_state r StInterrupt) StInput) (r_pc r))).
  assert (HdB : r_dirty rB = false) by exact Hd.
  assert (HLB : Linked (r_prog rB)) by exact HL.
  assert (HtB : r_tron rB = false) by exact Ht.
  split; [rewrite enter_cont by exact I; rewrite (enter_direct_cont rB HdB HLB); reflexivity |].
  split.
  - rewrite exec_running by reflexivity. rewrite N2Nat.inj_succ.
    rewrite (cont_instruction_waits O rB _ _ HdB HLB HtB eq_refl eq_refl). reflexivity.
  - pose proof (resumed_in_wait r Hs Hpc Hcol HL Htidy He) as E. rewrite (interrupt_in_program r Hpc), Hs in E. fold rB in E.
    rewrite E. apply prompt_ignores_dead_fields. exact Hs.
Qed.

(* ---------- the reply to the prompt, and the instructions that store its fields ---------- *)
Lemma enter_input_lens : forall r s c t ops, exists c' t', enter_input O (L c t ops r) s = L c' t' ops (enter_input O r s).
Proof.
  intros r s c t ops. unfold enter_input. destruct (MAX_LINE_LEN <? utf8_len s); [do 2 eexists; reflexivity |].
  change (r_stack (L c t ops r)) with (r_stack r). change (r_pc (L c t ops r)) with (r_pc r).
  destruct (r_stack r) as [| v st]; [destruct (lensed_do_clear O c t ops r) as [c1 [t1 E]]; rewrite E; do 2 eexists; reflexivity |].
  destruct v; try (destruct (lensed_do_clear O c t ops r) as [c1 [t1 E]]; rewrite E; do 2 eexists; reflexivity).
  match goal with |- context [if ?b then set_state _ StInputRedo else _] => destruct b end; [do 2 eexists; reflexivity |].
  match goal with |- context [match ?m (L c t ops r) with _ => _ end] =>
    assert (Hm : lensed m) by (apply lensed_bind; [apply lensed_push | intros _];
                               apply lensed_bind; [apply lensed_fold_push; apply lensed_ret | intros _];
                               apply lensed_rmod; intros; lens_cbn; do 2 eexists; reflexivity);
    destruct (Hm c t ops r) as [c1 [t1 E]]; rewrite E; destruct (m r) as [r1 [u | e | |]]; cbn [fst snd] end.
  - do 2 eexists; reflexivity.
  - destruct (lensed_do_clear O c1 t1 ops r1) as [c2 [t2 E2]]. rewrite E2. do 2 eexists. reflexivity.
  - destruct (lensed_do_clear O c1 t1 ops r1) as [c2 [t2 E2]]. rewrite E2. do 2 eexists. reflexivity.
  - destruct (lensed_do_clear O c1 t1 ops r1) as [c2 [t2 E2]]. rewrite E2. do 2 eexists. reflexivity.
Qed.

Theorem reply_ignores_dead_fields : forall r s c t ops, r_state r = StInput ->
  exists c' t', rt_enter O (L c t ops r) s = Ok (L c' t' ops (set_col (enter_input O r s) 0), true)
                /\ rt_enter O r s = Ok (set_col (enter_input O r s) 0, true).
Proof.
  intros r s c t ops Hs. unfold rt_enter. change (r_state (L c t ops r)) with (r_state r). rewrite Hs.
  destruct (enter_input_lens r s c t ops) as [c1 [t1 E]]. rewrite E. exists c1, t1. split; reflexivity.
Qed.

Lemma exec_input_running : forall r k, r_state r = StInputRunning -> ls_dir_errors (r_listing r) = [] ->
  rt_execute O r k =
  after_loop (exec_loop O (N.to_nat k) (match ls_ind_errors (r_listing r) with [] => false | _ => true end) r).
Proof. intros r k H H2. unfold rt_execute. rewrite H, H2. cbn [bind]. rewrite H. reflexivity. Qed.

(* the call that stores the fields (and, on a refused field, unwinds to the prompt) *)
Theorem field_stores_ignore_dead_fields : forall r k e0 c t ops,
  r_state r = StInputRunning -> ls_dir_errors (r_listing r) = [] ->
  safe_run O e0 (N.to_nat k) (has_ind r) r -> firstnN e0 ops = firstnN e0 (l_ops (pg_link (r_prog r))) ->
  same_up_to ops (rt_execute O (L c t ops r) k) (rt_execute O r k).
Proof.
  intros r k e0 c t ops Hs Hd Hsafe Hag.
  rewrite (exec_input_running r k Hs Hd). rewrite (exec_input_running (L c t ops r) k) by assumption.
  change (r_listing (L c t ops r)) with (r_listing r). fold (has_ind r).
  destruct (run_ignores_dead_fields O (N.to_nat k) (has_ind r) e0 r c t ops Hsafe Hag) as [c' [t' E]]. rewrite E.
  destruct (exec_loop O (N.to_nat k) (has_ind r) r) as [r2 x]. cbn [fst snd]. apply after_loop_lens.
Qed.

(* ---------- the calls that follow, for as long as the machine keeps running ---------- *)
Fixpoint safe_calls (e0 : N) (ks : list N) (r : rt) : Prop :=
  match ks with
  | [] => True
  | k :: ks' => r_state r = StRunning /\ ls_dir_errors (r_listing r) = [] /\ safe_run O e0 (N.to_nat k) (has_ind r) r /\
                match rt_execute O r k with Ok (r3, _) => safe_calls e0 ks' r3 | _ => True end
  end.

Definition same_trace (ops : list opcode) (x y : res (rt * list event)) : Prop :=
  match y with
  | Ok (r3, evs) => exists c t, x = Ok (L c t ops r3, evs)
  | Err e => x = Err e
  | Panic => x = Panic
  | Hang => x = Hang
  end.

Theorem calls_ignore_dead_fields : forall ks r e0 c t ops,
  forallb not_edit (l_ops (pg_link (r_prog r))) = true ->
  safe_calls e0 ks r -> firstnN e0 ops = firstnN e0 (l_ops (pg_link (r_prog r))) ->
  same_trace ops (execs O (L c t ops r) ks) (execs O r ks).
Proof.
  induction ks as [| k ks IH]; intros r e0 c t ops Hno Hsafe Hag; [cbn [execs same_trace]; do 2 eexists; reflexivity |].
  destruct Hsafe as (Hs & Hd & Hrun & Hnext). cbn [execs].
  pose proof (execute_ignores_dead_fields r k e0 c t ops Hs Hd Hrun Hag) as H1.
  destruct (rt_execute O r k) as [[r3 ev] | e | |] eqn:E; cbn [same_up_to] in H1; cbn [bind].
  - destruct H1 as [c1 [t1 E1]]. rewrite E1. cbn [bind fst snd].
    destruct (noedit_execute_frame O r k r3 ev Hno E) as (_ & _ & Hops).
    assert (Hno3 : forallb not_edit (l_ops (pg_link (r_prog r3))) = true) by (rewrite Hops; exact Hno).
    assert (Hag3 : firstnN e0 ops = firstnN e0 (l_ops (pg_link (r_prog r3)))) by (rewrite Hops; exact Hag).
    pose proof (IH r3 e0 c1 t1 ops Hno3 Hnext Hag3) as H2.
    destruct (execs O r3 ks) as [[r4 evs] | e | |]; cbn [same_trace] in H2 |- *; cbn [bind fst snd].
    + destruct H2 as [c2 [t2 E2]]. rewrite E2. cbn [bind fst snd]. do 2 eexists; reflexivity.
    + rewrite H2. reflexivity.
    + rewrite H2. reflexivity.
    + rewrite H2. reflexivity.
  - rewrite H1. reflexivity.
  - rewrite H1. reflexivity.
  - rewrite H1. reflexivity.
Qed.

(* deciding the premise on a given machine *)
Fixpoint safe_run_b (e0 : N) (fuel : nat) (h : bool) (r : rt) : bool :=
  match fuel with
  | 0%nat => true
  | S f => (r_pc r <? e0) && negb (r_tron r) && is_stopped (r_cont r) &&
           match one_op O h r with (r2, Ok None) => safe_run_b e0 f h r2 | _ => true end
  end.

Lemma safe_run_b_ok : forall fuel e0 h r, safe_run_b e0 fuel h r = true -> safe_run O e0 fuel h r.
Proof.
  induction fuel as [| f IH]; intros e0 h r H; [exact I |]. cbn [safe_run_b] in H. cbn [safe_run].
  repeat (apply andb_prop in H; destruct H as [H ?]).
  split; [apply N.ltb_lt; assumption |]. split; [destruct (r_tron r); [discriminate | reflexivity] |].
  split; [destruct (r_cont r); try discriminate; reflexivity |].
  destruct (one_op O h r) as [r2 [[ev |] | e | |]]; try exact I. apply IH. assumption.
Qed.
End ContRun.

(* ---------- non-vacuity: a loop interrupted inside a comparison, cursor in column 0 ---------- *)
From BL Require Import Drv.Driver.
Require Import String.

Definition loop_machine : rt :=
  let O := dummy_oracle in
  let r0 := ok_ex (rt_execute O rt_default 5000) in
  let r1 := ok_rt (rt_enter O r0 (s2l "10 A=A+1")) in
  let r2 := ok_rt (rt_enter O r1 (s2l "20 IF A<9 THEN 10")) in
  let r3 := ok_rt (rt_enter O r2 (s2l "30 PRINT A;")) in
  let r4 := ok_ex (rt_execute O r3 5000) in
  let r5 := ok_rt (rt_enter O r4 (s2l "RUN")) in
  ok_ex (rt_execute O r5 8).

Example transparent_premises :
  let r := loop_machine in
  r_state r = StRunning /\ r_pc r < r_entry r /\ r_dirty r = false /\ r_tron r = false /\ Linked (r_prog r)
  /\ r_entry r = pg_direct (r_prog r) /\ r_col r = 0 /\ tidy r /\ r_stack r <> nil
  /\ safe_run dummy_oracle (r_entry r) (N.to_nat 200) (has_ind r) r
  /\ forallb not_edit (l_ops (pg_link (r_prog r))) = true.
Proof.
  cbn zeta. split; [vm_compute; reflexivity |]. split; [vm_compute; reflexivity |]. split; [vm_compute; reflexivity |].
  split; [vm_compute; reflexivity |]. split; [apply linked_b_ok; vm_compute; reflexivity |]. split; [vm_compute; reflexivity |].
  split; [vm_compute; reflexivity |]. split; [unfold tidy; vm_compute; repeat split |].
  split; [vm_compute; discriminate |]. split; [apply safe_run_b_ok; vm_compute; reflexivity | vm_compute; reflexivity].
Qed.

(* and the statement on this machine, computed: the CONT call with budget 201 prints what the uninterrupted call with budget 200 prints *)
Example transparent_on_loop_machine :
  let r := loop_machine in
  match rt_execute dummy_oracle (entered (at_prompt (rt_interrupt r))) 201, rt_execute dummy_oracle r 200 with
  | Ok (_, e1), Ok (_, e2) => e1 = e2 /\ e1 = EvPrint (s2l " 9 ")
  | _, _ => False
  end.
Proof. vm_compute. split; reflexivity. Qed.

(* non-vacuity for STOP and END: machines standing in front of the instruction, reached through enter / execute only *)
Definition before_word (word : string) : rt :=
  let O := dummy_oracle in
  let r0 := ok_ex (rt_execute O rt_default 5000) in
  let r1 := ok_rt (rt_enter O r0 (s2l "10 A=1")) in
  let r2 := ok_rt (rt_enter O r1 (s2l ("20 " ++ word))) in
  let r3 := ok_rt (rt_enter O r2 (s2l "30 A=A+1")) in
  let r4 := ok_rt (rt_enter O r3 (s2l "40 PRINT A;")) in
  let r5 := ok_ex (rt_execute O r4 5000) in
  let r6 := ok_rt (rt_enter O r5 (s2l "RUN")) in
  ok_ex (rt_execute O r6 4).

Example stop_premises :
  let r := before_word "STOP" in
  r_state r = StRunning /\ r_pc r + 1 < r_entry r /\ r_dirty r = false /\ r_tron r = false /\ Linked (r_prog r)
  /\ r_entry r = pg_direct (r_prog r) /\ r_col r = 0 /\ tidy r /\ stack_is_full r = false
  /\ nthN (l_ops (pg_link (r_prog r))) (r_pc r) = Some OpStop
  /\ safe_run dummy_oracle (r_entry r) (N.to_nat 50) (has_ind r) (set_pc r (r_pc r + 1)).
Proof.
  cbn zeta. split; [vm_compute; reflexivity |]. split; [vm_compute; reflexivity |]. split; [vm_compute; reflexivity |].
  split; [vm_compute; reflexivity |]. split; [apply linked_b_ok; vm_compute; reflexivity |]. split; [vm_compute; reflexivity |].
  split; [vm_compute; reflexivity |]. split; [unfold tidy; vm_compute; repeat split |]. split; [vm_compute; reflexivity |].
  split; [vm_compute; reflexivity | apply safe_run_b_ok; vm_compute; reflexivity].
Qed.

Example end_premises :
  let r := before_word "END" in
  r_state r = StRunning /\ r_pc r + 1 < r_entry r /\ r_dirty r = false /\ r_tron r = false /\ Linked (r_prog r)
  /\ r_entry r = pg_direct (r_prog r) /\ r_col r = 0 /\ tidy r
  /\ nthN (l_ops (pg_link (r_prog r))) (r_pc r) = Some OpEnd
  /\ safe_run dummy_oracle (r_entry r) (N.to_nat 50) (has_ind r) (set_pc r (r_pc r + 1)).
Proof.
  cbn zeta. split; [vm_compute; reflexivity |]. split; [vm_compute; reflexivity |]. split; [vm_compute; reflexivity |].
  split; [vm_compute; reflexivity |]. split; [apply linked_b_ok; vm_compute; reflexivity |]. split; [vm_compute; reflexivity |].
  split; [vm_compute; reflexivity |]. split; [unfold tidy; vm_compute; repeat split |].
  split; [vm_compute; reflexivity | apply safe_run_b_ok; vm_compute; reflexivity].
Qed.
Definition before_stop : rt := before_word "STOP".
Definition before_end : rt := before_word "END".

(* non-vacuity: a program waiting at its INPUT prompt *)
Definition waiting_machine : rt :=
  let O := dummy_oracle in
  let r0 := ok_ex (rt_execute O rt_default 5000) in
  let r1 := ok_rt (rt_enter O r0 (s2l "10 A=5")) in
  let r2 := ok_rt (rt_enter O r1 (s2l "20 INPUT N")) in
  let r3 := ok_rt (rt_enter O r2 (s2l "30 PRINT A+N")) in
  let r4 := ok_ex (rt_execute O r3 5000) in
  let r5 := ok_rt (rt_enter O r4 (s2l "RUN")) in
  ok_ex (rt_execute O r5 5000).
Example waiting_premises :
  let r := waiting_machine in
  r_state r = StInput /\ r_pc r < r_entry r /\ r_dirty r = false /\ r_tron r = false /\ Linked (r_prog r)
  /\ r_entry r = pg_direct (r_prog r) /\ r_col r = 0 /\ tidy r /\ r_stack r <> nil.
Proof.
  cbn zeta. split; [vm_compute; reflexivity |]. split; [vm_compute; reflexivity |]. split; [vm_compute; reflexivity |].
  split; [vm_compute; reflexivity |]. split; [apply linked_b_ok; vm_compute; reflexivity |]. split; [vm_compute; reflexivity |].
  split; [vm_compute; reflexivity |]. split; [unfold tidy; vm_compute; repeat split | vm_compute; discriminate].
Qed.
