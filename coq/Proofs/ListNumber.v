(* C05 / C15: the line number survives listing -- entering the listed text of line n gives line n again. *)
From BL Require Import Base.Prelude Lang.Token Mach.Func Lang.Lex Lang.Ast Lang.Parse Mach.Listing Proofs.DecN Proofs.LexTotal.
From Coq Require Import Lia.
Local Open Scope N_scope.

Lemma digit_not_ws c : is_digit c = true -> is_ws c = false.
Proof.
  unfold is_digit, is_ws. intros H. apply andb_prop in H. destruct H as [H1 H2]. apply N.leb_le in H1, H2.
  destruct (N.eqb_spec c 32); [lia |]. destruct (N.eqb_spec c 9); [lia | reflexivity].
Qed.

Lemma prefix_len_digits : forall ds rest seen k, all_b is_digit ds = true ->
  prefix_len (ds ++ 32 :: rest) seen k = if (match ds with [] => seen | _ => true end) then k + lenN ds else prefix_len (32 :: rest) seen k.
Proof.
  induction ds as [| d ds IH]; intros rest seen k H.
  - cbn [app]. destruct seen; [| reflexivity]. cbn. unfold lenN. cbn. lia.
  - cbn [all_b] in H. apply andb_prop in H. destruct H as [Hd Hds].
    cbn [app prefix_len]. rewrite (digit_not_ws d Hd), andb_false_r, Hd.
    rewrite (IH rest true (k + 1) Hds). unfold lenN. cbn [length]. destruct ds; cbn; lia.
Qed.

Lemma trim_start_digits ds : match ds with d :: _ => is_digit d = true | [] => True end -> trim_start ds = ds.
Proof.
  destruct ds as [| d ds]; [reflexivity |]. intros Hd. cbn.
  assert (Hu : is_uws d = false).
  { unfold is_digit in Hd. apply andb_prop in Hd. destruct Hd as [H1 H2]. apply N.leb_le in H1, H2.
    unfold is_uws. repeat match goal with |- context [?a =? ?b] => destruct (N.eqb_spec a b); [lia |] end.
    repeat match goal with |- context [?a <=? ?b] => destruct (N.leb_spec a b); try lia end; reflexivity. }
  rewrite Hu. reflexivity.
Qed.

Theorem relist_line_number : forall n body, n <= 65529 ->
  split_line_number (dec_of_N n ++ 32 :: body) = (Some n, body).
Proof.
  intros n body Hn. unfold split_line_number.
  pose proof (dec_of_N_digits n) as Hd. pose proof (parse_dec_of_N n) as Hp.
  assert (Hne : dec_of_N n <> []) by (intros E; rewrite E in Hp; discriminate).
  rewrite (prefix_len_digits (dec_of_N n) body false 0 Hd).
  destruct (dec_of_N n) as [| d ds] eqn:Ed; [contradiction |]. rewrite <- Ed in *. cbn [N.add].
  replace (0 + lenN (dec_of_N n)) with (lenN (dec_of_N n)) by lia.
  assert (Hf : firstnN (lenN (dec_of_N n)) (dec_of_N n ++ 32 :: body) = dec_of_N n).
  { unfold firstnN, lenN. rewrite Nat2N.id. rewrite firstn_app, Nat.sub_diag, firstn_all. cbn. apply app_nil_r. }
  assert (Hs : skipnN (lenN (dec_of_N n)) (dec_of_N n ++ 32 :: body) = 32 :: body).
  { unfold skipnN, lenN. rewrite Nat2N.id. rewrite skipn_app, Nat.sub_diag, skipn_all. reflexivity. }
  rewrite Hf, Hs.
  assert (Hd0 : is_digit d = true) by (rewrite Ed in Hd; cbn in Hd; apply andb_prop in Hd; tauto).
  rewrite trim_start_digits by (rewrite Ed; exact Hd0).
  unfold parse_u16. rewrite Ed. 
  assert (Hplus : (d =? 43) = false).
  { unfold is_digit in Hd0. apply andb_prop in Hd0. destruct Hd0 as [H1 H2]. apply N.leb_le in H1, H2. apply N.eqb_neq. lia. }
  rewrite Hplus, <- Ed, Hp.
  destruct (N.leb_spec n 65535); [| lia]. destruct (N.leb_spec n 65529); [| lia]. cbn. reflexivity.
Qed.

(* through lex: the listed text of a stored line has the same number *)
Theorem listed_line_keeps_number : forall n toks, n <= 65529 ->
  exists toks', lex (line_to_string (Some n, toks)) = Ok (Some n, toks').
Proof.
  intros n toks Hn. unfold line_to_string, lex. cbn [fst snd].
  change (dec_of_N n ++ [c_space] ++ tokens_str toks) with (dec_of_N n ++ 32 :: tokens_str toks).
  rewrite (relist_line_number n (tokens_str toks) Hn).
  destruct (lex_loop_total (S (length (tokens_str toks))) (tokens_str toks) [] ltac:(lia)) as [ts E].
  rewrite E. cbn. eexists. reflexivity.
Qed.
