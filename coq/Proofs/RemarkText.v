(* C05: remark lines.  A line that is nothing but a remark -- written with ' or with REM and a separator -- lists as
   itself with the trailing blanks removed: the remark text is kept character for character (any code points, quotes,
   colons, reserved words, lower case), and the listed text is a fixed point of entering and listing again. *)
From BL Require Import Base.Prelude Lang.Token Lang.Lex Mach.Func Mach.Listing Proofs.DecN Proofs.ListNumber.
From Coq Require Import Lia String.
Local Open Scope N_scope.

(* enter a line, list it *)
Definition relist (src : str) : option str :=
  match lex src with Ok l => Some (line_to_string l) | _ => None end.

Lemma trim_start_idem s : trim_start (trim_start s) = trim_start s.
Proof. induction s as [| c r IH]; [reflexivity |]. cbn [trim_start]. destruct (is_uws c) eqn:E; [exact IH |]. cbn [trim_start]. rewrite E. reflexivity. Qed.
Lemma trim_end_idem s : trim_end (trim_end s) = trim_end s.
Proof. unfold trim_end. rewrite rev_involutive, trim_start_idem. reflexivity. Qed.

Definition rem_tail (body : str) : list token := match body with [] => [] | _ => [TUnknown body] end.

(* the passes behind the scanner leave [REM; text] alone apart from the trailing blanks *)
Lemma post_passes_remark w body : (w = WRem1 \/ w = WRem2) ->
  tokens_str (pp_separate_words (pp_collapse_doubles (pp_collapse_triples (pp_trim_end (TWord w :: rem_tail body)))))
  = word_str w ++ trim_end body.
Proof.
  intros Hw. destruct body as [| c b].
  - destruct Hw as [-> | ->]; reflexivity.
  - assert (E : pp_trim_end (TWord w :: rem_tail (c :: b)) = [TWord w; TUnknown (trim_end (c :: b))]) by reflexivity.
    rewrite E. destruct Hw as [-> | ->]; cbn; rewrite app_nil_r; reflexivity.
Qed.

Lemma lex_loop_apostrophe fuel body : lex_loop (S fuel) (39 :: body) [] = Ok (TWord WRem2 :: rem_tail body).
Proof. destruct body; reflexivity. Qed.

Theorem apostrophe_line_is_kept : forall n body, n <= 65529 ->
  relist (dec_of_N n ++ 32 :: 39 :: body) = Some (dec_of_N n ++ 32 :: 39 :: trim_end body).
Proof.
  intros n body Hn. unfold relist, lex. rewrite (relist_line_number n (39 :: body) Hn).
  rewrite lex_loop_apostrophe. cbn [bind]. unfold line_to_string. cbn [fst snd].
  rewrite (post_passes_remark WRem2 body (or_intror eq_refl)). reflexivity.
Qed.

Theorem apostrophe_listing_is_a_fixed_point : forall n body, n <= 65529 ->
  forall t, relist (dec_of_N n ++ 32 :: 39 :: body) = Some t -> relist t = Some t.
Proof.
  intros n body Hn t E. rewrite (apostrophe_line_is_kept n body Hn) in E. injection E as <-.
  rewrite (apostrophe_line_is_kept n _ Hn). rewrite trim_end_idem. reflexivity.
Qed.

(* REM followed by a character that cannot continue a word *)
Definition ends_word (c : N) : bool := negb (is_alpha c) && negb (is_digit c) && negb (is_suffix_chr c).

Lemma alpha_loop_rem c body : ends_word c = true ->
  alpha_loop (82 :: 69 :: 77 :: c :: body) [] false [] = ([TWord WRem1], c :: body).
Proof.
  unfold ends_word. intros H. apply andb_prop in H. destruct H as [H H3]. apply andb_prop in H. destruct H as [H1 H2].
  apply Bool.negb_true_iff in H1, H2, H3.
  cbn -[scan_alphabetic is_alpha is_digit is_suffix_chr].
  change (is_alpha 69) with true. change (is_alpha 77) with true. cbn -[scan_alphabetic is_alpha is_digit is_suffix_chr].
  rewrite H1, H2, H3. cbn -[scan_alphabetic].
  reflexivity.
Qed.

Lemma lex_loop_rem fuel c body : ends_word c = true ->
  lex_loop (S fuel) (82 :: 69 :: 77 :: c :: body) [] = Ok (TWord WRem1 :: rem_tail (c :: body)).
Proof.
  intros H. cbn [lex_loop]. change (is_ws 82) with false. change (is_digit 82 || (82 =? 46)) with false. change (is_alpha 82) with true.
  cbv iota. rewrite (alpha_loop_rem c body H). reflexivity.
Qed.

Theorem rem_line_is_kept : forall n c body, n <= 65529 -> ends_word c = true ->
  relist (dec_of_N n ++ 32 :: 82 :: 69 :: 77 :: c :: body) = Some (dec_of_N n ++ 32 :: 82 :: 69 :: 77 :: trim_end (c :: body)).
Proof.
  intros n c body Hn Hc. unfold relist, lex. rewrite (relist_line_number n _ Hn).
  rewrite (lex_loop_rem _ c body Hc). cbn [bind]. unfold line_to_string. cbn [fst snd].
  rewrite (post_passes_remark WRem1 (c :: body) (or_introl eq_refl)). reflexivity.
Qed.

Lemma trim_start_suffix s : exists p, s = p ++ trim_start s.
Proof.
  induction s as [| c r [p IH]]; [exists []; reflexivity |]. cbn [trim_start]. destruct (is_uws c).
  - exists (c :: p). cbn [app]. rewrite <- IH. reflexivity.
  - exists []. reflexivity.
Qed.
Lemma trim_end_prefix s : exists t, s = trim_end s ++ t.
Proof.
  unfold trim_end. destruct (trim_start_suffix (rev s)) as [p E]. exists (rev p).
  rewrite <- rev_app_distr, <- E, rev_involutive. reflexivity.
Qed.
Lemma trim_end_head c body : trim_end (c :: body) = [] \/ exists b, trim_end (c :: body) = c :: b.
Proof.
  destruct (trim_end_prefix (c :: body)) as [t E]. destruct (trim_end (c :: body)) as [| c' b]; [left; reflexivity |].
  right. cbn [app] in E. injection E as <- _. exists b. reflexivity.
Qed.

Lemma bare_rem_line n : n <= 65529 -> relist (dec_of_N n ++ 32 :: 82 :: 69 :: 77 :: []) = Some (dec_of_N n ++ 32 :: 82 :: 69 :: 77 :: []).
Proof. intros Hn. unfold relist, lex. rewrite (relist_line_number n _ Hn). reflexivity. Qed.

Theorem rem_listing_is_a_fixed_point : forall n c body, n <= 65529 -> ends_word c = true ->
  forall t, relist (dec_of_N n ++ 32 :: 82 :: 69 :: 77 :: c :: body) = Some t -> relist t = Some t.
Proof.
  intros n c body Hn Hc t E. rewrite (rem_line_is_kept n c body Hn Hc) in E. injection E as <-.
  destruct (trim_end_head c body) as [E0 | [b Eb]].
  - rewrite E0. apply bare_rem_line. exact Hn.
  - pose proof (trim_end_idem (c :: body)) as Hi. rewrite Eb in *. rewrite (rem_line_is_kept n c b Hn Hc). rewrite Hi. reflexivity.
Qed.

(* not empty: text with a quote, a colon, a reserved word, lower case, non-ASCII and trailing blanks *)
Local Open Scope string_scope.
Definition remark_demo : str := (s2l "x: ""PRINT"" goto 10 " ++ [233; 26085; 32; 32])%list.
Example remark_demo_kept :
  relist (s2l "20 '" ++ remark_demo)%list = Some (s2l "20 'x: ""PRINT"" goto 10 " ++ [233; 26085])%list
  /\ relist (s2l "20 REM " ++ remark_demo)%list = Some (s2l "20 REM x: ""PRINT"" goto 10 " ++ [233; 26085])%list
  /\ ends_word 32 = true /\ ends_word 58 = true /\ ends_word 34 = true.
Proof. repeat split; vm_compute; reflexivity. Qed.
