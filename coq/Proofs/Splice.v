(* C14: RENUM rewrites a line by replacing character ranges of its listed text, last range first.  For ranges that follow
   one another, the result is the original text with exactly those ranges replaced: every character outside them stays
   where it was relative to its neighbours. *)
From BL Require Import Base.Prelude Base.Floats Base.Decimal Lang.Token Lang.Ast Mach.Listing.
From Coq Require Import Lia String.
Local Open Scope N_scope.

(* the text from position pos on, with the ranges (ascending, disjoint) replaced *)
Fixpoint rebuild (s : str) (pos : N) (reps : list (col * N)) : str :=
  match reps with
  | [] => skipnN pos s
  | ((a, b), n) :: r => firstnN (a - pos) (skipnN pos s) ++ dec_of_N n ++ rebuild s b r
  end.

Fixpoint ordered (pos : N) (reps : list (col * N)) (len : N) : Prop :=
  match reps with
  | [] => pos <= len
  | ((a, b), _) :: r => pos <= a /\ a <= b /\ ordered b r len
  end.

Definition splice_all (s : str) (reps : list (col * N)) : res str :=
  fold_left (fun acc r => do t <- acc; replace_chars t (fst r) (dec_of_N (snd r))) (rev reps) (Ok s).

Lemma firstn_skipn_split {A} (l : list A) (p q : nat) : (p <= q)%nat -> firstn q l = firstn p l ++ firstn (q - p) (skipn p l).
Proof.
  revert l q. induction p as [| p IH]; intros l q H; [cbn; rewrite Nat.sub_0_r; reflexivity |].
  destruct q as [| q]; [lia |]. destruct l as [| x l]; [cbn; destruct (q - p)%nat; reflexivity |]. cbn [firstn skipn app]. f_equal.
  replace (S q - S p)%nat with (q - p)%nat by lia. apply IH. lia.
Qed.

Lemma splice_cons s r reps : splice_all s (r :: reps) = (do t <- splice_all s reps; replace_chars t (fst r) (dec_of_N (snd r))).
Proof. unfold splice_all. cbn [rev]. rewrite fold_left_app. reflexivity. Qed.

Theorem splice_is_rebuild : forall reps s pos, ordered pos reps (lenN s) ->
  splice_all s reps = Ok (firstnN pos s ++ rebuild s pos reps).
Proof.
  induction reps as [| [[a b] n] r IH]; intros s pos H.
  - cbn. unfold firstnN, skipnN. rewrite firstn_skipn. reflexivity.
  - cbn [ordered] in H. destruct H as (Hpa & Hab & Hr). rewrite splice_cons, (IH s b Hr). cbn [bind fst snd replace_chars].
    destruct (N.ltb_spec b a); [lia |]. f_equal. cbn [rebuild].
    assert (Hb : b <= lenN s).
    { clear - Hr. revert b Hr. induction r as [| [[a' b'] n'] r IHr]; intros b Hr; cbn [ordered] in Hr; [exact Hr |].
      destruct Hr as (H1 & H2 & H3). specialize (IHr b' H3). lia. }
    unfold firstnN, skipnN, lenN in *.
    assert (Hlen : List.length (firstn (N.to_nat b) s) = N.to_nat b) by (apply firstn_length_le; lia).
    (* the first a characters of the partly rewritten text are the first a characters of s *)
    rewrite firstn_app. rewrite Hlen. replace (N.to_nat a - N.to_nat b)%nat with 0%nat by lia. cbn [firstn]. rewrite app_nil_r.
    rewrite firstn_firstn. replace (Nat.min (N.to_nat a) (N.to_nat b)) with (N.to_nat a) by lia.
    (* and from b on the text is what was built behind b *)
    rewrite skipn_app. rewrite Hlen. replace (N.to_nat b - N.to_nat b)%nat with 0%nat by lia. cbn [skipn].
    rewrite (skipn_all2 (firstn (N.to_nat b) s)) by lia. cbn [app].
    rewrite (firstn_skipn_split s (N.to_nat pos) (N.to_nat a)) by lia. rewrite <- !app_assoc. replace (N.to_nat (a - pos)) with (N.to_nat a - N.to_nat pos)%nat by lia.
    reflexivity.
Qed.

(* in particular: the text in front of the first range, between two ranges and behind the last one is kept *)
Corollary splice_keeps_prefix : forall reps s a b n, ordered 0 (((a, b), n) :: reps) (lenN s) ->
  exists rest, splice_all s (((a, b), n) :: reps) = Ok (firstnN a s ++ dec_of_N n ++ rest).
Proof.
  intros reps s a b n H. rewrite (splice_is_rebuild _ s 0 H). cbn [rebuild]. unfold firstnN, skipnN. cbn [N.to_nat firstn skipn app].
  rewrite N.sub_0_r. eexists. reflexivity.
Qed.

Example splice_example :
  splice_all (s2l "GOTO 10:GOSUB 20")%string [((5, 7), 100); ((14, 16), 1000)] = Ok (s2l "GOTO 100:GOSUB 1000")%string.
Proof. vm_compute. reflexivity. Qed.

(* that is what RENUM does to a line: the replacements are the line-number operands the visitor found, the text is the listed
   text of the line, and the rewritten text is scanned again *)
From BL Require Import Lang.Lex Lang.Parse.
Theorem renum_line_is_splice : forall ch l ast, parse (fst l) (snd l) = Ok ast -> flat_map (renum_visit ch) ast <> [] ->
  line_renum ch l =
  (do txt <- splice_all (tokens_str (snd l)) (flat_map (renum_visit ch) ast);
   do lx <- lex txt;
   Ok (match fst l with Some n => match ch_get ch n with Some n' => Some n' | None => Some n end | None => None end, snd lx)).
Proof.
  intros ch l ast Hp Hne. unfold line_renum. rewrite Hp. destruct (flat_map (renum_visit ch) ast) as [| r0 rs] eqn:E; [contradiction |]. reflexivity.
Qed.

(* a line without line-number operands keeps its tokens; only its own number may change *)
Theorem renum_line_without_operands : forall ch l ast, parse (fst l) (snd l) = Ok ast -> flat_map (renum_visit ch) ast = [] ->
  line_renum ch l = Ok (match fst l with Some n => match ch_get ch n with Some n' => Some n' | None => Some n end | None => None end, snd l).
Proof. intros ch l ast Hp He. unfold line_renum. rewrite Hp, He. reflexivity. Qed.

(* a line that does not parse is kept as it is *)
Theorem renum_line_unparsable : forall ch l e, parse (fst l) (snd l) = Err e -> line_renum ch l = Ok l.
Proof. intros ch l e Hp. unfold line_renum. rewrite Hp. reflexivity. Qed.

(* and RENUM only runs on a program that compiled without an error: otherwise it reports the errors and changes nothing, so
   the case of a line that does not parse never arises from the RENUM statement *)
From BL Require Import Mach.Val Mach.Compile Mach.Runtime.
Theorem renum_refuses_faulty_program : forall r e es, r_entry r <= r_pc r -> ls_ind_errors (r_listing r) = e :: es ->
  do_renum r = (r, Ok (EvErrors (e :: es))).
Proof.
  intros r e es Hpc He. unfold do_renum, rbind, rget. destruct (N.ltb_spec (r_pc r) (r_entry r)); [lia |]. rewrite He. reflexivity.
Qed.
