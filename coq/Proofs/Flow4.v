(* C01: control flow, part 4 -- from the parsed program to the run of the VM, and a program that meets every premise. *)
From BL Require Import Base.Prelude Base.Floats Mach.Val Mach.Ops Mach.Func Mach.Var
     Lang.Token Lang.Lex Lang.Ast Lang.Parse Mach.Compile Mach.Listing Mach.Runtime Spec.Sem
     Proofs.ExprCompile Proofs.Slicing Proofs.Reloc Proofs.Flow Proofs.Flow2 Proofs.Flow3 Proofs.LineLit.
From Coq Require Import Lia String.
Local Open Scope N_scope.

(* ---------- the parser's line-number literals ---------- *)
(* Parse.lnum_expr writes the target n of a branch as the Single f32_of_Z n.  For every line number there is (0..65529)
   the compiler's reading of that literal (TryFrom<Val> for LineNumber) and the reference reading (truncation) both
   give n back: Proofs/LineLit.v, from Flocq's specification of binary32. *)
Theorem line_literal_ok : forall n, n <= 65529 ->
  target_is (f32_of_Z (Z.of_N n)) n /\ Z.to_N (f32_to_Z (f32_of_Z (Z.of_N n))) = n.
Proof. intros n Hn. unfold target_is. exact (line_literal_all n Hn). Qed.

(* ---------- from the parsed lines to the run ---------- *)
Section EndToEnd.
Variable O : oracle.

(* Compile the parsed lines, link, start at the first line with empty variables and the cursor at the left margin: however
   the reference semantics says the run goes -- texts printed, then END reached with variable store V, or error c -- the VM,
   given enough instructions, prints the same texts in the same order and then stops with the same variable store, or
   reports the same error. *)
Theorem compiled_program_follows_semantics : forall srcl pls dp lo n ss rest inputs fuel r,
  Forall2 lmatch srcl pls -> ascending pls lo -> last_is_end (prog_ops pls) = true -> last_nonempty pls ->
  r_slen r + lenN (prog_ops pls) <= MAX_POOL ->
  srcl = (n, ss) :: rest ->
  r_prog r = program_link (compile_asts srcl dp) -> r_pc r = 0 -> r_vars r = vars_empty -> r_tron r = false -> r_col r = 0 ->
  final O (sem_start false inputs) (run O srcl fuel (tag_line n ss, n) (sem_start false inputs)) r.
Proof.
  intros srcl pls dp lo n ss rest inputs fuel r Hm Ha Hend Hne Hfit Es Hprog Hpc Hv Ht Hc.
  assert (Hsz : lenN (l_ops (layout pls dp)) <= MAX_POOL) by (rewrite layout_ops; lia).
  destruct (compile_is_layout srcl pls dp (lmatch_flayout srcl pls Hm) Hsz) as (HL & _ & Hd & _).
  destruct (link_layout (compile_asts srcl dp) pls dp lo HL Hd Ha Hend Hne) as (Hops & _).
  apply (vm_follows_sem O srcl pls lo (r_slen r) Hm Ha Hend Hne Hfit).
  apply (start_related srcl pls lo (r_slen r) Hm Ha Hend Hne Hfit n ss rest inputs r Es Hpc Hv Ht eq_refl Hc).
  intros a op Hop. rewrite Hprog, Hops. exact Hop.
Qed.

End EndToEnd.

(* ---------- a program that meets the premises ---------- *)
Definition parse_src (s : string) : option (N * list stmt) :=
  match lex (s2l s) with
  | Ok (Some n, toks) => match parse (Some n) toks with Ok ss => Some (n, ss) | _ => None end
  | _ => None
  end.

Definition demo_text : list string := ["10 A=2"; "20 ON A GOTO 10,40"; "30 GOTO 10"; "40 PRINT A;""X"""; "50 END"]%string.
Definition demo_items : list expr := [EUnary (6, 7) (IPlain [65]); EStr (8, 11) [88]; EStr (11, 11) [10]].
Definition demo_src : program_t :=
  [(10, [SLet (0, 1) (VUnary (0, 1) (IPlain [65])) (EInt (2, 3) 2)]);
   (20, [SOnGoto (0, 2) (EUnary (3, 4) (IPlain [65])) [ESng (10, 12) (f32_of_Z 10); ESng (13, 15) (f32_of_Z 40)]]);
   (30, [SGoto (0, 4) (ESng (5, 7) (f32_of_Z 10))]);
   (40, [SPrint (0, 5) demo_items]);
   (50, [SEnd (0, 3)])].
Definition demo_targets : list tgt := [((10, 12), f32_of_Z 10, 10); ((13, 15), f32_of_Z 40, 40)].
Definition demo_pieces : list pline :=
  [(10, [mkPiece (let_code (IPlain [65]) (EInt (2, 3) 2)) [] 0]);
   (20, [mkPiece (on_code (EUnary (3, 4) (IPlain [65])) demo_targets) (jump_refs (2 + lenN (postfix (EUnary (3, 4) (IPlain [65])))) demo_targets) (-1)]);
   (30, [mkPiece [OpJump 0] [(0, ((5, 7), Z.of_N 10))] 0]);
   (40, [mkPiece (print_code demo_items) [] 0]);
   (50, [mkPiece [OpEnd] [] 0])].

(* the model's lexer and parser produce exactly this program from the text *)
Example demo_is_parsed : map parse_src demo_text = map Some demo_src.
Proof. vm_compute. reflexivity. Qed.

Example demo_meets_premises :
  Forall2 lmatch demo_src demo_pieces /\ ascending demo_pieces 0 /\ last_is_end (prog_ops demo_pieces) = true
  /\ last_nonempty demo_pieces /\ 0 + lenN (prog_ops demo_pieces) <= MAX_POOL.
Proof.
  pose proof (line_literal_ok 10 ltac:(lia)) as [T10 S10]. pose proof (line_literal_ok 40 ltac:(lia)) as [T40 S40].
  change (Z.of_N 10) with 10%Z in *. change (Z.of_N 40) with 40%Z in *.
  split; [| split; [| split; [| split]]].
  - assert (one : forall n s p, gstmt s p -> lmatch (n, [s]) (n, [p])).
    { intros n s p H. split; [reflexivity |]. cbn [snd]. constructor; [exact H | constructor]. }
    unfold demo_src, demo_pieces. constructor; [apply one | constructor; [apply one | constructor; [apply one | constructor; [apply one | constructor; [apply one | constructor]]]]].
    + apply gs_let; [reflexivity | reflexivity | cbn; lia].
    + apply (gs_on (0, 2) (EUnary (3, 4) (IPlain [65])) demo_targets); [reflexivity | cbn; lia | | | vm_compute; discriminate].
      * repeat constructor; assumption.
      * repeat constructor; assumption.
    + apply (gs_goto (0, 4) (5, 7) (f32_of_Z 10) 10); assumption.
    + apply gs_print; [discriminate | reflexivity | repeat constructor; cbn; lia].
    + apply gs_end.
  - cbn. lia.
  - reflexivity.
  - cbn. discriminate.
  - vm_compute. discriminate.
Qed.

(* and the reference semantics runs it to END with A = 2 (the ON takes the second branch), printing " 2 ", "X" and a newline *)
Example demo_runs : forall O, exists st,
  run O demo_src 10 (tag_line 10 [SLet (0, 1) (VUnary (0, 1) (IPlain [65])) (EInt (2, 3) 2)], 10) (sem_start false []) = (st, HEnd)
  /\ s_out st = [SePrint [10]; SePrint [88]; SePrint [32; 50; 32]].
Proof. intros O. eexists. vm_compute. split; reflexivity. Qed.

Lemma map_SePrint_inj : forall a b : list str, map SePrint a = map SePrint b -> a = b.
Proof.
  induction a as [| x a IH]; intros [| y b] H; try discriminate; [reflexivity |]. cbn [map] in H. injection H as -> H. f_equal. exact (IH b H).
Qed.

(* so the theorem says something about it: the VM, started on the compiled and linked demo program, prints the same three
   texts in that order and stops at END *)
Example demo_vm_prints : forall O r dp,
  r_prog r = program_link (compile_asts demo_src dp) -> r_pc r = 0 -> r_vars r = vars_empty -> r_tron r = false -> r_slen r = 0 -> r_col r = 0 ->
  exists r1 m r', vm_steps O r [[32; 50; 32]; [88]; [10]] r1 /\ exec_loop_x O m false r1 = (r', Ok (Some EvStopped)).
Proof.
  intros O r dp Hprog Hpc Hv Ht Hs Hc. destruct demo_meets_premises as (Hm & Ha & Hend & Hne & Hfit). rewrite <- Hs in Hfit.
  pose proof (compiled_program_follows_semantics O demo_src demo_pieces dp 0 _ _ _ [] 10 r Hm Ha Hend Hne Hfit eq_refl Hprog Hpc Hv Ht Hc) as H.
  destruct (demo_runs O) as [st [Hst Hout]]. rewrite Hst in H. destruct H as (outs & r1 & m & r' & Hsteps & Hpr & Hstop & _).
  unfold printed in Hpr. rewrite Hout in Hpr. cbn [sem_start s_out] in Hpr. rewrite app_nil_r in Hpr.
  assert (Eo : outs = [[32; 50; 32]; [88]; [10]]).
  { apply map_SePrint_inj. apply (f_equal (@rev sevent)) in Hpr. rewrite rev_involutive in Hpr. symmetry. exact Hpr. }
  subst outs. exists r1, m, r'. split; assumption.
Qed.
