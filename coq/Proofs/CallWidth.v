(* C18: a built-in call that completes replaces exactly its arguments by its result.  How many stack entries a call
   owns is read off the arity table the code generator uses (Func.builtin_arity): a fixed arity n means n entries, a
   variable arity means the count literal the generator pushes plus that many entries.  Every handler of
   Runtime.do_builtin agrees with that table, and nothing beneath the arguments is touched: a handler that pops one
   entry too few (or too many) for some name breaks this file. *)
From BL Require Import Base.Prelude Base.Floats Mach.Val Mach.Ops Mach.Func Mach.Var
     Lang.Token Lang.Lex Lang.Ast Lang.Parse Mach.Compile Mach.Listing Mach.Runtime Proofs.Vars.
From Coq Require Import Lia String.
Local Open Scope N_scope.

Definition WF (r : rt) : Prop := r_slen r = lenN (r_stack r).

(* the number of stack entries the call `name` owns when the stack is s *)
Definition call_width (name : str) (s : list val) : N :=
  match builtin_arity name with
  | Some (lo, hi) => if lo =? hi then lo else match s with VInt n :: _ => 1 + Z.to_N n | _ => 0 end
  | None => 0
  end.

(* "m, when it completes, replaces the w topmost entries by one" *)
Definition replaces {A} (w : list val -> N) (m : RM A) : Prop :=
  forall r r' x, WF r -> m r = (r', Ok x) ->
    w (r_stack r) <= lenN (r_stack r) /\ WF r' /\ exists v, r_stack r' = v :: skipnN (w (r_stack r)) (r_stack r).

Lemma lenN_cons' {A} (x : A) l : lenN (x :: l) = lenN l + 1.
Proof. unfold lenN. cbn [List.length]. lia. Qed.

Lemma rbind_ok {A B} (m : RM A) (f : A -> RM B) r r' x :
  rbind m f r = (r', Ok x) -> exists r1 a, m r = (r1, Ok a) /\ f a r1 = (r', Ok x).
Proof. unfold rbind. destruct (m r) as [r1 [a | e | |]]; intros H; try discriminate. exists r1, a. split; [reflexivity | exact H]. Qed.

Lemma push_ok v r r' x : WF r -> push v r = (r', Ok x) -> r_stack r' = v :: r_stack r /\ WF r'.
Proof.
  unfold WF, push. cbv zeta. cbn [r_slen set_stack_len]. intros H.
  destruct (MAX_POOL <? r_slen r + 1); intros E; inversion E; subst. cbn [r_stack r_slen set_stack_len].
  rewrite lenN_cons'. split; [reflexivity | lia].
Qed.
Lemma pop_ok r r' v : WF r -> pop r = (r', Ok v) -> r_stack r = v :: r_stack r' /\ WF r'.
Proof.
  unfold WF, pop. intros H. destruct (r_stack r) as [| a s] eqn:Es; intros E; inversion E; subst.
  cbn [r_stack r_slen set_stack_len]. rewrite lenN_cons' in H. split; [reflexivity | lia].
Qed.
Lemma pop_n_ok n r r' l : WF r -> pop_n n r = (r', Ok l) ->
  (0 <= n)%Z /\ Z.to_N n <= lenN (r_stack r) /\ r_stack r' = skipnN (Z.to_N n) (r_stack r) /\ WF r'.
Proof.
  unfold WF, pop_n. intros H. destruct (Z.ltb_spec n 0); cbn [orb]; [intros E; discriminate |].
  destruct (N.ltb_spec (r_slen r) (Z.to_N n)); intros E; inversion E; subst. cbn [r_stack r_slen set_stack_len].
  rewrite H in *. repeat split; try lia. unfold lenN, skipnN in *. rewrite skipn_length. lia.
Qed.
Lemma pop_vec_ok r r' l : WF r -> pop_vec r = (r', Ok l) ->
  exists n s, r_stack r = VInt n :: s /\ (0 <= n)%Z /\ 1 + Z.to_N n <= lenN (r_stack r)
              /\ r_stack r' = skipnN (1 + Z.to_N n) (r_stack r) /\ WF r'.
Proof.
  intros H E. unfold pop_vec in E. apply rbind_ok in E. destruct E as (r1 & v & Ep & E).
  destruct (pop_ok _ _ _ H Ep) as [Es Hw1].
  destruct v as [s0 | b0 | b0 | n0 | a0 | a0]; try (unfold rfail in E; discriminate).
  destruct (pop_n_ok _ _ _ _ Hw1 E) as (Hn & Hl & Hs & Hw2).
  eexists _, _. split; [exact Es |]. rewrite Es. rewrite lenN_cons'. repeat split; try lia; try exact Hw2.
  rewrite Hs. unfold skipnN. replace (N.to_nat (1 + Z.to_N n0)) with (S (N.to_nat (Z.to_N n0))) by lia. reflexivity.
Qed.

Lemma skip0 {A} (s : list A) : skipnN 0 s = s. Proof. reflexivity. Qed.
Lemma skip1 {A} (a : A) s : skipnN 1 (a :: s) = s. Proof. reflexivity. Qed.
Lemma skip2 {A} (a b : A) s : skipnN 2 (a :: b :: s) = s. Proof. reflexivity. Qed.

(* the four shapes of handler *)
Lemma repl_one f : replaces (fun _ => 1) (rdo _ <~ pop_1_push f ;; rret (@None event)).
Proof.
  intros r r' x H E. apply rbind_ok in E. destruct E as (r1 & [] & E & Er). inversion Er; subst. clear Er.
  unfold pop_1_push in E. apply rbind_ok in E. destruct E as (r2 & a & Ep & E). apply rbind_ok in E. destruct E as (r3 & y & El & E).
  unfold rlift in El. inversion El; subst. destruct (pop_ok _ _ _ H Ep) as [Es Hw2]. destruct (push_ok _ _ _ _ Hw2 E) as [Es' Hw3].
  rewrite Es. rewrite lenN_cons'. split; [lia |]. split; [exact Hw3 |]. exists y. rewrite Es'. reflexivity.
Qed.
Lemma repl_two f : replaces (fun _ => 2) (rdo _ <~ pop_2_push f ;; rret (@None event)).
Proof.
  intros r r' x H E. apply rbind_ok in E. destruct E as (r1 & [] & E & Er). inversion Er; subst. clear Er.
  unfold pop_2_push in E. apply rbind_ok in E. destruct E as (r2 & p & Ep & E). apply rbind_ok in E. destruct E as (r3 & y & El & E).
  unfold rlift in El. inversion El; subst. unfold pop2 in Ep. apply rbind_ok in Ep. destruct Ep as (q1 & b & Eb & Ep).
  apply rbind_ok in Ep. destruct Ep as (q2 & a & Ea & Ep). inversion Ep; subst.
  destruct (pop_ok _ _ _ H Eb) as [Es1 Hw1]. destruct (pop_ok _ _ _ Hw1 Ea) as [Es2 Hw2]. destruct (push_ok _ _ _ _ Hw2 E) as [Es' Hw3].
  rewrite Es1, Es2. rewrite !lenN_cons'. split; [lia |]. split; [exact Hw3 |]. exists y. rewrite Es'. reflexivity.
Qed.
Lemma repl_zero v : replaces (fun _ => 0) (rdo _ <~ push v ;; rret (@None event)).
Proof.
  intros r r' x H E. apply rbind_ok in E. destruct E as (r1 & [] & E & Er). inversion Er; subst.
  destruct (push_ok _ _ _ _ H E) as [Es Hw1]. split; [lia |]. split; [exact Hw1 |]. exists v. rewrite Es. reflexivity.
Qed.
Definition vec_width (s : list val) : N := match s with VInt n :: _ => 1 + Z.to_N n | _ => 0 end.

Ltac spine E :=
  repeat match type of E with
  | rbind _ _ _ = (_, Ok _) =>
      let r1 := fresh "q" in let a := fresh "a" in let E1 := fresh "E" in
      apply rbind_ok in E; destruct E as (r1 & a & E1 & E)
  end.
Ltac same_rt :=
  repeat match goal with
  | H : rget ?r = (?r', Ok ?a) |- _ => unfold rget in H; inversion H; subst; clear H
  | H : rlift ?x ?r = (?r', Ok ?a) |- _ => unfold rlift in H; inversion H; subst; clear H
  | H : rret ?x ?r = (?r', Ok ?a) |- _ => unfold rret in H; inversion H; subst; clear H
  end.

Section Builtins.
Variable O : oracle.

Lemma repl_instr : replaces vec_width (rdo v <~ pop_vec ;; rdo x <~ rlift (fn_instr v) ;; rdo _ <~ push x ;; rret (@None event)).
Proof.
  intros r r' x H E. spine E. same_rt.
  match goal with Hv : pop_vec _ = _ |- _ => destruct (pop_vec_ok _ _ _ H Hv) as (n & s & Es & Hn & Hl & Hs & Hw1) end.
  match goal with Hp : push _ _ = _ |- _ => destruct (push_ok _ _ _ _ Hw1 Hp) as [Es' Hw3] end.
  assert (Hw : vec_width (r_stack r) = 1 + Z.to_N n) by (unfold vec_width; rewrite Es; reflexivity). rewrite Hw. split; [exact Hl |]. split; [exact Hw3 |]. eexists. rewrite Es', Hs. reflexivity.
Qed.
Lemma repl_mid : replaces vec_width (rdo v <~ pop_vec ;; rdo x <~ rlift (fn_mid v) ;; rdo _ <~ push x ;; rret (@None event)).
Proof.
  intros r r' x H E. spine E. same_rt.
  match goal with Hv : pop_vec _ = _ |- _ => destruct (pop_vec_ok _ _ _ H Hv) as (n & s & Es & Hn & Hl & Hs & Hw1) end.
  match goal with Hp : push _ _ = _ |- _ => destruct (push_ok _ _ _ _ Hw1 Hp) as [Es' Hw3] end.
  assert (Hw : vec_width (r_stack r) = 1 + Z.to_N n) by (unfold vec_width; rewrite Es; reflexivity). rewrite Hw. split; [exact Hl |]. split; [exact Hw3 |]. eexists. rewrite Es', Hs. reflexivity.
Qed.
Lemma repl_pos : replaces vec_width (rdo _ <~ pop_vec ;; rdo r <~ rget ;; rdo x <~ rlift (fn_pos (r_col r)) ;;
                                     rdo _ <~ push x ;; rret (@None event)).
Proof.
  intros r r' x H E. spine E. same_rt.
  match goal with Hv : pop_vec _ = _ |- _ => destruct (pop_vec_ok _ _ _ H Hv) as (n & s & Es & Hn & Hl & Hs & Hw1) end.
  match goal with Hp : push _ _ = _ |- _ => destruct (push_ok _ _ _ _ Hw1 Hp) as [Es' Hw3] end.
  assert (Hw : vec_width (r_stack r) = 1 + Z.to_N n) by (unfold vec_width; rewrite Es; reflexivity). rewrite Hw. split; [exact Hl |]. split; [exact Hw3 |]. eexists. rewrite Es', Hs. reflexivity.
Qed.
Lemma repl_rnd : replaces vec_width
  (rdo v <~ pop_vec ;; rdo r <~ rget ;; rdo sx <~ rlift (fn_rnd (r_rand r) v) ;;
   rdo _ <~ rmod (fun r => set_rand r (fst sx) (r_ent r)) ;; rdo _ <~ push (snd sx) ;; rret (@None event)).
Proof.
  intros r r' x H E. spine E. same_rt.
  match goal with Hv : pop_vec _ = _ |- _ => destruct (pop_vec_ok _ _ _ H Hv) as (n & s & Es & Hn & Hl & Hs & Hw1) end.
  match goal with Hm : rmod _ _ = _ |- _ => unfold rmod in Hm; inversion Hm; subst; clear Hm end.
  match goal with Hp : push _ (set_rand ?q _ _) = _ |- _ =>
    assert (Hw2 : WF (set_rand q (fst a1) (r_ent q))) by exact Hw1;
    destruct (push_ok _ _ _ _ Hw2 Hp) as [Es' Hw3] end.
  assert (Hw : vec_width (r_stack r) = 1 + Z.to_N n) by (unfold vec_width; rewrite Es; reflexivity). rewrite Hw. split; [exact Hl |]. split; [exact Hw3 |]. eexists. rewrite Es'. cbn [r_stack set_rand]. rewrite Hs. reflexivity.
Qed.
Lemma repl_tab : replaces (fun _ => 1) (rdo v <~ pop ;; rdo r <~ rget ;; rdo x <~ rlift (fn_tab (r_col r) v) ;;
                                         rdo _ <~ push x ;; rret (@None event)).
Proof.
  intros r r' x H E. spine E. same_rt.
  match goal with Hv : pop _ = _ |- _ => destruct (pop_ok _ _ _ H Hv) as [Es Hw1] end.
  match goal with Hp : push _ _ = _ |- _ => destruct (push_ok _ _ _ _ Hw1 Hp) as [Es' Hw3] end.
  rewrite Es. rewrite lenN_cons'. split; [lia |]. split; [exact Hw3 |]. eexists. rewrite Es'. reflexivity.
Qed.

(* every handler against the arity table *)
Theorem builtin_replaces_its_arguments : forall name r r',
  WF r -> do_builtin O name r = (r', Ok None) ->
  call_width name (r_stack r) <= lenN (r_stack r) /\ WF r'
  /\ exists v, r_stack r' = v :: skipnN (call_width name (r_stack r)) (r_stack r).
Proof.
  intros name r r' H E. unfold do_builtin in E.
  cbv beta zeta in E.
  repeat match type of E with
  | context [str_eqb name (s2l ?s)] =>
      let Q := fresh "Q" in
      destruct (str_eqb name (s2l s)) eqn:Q;
      [ apply str_eqb_eq in Q; subst name;
        repeat match type of E with
        | context [str_eqb (s2l ?a) (s2l ?b)] =>
            let v := eval vm_compute in (str_eqb (s2l a) (s2l b)) in change (str_eqb (s2l a) (s2l b)) with v in E
        end;
        cbn [orb] in E; cbv iota in E;
        first [ exact (repl_one _ _ _ _ H E) | exact (repl_two _ _ _ _ H E) | exact (repl_zero _ _ _ _ H E)
              | exact (repl_instr _ _ _ H E) | exact (repl_mid _ _ _ H E) | exact (repl_pos _ _ _ H E)
              | exact (repl_rnd _ _ _ H E) | exact (repl_tab _ _ _ H E)
              | (exfalso; spine E; unfold rret in E; inversion E) ]
      | cbn [orb] in E; cbv iota in E ]
  end.
  unfold rfail in E. discriminate.
Qed.
End Builtins.

(* ... and the table is what the code generator goes by: a call with len arguments inside the arity range leaves len values
   and, when the range is not a single number, the count literal on top -- exactly the entries the handler owns *)
Lemma width_is_what_the_call_pushed : forall name lo hi len s,
  builtin_arity name = Some (lo, hi) -> in_range (lo, hi) len = true ->
  call_width name ((if lo =? hi then [] else [VInt (Z.of_N len)]) ++ s) = len + (if lo =? hi then 0 else 1).
Proof.
  intros name lo hi len s Ha Hr. unfold call_width. rewrite Ha. unfold in_range in Hr. cbn [fst snd] in Hr.
  destruct (N.eqb_spec lo hi) as [-> |]; [| cbn [app]; lia].
  apply andb_prop in Hr. destruct Hr as [H1 H2]. apply N.leb_le in H1. apply N.leb_le in H2. lia.
Qed.

(* the statement is not empty: POS(0) and POS on a machine with a return address beneath *)
From BL Require Import Drv.Driver.
Definition pos_name : str := s2l "POS".
Definition pos_machine (args : list val) : rt := set_stack rt_default (args ++ [VRet 5]).
Example pos_calls :
  WF (pos_machine [VInt 1; VSng 0]) /\ WF (pos_machine [VInt 0])
  /\ (let '(r', x) := do_builtin dummy_oracle pos_name (pos_machine [VInt 1; VSng 0]) in x = Ok None /\ r_stack r' = [VInt 0; VRet 5])
  /\ (let '(r', x) := do_builtin dummy_oracle pos_name (pos_machine [VInt 0]) in x = Ok None /\ r_stack r' = [VInt 0; VRet 5]).
Proof. repeat split; vm_compute; reflexivity. Qed.
