(* C19: a branch to a line that does not exist is reported by the linker as UNDEFINED LINE, with the line the branch stands
   on and the column range the parser recorded for the number -- and it changes no instruction. *)
From BL Require Import Base.Prelude Base.Floats Mach.Val Lang.Token Lang.Ast Mach.Compile Proofs.Reloc.
From Coq Require Import Lia.
Local Open Scope N_scope.

Section LinkErr.
Variable syms : list (Z * (N * N)).

Lemma lstep_errs_grow acc e : exists more, snd (lstep syms acc e) = snd acc ++ more.
Proof.
  destruct acc as [ops errs]. destruct e as [addr [c sym]]. unfold lstep. cbn [snd].
  destruct (zassoc_get sym syms) as [dest |].
  - destruct (nthN ops addr) as [op |]; [destruct (patch_op op dest) |]; cbn [snd]; eexists; try reflexivity. rewrite app_nil_r. reflexivity.
  - destruct (0 <=? sym)%Z; cbn [snd]; eexists; reflexivity.
Qed.

Lemma fold_errs_grow : forall unl acc, exists more, snd (fold_left (lstep syms) unl acc) = snd acc ++ more.
Proof.
  induction unl as [| e r IH]; intros acc; cbn [fold_left]; [exists []; rewrite app_nil_r; reflexivity |].
  destruct (IH (lstep syms acc e)) as [m1 E1]. destruct (lstep_errs_grow acc e) as [m0 E0]. rewrite E1, E0, <- app_assoc. eexists. reflexivity.
Qed.

(* the diagnostic *)
Theorem undefined_line_reported : forall unl acc addr c sym, In (addr, (c, sym)) unl -> zassoc_get sym syms = None -> (0 <= sym)%Z ->
  In (mkErr E_UndefinedLine (line_number_for syms addr) c) (snd (fold_left (lstep syms) unl acc)).
Proof.
  induction unl as [| e r IH]; intros acc addr c sym Hin Hn Hs; [destruct Hin |]. cbn [fold_left]. destruct Hin as [-> | Hin].
  - destruct (fold_errs_grow r (lstep syms acc (addr, (c, sym)))) as [more E]. rewrite E. apply in_or_app. left.
    destruct acc as [ops errs]. unfold lstep. rewrite Hn. destruct (Z.leb_spec 0 sym); [| lia]. cbn [snd]. apply in_or_app. right. left. reflexivity.
  - exact (IH _ addr c sym Hin Hn Hs).
Qed.

(* and the instruction that could not be resolved is left as it was *)
Theorem undefined_line_keeps_code : forall acc addr c sym, zassoc_get sym syms = None -> fst (lstep syms acc (addr, (c, sym))) = fst acc.
Proof. intros [ops errs] addr c sym Hn. unfold lstep. rewrite Hn. destruct (0 <=? sym)%Z; reflexivity. Qed.

End LinkErr.

(* ---------- which line an address belongs to ---------- *)
From BL Require Import Proofs.ExprCompile Proofs.Flow Proofs.Flow2.

Definition best_step (addr : N) (acc : option Z) (e : Z * (N * N)) : option Z :=
  let '(k, (a, _)) := e in
  if (0 <=? k)%Z && (a <=? addr) then match acc with Some k' => if (k' <? k)%Z then Some k else acc | None => Some k end else acc.

Lemma line_number_for_fold syms addr :
  line_number_for syms addr = match fold_left (best_step addr) syms None with
                              | Some k => if (k <=? 65529)%Z then Some (Z.to_N k) else None
                              | None => None
                              end.
Proof. reflexivity. Qed.

Lemma syms_addr_ge : forall pls base k a d, In (k, (a, d)) (line_syms pls base) -> base <= a.
Proof.
  induction pls as [| pl r IH]; intros base k a d H; [destruct H |]. cbn [line_syms] in H. destruct H as [E | H].
  - injection E as _ <- _. lia.
  - specialize (IH _ _ _ _ H). lia.
Qed.

Lemma fold_skip_later addr : forall l acc, (forall k a d, In (k, (a, d)) l -> addr < a) -> fold_left (best_step addr) l acc = acc.
Proof.
  induction l as [| [k [a d]] r IH]; intros acc H; [reflexivity |]. cbn [fold_left best_step].
  specialize (H k a d (or_introl eq_refl)) as Ha. destruct (N.leb_spec a addr); [lia |]. rewrite Bool.andb_false_r.
  apply IH. intros k' a' d' Hin. apply (H k' a' d'). right. exact Hin.
Qed.

Lemma fold_keys_bound addr bound : forall l acc, (forall k v, In (k, v) l -> (k < bound)%Z) ->
  (match acc with Some k => (k < bound)%Z | None => True end) ->
  match fold_left (best_step addr) l acc with Some k => (k < bound)%Z | None => True end.
Proof.
  induction l as [| [k [a d]] r IH]; intros acc H Ha; [exact Ha |]. cbn [fold_left]. apply IH; [intros k' v' Hin; apply (H k' v'); right; exact Hin |].
  cbn [best_step]. pose proof (H k (a, d) (or_introl eq_refl)) as Hk.
  destruct ((0 <=? k)%Z && (a <=? addr)); [| exact Ha]. destruct acc as [k' |]; [destruct (k' <? k)%Z; [exact Hk | exact Ha] | exact Hk].
Qed.

Theorem address_belongs_to_line : forall before n ps after lo addr,
  ascending (before ++ (n, ps) :: after) lo -> n <= 65529 ->
  lenN (prog_ops before) <= addr < lenN (prog_ops before) + lenN (line_ops (n, ps)) ->
  line_number_for (line_syms (before ++ (n, ps) :: after) 0) addr = Some n.
Proof.
  intros before n ps after lo addr Ha Hn Haddr. rewrite line_number_for_fold, line_syms_app. cbn [line_syms fst]. rewrite fold_left_app. cbn [fold_left].
  rewrite N.add_0_l.
  destruct (ascending_app _ _ _ Ha) as (_ & _ & Hbefore & _).
  (* what the lines before leave: nothing, or a number below n *)
  pose proof (fold_keys_bound addr (Z.of_N n) (line_syms before 0) None) as Hb.
  assert (Hkeys : forall k v, In (k, v) (line_syms before 0) -> (k < Z.of_N n)%Z).
  { intros k v Hin. destruct (line_syms_keys before 0 k v Hin) as (pl & Hpl & ->). specialize (Hbefore pl (n, ps) Hpl (or_introl eq_refl)). cbn [fst] in Hbefore. lia. }
  specialize (Hb Hkeys I).
  (* line n itself qualifies and beats it *)
  set (acc0 := fold_left (best_step addr) (line_syms before 0) None) in *.
  assert (Estep : best_step addr acc0 (Z.of_N n, (lenN (prog_ops before), 0)) = Some (Z.of_N n)).
  { cbn [best_step]. destruct (Z.leb_spec 0 (Z.of_N n)); [| lia]. destruct (N.leb_spec (lenN (prog_ops before)) addr); [| lia]. cbn [andb].
    destruct acc0 as [k' |]; [| reflexivity]. destruct (Z.ltb_spec k' (Z.of_N n)); [reflexivity | lia]. }
  rewrite Estep.
  (* the lines behind start beyond the address *)
  rewrite fold_skip_later.
  - destruct (Z.leb_spec (Z.of_N n) 65529); [| lia]. rewrite N2Z.id. reflexivity.
  - intros k a d Hin. pose proof (syms_addr_ge _ _ _ _ _ Hin). lia.
Qed.

(* ---------- together: GOTO / ON..GOTO to a line that is not there ---------- *)
Lemma zassoc_get_none {V} key : forall (l : list (Z * V)), (forall k v, In (k, v) l -> k <> key) -> zassoc_get key l = None.
Proof.
  induction l as [| [k v] r IH]; intros H; [reflexivity |]. cbn [zassoc_get].
  destruct (Z.eqb_spec key k) as [-> | _]; [exfalso; exact (H k v (or_introl eq_refl) eq_refl) |]. apply IH. intros k' v' Hin. apply (H k' v'). right. exact Hin.
Qed.

Theorem branch_to_missing_line_is_reported : forall before n pb p pa after lo s k c m,
  let pls := before ++ (n, pb ++ p :: pa) :: after in
  ascending pls lo -> n <= 65529 -> fstmt s p -> In (k, (c, Z.of_N m)) (pc_refs p) -> (forall pl, In pl pls -> fst pl <> m) ->
  In (mkErr E_UndefinedLine (Some n) c) (snd (fold_left (lstep (line_syms pls 0)) (line_refs pls 0) (prog_ops pls, []))).
Proof.
  intros before n pb p pa after lo s k c m pls Ha Hn Hs Hin Hmiss.
  pose proof (ref_address before n pb p pa after k (c, Z.of_N m) Hin) as Href. fold pls in Href.
  assert (Hnone : zassoc_get (Z.of_N m) (line_syms pls 0) = None).
  { apply zassoc_get_none. intros k0 v0 Hk E. destruct (line_syms_keys pls 0 k0 v0 Hk) as (pl & Hpl & ->). apply N2Z.inj in E. exact (Hmiss pl Hpl E). }
  pose proof (undefined_line_reported (line_syms pls 0) (line_refs pls 0) (prog_ops pls, []) _ c (Z.of_N m) Href Hnone ltac:(lia)) as Hrep.
  rewrite (address_belongs_to_line before n (pb ++ p :: pa) after lo _ Ha Hn) in Hrep; [exact Hrep |].
  destruct (refs_in_code s p Hs k (c, Z.of_N m) Hin) as [Hk _]. unfold line_ops. cbn [snd]. rewrite flat_map_app, lenN_app. cbn [flat_map]. rewrite lenN_app. lia.
Qed.
