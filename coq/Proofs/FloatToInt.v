(* C08: conversion of a Single to a 16-bit (or other small) integer is floor plus a range check, for every bit pattern.
   From Flocq's correctness theorems for conversion from integers, rounding to an integer, comparison and truncation. *)
From BL Require Import Base.Prelude Base.Floats Mach.Val.
From Flocq Require Import Core.Core IEEE754.BinarySingleNaN IEEE754.Binary IEEE754.Bits.
From Coq Require Import Reals Lia Lra.
Local Open Scope Z_scope.

(* ---------- integers below 2^24 are binary32 numbers ---------- *)
Section Ints.
Variable n : Z.
Hypothesis Hn : Z.abs n <= 16777215.

Definition Bz : binary32 := Binary.binary_normalize 24 128 Hp32 Hpe32 mode_NE n 0 false.

Lemma F2R_z : F2R (Float radix2 n 0) = IZR n.
Proof. unfold F2R. cbn [Fnum Fexp bpow]. ring. Qed.

Lemma z_format : generic_format radix2 (FLT_exp (3 - 128 - 24) 24) (IZR n).
Proof.
  apply generic_format_FLT. apply (FLT_spec radix2 (3 - 128 - 24) 24 (IZR n) (Float radix2 n 0)).
  - symmetry. exact F2R_z.
  - cbn [Fnum]. change (Z.pow radix2 24) with 16777216. lia.
  - cbn [Fexp]. lia.
Qed.

Lemma Bz_props : Binary.B2R 24 128 Bz = IZR n /\ Binary.is_finite 24 128 Bz = true.
Proof.
  pose proof (binary_normalize_correct 24 128 Hp32 Hpe32 mode_NE n 0 false) as H.
  rewrite F2R_z in H. rewrite (round_generic radix2 _ _ (IZR n) z_format) in H.
  rewrite Rlt_bool_true in H.
  - destruct H as (H1 & H2 & _). split; assumption.
  - rewrite <- abs_IZR. change (bpow radix2 128) with (IZR (2 ^ 128)). apply IZR_lt.
    assert (16777215 < 2 ^ 128) by (vm_compute; reflexivity). lia.
Qed.
End Ints.

Lemma finite_not_nan32 (b : binary32) : Binary.is_finite 24 128 b = true -> Binary.is_nan 24 128 b = false.
Proof. destruct b; cbn; congruence. Qed.

Lemma bits_back32 (b : binary32) : Binary.is_nan 24 128 b = false -> b32_of_bits (canon32 b) = b.
Proof.
  intros H. unfold canon32. rewrite H. unfold b32_of_bits, bits_of_b32.
  exact (binary_float_of_bits_of_binary_float 23 8 eq_refl eq_refl eq_refl b).
Qed.

Lemma of_Z_back32 n : Z.abs n <= 16777215 -> b32_of_bits (f32_of_Z n) = Bz n.
Proof. intros Hn. unfold f32_of_Z, norm32. apply bits_back32. apply finite_not_nan32. exact (proj2 (Bz_props n Hn)). Qed.

(* ---------- the conversion ---------- *)
Definition floor_of (x : binary32) : Z := Zfloor (Binary.B2R 24 128 x).

Theorem float_to_int32_spec : forall b lo hi cast, Z.abs lo <= 16777215 -> Z.abs hi <= 16777215 ->
  float_to_int32 b lo hi cast =
  (if Binary.is_finite 24 128 (b32_of_bits b) && (lo <=? floor_of (b32_of_bits b)) && (floor_of (b32_of_bits b) <=? hi)
   then Ok (Z.min (floor_of (b32_of_bits b)) cast) else err E_Overflow).
Proof.
  intros b lo hi cast Hlo Hhi. unfold float_to_int32, f32_floor. set (x := b32_of_bits b).
  set (F := Binary.Bnearbyint 24 128 Hpe32 unop_nan_pl32 mode_DN x).
  destruct (Bnearbyint_correct 24 128 Hpe32 unop_nan_pl32 mode_DN x) as (HR & HF & _). fold F in HR, HF.
  rewrite round_FIX_IZR in HR. cbn [round_mode] in HR. fold (floor_of x) in HR.
  destruct (Binary.is_finite 24 128 x) eqn:Efin; cbn [andb].
  - (* finite: floor is an integer-valued finite float *)
    assert (Hnn : Binary.is_nan 24 128 F = false) by (apply finite_not_nan32; exact HF).
    unfold f32_le, cmp32, b32_compare. rewrite !(bits_back32 F Hnn), (of_Z_back32 lo Hlo), (of_Z_back32 hi Hhi).
    rewrite (Bcompare_correct 24 128 _ _ (proj2 (Bz_props lo Hlo)) HF), (Bcompare_correct 24 128 _ _ HF (proj2 (Bz_props hi Hhi))).
    rewrite (proj1 (Bz_props lo Hlo)), (proj1 (Bz_props hi Hhi)), HR, !Rcompare_IZR. unfold is_le.
    assert (Htr : f32_to_Z (canon32 F) = floor_of x).
    { unfold f32_to_Z. rewrite (bits_back32 F Hnn). apply eq_IZR. rewrite Btrunc_correct, HR, round_FIX_IZR.
      - rewrite Ztrunc_IZR. reflexivity.
      - exact Hpe32. }
    rewrite Htr.
    destruct (Z.compare_spec lo (floor_of x)), (Z.compare_spec (floor_of x) hi), (Z.leb_spec lo (floor_of x)), (Z.leb_spec (floor_of x) hi);
      try lia; reflexivity.
  - (* NaN or infinity *)
    unfold x in *. destruct (b32_of_bits b) as [s | s | s pl Hpl | s m e Hb] eqn:Eb; try discriminate.
    + (* infinity: the floor is the same infinity; one of the two comparisons fails *)
      assert (EF : F = Binary.B754_infinity 24 128 s) by reflexivity. rewrite EF.
      assert (Hb' : b32_of_bits (canon32 (Binary.B754_infinity 24 128 s)) = Binary.B754_infinity 24 128 s) by (apply bits_back32; reflexivity).
      unfold f32_le, cmp32, b32_compare. rewrite Hb', (of_Z_back32 lo Hlo), (of_Z_back32 hi Hhi).
      pose proof (proj2 (Bz_props lo Hlo)) as Fl. pose proof (proj2 (Bz_props hi Hhi)) as Fh.
      destruct (Bz lo) as [sl | sl | sl pll Hpll | sl ml el Hbl]; try discriminate Fl;
        destruct (Bz hi) as [sh | sh | sh plh Hplh | sh mh eh Hbh]; try discriminate Fh; destruct s; reflexivity.
    + (* NaN: every comparison with it fails *)
      assert (EF : Binary.is_nan 24 128 F = true) by reflexivity.
      unfold canon32. rewrite EF. unfold f32_le, cmp32, b32_compare.
      assert (En : Binary.is_nan 24 128 (b32_of_bits nan32) = true) by (vm_compute; reflexivity).
      destruct (b32_of_bits nan32) as [sn | sn | sn pln Hpln | sn mn en Hbn]; try discriminate En.
      rewrite (of_Z_back32 lo Hlo). pose proof (proj2 (Bz_props lo Hlo)) as Fl.
      destruct (Bz lo) as [sl | sl | sl pll Hpll | sl ml el Hbl]; try discriminate Fl; reflexivity.
Qed.

(* ---------- integers below 2^24 are binary64 numbers ---------- *)
Section Ints64.
Variable n : Z.
Hypothesis Hn : Z.abs n <= 16777215.

Definition Bz64 : binary64 := Binary.binary_normalize 53 1024 Hp64 Hpe64 mode_NE n 0 false.

Lemma F2R_z64 : F2R (Float radix2 n 0) = IZR n.
Proof. unfold F2R. cbn [Fnum Fexp bpow]. ring. Qed.

Lemma z64_format : generic_format radix2 (FLT_exp (3 - 1024 - 53) 53) (IZR n).
Proof.
  apply generic_format_FLT. apply (FLT_spec radix2 (3 - 1024 - 53) 53 (IZR n) (Float radix2 n 0)).
  - symmetry. exact F2R_z64.
  - cbn [Fnum]. change (Z.pow radix2 53) with 9007199254740992. lia.
  - cbn [Fexp]. lia.
Qed.

Lemma Bz64_props : Binary.B2R 53 1024 Bz64 = IZR n /\ Binary.is_finite 53 1024 Bz64 = true.
Proof.
  pose proof (binary_normalize_correct 53 1024 Hp64 Hpe64 mode_NE n 0 false) as H.
  rewrite F2R_z64 in H. rewrite (round_generic radix2 _ _ (IZR n) z64_format) in H.
  rewrite Rlt_bool_true in H.
  - destruct H as (H1 & H2 & _). split; assumption.
  - rewrite <- abs_IZR. change (bpow radix2 1024) with (IZR (2 ^ 1024)). apply IZR_lt.
    assert (16777215 < 2 ^ 1024) by (vm_compute; reflexivity). lia.
Qed.
End Ints64.

Lemma finite_not_nan64 (b : binary64) : Binary.is_finite 53 1024 b = true -> Binary.is_nan 53 1024 b = false.
Proof. destruct b; cbn; congruence. Qed.

Lemma bits_back64 (b : binary64) : Binary.is_nan 53 1024 b = false -> b64_of_bits (canon64 b) = b.
Proof.
  intros H. unfold canon64. rewrite H. unfold b64_of_bits, bits_of_b64.
  exact (binary_float_of_bits_of_binary_float 52 11 eq_refl eq_refl eq_refl b).
Qed.

Lemma of_Z_back64 n : Z.abs n <= 16777215 -> b64_of_bits (f64_of_Z n) = Bz64 n.
Proof. intros Hn. unfold f64_of_Z, norm64. apply bits_back64. apply finite_not_nan64. exact (proj2 (Bz64_props n Hn)). Qed.

(* ---------- the conversion from Double ---------- *)
Definition floor_of64 (x : binary64) : Z := Zfloor (Binary.B2R 53 1024 x).

Theorem float_to_int64_spec : forall b lo hi cast, Z.abs lo <= 16777215 -> Z.abs hi <= 16777215 ->
  float_to_int64 b lo hi cast =
  (if Binary.is_finite 53 1024 (b64_of_bits b) && (lo <=? floor_of64 (b64_of_bits b)) && (floor_of64 (b64_of_bits b) <=? hi)
   then Ok (Z.min (floor_of64 (b64_of_bits b)) cast) else err E_Overflow).
Proof.
  intros b lo hi cast Hlo Hhi. unfold float_to_int64, f64_floor. set (x := b64_of_bits b).
  set (F := Binary.Bnearbyint 53 1024 Hpe64 unop_nan_pl64 mode_DN x).
  destruct (Bnearbyint_correct 53 1024 Hpe64 unop_nan_pl64 mode_DN x) as (HR & HF & _). fold F in HR, HF.
  rewrite round_FIX_IZR in HR. cbn [round_mode] in HR. fold (floor_of64 x) in HR.
  destruct (Binary.is_finite 53 1024 x) eqn:Efin; cbn [andb].
  - (* finite: floor is an integer-valued finite float *)
    assert (Hnn : Binary.is_nan 53 1024 F = false) by (apply finite_not_nan64; exact HF).
    unfold f64_le, cmp64, b64_compare. rewrite !(bits_back64 F Hnn), (of_Z_back64 lo Hlo), (of_Z_back64 hi Hhi).
    rewrite (Bcompare_correct 53 1024 _ _ (proj2 (Bz64_props lo Hlo)) HF), (Bcompare_correct 53 1024 _ _ HF (proj2 (Bz64_props hi Hhi))).
    rewrite (proj1 (Bz64_props lo Hlo)), (proj1 (Bz64_props hi Hhi)), HR, !Rcompare_IZR. unfold is_le.
    assert (Htr : f64_to_Z (canon64 F) = floor_of64 x).
    { unfold f64_to_Z. rewrite (bits_back64 F Hnn). apply eq_IZR. rewrite Btrunc_correct, HR, round_FIX_IZR.
      - rewrite Ztrunc_IZR. reflexivity.
      - exact Hpe64. }
    rewrite Htr.
    destruct (Z.compare_spec lo (floor_of64 x)), (Z.compare_spec (floor_of64 x) hi), (Z.leb_spec lo (floor_of64 x)), (Z.leb_spec (floor_of64 x) hi);
      try lia; reflexivity.
  - (* NaN or infinity *)
    unfold x in *. destruct (b64_of_bits b) as [s | s | s pl Hpl | s m e Hb] eqn:Eb; try discriminate.
    + (* infinity: the floor is the same infinity; one of the two comparisons fails *)
      assert (EF : F = Binary.B754_infinity 53 1024 s) by reflexivity. rewrite EF.
      assert (Hb' : b64_of_bits (canon64 (Binary.B754_infinity 53 1024 s)) = Binary.B754_infinity 53 1024 s) by (apply bits_back64; reflexivity).
      unfold f64_le, cmp64, b64_compare. rewrite Hb', (of_Z_back64 lo Hlo), (of_Z_back64 hi Hhi).
      pose proof (proj2 (Bz64_props lo Hlo)) as Fl. pose proof (proj2 (Bz64_props hi Hhi)) as Fh.
      destruct (Bz64 lo) as [sl | sl | sl pll Hpll | sl ml el Hbl]; try discriminate Fl;
        destruct (Bz64 hi) as [sh | sh | sh plh Hplh | sh mh eh Hbh]; try discriminate Fh; destruct s; reflexivity.
    + (* NaN: every comparison with it fails *)
      assert (EF : Binary.is_nan 53 1024 F = true) by reflexivity.
      unfold canon64. rewrite EF. unfold f64_le, cmp64, b64_compare.
      assert (En : Binary.is_nan 53 1024 (b64_of_bits nan64) = true) by (vm_compute; reflexivity).
      destruct (b64_of_bits nan64) as [sn | sn | sn pln Hpln | sn mn en Hbn]; try discriminate En.
      rewrite (of_Z_back64 lo Hlo). pose proof (proj2 (Bz64_props lo Hlo)) as Fl.
      destruct (Bz64 lo) as [sl | sl | sl pll Hpll | sl ml el Hbl]; try discriminate Fl; reflexivity.
Qed.

(* ---------- what the interpreter uses ---------- *)
Theorem single_to_integer : forall b,
  to_i16 (VSng b) = (if Binary.is_finite 24 128 (b32_of_bits b) && (-32768 <=? floor_of (b32_of_bits b)) && (floor_of (b32_of_bits b) <=? 32767)
                     then Ok (floor_of (b32_of_bits b)) else err E_Overflow).
Proof.
  intros b. cbn [to_i16]. rewrite float_to_int32_spec by lia.
  destruct (Binary.is_finite 24 128 (b32_of_bits b) && (-32768 <=? floor_of (b32_of_bits b))); cbn [andb]; [| reflexivity].
  destruct (Z.leb_spec (floor_of (b32_of_bits b)) 32767); [rewrite Z.min_l by lia |]; reflexivity.
Qed.

Theorem double_to_integer : forall b,
  to_i16 (VDbl b) = (if Binary.is_finite 53 1024 (b64_of_bits b) && (-32768 <=? floor_of64 (b64_of_bits b)) && (floor_of64 (b64_of_bits b) <=? 32767)
                     then Ok (floor_of64 (b64_of_bits b)) else err E_Overflow).
Proof.
  intros b. cbn [to_i16]. rewrite float_to_int64_spec by lia.
  destruct (Binary.is_finite 53 1024 (b64_of_bits b) && (-32768 <=? floor_of64 (b64_of_bits b))); cbn [andb]; [| reflexivity].
  destruct (Z.leb_spec (floor_of64 (b64_of_bits b)) 32767); [rewrite Z.min_l by lia |]; reflexivity.
Qed.

(* the result is always a 16-bit integer: a conversion never wraps and never truncates an out-of-range value *)
Corollary to_i16_in_range : forall v z, to_i16 v = Ok z -> match v with VInt _ => True | _ => -32768 <= z <= 32767 end.
Proof.
  intros v z H. destruct v as [s | b | b | n | a | a]; try exact I; try (cbn in H; discriminate).
  - rewrite single_to_integer in H. destruct (Binary.is_finite _ _ _ && _ && _) eqn:E; [| discriminate]. injection H as <-.
    apply andb_prop in E. destruct E as [E1 E2]. apply andb_prop in E1. destruct E1 as [_ E1]. apply Z.leb_le in E1, E2. lia.
  - rewrite double_to_integer in H. destruct (Binary.is_finite _ _ _ && _ && _) eqn:E; [| discriminate]. injection H as <-.
    apply andb_prop in E. destruct E as [E1 E2]. apply andb_prop in E1. destruct E1 as [_ E1]. apply Z.leb_le in E1, E2. lia.
Qed.
