(* C01: control flow, part 3 -- the VM running the linked code follows the reference semantics. *)
From BL Require Import Base.Prelude Base.Floats Mach.Val Mach.Ops Mach.Func Mach.Var
     Lang.Token Lang.Lex Lang.Ast Lang.Parse Mach.Compile Mach.Listing Mach.Runtime Spec.Sem
     Proofs.ExprCompile Proofs.Slicing Proofs.Reloc Proofs.Flow Proofs.Flow2.
From Coq Require Import Lia.
Local Open Scope N_scope.

(* ---------- every recorded reference sits on a placeholder jump ---------- *)
Lemma piece_ref_is_jump s p k v : fstmt s p -> In (k, v) (pc_refs p) -> nth_error (pc_ops p) (N.to_nat k) = Some (OpJump 0).
Proof.
  intros H Hin. destruct H; cbn [pc_refs pc_ops] in *; try (destruct Hin; fail).
  - destruct Hin as [E | []]. injection E as <- _. reflexivity.
  - pose proof (jump_refs_keys _ _ _ _ Hin) as Hk. unfold on_code.
    assert (Hl : lenN (postfix e) = N.of_nat (length (postfix e))) by reflexivity.
    replace (N.to_nat k) with (S (length (postfix e) + (1 + (N.to_nat k - 2 - length (postfix e)))))%nat by (unfold lenN in *; lia).
    cbn [nth_error]. rewrite nth_error_app2 by lia. replace (length (postfix e) + _ - length (postfix e))%nat with (1 + (N.to_nat k - 2 - length (postfix e)))%nat by lia.
    cbn [app nth_error Nat.add]. apply nth_error_repeat. unfold lenN in *. lia.
  Qed.

Lemma in_piece_refs : forall ps base a v, In (a, v) (piece_refs ps base) ->
  exists pb p pa k, ps = pb ++ p :: pa /\ In (k, v) (pc_refs p) /\ a = base + lenN (flat_map pc_ops pb) + k.
Proof.
  induction ps as [| p r IH]; intros base a v Hin; [destruct Hin |]. cbn [piece_refs] in Hin. apply in_app_or in Hin. destruct Hin as [Hin | Hin].
  - unfold shift in Hin. rewrite in_map_iff in Hin. destruct Hin as [[k0 v0] [E Hin]]. injection E as <- <-.
    exists [], p, r, k0. split; [reflexivity |]. split; [exact Hin |]. unfold lenN. cbn. lia.
  - destruct (IH _ a v Hin) as (pb & p' & pa & k & -> & Hk & ->). exists (p :: pb), p', pa, k. split; [reflexivity |]. split; [exact Hk |].
    cbn [flat_map]. rewrite lenN_app. lia.
Qed.

Lemma in_line_refs : forall pls base a v, In (a, v) (line_refs pls base) ->
  exists before n pb p pa after k, pls = before ++ (n, pb ++ p :: pa) :: after /\ In (k, v) (pc_refs p)
    /\ a = base + lenN (prog_ops before) + lenN (flat_map pc_ops pb) + k.
Proof.
  induction pls as [| [n ps] r IH]; intros base a v Hin; [destruct Hin |]. cbn [line_refs snd] in Hin. apply in_app_or in Hin. destruct Hin as [Hin | Hin].
  - destruct (in_piece_refs ps base a v Hin) as (pb & p & pa & k & -> & Hk & ->).
    exists [], n, pb, p, pa, r, k. split; [reflexivity |]. split; [exact Hk |]. unfold lenN. cbn. lia.
  - destruct (IH _ a v Hin) as (before & n' & pb & p & pa & after & k & -> & Hk & ->).
    exists ((n, ps) :: before), n', pb, p, pa, after, k. split; [reflexivity |]. split; [exact Hk |].
    cbn [prog_ops flat_map]. rewrite lenN_app. fold (prog_ops before). lia.
Qed.

Lemma good_prog_piece pls before n pb p pa after : good_prog pls -> pls = before ++ (n, pb ++ p :: pa) :: after -> good_piece p.
Proof.
  intros Hg ->. unfold good_prog in Hg. rewrite Forall_forall in Hg. specialize (Hg (n, pb ++ p :: pa) ltac:(apply in_or_app; right; left; reflexivity)).
  cbn [snd] in Hg. rewrite Forall_forall in Hg. apply Hg. apply in_or_app. right. left. reflexivity.
Qed.

Theorem ref_holds_jump : forall pls a v, good_prog pls -> In (a, v) (line_refs pls 0) -> nthN (prog_ops pls) a = Some (OpJump 0).
Proof.
  intros pls a v Hg Hin. destruct (in_line_refs pls 0 a v Hin) as (before & n & pb & p & pa & after & k & E & Hk & ->).
  destruct (good_prog_piece pls _ _ _ _ _ _ Hg E) as [s Hs]. subst pls.
  pose proof (piece_address before n pb p pa after (N.to_nat k) (OpJump 0) (piece_ref_is_jump s p k v Hs Hk)) as H.
  rewrite N2Nat.id in H. rewrite N.add_0_l. exact H.
Qed.

(* so linking leaves every instruction that is not a placeholder jump as it is *)
Corollary final_keeps : forall pls a op, good_prog pls -> nthN (prog_ops pls) a = Some op -> op <> OpJump 0 -> nthN (final_ops pls) a = Some op.
Proof.
  intros pls a op Hg Hop Hne. rewrite final_other; [exact Hop |]. intros Hin. rewrite in_map_iff in Hin. destruct Hin as [[a' v] [E Hin]]. cbn in E. subst a'.
  rewrite (ref_holds_jump pls a v Hg Hin) in Hop. congruence.
Qed.

(* ====================================================================================================
   The VM on the linked code
   ==================================================================================================== *)
Section VMSide.
Variable O : oracle.
Variable pls : list pline.
Hypothesis Hgood : good_prog pls.

(* the program memory holds the linked code (direct-mode code may follow it) *)
Definition loaded (r : rt) : Prop :=
  forall a op, nthN (final_ops pls) a = Some op -> nthN (l_ops (pg_link (r_prog r))) a = Some op.

(* one turn of the fetch loop with tracing off *)
Lemma loop_one : forall h r op, r_tron r = false -> nthN (l_ops (pg_link (r_prog r))) (r_pc r) = Some op ->
  exec_loop_x O 1 h r =
  match exec_op O h op (set_pc r (r_pc r + 1)) with
  | (r1, Ok (Some ev)) => (r1, Ok (Some ev))
  | (r1, Ok None) => (r1, Ok None)
  | (r1, Err e) => (r1, Err e) | (r1, Panic) => (r1, Panic) | (r1, Hang) => (r1, Hang)
  end.
Proof.
  intros h r op Htr Hop. cbn [exec_loop_x]. cbv beta delta [rbind rget rret rmod] iota. rewrite Htr. cbn [andb]. cbv beta iota.
  unfold one_op. cbv beta delta [rbind rget rret rmod] iota. rewrite Hop.
  destruct (exec_op O h op (set_pc r (r_pc r + 1))) as [r1 [[ev |] | e | |]]; reflexivity.
Qed.

Lemma loop_jump : forall r a, r_tron r = false -> nthN (l_ops (pg_link (r_prog r))) (r_pc r) = Some (OpJump a) ->
  exec_loop_x O 1 false r = (set_pc r a, Ok None).
Proof. intros r a Htr Hop. rewrite (loop_one false r (OpJump a) Htr Hop). destruct r; reflexivity. Qed.

(* the part of a statement's code that is not a placeholder sits in memory as the code generator wrote it *)
Lemma loaded_plain : forall r before n pb p pa after pre code post,
  loaded r -> pls = before ++ (n, pb ++ p :: pa) :: after -> pc_ops p = pre ++ code ++ post ->
  (forall op, In op code -> op <> OpJump 0) ->
  code_at r (lenN (prog_ops before) + lenN (flat_map pc_ops pb) + lenN pre) code.
Proof.
  intros r before n pb p pa after pre code post Hl E Ep Hnj i op Hi. apply Hl. apply final_keeps; [exact Hgood | | apply Hnj; eapply nth_error_In; exact Hi].
  rewrite E. replace (lenN (prog_ops before) + lenN (flat_map pc_ops pb) + lenN pre + N.of_nat i)
    with (lenN (prog_ops before) + lenN (flat_map pc_ops pb) + N.of_nat (length pre + i)) by (unfold lenN; lia).
  apply piece_address. rewrite Ep. rewrite nth_error_app2 by lia. replace (length pre + i - length pre)%nat with i by lia.
  rewrite nth_error_app1 by (apply nth_error_Some; congruence). exact Hi.
Qed.

Lemma expr_op_not_jump op : expr_op op = true -> op <> OpJump 0.
Proof. intros H E. subst op. discriminate. Qed.

(* a patched jump of a statement: the k-th instruction of the piece is a jump to the start of line n' *)
Lemma loaded_jump : forall r before n pb p pa after lo k c before' n' ps' after',
  loaded r -> ascending pls lo -> pls = before ++ (n, pb ++ p :: pa) :: after -> pls = before' ++ (n', ps') :: after' ->
  In (k, (c, Z.of_N n')) (pc_refs p) ->
  nthN (l_ops (pg_link (r_prog r))) (lenN (prog_ops before) + lenN (flat_map pc_ops pb) + k) = Some (OpJump (lenN (prog_ops before'))).
Proof.
  intros r before n pb p pa after lo k c before' n' ps' after' Hl Ha E E' Hin. apply Hl.
  destruct (good_prog_piece pls _ _ _ _ _ _ Hgood E) as [s Hs].
  apply (final_jump pls _ c n' _ Hgood).
  - rewrite E. apply ref_address. exact Hin.
  - rewrite E. pose proof (piece_address before n pb p pa after (N.to_nat k) (OpJump 0) (piece_ref_is_jump s p k _ Hs Hin)) as H.
    rewrite N2Nat.id in H. exact H.
  - rewrite E'. apply (line_address before' n' ps' after' lo). rewrite <- E'. exact Ha.
Qed.

End VMSide.

Section VMStmts.
Variable O : oracle.

(* what a statement of this fragment leaves alone *)
Definition keeps (r r' : rt) : Prop :=
  r_prog r' = r_prog r /\ r_tron r' = r_tron r /\ r_vars r' = r_vars r /\ r_stack r' = r_stack r /\ r_slen r' = r_slen r
  /\ r_col r' = r_col r.

Lemma code_at_app r a x y : code_at r a (x ++ y) -> code_at r a x /\ code_at r (a + lenN x) y.
Proof.
  intros H. split; intros i op Hi.
  - apply H. rewrite nth_error_app1 by (apply nth_error_Some; congruence). exact Hi.
  - replace (a + lenN x + N.of_nat i) with (a + N.of_nat (length x + i)) by (unfold lenN; lia). apply H.
    rewrite nth_error_app2 by lia. replace (length x + i - length x)%nat with i by lia. exact Hi.
Qed.

Lemma let_code_ops i e : pure e = true -> forallb expr_op (let_code i e) = true.
Proof. intros H. unfold let_code. rewrite forallb_app, (postfix_expr_ops e H). reflexivity. Qed.

(* LET v = e : the loop runs the statement's code and stands behind it *)
Lemma vm_let : forall r i e, r_tron r = false -> pure e = true -> code_at r (r_pc r) (let_code i e) ->
  r_slen r + lenN (postfix e) <= MAX_POOL ->
  match eval_pure O (r_vars r) e with
  | Ok v => match var_store (r_vars r) (ident_str i) v with
            | Ok vs => exec_loop_x O (length (let_code i e)) false r = (set_pc (set_vars r vs) (r_pc r + lenN (let_code i e)), Ok None)
            | Err er => snd (exec_loop_x O (length (let_code i e)) false r) = Err er
            | _ => True
            end
  | Err er => snd (exec_loop_x O (length (let_code i e)) false r) = Err er
  | _ => True
  end.
Proof.
  intros r i e Htr Hp Hat Hs. destruct (fetch_loop_runs_code O (let_code i e) false r (let_code_ops i e Hp) Htr Hat) as [H1 H2].
  pose proof (run_let O false i e r Hp Hs) as Hrun.
  destruct (eval_pure O (r_vars r) e) as [v | er | |]; [| rewrite H1, Hrun; reflexivity | exact I | exact I].
  destruct (var_store (r_vars r) (ident_str i) v) as [vs | er | |]; [| rewrite H1, Hrun; reflexivity | exact I | exact I].
  rewrite Hrun in H1, H2. cbn [fst snd no_event] in H1, H2. specialize (H2 tt eq_refl).
  destruct (exec_loop_x O (length (let_code i e)) false r) as [r1 x]. cbn [fst snd] in *. subst. reflexivity.
Qed.

(* ON with the selector and the count on the stack *)
Lemma do_on_run : forall r0 v L stk, r_stack r0 = v :: VInt L :: stk -> (0 <= L)%Z ->
  do_on r0 = match to_i16 v with
             | Ok sel => let r' := set_stack_len r0 stk (r_slen r0 - 1 - 1) in
                         if (sel <? 0)%Z then (r', err E_IllegalFunctionCall)
                         else (set_pc r' (r_pc r0 + Z.to_N (if ((sel =? 0) || (L <? sel))%Z then L else sel - 1)), Ok tt)
             | Err er => (set_stack_len r0 (VInt L :: stk) (r_slen r0 - 1), Err er)
             | Panic => (set_stack_len r0 (VInt L :: stk) (r_slen r0 - 1), Panic)
             | Hang => (set_stack_len r0 (VInt L :: stk) (r_slen r0 - 1), Hang)
             end.
Proof.
  intros r0 v L stk Hst HL. unfold do_on, rbind, pop, rlift. rewrite Hst.
  destruct (to_i16 v) as [sel | er | |]; try reflexivity.
  cbn [set_stack_len r_stack r_slen to_i16]. destruct (Z.ltb_spec L 0); [lia |]. rewrite Bool.orb_false_r.
  destruct (sel <? 0)%Z; [reflexivity |].
  destruct ((sel =? 0) || (L <? sel))%Z; reflexivity.
Qed.

(* ON e GOTO ... : the count and the selector are computed, then ON moves the program counter *)
Lemma vm_on : forall r e L, r_tron r = false -> pure e = true -> (0 <= L)%Z ->
  code_at r (r_pc r) (OpLiteral (VInt L) :: postfix e ++ [OpOn]) -> r_slen r + 1 + lenN (postfix e) <= MAX_POOL ->
  let q := r_pc r + 2 + lenN (postfix e) in
  let m := (S (length (postfix e)) + 1)%nat in
  match eval_pure O (r_vars r) e with
  | Ok v => match to_i16 v with
            | Ok sel => if (sel <? 0)%Z then snd (exec_loop_x O m false r) = err E_IllegalFunctionCall
                        else exists r', exec_loop_x O m false r = (r', Ok None) /\ keeps r r'
                                        /\ r_pc r' = q + Z.to_N (if ((sel =? 0) || (L <? sel))%Z then L else sel - 1)
            | Err er => snd (exec_loop_x O m false r) = Err er
            | _ => True
            end
  | Err er => snd (exec_loop_x O m false r) = Err er
  | _ => True
  end.
Proof.
  intros r e L Htr Hp HL Hat Hs q m.
  change (OpLiteral (VInt L) :: postfix e ++ [OpOn]) with ((OpLiteral (VInt L) :: postfix e) ++ [OpOn]) in Hat.
  apply code_at_app in Hat. destruct Hat as [Hat1 Hat2].
  assert (Hops : forallb expr_op (OpLiteral (VInt L) :: postfix e) = true) by (cbn [forallb expr_op]; rewrite (postfix_expr_ops e Hp); reflexivity).
  destruct (fetch_loop_runs_code O _ false r Hops Htr Hat1) as [H1 H2]. cbn [length] in H1, H2.
  assert (Hrun : run_ops O false (OpLiteral (VInt L) :: postfix e) r = run_ops O false (postfix e) (pushed r (VInt L))).
  { cbn [run_ops exec_op]. unfold rbind. rewrite push_ok by lia. reflexivity. }
  rewrite Hrun in H1, H2.
  pose proof (run_postfix O false e (pushed r (VInt L)) Hp) as Hpf. cbn [pushed set_stack_len r_slen r_vars] in Hpf. specialize (Hpf ltac:(lia)).
  unfold m. rewrite exec_loop_split.
  destruct (eval_pure O (r_vars r) e) as [v | er | |]; [| | exact I | exact I].
  2:{ destruct (exec_loop_x O (S (length (postfix e))) false r) as [r1 x]. cbn [snd] in H1. rewrite Hpf in H1. cbn in H1. subst x. reflexivity. }
  fold (pushed r (VInt L)) in Hpf. rewrite Hpf in H1, H2. cbn [fst snd no_event] in H1, H2. specialize (H2 tt eq_refl).
  destruct (exec_loop_x O (S (length (postfix e))) false r) as [r1 x]. cbn [fst snd] in H1, H2. subst r1 x.
  set (r1 := set_pc (pushed (pushed r (VInt L)) v) (r_pc r + lenN (OpLiteral (VInt L) :: postfix e))).
  assert (El : lenN (OpLiteral (VInt L) :: postfix e) = 1 + lenN (postfix e)) by (unfold lenN; cbn [length]; lia).
  assert (Hop : nthN (l_ops (pg_link (r_prog r1))) (r_pc r1) = Some OpOn).
  { specialize (Hat2 0%nat OpOn eq_refl). rewrite N.add_0_r in Hat2. exact Hat2. }
  rewrite (loop_one O false r1 OpOn Htr Hop).
  assert (Hex : exec_op O false OpOn (set_pc r1 (r_pc r1 + 1)) =
                match do_on (set_pc r1 (r_pc r1 + 1)) with
                | (r', Ok _) => (r', Ok None) | (r', Err er) => (r', Err er) | (r', Panic) => (r', Panic) | (r', Hang) => (r', Hang)
                end).
  { cbn [exec_op]. unfold rbind, rret. destruct (do_on (set_pc r1 (r_pc r1 + 1))) as [r' [u | er | |]]; reflexivity. }
  rewrite Hex. rewrite (do_on_run (set_pc r1 (r_pc r1 + 1)) v L (r_stack r)) by (try reflexivity; exact HL).
  destruct (to_i16 v) as [sel | er | |]; [| reflexivity | exact I | exact I].
  cbv zeta. destruct (Z.ltb_spec sel 0) as [Hneg | Hnn]; [reflexivity |].
  eexists. split; [reflexivity |]. split; [unfold keeps; cbn; repeat split; lia |].
  cbn [set_pc r_pc r1]. unfold q. rewrite El. lia.
Qed.

(* PRINT, one item: the item's value is computed, OpPrint takes it off the stack, moves the column and returns the text *)
Definition text_of (v : val) : str := match v with VStr t => t | _ => fmt_val v ++ [c_space] end.

Lemma vm_print_item : forall r e, r_tron r = false -> pure e = true -> code_at r (r_pc r) (postfix e ++ [OpPrint]) ->
  r_slen r + lenN (postfix e) <= MAX_POOL ->
  match eval_pure O (r_vars r) e with
  | Ok v => exec_loop_x O (length (postfix e) + 1) false r
            = (set_pc (set_col r (advance_col (r_col r) (text_of v))) (r_pc r + lenN (postfix e) + 1), Ok (Some (EvPrint (text_of v))))
  | Err er => snd (exec_loop_x O (length (postfix e) + 1) false r) = Err er
  | _ => True
  end.
Proof.
  intros r e Htr Hp Hat Hs. apply code_at_app in Hat. destruct Hat as [Hat1 Hat2].
  destruct (fetch_loop_runs_code O (postfix e) false r (postfix_expr_ops e Hp) Htr Hat1) as [H1 H2].
  pose proof (run_postfix O false e r Hp Hs) as Hpf. rewrite exec_loop_split.
  destruct (eval_pure O (r_vars r) e) as [v | er | |]; [| | exact I | exact I].
  2:{ destruct (exec_loop_x O (length (postfix e)) false r) as [r1 x]. cbn [snd] in H1. rewrite Hpf in H1. cbn in H1. subst x. reflexivity. }
  rewrite Hpf in H1, H2. cbn [fst snd no_event] in H1, H2. specialize (H2 tt eq_refl).
  destruct (exec_loop_x O (length (postfix e)) false r) as [r1 x]. cbn [fst snd] in H1, H2. subst r1 x.
  set (r1 := set_pc (pushed r v) (r_pc r + lenN (postfix e))).
  assert (Hop : nthN (l_ops (pg_link (r_prog r1))) (r_pc r1) = Some OpPrint).
  { specialize (Hat2 0%nat OpPrint eq_refl). rewrite N.add_0_r in Hat2. exact Hat2. }
  rewrite (loop_one O false r1 OpPrint Htr Hop). cbn [exec_op]. unfold rbind, do_print, rbind, pop, rmod, rret.
  cbn [r1 set_pc pushed set_stack_len r_stack r_slen r_pc r_col set_col]. fold (text_of v).
  replace (r_slen r + 1 - 1) with (r_slen r) by lia. destruct r; reflexivity.
Qed.

End VMStmts.

(* ====================================================================================================
   The reference semantics on the same statements
   ==================================================================================================== *)
Section SemSide.
Variable O : oracle.
Variable srcl : program_t.

Lemma sem_exec_let : forall line c cv i e rest s, pure e = true -> (depth e < 200)%nat -> s_locals s = [] ->
  exec O srcl 200 line (SLet c (VUnary cv i) e) rest s =
  match eval_pure O (s_vars s) e with
  | Ok v => match var_store (s_vars s) (ident_str i) v with
            | Ok vs => (with_vars s vs, Go rest)
            | Err er => (s, Halt (HError (ecode er) line))
            | _ => (s, Halt HUndefined)
            end
  | Err er => (s, Halt (HError (ecode er) line))
  | _ => (s, Halt HUndefined)
  end.
Proof.
  intros line c cv i e rest s Hp Hd Hloc. cbn [exec]. unfold sbind. rewrite (sem_eval_pure O 200 e s line Hp Hd Hloc).
  destruct (eval_pure O (s_vars s) e) as [v | er | |]; cbn [of_res]; try reflexivity.
  unfold assign, store_var. destruct (var_store (s_vars s) (ident_str i) v) as [vs | er | |]; reflexivity.
Qed.

Lemma sem_exec_goto : forall line c ce b rest s,
  exec O srcl 200 line (SGoto c (ESng ce b)) rest s =
  match line_stmts srcl (Z.to_N (f32_to_Z b)) with
  | Some l => (s, Go (l, Z.to_N (f32_to_Z b)))
  | None => (s, Halt HUndefined)
  end.
Proof. intros. cbn [exec goto_line]. destruct (line_stmts srcl (Z.to_N (f32_to_Z b))); reflexivity. Qed.

Lemma sem_exec_end : forall line c rest s, exec O srcl 200 line (SEnd c) rest s = (s, Halt HEnd).
Proof. reflexivity. Qed.

Lemma sem_exec_on : forall line c e (ts : list tgt) rest s, pure e = true -> (depth e < 200)%nat -> s_locals s = [] ->
  exec O srcl 200 line (SOnGoto c e (map tgt_expr ts)) rest s =
  match eval_pure O (s_vars s) e with
  | Ok v => match to_i16 v with
            | Ok sel =>
                if (sel <? 0)%Z then (s, Halt (HError E_IllegalFunctionCall line))
                else if ((sel =? 0) || (Z.of_N (lenN ts) <? sel))%Z then (s, Go rest)
                else match nthN ts (Z.to_N (sel - 1)) with
                     | Some t => match line_stmts srcl (Z.to_N (f32_to_Z (snd (fst t)))) with
                                 | Some l => (s, Go (l, Z.to_N (f32_to_Z (snd (fst t)))))
                                 | None => (s, Halt HUndefined)
                                 end
                     | None => (s, Halt HUndefined)
                     end
            | Err er => (s, Halt (HError (ecode er) line))
            | _ => (s, Halt HUndefined)
            end
  | Err er => (s, Halt (HError (ecode er) line))
  | _ => (s, Halt HUndefined)
  end.
Proof.
  intros line c e ts rest s Hp Hd Hloc. cbn [exec]. unfold sbind at 1. rewrite (sem_eval_pure O 200 e s line Hp Hd Hloc).
  destruct (eval_pure O (s_vars s) e) as [v | er | |]; cbn [of_res]; try reflexivity.
  unfold sbind at 1. unfold slift. destruct (to_i16 v) as [sel | er | |]; cbn [of_res]; try reflexivity.
  destruct (sel <? 0)%Z; [reflexivity |].
  assert (Hl : lenN (map tgt_expr ts) = lenN ts) by (unfold lenN; rewrite map_length; reflexivity). rewrite Hl.
  destruct ((sel =? 0) || (Z.of_N (lenN ts) <? sel))%Z; [reflexivity |].
  unfold nthN. rewrite nth_error_map. destruct (nth_error ts (N.to_nat (Z.to_N (sel - 1)))) as [t |]; cbn [option_map]; [| reflexivity].
  destruct t as [[ct bt] nt]. cbn [tgt_expr goto_line fst snd].
  destruct (line_stmts srcl (Z.to_N (f32_to_Z bt))); reflexivity.
Qed.

Lemma find_split {A} (f : A -> bool) : forall l x, find f l = Some x -> exists l1 l2, l = l1 ++ x :: l2 /\ f x = true.
Proof.
  induction l as [| y r IH]; intros x H; [discriminate |]. cbn [find] in H. destruct (f y) eqn:Ey.
  - injection H as <-. exists [], r. split; [reflexivity | exact Ey].
  - destruct (IH x H) as (l1 & l2 & -> & Hx). exists (y :: l1), l2. split; [reflexivity | exact Hx].
Qed.

Lemma find_skip {A} (f : A -> bool) : forall l1 l2, (forall x, In x l1 -> f x = false) -> find f (l1 ++ l2) = find f l2.
Proof.
  induction l1 as [| y r IH]; intros l2 H; [reflexivity |]. cbn [app find]. rewrite (H y (or_introl eq_refl)). apply IH.
  intros x Hx. apply H. right. exact Hx.
Qed.

Lemma line_stmts_found : forall n l, line_stmts srcl n = Some l -> exists sb ss sa, srcl = sb ++ (n, ss) :: sa /\ l = tag_line n ss.
Proof.
  intros n l H. unfold line_stmts in H. destruct (find (fun e => fst e =? n) srcl) as [[n0 ss] |] eqn:Ef; [| discriminate].
  injection H as <-. destruct (find_split _ _ _ Ef) as (l1 & l2 & E & Hn). cbn [fst] in Hn. apply N.eqb_eq in Hn. subst n0.
  exists l1, ss, l2. split; [exact E | reflexivity].
Qed.

(* PRINT: the items are evaluated and printed from left to right; an item that fails stops the statement after the items
   before it have been printed *)
Fixpoint sem_print_items (line : N) (rest : kont) (l : list expr) : SM step_result :=
  match l with
  | [] => sret (Go rest)
  | x :: r =>
      sdo v <~ eval O 200 line x ;;
      sdo _ <~ (fun st => (print_text st (match v with VStr t => t | _ => fmt_val v ++ [c_space] end), EvOk tt)) ;;
      sem_print_items line rest r
  end.

Lemma sem_exec_print : forall line c es rest s,
  exec O srcl 200 line (SPrint c es) rest s =
  match sem_print_items line rest es s with
  | (st', EvOk r) => (st', r)
  | (st', EvErr c) => (st', Halt (HError c line))
  | (st', EvUndef) => (st', Halt HUndefined)
  end.
Proof.
  intros line c es rest s. cbn [exec].
  assert (E : forall l, (fix go (l : list expr) : SM step_result :=
                           match l with
                           | [] => sret (Go rest)
                           | x :: r =>
                               sdo v <~ eval O 200 line x ;;
                               sdo _ <~ (fun st => (print_text st (match v with VStr t => t | _ => fmt_val v ++ [c_space] end), EvOk tt)) ;;
                               go r
                           end) l = sem_print_items line rest l).
  { induction l as [| x r IH]; [reflexivity |]. cbn [sem_print_items]. rewrite <- IH. reflexivity. }
  rewrite E. reflexivity.
Qed.

End SemSide.

(* ====================================================================================================
   The simulation
   ==================================================================================================== *)
(* the statements of the fragment as the reference semantics needs them: expressions shallower than its evaluation
   budget, and branch targets whose literal denotes the same line in the reference reading (truncate) as in the
   compiler's reading (TryFrom<Val> for LineNumber) *)
Definition tgt_sem (t : tgt) : Prop := Z.to_N (f32_to_Z (snd (fst t))) = snd t.

Inductive gstmt : stmt -> piece -> Prop :=
| gs_let : forall c cv i e, pure e = true -> builtin_arity (ident_str i) = None -> (depth e < 200)%nat ->
    gstmt (SLet c (VUnary cv i) e) (mkPiece (let_code i e) [] 0)
| gs_goto : forall c ce b n, target_is b n -> Z.to_N (f32_to_Z b) = n ->
    gstmt (SGoto c (ESng ce b)) (mkPiece [OpJump 0] [(0, (ce, Z.of_N n))] 0)
| gs_on : forall c e (ts : list tgt), pure e = true -> (depth e < 200)%nat -> Forall tgt_ok ts -> Forall tgt_sem ts -> lenN ts <= 32767 ->
    gstmt (SOnGoto c e (map tgt_expr ts)) (mkPiece (on_code e ts) (jump_refs (2 + lenN (postfix e)) ts) (-1))
| gs_end : forall c, gstmt (SEnd c) (mkPiece [OpEnd] [] 0)
| gs_print : forall c es, es <> [] -> forallb pure es = true -> Forall (fun e => (depth e < 200)%nat) es ->
    gstmt (SPrint c es) (mkPiece (print_code es) [] 0).

Lemma gstmt_fstmt s p : gstmt s p -> fstmt s p.
Proof. intros H. destruct H; constructor; assumption. Qed.

Definition lmatch (l : N * list stmt) (pl : pline) : Prop := fst l = fst pl /\ Forall2 gstmt (snd l) (snd pl).

Lemma lmatch_flayout : forall srcl pls, Forall2 lmatch srcl pls ->
  Forall2 (fun l pl => fst l = fst pl /\ Forall2 fstmt (snd l) (snd pl)) srcl pls.
Proof.
  intros srcl pls H. induction H as [| l pl ls pls' [E Hf] _ IH]; constructor; [| exact IH]. split; [exact E |].
  clear - Hf. induction Hf; constructor; [apply gstmt_fstmt; assumption | assumption].
Qed.

Lemma lmatch_good : forall srcl pls, Forall2 lmatch srcl pls -> good_prog pls.
Proof.
  intros srcl pls H. unfold good_prog. induction H as [| l pl ls pls' [E Hf] _ IH]; constructor; [| exact IH].
  clear - Hf. induction Hf as [| s p ss ps Hs _ IHf]; constructor; [exists s; apply gstmt_fstmt; exact Hs | exact IHf].
Qed.

Lemma prog_ops_split pb n pd p pr pa :
  prog_ops (pb ++ (n, pd ++ p :: pr) :: pa) = (prog_ops pb ++ flat_map pc_ops pd) ++ pc_ops p ++ (flat_map pc_ops pr ++ prog_ops pa).
Proof.
  rewrite prog_ops_app. unfold prog_ops at 2. cbn [flat_map]. fold (prog_ops pa). unfold line_ops. cbn [snd].
  rewrite flat_map_app. cbn [flat_map]. rewrite <- !app_assoc. reflexivity.
Qed.

Lemma prog_ops_single n pd : prog_ops [(n, pd)] = flat_map pc_ops pd.
Proof. unfold prog_ops. cbn [flat_map]. unfold line_ops. cbn [snd]. apply app_nil_r. Qed.

Lemma last_is_end_snoc a x : last_is_end (a ++ [x]) = true -> x = OpEnd.
Proof. unfold last_is_end. rewrite rev_app_distr. cbn. destruct x; try discriminate. reflexivity. Qed.

(* a statement whose code does not end in END is not the last one: the program counter stays inside the program *)
Lemma next_lt pls pb n pd p pr pa c x : pls = pb ++ (n, pd ++ p :: pr) :: pa -> last_is_end (prog_ops pls) = true ->
  pc_ops p = c ++ [x] -> x <> OpEnd ->
  lenN (prog_ops pb) + lenN (flat_map pc_ops pd) + lenN (pc_ops p) < lenN (prog_ops pls).
Proof.
  intros E Hend Ep Hx. rewrite E in *. rewrite prog_ops_split in *.
  destruct (flat_map pc_ops pr ++ prog_ops pa) as [| y B] eqn:EB.
  - exfalso. rewrite app_nil_r, Ep, app_assoc in Hend. apply last_is_end_snoc in Hend. contradiction.
  - rewrite !lenN_app. unfold lenN. cbn [length]. lia.
Qed.

Lemma last_nonempty_tail : forall a b, last_nonempty (a ++ b) -> b <> [] -> prog_ops b <> [].
Proof.
  intros a b H Hb. destruct (exists_last Hb) as (b' & z & ->). unfold last_nonempty in H. rewrite app_assoc, rev_app_distr in H. cbn [rev app] in H.
  rewrite prog_ops_app. unfold prog_ops at 2. cbn [flat_map]. rewrite app_nil_r. intros E. apply app_eq_nil in E. destruct E as [_ E]. contradiction.
Qed.

Lemma start_lt pls pb n ps pa : pls = pb ++ (n, ps) :: pa -> last_nonempty pls -> lenN (prog_ops pb) < lenN (prog_ops pls).
Proof.
  intros E H. rewrite E in *. rewrite prog_ops_app, lenN_app. pose proof (last_nonempty_tail pb ((n, ps) :: pa) H ltac:(discriminate)) as Hn.
  destruct (prog_ops ((n, ps) :: pa)); [contradiction |]. unfold lenN. cbn [length]. lia.
Qed.

Lemma jump_refs_nth : forall (ts : list tgt) base j t, nth_error ts j = Some t ->
  In (base + N.of_nat j, (fst (fst t), Z.of_N (snd t))) (jump_refs base ts).
Proof.
  induction ts as [| t0 r IH]; intros base j t H; [destruct j; discriminate |]. destruct j as [| j]; cbn [nth_error] in H.
  - injection H as ->. left. f_equal. lia.
  - right. specialize (IH (base + 1) j t H). replace (base + N.of_nat (S j)) with (base + 1 + N.of_nat j) by lia. exact IH.
Qed.

Section Sim.
Variable O : oracle.
Variable srcl : program_t.
Variable pls : list pline.
Variables lo sl : N.
Hypothesis Hmatch : Forall2 lmatch srcl pls.
Hypothesis Hasc : ascending pls lo.
Hypothesis Hend : last_is_end (prog_ops pls) = true.
Hypothesis Hne : last_nonempty pls.
Hypothesis Hfit : sl + lenN (prog_ops pls) <= MAX_POOL.

Let Hgood : good_prog pls := lmatch_good srcl pls Hmatch.

(* where the two machines stand: the reference semantics before the statements sr of line n, the VM at the address of
   the first of them *)
Definition at_pos (k : kont) (pc : N) : Prop :=
  exists sb n sd sr sa pb pd pr pa,
    srcl = sb ++ (n, sd ++ sr) :: sa /\ pls = pb ++ (n, pd ++ pr) :: pa /\
    Forall2 lmatch sb pb /\ Forall2 gstmt sd pd /\ Forall2 gstmt sr pr /\ Forall2 lmatch sa pa /\
    k = (tag_line n sr, n) /\ pc = lenN (prog_ops pb) + lenN (flat_map pc_ops pd).

Definition sfacts (st : sst) (r : rt) : Prop :=
  s_vars st = r_vars r /\ s_locals st = [] /\ s_tron st = false /\ r_tron r = false /\ r_slen r = sl /\ loaded pls r
  /\ s_col st = r_col r.

Definition Rel (k : kont) (st : sst) (r : rt) : Prop :=
  at_pos k (r_pc r) /\ r_pc r < lenN (prog_ops pls) /\ sfacts st r.

Lemma split_match : forall sb n ss sa, srcl = sb ++ (n, ss) :: sa ->
  exists pb ps pa, pls = pb ++ (n, ps) :: pa /\ Forall2 lmatch sb pb /\ Forall2 gstmt ss ps /\ Forall2 lmatch sa pa.
Proof.
  intros sb n ss sa E. pose proof Hmatch as H. rewrite E in H. apply Forall2_app_inv_l in H.
  destruct H as (pb & rest & Hb & Hr & Ep). inversion Hr as [| x [n' ps] xs pa [En Hs] Ha]; subst. cbn [fst snd] in *. subst n'.
  exists pb, ps, pa. repeat split; assumption.
Qed.

(* a branch to line n' that the reference semantics can take lands at the address the linker gave that line *)
Lemma jump_target : forall n' l, line_stmts srcl n' = Some l ->
  exists pb' ps' pa', pls = pb' ++ (n', ps') :: pa' /\
    forall st2 r2, r_pc r2 = lenN (prog_ops pb') -> sfacts st2 r2 -> Rel (l, n') st2 r2.
Proof.
  intros n' l Hl. destruct (line_stmts_found srcl n' l Hl) as (sb & ss & sa & E & ->).
  destruct (split_match sb n' ss sa E) as (pb & ps & pa & Ep & Hb & Hs & Ha). exists pb, ps, pa. split; [exact Ep |].
  intros st2 r2 Hpc Hf. split; [| split; [| exact Hf]].
  - exists sb, n', [], ss, sa, pb, [], ps, pa. cbn [app flat_map]. repeat split; try assumption; try constructor.
    rewrite Hpc. unfold lenN. cbn [length]. lia.
  - rewrite Hpc. exact (start_lt pls pb n' ps pa Ep Hne).
Qed.

(* after a statement that passes control on, both machines stand before the next statement of the line *)
Lemma Rel_advance : forall sb n sd s sr sa pb pd p pr pa st2 r2 c x,
  srcl = sb ++ (n, sd ++ s :: sr) :: sa -> pls = pb ++ (n, pd ++ p :: pr) :: pa ->
  Forall2 lmatch sb pb -> Forall2 gstmt sd pd -> gstmt s p -> Forall2 gstmt sr pr -> Forall2 lmatch sa pa ->
  pc_ops p = c ++ [x] -> x <> OpEnd ->
  r_pc r2 = lenN (prog_ops pb) + lenN (flat_map pc_ops pd) + lenN (pc_ops p) -> sfacts st2 r2 ->
  Rel (tag_line n sr, n) st2 r2.
Proof.
  intros sb n sd s sr sa pb pd p pr pa st2 r2 c x Es Ep Hb Hd Hs Hr Ha Ec Hx Hpc Hf. split; [| split; [| exact Hf]].
  - exists sb, n, (sd ++ [s]), sr, sa, pb, (pd ++ [p]), pr, pa. rewrite <- !app_assoc. cbn [app].
    repeat split; try assumption.
    + apply Forall2_app; [exact Hd | constructor; [exact Hs | constructor]].
    + rewrite Hpc, flat_map_app, lenN_app. cbn [flat_map]. rewrite app_nil_r. lia.
  - rewrite Hpc. exact (next_lt pls pb n pd p pr pa c x Ep Hend Ec Hx).
Qed.

Lemma piece_fits : forall pb n pd p pr pa, pls = pb ++ (n, pd ++ p :: pr) :: pa -> sl + lenN (pc_ops p) <= MAX_POOL.
Proof. intros pb n pd p pr pa E. pose proof Hfit as H. rewrite E, prog_ops_split, !lenN_app in H. lia. Qed.

(* a stretch of VM execution and what it prints: budget-bounded calls of the fetch loop, each ending because the budget
   ran out or because a PRINT returned its text *)
Inductive vm_steps : rt -> list str -> rt -> Prop :=
| vs_refl : forall r, vm_steps r [] r
| vs_quiet : forall r n r1 outs r', exec_loop_x O n false r = (r1, Ok None) -> vm_steps r1 outs r' -> vm_steps r outs r'
| vs_print : forall r n r1 t outs r', exec_loop_x O n false r = (r1, Ok (Some (EvPrint t))) -> vm_steps r1 outs r' -> vm_steps r (t :: outs) r'.

Lemma vm_steps_trans : forall r o1 r1 o2 r2, vm_steps r o1 r1 -> vm_steps r1 o2 r2 -> vm_steps r (o1 ++ o2) r2.
Proof.
  intros r o1 r1 o2 r2 H. induction H as [r | r n ra outs r' E _ IH | r n ra t outs r' E _ IH]; intros H2; cbn [app].
  - exact H2.
  - exact (vs_quiet r n ra _ r2 E (IH H2)).
  - exact (vs_print r n ra t _ r2 E (IH H2)).
Qed.

Lemma vm_steps_one r n r1 : exec_loop_x O n false r = (r1, Ok None) -> vm_steps r [] r1.
Proof. intros E. exact (vs_quiet r n r1 [] r1 E (vs_refl r1)). Qed.

(* the texts the reference semantics printed between two of its states (its output list is newest first) *)
Definition printed (st st2 : sst) (outs : list str) : Prop := s_out st2 = rev (map SePrint outs) ++ s_out st.

Lemma printed_nil st : printed st st []. Proof. reflexivity. Qed.
Lemma printed_trans st st1 st2 o1 o2 : printed st st1 o1 -> printed st1 st2 o2 -> printed st st2 (o1 ++ o2).
Proof. unfold printed. intros H1 H2. rewrite H2, H1, map_app, rev_app_distr, app_assoc. reflexivity. Qed.

(* what the VM must do to match one step of the reference semantics *)
Definition outcome (st : sst) (res : sst * step_result) (r : rt) : Prop :=
  match res with
  | (st2, Go k') => exists outs r2, vm_steps r outs r2 /\ printed st st2 outs /\ Rel k' st2 r2
  | (st2, Halt HEnd) => exists outs r1 m r2, vm_steps r outs r1 /\ printed st st2 outs
                          /\ exec_loop_x O m false r1 = (r2, Ok (Some EvStopped)) /\ r_vars r2 = s_vars st2
  | (st2, Halt (HError c _)) => exists outs r1 m er, vm_steps r outs r1 /\ printed st st2 outs
                                  /\ snd (exec_loop_x O m false r1) = Err er /\ ecode er = c
  | _ => True
  end.

Lemma sfacts_keeps st r r' : sfacts st r -> keeps r r' -> sfacts st r'.
Proof.
  intros (Hv & Hl & Ht & Hrt & Hs & Hld & Hc) (Kp & Kt & Kv & Kst & Ksl & Kc). unfold sfacts. rewrite Kv, Kt, Ksl, Kc. repeat split; try assumption.
  unfold loaded. rewrite Kp. exact Hld.
Qed.

Lemma sfacts_pc st r a : sfacts st r -> sfacts st (set_pc r a).
Proof. intros H. apply (sfacts_keeps st r); [exact H |]. unfold keeps. cbn. repeat split. Qed.

(* the loop over the items of a PRINT statement *)
Lemma print_items : forall es st r rest line,
  forallb pure es = true -> Forall (fun e => (depth e < 200)%nat) es ->
  r_tron r = false -> code_at r (r_pc r) (print_code es) -> r_slen r + lenN (print_code es) <= MAX_POOL ->
  s_vars st = r_vars r -> s_locals st = [] -> s_col st = r_col r ->
  match sem_print_items O line rest es st with
  | (st2, EvOk res) => res = Go rest /\ exists outs r2, vm_steps r outs r2 /\ printed st st2 outs
                         /\ r_pc r2 = r_pc r + lenN (print_code es) /\ r_prog r2 = r_prog r /\ r_tron r2 = false
                         /\ r_vars r2 = r_vars r /\ r_slen r2 = r_slen r
                         /\ s_vars st2 = s_vars st /\ s_locals st2 = [] /\ s_tron st2 = s_tron st /\ s_col st2 = r_col r2
  | (st2, EvErr c) => exists outs r1 m er, vm_steps r outs r1 /\ printed st st2 outs
                        /\ snd (exec_loop_x O m false r1) = Err er /\ ecode er = c
  | (_, EvUndef) => True
  end.
Proof.
  induction es as [| e es' IH]; intros st r rest line Hp Hd Htr Hat Hs Hv Hloc Hcol.
  - cbn [sem_print_items sret]. split; [reflexivity |]. exists [], r. unfold print_code, lenN. cbn [flat_map length N.of_nat].
    rewrite N.add_0_r. repeat split; try reflexivity; try assumption. constructor.
  - cbn [forallb] in Hp. apply andb_prop in Hp. destruct Hp as [Hpe Hpr]. inversion Hd as [| ? ? Hde Hdr]; subst.
    change (print_code (e :: es')) with ((postfix e ++ [OpPrint]) ++ print_code es') in *.
    apply code_at_app in Hat. destruct Hat as [Hat1 Hat2]. rewrite !lenN_app, lenN_one in Hs.
    pose proof (vm_print_item O r e Htr Hpe Hat1 ltac:(lia)) as Hvm.
    cbn [sem_print_items]. unfold sbind at 1. rewrite (sem_eval_pure O 200 e st line Hpe Hde Hloc). rewrite Hv.
    destruct (eval_pure O (r_vars r) e) as [v | er | |]; cbn [of_res]; [| | exact I | exact I].
    2:{ exists [], r. eexists. exists er. split; [constructor |]. split; [apply printed_nil |]. split; [exact Hvm | reflexivity]. }
    unfold sbind at 1. fold (text_of v).
    set (st1 := print_text st (text_of v)). set (r1 := set_pc (set_col r (advance_col (r_col r) (text_of v))) (r_pc r + lenN (postfix e) + 1)).
    assert (Hp1 : printed st st1 [text_of v]) by reflexivity.
    assert (Hat' : code_at r1 (r_pc r1) (print_code es')).
    { unfold r1. cbn [r_pc set_pc]. intros i op Hi. specialize (Hat2 i op Hi). rewrite !lenN_app, lenN_one in Hat2.
      replace (r_pc r + lenN (postfix e) + 1 + N.of_nat i) with (r_pc r + (lenN (postfix e) + 1) + N.of_nat i) by lia. exact Hat2. }
    specialize (IH st1 r1 rest line Hpr Hdr Htr Hat' ltac:(unfold r1; cbn; lia) ltac:(unfold st1, r1; cbn; exact Hv) ltac:(unfold st1; cbn; exact Hloc)).
    assert (Hc1 : s_col st1 = r_col r1).
    { unfold st1, r1, print_text. cbn. rewrite Hcol. reflexivity. }
    specialize (IH Hc1).
    destruct (sem_print_items O line rest es' st1) as [st2 [res | c |]]; [| | exact I].
    + destruct IH as (Eres & outs & r2 & Hst & Hpr2 & Hpc2 & Hprog & Htr2 & Hv2 & Hsl2 & Hsv & Hsl & Hstr & Hsc).
      split; [exact Eres |]. exists (text_of v :: outs), r2. split; [exact (vs_print r _ r1 _ outs r2 Hvm Hst) |].
      split; [exact (printed_trans st st1 st2 [text_of v] outs Hp1 Hpr2) |].
      unfold r1 in *. cbn [r_pc set_pc r_prog r_vars r_slen set_col] in *. rewrite !lenN_app, lenN_one.
      repeat split; try assumption; try lia; try (rewrite Hsv; reflexivity); try (rewrite Hstr; reflexivity); try (rewrite Hsv; unfold st1; cbn; exact Hv).
    + destruct IH as (outs & ra & m & er & Hst & Hpr2 & Herr & Hc).
      exists (text_of v :: outs), ra, m, er. split; [exact (vs_print r _ r1 _ outs ra Hvm Hst) |].
      split; [exact (printed_trans st st1 st2 [text_of v] outs Hp1 Hpr2) |]. split; assumption.
Qed.

Theorem stmt_step : forall sb n sd s sr sa pb pd p pr pa st r,
  srcl = sb ++ (n, sd ++ s :: sr) :: sa -> pls = pb ++ (n, pd ++ p :: pr) :: pa ->
  Forall2 lmatch sb pb -> Forall2 gstmt sd pd -> gstmt s p -> Forall2 gstmt sr pr -> Forall2 lmatch sa pa ->
  r_pc r = lenN (prog_ops pb) + lenN (flat_map pc_ops pd) -> sfacts st r ->
  outcome st (exec O srcl 200 n s (tag_line n sr, n) st) r.
Proof.
  intros sb n sd s sr sa pb pd p pr pa st r Es Ep Hb Hd Hs Hr Ha Hpc Hf.
  pose proof Hf as (Hv & Hloc & Hst & Hrt & Hsl & Hld & Hcol).
  pose proof (piece_fits pb n pd p pr pa Ep) as Hpf.
  destruct Hs as [c cv i e Hpure Hbi Hdep | c ce b n' Htgt Hsem | c e ts Hpure Hdep Hok Hsem Hlen | c | c es Hne_es Hpure Hdeps].
  - (* LET *)
    cbn [pc_ops] in Hpf.
    assert (Hat : code_at r (r_pc r) (let_code i e)).
    { pose proof (loaded_plain pls Hgood r pb n pd _ pr pa [] (let_code i e) [] Hld Ep) as H. cbn [pc_ops app] in H.
      rewrite app_nil_r in H. specialize (H eq_refl). change (lenN (@nil opcode)) with 0 in H. rewrite N.add_0_r, <- Hpc in H.
      apply H. intros op Hin. apply expr_op_not_jump. pose proof (let_code_ops i e Hpure) as Hall. rewrite forallb_forall in Hall. exact (Hall op Hin). }
    assert (Hstk : r_slen r + lenN (postfix e) <= MAX_POOL).
    { unfold let_code in Hpf. rewrite lenN_app in Hpf. lia. }
    pose proof (vm_let O r i e Hrt Hpure Hat Hstk) as Hvm.
    rewrite (sem_exec_let O srcl n c cv i e _ st Hpure Hdep Hloc). rewrite Hv.
    destruct (eval_pure O (r_vars r) e) as [v | er | |]; cbn [outcome];
      [| exists [], r, (length (let_code i e)), er; split; [constructor | split; [apply printed_nil | split; [exact Hvm | reflexivity]]] | exact I | exact I].
    destruct (var_store (r_vars r) (ident_str i) v) as [vs | er | |]; cbn [outcome];
      [| exists [], r, (length (let_code i e)), er; split; [constructor | split; [apply printed_nil | split; [exact Hvm | reflexivity]]] | exact I | exact I].
    exists []. eexists. split; [exact (vm_steps_one _ _ _ Hvm) |]. split; [reflexivity |].
    apply (Rel_advance sb n sd _ sr sa pb pd _ pr pa _ _ (postfix e) (OpPop (ident_str i)) Es Ep Hb Hd (gs_let c cv i e Hpure Hbi Hdep) Hr Ha);
      [reflexivity | discriminate | cbn [r_pc set_pc pc_ops]; rewrite Hpc; reflexivity |].
    unfold sfacts. cbn. repeat split; assumption.
  - (* GOTO *)
    rewrite sem_exec_goto, Hsem. destruct (line_stmts srcl n') as [l |] eqn:El; cbn [outcome]; [| exact I].
    destruct (jump_target n' l El) as (pb' & ps' & pa' & Ep' & Hrel).
    pose proof (loaded_jump pls Hgood r pb n pd _ pr pa lo 0 ce pb' n' ps' pa' Hld Hasc Ep Ep' (or_introl eq_refl)) as Hj.
    rewrite N.add_0_r, <- Hpc in Hj.
    exists [], (set_pc r (lenN (prog_ops pb'))). split; [exact (vm_steps_one _ _ _ (loop_jump O r _ Hrt Hj)) |]. split; [reflexivity |].
    apply Hrel; [reflexivity | apply sfacts_pc; exact Hf].
  - (* ON .. GOTO *)
    cbn [pc_ops] in Hpf.
    assert (Eon : on_code e ts = [] ++ (OpLiteral (VInt (Z.of_N (lenN ts))) :: postfix e ++ [OpOn]) ++ repeat (OpJump 0) (length ts)).
    { unfold on_code. cbn [app]. rewrite <- app_assoc. reflexivity. }
    assert (Hat : code_at r (r_pc r) (OpLiteral (VInt (Z.of_N (lenN ts))) :: postfix e ++ [OpOn])).
    { pose proof (loaded_plain pls Hgood r pb n pd _ pr pa [] _ _ Hld Ep Eon) as H.
      change (lenN (@nil opcode)) with 0 in H. rewrite N.add_0_r, <- Hpc in H. apply H.
      intros op [<- | Hin]; [discriminate |]. apply in_app_or in Hin. destruct Hin as [Hin | [<- | []]]; [| discriminate].
      apply expr_op_not_jump. pose proof (postfix_expr_ops e Hpure) as Hall. rewrite forallb_forall in Hall. exact (Hall op Hin). }
    assert (Hlen_on : lenN (on_code e ts) = 2 + lenN (postfix e) + lenN ts).
    { unfold on_code, lenN. cbn [length]. rewrite !app_length, repeat_length. cbn [length]. lia. }
    assert (Hstk : r_slen r + 1 + lenN (postfix e) <= MAX_POOL) by lia.
    pose proof (vm_on O r e (Z.of_N (lenN ts)) Hrt Hpure ltac:(lia) Hat Hstk) as Hvm. cbv zeta in Hvm.
    rewrite (sem_exec_on O srcl n c e ts _ st Hpure Hdep Hloc). rewrite Hv.
    destruct (eval_pure O (r_vars r) e) as [v | er | |]; cbn [outcome];
      [| exists [], r; eexists; exists er; split; [constructor | split; [apply printed_nil | split; [exact Hvm | reflexivity]]] | exact I | exact I].
    destruct (to_i16 v) as [sel | er | |]; cbn [outcome];
      [| exists [], r; eexists; exists er; split; [constructor | split; [apply printed_nil | split; [exact Hvm | reflexivity]]] | exact I | exact I].
    destruct (Z.ltb_spec sel 0) as [Hneg | Hnn]; cbn [outcome];
      [exists [], r; eexists; eexists; split; [constructor | split; [apply printed_nil | split; [exact Hvm | reflexivity]]] |].
    destruct Hvm as (r' & Hrun & Hk & Hpc').
    destruct ((sel =? 0) || (Z.of_N (lenN ts) <? sel))%Z eqn:Econd; cbn [outcome].
    + (* no branch: on to the next statement *)
      exists [], r'. split; [exact (vm_steps_one _ _ _ Hrun) |]. split; [reflexivity |].
      assert (Elast : exists c0 x, on_code e ts = c0 ++ [x] /\ x <> OpEnd).
      { unfold on_code. destruct ts as [| t ts'].
        - exists (OpLiteral (VInt (Z.of_N (lenN (@nil tgt)))) :: postfix e), OpOn. cbn [length repeat]. rewrite app_nil_r. split; [reflexivity | discriminate].
        - exists (OpLiteral (VInt (Z.of_N (lenN (t :: ts')))) :: postfix e ++ [OpOn] ++ repeat (OpJump 0) (length ts')), (OpJump 0).
          cbn [length repeat]. rewrite repeat_cons. split; [| discriminate]. cbn [app]. rewrite <- !app_assoc. reflexivity. }
      destruct Elast as (c0 & x & Ec & Hx).
      apply (Rel_advance sb n sd _ sr sa pb pd _ pr pa _ _ c0 x Es Ep Hb Hd (gs_on c e ts Hpure Hdep Hok Hsem Hlen) Hr Ha Ec Hx);
        [| exact (sfacts_keeps st r r' Hf Hk)].
      cbn [pc_ops]. rewrite Hpc', Hlen_on, Hpc. lia.
    + (* branch to the sel-th target *)
      apply Bool.orb_false_iff in Econd. destruct Econd as [E0 Egt]. apply Z.eqb_neq in E0. apply Z.ltb_ge in Egt.
      unfold nthN. destruct (nth_error ts (N.to_nat (Z.to_N (sel - 1)))) as [t |] eqn:Et; cbn [outcome]; [| exact I].
      assert (Hts : tgt_sem t) by (rewrite Forall_forall in Hsem; apply Hsem; eapply nth_error_In; exact Et).
      unfold tgt_sem in Hts. rewrite Hts.
      destruct (line_stmts srcl (snd t)) as [l |] eqn:El; cbn [outcome]; [| exact I].
      destruct (jump_target (snd t) l El) as (pb' & ps' & pa' & Ep' & Hrel).
      pose proof (jump_refs_nth ts (2 + lenN (postfix e)) _ t Et) as Hin.
      pose proof (sfacts_keeps st r r' Hf Hk) as Hf'. pose proof Hf' as (_ & _ & _ & Hrt' & _ & Hld' & _).
      pose proof (loaded_jump pls Hgood r' pb n pd _ pr pa lo _ _ pb' (snd t) ps' pa' Hld' Hasc Ep Ep' Hin) as Hj.
      replace (lenN (prog_ops pb) + lenN (flat_map pc_ops pd) + (2 + lenN (postfix e) + N.of_nat (N.to_nat (Z.to_N (sel - 1))))) with (r_pc r') in Hj
        by (rewrite Hpc', Hpc; lia).
      exists [], (set_pc r' (lenN (prog_ops pb'))). split.
      * exact (vs_quiet r _ r' [] _ Hrun (vm_steps_one _ _ _ (loop_jump O r' _ Hrt' Hj))).
      * split; [reflexivity |]. apply Hrel; [reflexivity | apply sfacts_pc; exact Hf'].
  - (* END *)
    rewrite sem_exec_end. cbn [outcome].
    assert (Hop : nthN (l_ops (pg_link (r_prog r))) (r_pc r) = Some OpEnd).
    { pose proof (loaded_plain pls Hgood r pb n pd _ pr pa [] [OpEnd] [] Hld Ep eq_refl) as H.
      change (lenN (@nil opcode)) with 0 in H. rewrite N.add_0_r, <- Hpc in H.
      specialize (H ltac:(intros op [<- | []]; discriminate) 0%nat OpEnd eq_refl). rewrite N.add_0_r in H. exact H. }
    exists [], r, 1%nat. eexists. split; [constructor |]. split; [reflexivity |].
    rewrite (loop_one O false r OpEnd Hrt Hop). cbn [exec_op]. unfold rbind, do_end, rret. split; [reflexivity |].
    rewrite Hv. cbn [set_pc r_pc r_entry].
    destruct (r_pc r + 1 <? r_entry r); cbn [r_pc r_entry set_cont_pc set_state set_cont];
      match goal with |- context [if ?b then _ else _] => destruct b end; reflexivity.
  - (* PRINT *)
    cbn [pc_ops] in Hpf.
    assert (Hat : code_at r (r_pc r) (print_code es)).
    { pose proof (loaded_plain pls Hgood r pb n pd _ pr pa [] (print_code es) [] Hld Ep) as H. cbn [pc_ops app] in H.
      rewrite app_nil_r in H. specialize (H eq_refl). change (lenN (@nil opcode)) with 0 in H. rewrite N.add_0_r, <- Hpc in H.
      apply H. intros op Hin. unfold print_code in Hin. rewrite in_flat_map in Hin. destruct Hin as (e0 & He0 & Hin).
      apply in_app_or in Hin. destruct Hin as [Hin | [<- | []]]; [| discriminate].
      apply expr_op_not_jump. rewrite forallb_forall in Hpure. pose proof (postfix_expr_ops e0 (Hpure e0 He0)) as Hall.
      rewrite forallb_forall in Hall. exact (Hall op Hin). }
    pose proof (print_items es st r (tag_line n sr, n) n Hpure Hdeps Hrt Hat ltac:(lia) Hv Hloc Hcol) as Hpi.
    rewrite sem_exec_print.
    destruct (sem_print_items O n (tag_line n sr, n) es st) as [st2 [res | c0 |]]; [| exact Hpi | exact I].
    destruct Hpi as (-> & outs & r2 & Hsteps & Hpr2 & Hpc2 & Hprog & Htr2 & Hv2 & Hsl2 & Hsv & Hsl' & Hstr & Hsc).
    cbn [outcome]. exists outs, r2. split; [exact Hsteps |]. split; [exact Hpr2 |].
    assert (Elast : exists c0 x, print_code es = c0 ++ [x] /\ x <> OpEnd).
    { destruct es as [| e0 es'] using rev_ind; [contradiction |].
      exists (print_code es' ++ postfix e0), OpPrint. rewrite print_code_app. unfold print_code at 2. cbn [flat_map]. rewrite app_nil_r, <- app_assoc.
      split; [reflexivity | discriminate]. }
    destruct Elast as (c0 & x & Ec & Hx).
    apply (Rel_advance sb n sd _ sr sa pb pd _ pr pa _ _ c0 x Es Ep Hb Hd (gs_print c es Hne_es Hpure Hdeps) Hr Ha Ec Hx);
      [cbn [pc_ops]; rewrite Hpc2, Hpc; reflexivity |].
    unfold sfacts. rewrite Hsv, Hsl', Hstr, Hv2, Hsl2. repeat split; try assumption. unfold loaded. rewrite Hprog. exact Hld.
Qed.

(* in particular a completed statement leaves the value stack as long as it found it *)
Corollary stmt_leaves_stack : forall sb n sd s sr sa pb pd p pr pa st r st2 k',
  srcl = sb ++ (n, sd ++ s :: sr) :: sa -> pls = pb ++ (n, pd ++ p :: pr) :: pa ->
  Forall2 lmatch sb pb -> Forall2 gstmt sd pd -> gstmt s p -> Forall2 gstmt sr pr -> Forall2 lmatch sa pa ->
  r_pc r = lenN (prog_ops pb) + lenN (flat_map pc_ops pd) -> sfacts st r ->
  exec O srcl 200 n s (tag_line n sr, n) st = (st2, Go k') ->
  exists outs r2, vm_steps r outs r2 /\ r_slen r2 = r_slen r.
Proof.
  intros sb n sd s sr sa pb pd p pr pa st r st2 k' Es Ep Hb Hd Hs Hr Ha Hpc Hf Hex.
  pose proof (stmt_step sb n sd s sr sa pb pd p pr pa st r Es Ep Hb Hd Hs Hr Ha Hpc Hf) as H. rewrite Hex in H. cbn [outcome] in H.
  destruct H as (outs & r2 & Hsteps & _ & (_ & _ & (_ & _ & _ & _ & Hsl2 & _))). exists outs, r2. split; [exact Hsteps |].
  destruct Hf as (_ & _ & _ & _ & Hsl & _). rewrite Hsl2, Hsl. reflexivity.
Qed.

Lemma Forall2_In_l {A B} (R : A -> B -> Prop) : forall l l', Forall2 R l l' -> forall x, In x l -> exists y, In y l' /\ R x y.
Proof.
  induction 1 as [| a b l l' Hab _ IH]; intros x Hin; [destruct Hin |]. destruct Hin as [<- | Hin].
  - exists b. split; [left; reflexivity | exact Hab].
  - destruct (IH x Hin) as (y & Hy & Hxy). exists y. split; [right; exact Hy | exact Hxy].
Qed.

(* at the end of a line that is not the last, both machines stand before the first statement of the next line; the VM
   has nothing to execute for that *)
Lemma line_step : forall n st r, Rel ([], n) st r ->
  exists n1 l1, next_line_after srcl n = Some (n1, l1) /\ Rel (tag_line n1 l1, n1) st r.
Proof.
  intros n st r ((sb & n0 & sd & sr & sa & pb & pd & pr & pa & Es & Ep & Hb & Hd & Hr & Ha & Ek & Hpc) & Hlt & Hf).
  injection Ek as Et <-. destruct sr as [| s0 sr0]; [| discriminate]. inversion Hr; subst pr. clear Hr Et.
  rewrite app_nil_r in Es, Ep.
  assert (Hpa : pa <> []).
  { intros ->. rewrite Ep, prog_ops_app, prog_ops_single, lenN_app in Hlt. lia. }
  destruct pa as [| [n1 ps1] pa']; [contradiction |]. inversion Ha as [| [n1' ss1] y sa' ys [En1 Hs1] Ha']; subst. cbn [fst snd] in En1, Hs1. subst n1'.
  pose proof Hasc as Hasc'. rewrite Ep in Hasc'. apply ascending_app in Hasc'. destruct Hasc' as (_ & _ & Hbefore & lo' & Hafter & _).
  cbn [ascending fst] in Hafter. destruct Hafter as (_ & Hn1 & _).
  exists n1, ss1. split.
  - unfold next_line_after. rewrite Es. rewrite find_skip.
    + cbn [find fst]. destruct (N.ltb_spec n n); [lia |]. destruct (N.ltb_spec n n1); [reflexivity | lia].
    + intros x Hx. destruct (Forall2_In_l lmatch sb pb Hb x Hx) as (pl & Hpl & Ex & _).
      specialize (Hbefore pl (n, pd) Hpl (or_introl eq_refl)). cbn [fst] in Hbefore. apply N.ltb_ge. lia.
  - split; [| split; [exact Hlt | exact Hf]].
    exists (sb ++ [(n, sd)]), n1, [], ss1, sa', (pb ++ [(n, pd)]), [], ps1, pa'. rewrite <- !app_assoc. cbn [app flat_map].
    repeat split; try assumption; try constructor.
    + apply Forall2_app; [exact Hb | constructor; [split; [reflexivity | exact Hd] | constructor]].
    + rewrite Hpc, prog_ops_app, prog_ops_single, lenN_app. unfold lenN. cbn [length]. lia.
Qed.

(* how a run of the VM must end to match the reference semantics: the same texts printed, in the same order, then the
   same end *)
Definition final (st : sst) (res : sst * halt) (r : rt) : Prop :=
  match res with
  | (st', HEnd) => exists outs r1 m r', vm_steps r outs r1 /\ printed st st' outs
                     /\ exec_loop_x O m false r1 = (r', Ok (Some EvStopped)) /\ r_vars r' = s_vars st'
  | (st', HError c _) => exists outs r1 m er, vm_steps r outs r1 /\ printed st st' outs
                           /\ snd (exec_loop_x O m false r1) = Err er /\ ecode er = c
  | _ => True
  end.

Lemma trace_off line st : s_tron st = false -> trace_line line st = (st, EvOk tt).
Proof. intros H. unfold trace_line. rewrite H. reflexivity. Qed.

Theorem vm_follows_sem : forall fuel k st r, Rel k st r -> final st (run O srcl fuel k st) r.
Proof.
  induction fuel as [| f IH]; intros k st r HR; [exact I |].
  pose proof HR as ((sb & n & sd & sr & sa & pb & pd & pr & pa & Es & Ep & Hb & Hd & Hr & Ha & Ek & Hpc) & Hlt & Hf).
  subst k. cbn [run fst snd]. destruct sr as [| s sr]; cbn [tag_line map].
  - destruct (line_step n st r HR) as (n1 & l1 & Enext & HR'). rewrite Enext. exact (IH _ st r HR').
  - inversion Hr as [| s' p ss' pr' Hs Hr']; subst.
    assert (Est : (if traces s then fst (trace_line n st) else st) = st).
    { destruct Hf as (_ & _ & Htr & _). rewrite (trace_off n st Htr). destruct (traces s); reflexivity. }
    rewrite Est. fold (tag_line n sr).
    pose proof (stmt_step sb n sd s sr sa pb pd p pr' pa st r Es Ep Hb Hd Hs Hr' Ha Hpc Hf) as Hstep.
    destruct (exec O srcl 200 n s (tag_line n sr, n) st) as [st2 [k' | h]]; cbn [outcome] in Hstep.
    + destruct Hstep as (o1 & r2 & Hrun & Hp1 & HR2). specialize (IH k' st2 r2 HR2).
      destruct (run O srcl f k' st2) as [st' [| c ln | | |]]; cbn [final] in *; try exact I.
      * destruct IH as (o2 & r1 & m & r' & Hrun' & Hp2 & Hstop & Hv'). exists (o1 ++ o2), r1, m, r'.
        split; [exact (vm_steps_trans _ _ _ _ _ Hrun Hrun') |]. split; [exact (printed_trans _ _ _ _ _ Hp1 Hp2) |]. split; assumption.
      * destruct IH as (o2 & r1 & m & er & Hrun' & Hp2 & Herr & Hc). exists (o1 ++ o2), r1, m, er.
        split; [exact (vm_steps_trans _ _ _ _ _ Hrun Hrun') |]. split; [exact (printed_trans _ _ _ _ _ Hp1 Hp2) |]. split; assumption.
    + destruct h as [| c ln | | |]; cbn [final]; try exact I; exact Hstep.
Qed.

(* the start of a run: RUN clears the variables and enters the program at its first line; the cursor is at the left margin *)
Theorem start_related : forall n ss rest inputs r, srcl = (n, ss) :: rest ->
  r_pc r = 0 -> r_vars r = vars_empty -> r_tron r = false -> r_slen r = sl -> r_col r = 0 -> loaded pls r ->
  Rel (tag_line n ss, n) (sem_start false inputs) r.
Proof.
  intros n ss rest inputs r Es Hpc Hv Ht Hs Hc Hl. destruct (split_match [] n ss rest Es) as (pb & ps & pa & Ep & Hb & Hss & Ha).
  inversion Hb; subst pb. split; [| split].
  - exists [], n, [], ss, rest, [], [], ps, pa. cbn [app flat_map]. repeat split; try assumption; try constructor; try (rewrite Hpc; reflexivity).
  - rewrite Hpc. pose proof (start_lt pls [] n ps pa Ep Hne) as H. exact H.
  - unfold sfacts, sem_start. cbn. repeat split; try assumption; symmetry; assumption.
Qed.

End Sim.
