(* C06: the variable store -- typed, zero-initialised, no aliasing. *)
From BL Require Import Base.Prelude Base.Floats Mach.Val Mach.Var.
From Coq Require Import Lia.
Local Open Scope N_scope.

(* ---------- association lists keyed by strings ---------- *)
Lemma str_eqb_eq a b : str_eqb a b = true <-> a = b.
Proof.
  revert b. induction a as [| x a IH]; destruct b as [| y b]; cbn; split; intros H; try discriminate; try reflexivity.
  - apply andb_prop in H. destruct H as [H1 H2]. apply N.eqb_eq in H1. apply IH in H2. congruence.
  - injection H as -> ->. rewrite N.eqb_refl. cbn. apply IH. reflexivity.
Qed.
Lemma str_eqb_refl a : str_eqb a a = true. Proof. apply str_eqb_eq. reflexivity. Qed.
Lemma str_eqb_neq a b : a <> b -> str_eqb a b = false.
Proof. intros H. destruct (str_eqb a b) eqn:E; [apply str_eqb_eq in E; contradiction | reflexivity]. Qed.

Section Alist.
Context {V : Type}.
Implicit Types l : list (str * V).

Lemma get_remove_same k l : alist_get k (alist_remove k l) = None.
Proof. induction l as [| [k' v] r IH]; cbn; [reflexivity |]. destruct (str_eqb k k') eqn:E; cbn; [exact IH | rewrite E; exact IH]. Qed.
Lemma get_remove_other k k' l : k' <> k -> alist_get k' (alist_remove k l) = alist_get k' l.
Proof.
  intros Hne. induction l as [| [k2 v] r IH]; cbn; [reflexivity |].
  destruct (str_eqb k k2) eqn:E; cbn.
  - apply str_eqb_eq in E. subst k2. rewrite (str_eqb_neq k' k Hne). exact IH.
  - rewrite IH. reflexivity.
Qed.
Lemma get_set_same k v l : alist_get k (alist_set k v l) = Some v.
Proof. unfold alist_set. cbn. rewrite str_eqb_refl. reflexivity. Qed.
Lemma get_set_other k k' v l : k' <> k -> alist_get k' (alist_set k v l) = alist_get k' l.
Proof. intros Hne. unfold alist_set. cbn. rewrite (str_eqb_neq k' k Hne). apply get_remove_other. exact Hne. Qed.
Lemma get_filter_some (f : str * V -> bool) k v l : alist_get k (filter f l) = Some v -> alist_get k l <> None.
Proof.
  induction l as [| [k2 v2] r IH]; cbn; [discriminate |].
  destruct (f (k2, v2)); cbn; destruct (str_eqb k k2); try discriminate; auto.
Qed.
End Alist.

(* ---------- typing ---------- *)

(* every stored entry holds a non-default value of the type its key demands *)
Definition well_typed (vs : varstore) : Prop :=
  forall k v, In (k, v) (vs_vars vs) ->
    exists t, key_type (vs_types vs) k = Some t /\ val_type v = Some t.

Lemma well_typed_empty : well_typed vars_empty.
Proof. intros k v H. destruct H. Qed.

Lemma alist_get_In {V} k (v : V) l : alist_get k l = Some v -> In (k, v) l.
Proof.
  induction l as [| [k2 v2] r IH]; cbn; [discriminate |].
  destruct (str_eqb k k2) eqn:E; [apply str_eqb_eq in E; subst; intros H; injection H as ->; left; reflexivity | intros H; right; auto].
Qed.
Lemma In_remove {V} k k' (v : V) l : In (k', v) (alist_remove k l) -> In (k', v) l.
Proof.
  induction l as [| [k2 v2] r IH]; cbn; [auto |].
  destruct (str_eqb k k2); cbn; [intros H; right; auto | intros [H | H]; [left; exact H | right; auto]].
Qed.

Lemma zero_of_type t : val_type (zero_of t) = Some t.
Proof. destruct t; reflexivity. Qed.

Lemma convert_to_type t v v' : convert_to t v = Ok v' -> val_type v' = Some t.
Proof.
  unfold convert_to. destruct t, v; cbn; intros H; try discriminate;
    repeat match goal with
           | H : (if ?c then _ else _) = Ok _ |- _ => destruct c; try discriminate
           | H : bind ?x _ = Ok _ |- _ => destruct x; cbn in H; try discriminate
           | H : Ok _ = Ok _ |- _ => injection H as <-
           end; reflexivity.
Qed.

(* reading a variable always yields a value of the variable's own type *)
Theorem fetch_typed : forall vs k v t, well_typed vs -> key_type (vs_types vs) k = Some t ->
  var_fetch vs k = Ok v -> val_type v = Some t.
Proof.
  intros vs k v t Hw Hk. unfold var_fetch. destruct (alist_get k (vs_vars vs)) as [x |] eqn:E.
  - intros H. injection H as <-. destruct (Hw k x (alist_get_In _ _ _ E)) as (t' & Hk' & Hv). congruence.
  - rewrite Hk. intros H. injection H as <-. apply zero_of_type.
Qed.

(* ... and a variable never assigned reads as 0 or "" *)
Theorem fetch_unassigned : forall vs k t, alist_get k (vs_vars vs) = None -> key_type (vs_types vs) k = Some t ->
  var_fetch vs k = Ok (zero_of t).
Proof. intros vs k t E Hk. unfold var_fetch. rewrite E, Hk. reflexivity. Qed.

Lemma update_val_types vs k v vs' : update_val vs k v = Ok vs' -> vs_types vs' = vs_types vs /\ vs_dims vs' = vs_dims vs.
Proof.
  unfold update_val. destruct (is_default v); [intros H; injection H as <-; split; reflexivity |].
  destruct (alist_get k (vs_vars vs)); [intros H; injection H as <-; split; reflexivity |].
  destruct (65535 <? lenN (vs_vars vs)); [discriminate | intros H; injection H as <-; split; reflexivity].
Qed.

Lemma update_val_get vs k v vs' : update_val vs k v = Ok vs' ->
  forall k', alist_get k' (vs_vars vs') = if str_eqb k' k then (if is_default v then None else Some v) else alist_get k' (vs_vars vs).
Proof.
  unfold update_val. intros H k'.
  destruct (str_eqb k' k) eqn:E.
  - apply str_eqb_eq in E. subst k'.
    destruct (is_default v); [injection H as <-; apply get_remove_same |].
    destruct (alist_get k (vs_vars vs)); [injection H as <-; apply get_set_same |].
    destruct (65535 <? lenN (vs_vars vs)); [discriminate | injection H as <-; apply get_set_same].
  - assert (Hne : k' <> k) by (intros ->; rewrite str_eqb_refl in E; discriminate).
    destruct (is_default v); [injection H as <-; apply get_remove_other; exact Hne |].
    destruct (alist_get k (vs_vars vs)); [injection H as <-; apply get_set_other; exact Hne |].
    destruct (65535 <? lenN (vs_vars vs)); [discriminate | injection H as <-; apply get_set_other; exact Hne].
Qed.

Lemma update_val_entries vs k v vs' : update_val vs k v = Ok vs' ->
  forall k' x, In (k', x) (vs_vars vs') -> (k' = k /\ x = v) \/ In (k', x) (vs_vars vs).
Proof.
  unfold update_val. intros H k' x Hin.
  destruct (is_default v); [injection H as <-; right; exact (In_remove _ _ _ _ Hin) |].
  assert (Hset : In (k', x) (alist_set k v (vs_vars vs)) -> (k' = k /\ x = v) \/ In (k', x) (vs_vars vs)).
  { unfold alist_set. intros [E | E]; [injection E as <- <-; left; split; reflexivity | right; exact (In_remove _ _ _ _ E)]. }
  destruct (alist_get k (vs_vars vs)); [injection H as <-; exact (Hset Hin) |].
  destruct (65535 <? lenN (vs_vars vs)); [discriminate | injection H as <-; exact (Hset Hin)].
Qed.

(* assignment never stores a value of another type *)
Theorem store_typed : forall vs k v vs', well_typed vs -> var_store vs k v = Ok vs' -> well_typed vs'.
Proof.
  intros vs k v vs' Hw H. unfold var_store in H.
  destruct (key_type (vs_types vs) k) as [t |] eqn:Hk; [| destruct k; discriminate].
  destruct (convert_to t v) as [v' | | |] eqn:Hc; cbn in H; try discriminate.
  destruct (update_val_types _ _ _ _ H) as [Ht _].
  intros k' x Hx. rewrite Ht. destruct (update_val_entries _ _ _ _ H k' x Hx) as [[-> ->] | Hold].
  - exists t. split; [exact Hk | exact (convert_to_type _ _ _ Hc)].
  - exact (Hw k' x Hold).
Qed.

(* what an assignment does to the variable itself: it reads back as the converted value (+0 / "" for a default) *)
Theorem store_then_fetch : forall vs k v vs' t v', key_type (vs_types vs) k = Some t -> convert_to t v = Ok v' ->
  var_store vs k v = Ok vs' ->
  var_fetch vs' k = Ok (if is_default v' then zero_of t else v').
Proof.
  intros vs k v vs' t v' Hk Hc H. unfold var_store in H. rewrite Hk, Hc in H. cbn in H.
  destruct (update_val_types _ _ _ _ H) as [Ht _].
  unfold var_fetch. rewrite (update_val_get _ _ _ _ H k), str_eqb_refl, Ht, Hk.
  destruct (is_default v'); reflexivity.
Qed.

(* ... and to every other variable, array element or parameter: nothing (distinct keys never share storage) *)
Theorem store_frame : forall vs k v vs' k', var_store vs k v = Ok vs' -> k' <> k -> var_fetch vs' k' = var_fetch vs k'.
Proof.
  intros vs k v vs' k' H Hne. unfold var_store in H.
  destruct (key_type (vs_types vs) k) as [t |]; [| destruct k; discriminate].
  destruct (convert_to t v) as [v' | | |]; cbn in H; try discriminate.
  destruct (update_val_types _ _ _ _ H) as [Ht _].
  unfold var_fetch. rewrite (update_val_get _ _ _ _ H k'), (str_eqb_neq _ _ Hne), Ht. reflexivity.
Qed.

(* a failed assignment (OVERFLOW, TYPE MISMATCH, STRING TOO LONG, OUT OF MEMORY) leaves the store as it was: var_store returns no store at all *)

(* ---------- the pool limit, and zero frees the slot (C18) ---------- *)
Lemma remove_len {V} k (l : list (str * V)) : (length (alist_remove k l) <= length l)%nat.
Proof. induction l as [| [k' v] r IH]; cbn; [lia |]. destruct (str_eqb k k'); cbn; lia. Qed.

Theorem update_val_bounded : forall vs k v vs', lenN (vs_vars vs) <= 65536 -> update_val vs k v = Ok vs' -> lenN (vs_vars vs') <= 65536.
Proof.
  unfold update_val, lenN. intros vs k v vs' Hb H.
  destruct (is_default v).
  - injection H as <-. cbn. pose proof (remove_len k (vs_vars vs)). lia.
  - destruct (alist_get k (vs_vars vs)) eqn:Eg.
    + injection H as <-. cbn.
      (* replacing an existing entry: the key is removed first *)
      assert (Hlt : (length (alist_remove k (vs_vars vs)) < length (vs_vars vs))%nat).
      { clear - Eg. induction (vs_vars vs) as [| [k' x] r IH]; cbn in *; [discriminate |].
        destruct (str_eqb k k'); [pose proof (remove_len k r); lia |]. cbn. specialize (IH Eg). lia. }
      lia.
    + destruct (N.ltb_spec 65535 (N.of_nat (length (vs_vars vs)))); [discriminate |].
      injection H as <-. cbn. pose proof (remove_len k (vs_vars vs)). lia.
Qed.

Theorem store_default_frees : forall vs k v vs', is_default v = true -> update_val vs k v = Ok vs' ->
  alist_get k (vs_vars vs') = None /\ (length (vs_vars vs') <= length (vs_vars vs))%nat.
Proof.
  intros vs k v vs' Hd H. unfold update_val in H. rewrite Hd in H. injection H as <-. cbn.
  split; [apply get_remove_same | apply remove_len].
Qed.

(* ---------- DEFtype ---------- *)
Lemma set_range_nth {A} (l : list A) from to (x : A) i j :
  nth_error (set_range l from to x i) j =
  match nth_error l j with
  | Some y => Some (if (Nat.leb from (i + j) && Nat.leb (i + j) to)%bool then x else y)
  | None => None
  end.
Proof.
  revert i j. induction l as [| y r IH]; intros i j; destruct j; cbn; try reflexivity.
  - rewrite Nat.add_0_r. reflexivity.
  - rewrite IH. replace (S i + j)%nat with (i + S j)%nat by lia. reflexivity.
Qed.

Definition suffixed (k : str) : bool :=
  ends_with_chr k 33 || ends_with_chr k 35 || ends_with_chr k 37 || ends_with_chr k 36.

Lemma key_type_suffixed types types' k : suffixed k = true -> key_type types' k = key_type types k.
Proof.
  unfold suffixed, key_type. destruct (ends_with_chr k 33); [reflexivity |]. destruct (ends_with_chr k 35); [reflexivity |].
  destruct (ends_with_chr k 37); [reflexivity |]. destruct (ends_with_chr k 36); [reflexivity | discriminate].
Qed.

Lemma key_type_plain types k : suffixed k = false ->
  key_type types k = match after_last_dot k k with c :: _ => type_of_letter types c | [] => None end.
Proof.
  unfold suffixed, key_type. destruct (ends_with_chr k 33); [discriminate |]. destruct (ends_with_chr k 35); [discriminate |].
  destruct (ends_with_chr k 37); [discriminate |]. destruct (ends_with_chr k 36); [discriminate | reflexivity].
Qed.

Lemma vtype_eqb_eq a b : vtype_eqb a b = true -> a = b.
Proof. destruct a, b; cbn; intros H; try discriminate; reflexivity. Qed.

(* DEFINT/DEFSNG/DEFDBL/DEFSTR keep the store well typed: whatever changes type is dropped *)
Theorem def_typed : forall vs t from to vs', well_typed vs -> var_def vs t from to = Ok vs' -> well_typed vs'.
Proof.
  intros vs t from to vs' Hw H. unfold var_def in H.
  destruct (to_str from) as [f | | |]; cbn in H; try discriminate.
  destruct (to_str to) as [o | | |]; cbn in H; try discriminate.
  destruct f as [| cf f']; [discriminate |]. destruct o as [| ct o']; [discriminate |].
  destruct (is_upper cf && is_upper ct) eqn:Eup; cbn in H; [| discriminate].
  apply andb_prop in Eup. destruct Eup as [Ucf Uct].
  injection H as <-. intros k v Hin. cbn [vs_vars vs_types] in *.
  apply filter_In in Hin. destruct Hin as [Hin Hkeep]. cbn in Hkeep. fold (suffixed k) in Hkeep.
  destruct (Hw k v Hin) as (t0 & Hk0 & Hv0).
  destruct (suffixed k) eqn:Esuf; cbn in Hkeep.
  - exists t0. split; [rewrite (key_type_suffixed (vs_types vs)); assumption | exact Hv0].
  - rewrite (key_type_plain _ k Esuf) in Hk0. rewrite (key_type_plain _ k Esuf).
    destruct (after_last_dot k k) as [| c rest]; [discriminate |].
    unfold type_of_letter in Hk0 |- *. destruct (is_upper c) eqn:Uc; [| discriminate].
    rewrite set_range_nth. destruct (nth_error (vs_types vs) (N.to_nat (c - 65))) as [ty |]; [| discriminate].
    injection Hk0 as ->. cbn [Nat.add].
    unfold is_upper in Ucf, Uct, Uc. apply andb_prop in Ucf, Uct, Uc.
    destruct Ucf as [Ucf _], Uct as [Uct _], Uc as [Uc _]. apply N.leb_le in Ucf, Uct, Uc.
    destruct ((cf <=? c) && (c <=? ct)) eqn:Er; cbn in Hkeep.
    + (* the letter is retyped: only a value that already has the new type is kept *)
      rewrite Hv0 in Hkeep. apply vtype_eqb_eq in Hkeep. subst t0.
      apply andb_prop in Er. destruct Er as [E1 E2]. apply N.leb_le in E1, E2.
      assert (Ein : (Nat.leb (N.to_nat (cf - 65)) (N.to_nat (c - 65)) && Nat.leb (N.to_nat (c - 65)) (N.to_nat (ct - 65)))%bool = true)
        by (apply andb_true_intro; split; apply Nat.leb_le; lia).
      rewrite Ein. exists t. split; [reflexivity | exact Hv0].
    + (* the letter keeps its type *)
      assert (Eout : (Nat.leb (N.to_nat (cf - 65)) (N.to_nat (c - 65)) && Nat.leb (N.to_nat (c - 65)) (N.to_nat (ct - 65)))%bool = false).
      { apply andb_false_iff in Er. apply andb_false_iff. destruct Er as [E | E]; apply N.leb_gt in E; [left | right]; apply Nat.leb_gt; lia. }
      rewrite Eout. exists t0. split; [reflexivity | exact Hv0].
Qed.

(* DEFtype leaves variables with a type suffix and variables of other letters alone *)
Theorem def_frame : forall vs t from to vs' cf ct f' o' k v, var_def vs t from to = Ok vs' ->
  to_str from = Ok (cf :: f') -> to_str to = Ok (ct :: o') -> In (k, v) (vs_vars vs) ->
  (suffixed k = true \/ match after_last_dot k k with c :: _ => (cf <=? c) && (c <=? ct) | [] => false end = false) ->
  In (k, v) (vs_vars vs').
Proof.
  intros vs t from to vs' cf ct f' o' k v H Hf Ho Hin Hout. unfold var_def in H. rewrite Hf, Ho in H. cbn in H.
  destruct (is_upper cf && is_upper ct); cbn in H; [| discriminate]. injection H as <-. cbn.
  apply filter_In. split; [exact Hin |]. cbn. fold (suffixed k).
  destruct Hout as [-> | ->]; [reflexivity | rewrite orb_true_r; reflexivity].
Qed.

(* ---------- arrays: bounds ---------- *)
Local Open Scope Z_scope.

Lemma subscripts_nonneg arr req : subscripts arr = Ok req -> Forall (fun r => 0 <= r) req.
Proof.
  revert req. induction arr as [| v r IH]; cbn; intros req H; [injection H as <-; constructor |].
  destruct (to_i16 v) as [n | | |]; cbn in H; try discriminate.
  destruct (Z.ltb_spec n 0); [discriminate |].
  destruct (subscripts r) as [rest | | |]; cbn in H; try discriminate. injection H as <-.
  constructor; [assumption | apply IH; reflexivity].
Qed.

Lemma all_le_spec : forall rs ds, length rs = length ds -> all_le rs ds = true -> Forall2 (fun r d => r <= d) rs ds.
Proof.
  induction rs as [| r rs IH]; destruct ds as [| d ds]; cbn; intros Hl H; try discriminate; [constructor |].
  apply andb_prop in H. destruct H as [H1 H2]. apply Z.leb_le in H1. constructor; [exact H1 | apply IH; [lia | exact H2]].
Qed.

(* an element is reachable exactly with subscripts 0..bound in each declared dimension (bound 10 when first used undeclared) *)
Theorem array_key_bounds : forall vs name arr vs1 k, build_array_key vs name arr = (vs1, Ok k) ->
  exists req dim,
    subscripts arr = Ok req /\ k = array_key name req
    /\ alist_get name (vs_dims vs1) = Some dim
    /\ (alist_get name (vs_dims vs) = None -> dim = repeat 10 (length req))
    /\ (forall d, alist_get name (vs_dims vs) = Some d -> dim = d /\ vs1 = vs)
    /\ Forall (fun r => 0 <= r) req /\ Forall2 (fun r d => r <= d) req dim.
Proof.
  intros vs name arr vs1 k H. unfold build_array_key in H.
  destruct (subscripts arr) as [req | | |] eqn:Es; try (injection H as _ H; discriminate).
  exists req.
  destruct (alist_get name (vs_dims vs)) as [d |] eqn:Ed.
  - exists d. destruct (negb (Nat.eqb (length d) (length req))) eqn:El; [injection H as _ H; discriminate |].
    destruct (negb (all_le req d)) eqn:Ea; [injection H as _ H; discriminate |].
    injection H as <- <-. apply negb_false_iff in El, Ea. apply Nat.eqb_eq in El.
    split; [reflexivity |]. split; [reflexivity |]. split; [exact Ed |]. split; [discriminate |].
    split; [intros dd E; injection E as <-; split; reflexivity |].
    split; [exact (subscripts_nonneg _ _ Es) | apply all_le_spec; [lia | exact Ea]].
  - exists (repeat 10 (length req)).
    destruct (negb (Nat.eqb (length (repeat 10 (length req))) (length req))) eqn:El; [injection H as _ H; discriminate |].
    destruct (negb (all_le req (repeat 10 (length req)))) eqn:Ea; [injection H as _ H; discriminate |].
    injection H as <- <-. apply negb_false_iff in El, Ea. apply Nat.eqb_eq in El.
    split; [reflexivity |]. split; [reflexivity |].
    split; [cbn; unfold alist_set; cbn; rewrite str_eqb_refl; reflexivity |].
    split; [reflexivity |]. split; [discriminate |].
    split; [exact (subscripts_nonneg _ _ Es) | apply all_le_spec; [lia | exact Ea]].
Qed.

(* anything else is SUBSCRIPT OUT OF RANGE (or the conversion error of the subscript itself) *)
Theorem array_key_rejects : forall vs name arr req dim,
  subscripts arr = Ok req ->
  dim = match alist_get name (vs_dims vs) with Some d => d | None => repeat 10 (length req) end ->
  (length dim <> length req \/ exists i r d, nth_error req i = Some r /\ nth_error dim i = Some d /\ d < r) ->
  snd (build_array_key vs name arr) = err E_Subscript.
Proof.
  intros vs name arr req dim Es Hd Hbad. unfold build_array_key. rewrite Es.
  assert (Hcase : negb (Nat.eqb (length dim) (length req)) = true \/ (negb (Nat.eqb (length dim) (length req)) = false /\ negb (all_le req dim) = true)).
  { destruct (Nat.eqb (length dim) (length req)) eqn:El; [right; split; [reflexivity |] | left; reflexivity].
    apply Nat.eqb_eq in El. destruct Hbad as [Hbad | (i & r & d & Hr & Hdm & Hlt)]; [contradiction |].
    apply negb_true_iff. clear - Hr Hdm Hlt. revert dim i Hr Hdm. induction req as [| r0 req IH]; intros dim i Hr Hdm; [destruct i; discriminate |].
    destruct dim as [| d0 dim]; [destruct i; discriminate |]. cbn. destruct i as [| i]; cbn in Hr, Hdm.
    - injection Hr as ->. injection Hdm as ->. destruct (Z.leb_spec r d); [lia | reflexivity].
    - rewrite (IH dim i Hr Hdm). apply andb_false_r. }
  destruct (alist_get name (vs_dims vs)) as [d |]; subst dim;
    destruct Hcase as [-> | [-> ->]]; reflexivity.
Qed.

(* DIM of an array that exists (declared, or created by use) is refused; ERASE makes it possible again *)
Theorem dim_twice : forall vs name arr d, alist_get name (vs_dims vs) = Some d -> var_dimension vs name arr = err E_Redim.
Proof. intros vs name arr d H. unfold var_dimension. rewrite H. reflexivity. Qed.

Theorem erase_then_dim : forall vs name vs', var_erase vs name = Ok vs' -> alist_get name (vs_dims vs') = None.
Proof.
  intros vs name vs' H. unfold var_erase in H. destruct (alist_get name (vs_dims vs)); [| discriminate].
  injection H as <-. cbn. apply get_remove_same.
Qed.

(* ---------- arrays: distinct elements have distinct keys ---------- *)
From BL Require Import Proofs.DecN.
Local Open Scope N_scope.

Definition comma_free (s : str) : Prop := ~ In c_comma s.

Lemma split_at_first (c : N) : forall a b x y, ~ In c a -> ~ In c b -> a ++ c :: x = b ++ c :: y -> a = b /\ x = y.
Proof.
  induction a as [| p a IH]; destruct b as [| q b]; cbn; intros x y Ha Hb E.
  - injection E as <-. split; reflexivity.
  - injection E as E _. exfalso. apply Hb. left. symmetry. exact E.
  - injection E as E _. exfalso. apply Ha. left. exact E.
  - injection E as -> E. destruct (IH b x y) as [-> ->]; [tauto | tauto | exact E | split; reflexivity].
Qed.

Lemma digits_comma_free s : all_b is_digit s = true -> comma_free s.
Proof.
  unfold comma_free. induction s as [| c r IH]; cbn; [tauto |]. intros H [E | E].
  - subst c. cbn in H. discriminate.
  - apply andb_prop in H. tauto.
Qed.

Lemma dec_of_Z_nonneg z : (0 <= z)%Z -> dec_of_Z z = dec_of_N (Z.to_N z).
Proof. intros H. unfold dec_of_Z. destruct (Z.ltb_spec z 0); [lia |]. f_equal. lia. Qed.

(* what follows the first comma of an array key *)
Fixpoint key_rest (name : str) (idx : list Z) : str :=
  match idx with
  | [] => name
  | i :: r => dec_of_Z i ++ c_comma :: key_rest name r
  end.

Lemma array_key_rest name idx : array_key name idx = name ++ c_comma :: key_rest name idx.
Proof.
  unfold array_key. f_equal. induction idx as [| i r IH]; [reflexivity |].
  cbn [flat_map key_rest]. rewrite <- app_assoc. cbn [app]. f_equal. f_equal. exact IH.
Qed.

Lemma key_rest_inj name : comma_free name -> forall idx idx',
  Forall (fun i => 0 <= i)%Z idx -> Forall (fun i => 0 <= i)%Z idx' -> key_rest name idx = key_rest name idx' -> idx = idx'.
Proof.
  intros Hn. induction idx as [| i r IH]; destruct idx' as [| i' r']; cbn; intros H1 H2 E; [reflexivity | | |].
  - exfalso. apply Hn. rewrite E. apply in_or_app. right. left. reflexivity.
  - exfalso. apply Hn. rewrite <- E. apply in_or_app. right. left. reflexivity.
  - inversion H1; subst. inversion H2; subst.
    rewrite !dec_of_Z_nonneg in E by assumption.
    apply split_at_first in E; try (apply digits_comma_free, dec_of_N_digits).
    destruct E as [Ed Er]. apply dec_of_N_inj in Ed. f_equal; [lia | apply IH; assumption].
Qed.

(* two array elements share a key only if they are the same element of the same array *)
Theorem array_key_inj : forall name name' idx idx', comma_free name -> comma_free name' ->
  Forall (fun i => 0 <= i)%Z idx -> Forall (fun i => 0 <= i)%Z idx' ->
  array_key name idx = array_key name' idx' -> name = name' /\ idx = idx'.
Proof.
  intros name name' idx idx' Hn Hn' H1 H2 E. rewrite !array_key_rest in E.
  apply split_at_first in E; try assumption. destruct E as [<- E]. split; [reflexivity |].
  exact (key_rest_inj name Hn idx idx' H1 H2 E).
Qed.

(* and an array element never shares a key with a scalar variable or a function parameter *)
Theorem array_key_not_scalar : forall name idx k, comma_free k -> array_key name idx <> k.
Proof. intros name idx k Hk E. apply Hk. rewrite <- E, array_key_rest. apply in_or_app. right. left. reflexivity. Qed.
