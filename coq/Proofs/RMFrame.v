(* A small Hoare logic for the VM monad RM: `hoare I J m` says that from a state satisfying I the action m
   ends in a state satisfying I when it succeeds and J when it reports an error (the VM keeps its state
   on errors, so both matter).  The invariants of C04, C12, C13 and C18 are all instances. *)
From BL Require Import Base.Prelude Base.Floats Mach.Val Mach.Ops Mach.Func Mach.Var
     Lang.Token Lang.Lex Lang.Ast Lang.Parse Mach.Compile Mach.Listing Mach.Runtime.
From Coq Require Import Lia.
Local Open Scope N_scope.

Definition hoare {A} (I J : rt -> Prop) (m : RM A) : Prop :=
  forall r, I r -> match snd (m r) with Ok _ => I (fst (m r)) | _ => J (fst (m r)) end.

Section Rules.
Variables I J : rt -> Prop.
Hypothesis IJ : forall r, I r -> J r.

Lemma hoare_ret {A} (a : A) : hoare I J (rret a).
Proof. intros r H. exact H. Qed.

Lemma hoare_bind {A B} (m : RM A) (f : A -> RM B) :
  hoare I J m -> (forall a, hoare I J (f a)) -> hoare I J (rbind m f).
Proof.
  intros Hm Hf r H. unfold rbind. specialize (Hm r H).
  destruct (m r) as [r' [a | e | |]]; cbn in *; try exact Hm.
  apply Hf. exact Hm.
Qed.

Lemma hoare_rfail {A} c : hoare I J (@rfail A c).
Proof. intros r H. cbn. apply IJ, H. Qed.

Lemma hoare_rlift {A} (x : res A) : hoare I J (rlift x).
Proof. intros r H. unfold rlift. cbn. destruct x; auto. Qed.

Lemma hoare_rget : hoare I J rget.
Proof. intros r H. exact H. Qed.

Lemma hoare_rmod f : (forall r, I r -> I (f r)) -> hoare I J (rmod f).
Proof. intros Hf r H. cbn. auto. Qed.

(* a state-preserving action that may fail: `fun r => (r, x)` *)
Lemma hoare_const {A} (x : res A) : hoare I J (fun r => (r, x)).
Proof. intros r H. cbn. destruct x; auto. Qed.

(* the recurring shape `fun r => match g r with Ok v => (set r v, Ok tt) | Err e => (r, Err e) | ...` *)
Lemma hoare_try {A} (g : rt -> res A) (set : rt -> A -> rt) :
  (forall r a, I r -> I (set r a)) ->
  hoare I J (fun r => match g r with
                      | Ok v => (set r v, Ok tt)
                      | Err e => (r, Err e) | Panic => (r, Panic) | Hang => (r, Hang)
                      end).
Proof. intros Hs r H. destruct (g r); cbn; auto. Qed.

Lemma hoare_with_vars {A} (f : varstore -> varstore * res A) :
  (forall r v, I r -> I (set_vars r v)) -> (forall r v, I r -> J (set_vars r v)) -> hoare I J (with_vars f).
Proof. intros H1 H2 r H. unfold with_vars. destruct (f (r_vars r)) as [vs x]. cbn. destruct x; auto. Qed.

Lemma hoare_fold_push {A} (l : list A) (g : A -> val) (m0 : RM unit) :
  hoare I J m0 -> (forall v, hoare I J (push v)) ->
  hoare I J (fold_left (fun m a => rbind m (fun _ => push (g a))) l m0).
Proof.
  revert m0. induction l as [| a l IH]; intros m0 H0 Hp; cbn; [exact H0 |].
  apply IH; [| exact Hp]. apply hoare_bind; [exact H0 | intros _; apply Hp].
Qed.

End Rules.

(* the general triple, for sequences whose intermediate states satisfy something other than the invariant *)
Definition hoare3 {A} (P Q J : rt -> Prop) (m : RM A) : Prop :=
  forall r, P r -> match snd (m r) with Ok _ => Q (fst (m r)) | _ => J (fst (m r)) end.
Lemma hoare3_bind {A B} (P Q R J : rt -> Prop) (m : RM A) (f : A -> RM B) :
  hoare3 P Q J m -> (forall a, hoare3 Q R J (f a)) -> hoare3 P R J (rbind m f).
Proof.
  intros Hm Hf r H. unfold rbind. specialize (Hm r H).
  destruct (m r) as [r' [a | e | |]]; cbn in *; try exact Hm.
  apply Hf. exact Hm.
Qed.
Lemma hoare3_eq {A} (I J : rt -> Prop) (m : RM A) : hoare3 I I J m <-> hoare I J m.
Proof. split; intros H; exact H. Qed.

(* reading the state and continuing with it *)
Lemma hoare_bind_rget {B} (I J : rt -> Prop) (f : rt -> RM B) :
  (forall r0, I r0 -> match snd (f r0 r0) with Ok _ => I (fst (f r0 r0)) | _ => J (fst (f r0 r0)) end) ->
  hoare I J (rbind rget f).
Proof. intros Hf r H. unfold rbind, rget. apply Hf, H. Qed.

(* weakening the error postcondition *)
Lemma hoare_weaken {A} (I J J' : rt -> Prop) (m : RM A) : (forall r, J r -> J' r) -> hoare I J m -> hoare I J' m.
Proof. intros HJ Hm r H. specialize (Hm r H). destruct (snd (m r)); auto. Qed.

(* One structural step; `prim` discharges the primitive actions (push, pop, rmod ...) of the invariant at hand. *)
Ltac hoare_step prim :=
  lazymatch goal with
  | |- hoare _ _ (rret _) => apply hoare_ret
  | |- hoare _ _ (rbind _ _) => apply hoare_bind; [ | intros ?]
  | |- hoare _ _ (rfail _) => apply hoare_rfail; solve [auto]
  | |- hoare _ _ (rlift _) => apply hoare_rlift; solve [auto]
  | |- hoare _ _ rget => apply hoare_rget
  | |- hoare _ _ (fun r => (r, _)) => apply hoare_const; solve [auto]
  | |- hoare _ _ (if ?b then _ else _) => destruct b
  | |- hoare _ _ (match ?x with _ => _ end) => destruct x
  | |- hoare _ _ (let '(_, _) := ?x in _) => destruct x
  | |- _ => prim
  end.
Ltac hoare_auto prim := repeat (hoare_step prim).
