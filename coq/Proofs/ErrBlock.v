(* C19: a program with compile-time errors is never entered; jumps inside the direct line are unaffected. *)
From BL Require Import Base.Prelude Base.Floats Mach.Val Mach.Ops Mach.Func Mach.Var
     Lang.Token Lang.Lex Lang.Ast Lang.Parse Mach.Compile Mach.Listing Mach.Runtime.
From Coq Require Import Lia.
Local Open Scope N_scope.

(* every transfer into program code (RUN, GOTO, GOSUB, ON.., CONT's target is not a Jump) goes through OpJump;
   with errors recorded for the stored program it stops the machine and reports them instead *)
Theorem jump_into_faulty_program_blocked : forall O a r, a < r_entry r ->
  let '(r', x) := exec_op O true (OpJump a) r in
  x = Ok (Some (EvErrors (ls_ind_errors (r_listing r)))) /\ r_state r' = StStopped /\ r_cont r' = StStopped
  /\ r_stack r' = r_stack r /\ r_vars r' = r_vars r /\ r_col r' = r_col r.
Proof.
  intros O a r H. cbn [exec_op]. unfold rbind, rmod, rget. cbn [r_pc set_pc r_entry].
  destruct (N.ltb_spec a (r_entry r)); [| lia]. cbn. repeat split; reflexivity.
Qed.

(* a jump that stays in the direct line (WHILE..WEND, IF..ELSE typed at the prompt) is an ordinary jump *)
Theorem jump_within_direct_line : forall O h a r, r_entry r <= a ->
  exec_op O h (OpJump a) r = (set_pc r a, Ok None).
Proof.
  intros O h a r H. cbn [exec_op]. unfold rbind, rmod, rget. cbn [r_pc set_pc r_entry].
  destruct (N.ltb_spec a (r_entry r)); [lia |]. rewrite andb_false_r. reflexivity.
Qed.

(* without recorded errors a jump is an ordinary jump wherever it goes *)
Theorem jump_clean_program : forall O a r, exec_op O false (OpJump a) r = (set_pc r a, Ok None).
Proof. intros. reflexivity. Qed.

(* execute() passes the flag exactly when the listing carries errors of the stored program *)
Theorem underline_ranges_are_the_lines_errors : forall l a b text cols next, list_line l a b = Ok (Some (text, cols, next)) ->
  exists n toks, text = line_to_string (Some n, toks) /\ In (n, toks) (ls_lines l) /\ a <= n <= b
    /\ cols = map error_column (filter (fun e => match eline e with Some k => k =? n | None => false end) (ls_ind_errors l)).
Proof.
  intros l a b text cols next H. unfold list_line in H. destruct (b <? a); [discriminate |].
  destruct (filter (fun e => in_rng a b (fst e)) (ls_lines l)) as [| [n toks] rest] eqn:Ef; [discriminate |].
  injection H as <- <- _. exists n, toks.
  assert (Hin : In (n, toks) (filter (fun e => in_rng a b (fst e)) (ls_lines l))) by (rewrite Ef; left; reflexivity).
  apply filter_In in Hin. destruct Hin as [Hin Hr]. cbn in Hr. unfold in_rng in Hr. apply andb_prop in Hr. destruct Hr as [H1 H2].
  apply N.leb_le in H1, H2. repeat split; try assumption; reflexivity.
Qed.
