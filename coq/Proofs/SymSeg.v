(* C09 / C20: symbol hygiene.  The local symbols of a compiled statement are negative and lie above the fragment's symbol
   counter; so appending statement code never disturbs a line-number symbol, and the symbol of line n records the code
   address and the DATA address at which the line starts. *)
From BL Require Import Base.Prelude Base.Floats Mach.Val Mach.Ops Mach.Func Mach.Var
     Lang.Token Lang.Lex Lang.Ast Lang.Parse Mach.Compile Spec.Sem Proofs.DataSeg.
From Coq Require Import Lia.
Local Open Scope N_scope.

(* ---------- computations that touch neither data nor symbols (expressions, variables) ---------- *)
Definition same_syms (l l' : link) : Prop := l_cur l' = l_cur l /\ l_syms l' = l_syms l.
Definition quiet {A} (m : LM A) : Prop := forall l l' x, m l = (l', x) -> same_syms l l'.

Lemma same_syms_refl l : same_syms l l. Proof. split; reflexivity. Qed.
Lemma same_syms_trans a b c : same_syms a b -> same_syms b c -> same_syms a c.
Proof. intros [H1 H2] [H3 H4]. split; congruence. Qed.

Lemma quiet_ret {A} (a : A) : quiet (lret a).
Proof. intros l l' x H. injection H as <- _. apply same_syms_refl. Qed.
Lemma quiet_bind {A B} (m : LM A) (f : A -> LM B) : quiet m -> (forall a, quiet (f a)) -> quiet (lbind m f).
Proof.
  intros Hm Hf l l' x H. unfold lbind in H. destruct (m l) as [l1 [a | e | |]] eqn:E.
  - exact (same_syms_trans _ _ _ (Hm l l1 _ E) (Hf a l1 l' x H)).
  - injection H as <- _. exact (Hm l l1 _ E).
  - injection H as <- _. exact (Hm l l1 _ E).
  - injection H as <- _. exact (Hm l l1 _ E).
Qed.
Lemma quiet_const {A} (x0 : res A) : quiet (fun l => (l, x0)).
Proof. intros l l' x H. injection H as <- _. apply same_syms_refl. Qed.
Lemma quiet_lfail {A} code c : quiet (@lfail A code c). Proof. apply quiet_const. Qed.
Lemma quiet_lfail_e {A} e : quiet (@lfail_e A e). Proof. apply quiet_const. Qed.
Lemma quiet_lift {A} (r : res A) : quiet (lift r). Proof. apply quiet_const. Qed.
Lemma quiet_push op : quiet (l_push op).
Proof. intros l l' x H. unfold l_push in H. injection H as <- _. split; reflexivity. Qed.
Lemma quiet_unlink_here c s : quiet (l_unlink_here c s).
Proof. intros l l' x H. injection H as <- _. split; reflexivity. Qed.
Lemma quiet_add_while k c s : quiet (l_add_while k c s).
Proof. intros l l' x H. injection H as <- _. split; reflexivity. Qed.

(* appending a fragment without symbols *)
Lemma quiet_append f : l_cur f = 0%Z -> l_syms f = [] -> quiet (l_append f).
Proof.
  intros Hc Hs l l' x H. unfold l_append in H. rewrite Hc, Hs in H. cbn [fold_left] in H. rewrite Z.add_0_r in H.
  destruct (l_direct_set l && _); [injection H as <- _; apply same_syms_refl |].
  match type of H with context [MAX_POOL <? lenN (l_ops ?x)] => destruct (MAX_POOL <? lenN (l_ops x)) end;
    injection H as <- _; split; reflexivity.
Qed.

Lemma quiet_fold {A X} (xs : list X) (m0 : LM A) (step : LM A -> X -> LM A) :
  quiet m0 -> (forall m x, quiet m -> In x xs -> quiet (step m x)) -> quiet (fold_left step xs m0).
Proof.
  revert m0. induction xs as [| x r IH]; intros m0 H0 Hs; cbn [fold_left]; [exact H0 |].
  apply IH; [apply Hs; [exact H0 | left; reflexivity] | intros m y Hm Hy; apply Hs; [exact Hm | right; exact Hy]].
Qed.

Definition nosyms (l : link) : Prop := l_cur l = 0%Z /\ l_syms l = [].

Lemma run_frag_quiet (m : LM col) : quiet m -> nosyms (snd (fst (run_frag m))).
Proof.
  intros H. unfold run_frag. destruct (m link_empty) as [l [c | e | |]] eqn:E; cbn [fst snd]; destruct (H _ _ _ E) as [H1 H2]; split; assumption.
Qed.

Create HintDb qt.
Ltac qt :=
  repeat first
    [ apply quiet_ret | apply quiet_lfail | apply quiet_lfail_e | apply quiet_lift | apply quiet_push
    | apply quiet_unlink_here | apply quiet_add_while | apply quiet_const
    | apply quiet_append; solve [assumption | reflexivity | match goal with H : nosyms _ |- _ => apply H end]
    | solve [auto with qt]
    | apply quiet_bind; [| intros ?]
    | match goal with |- quiet (match ?x with _ => _ end) => destruct x end
    | match goal with |- quiet (if ?x then _ else _) => destruct x end ].

Lemma quiet_lit_len n : quiet (lit_len n). Proof. unfold lit_len. qt. Qed.
Lemma quiet_test v s : quiet (test_for_built_in v s). Proof. unfold test_for_built_in. qt. Qed.
#[export] Hint Resolve quiet_lit_len quiet_test : qt.
Lemma quiet_push_as_expression v : nosyms (vi_link v) -> quiet (push_as_expression v).
Proof. intros [H1 H2]. unfold push_as_expression. qt. Qed.
Lemma quiet_push_as_pop v : nosyms (vi_link v) -> quiet (push_as_pop v).
Proof. intros [H1 H2]. unfold push_as_pop. qt. Qed.
Lemma quiet_push_as_pop_unary v : quiet (push_as_pop_unary v).
Proof. unfold push_as_pop_unary. qt. Qed.
Lemma quiet_push_as_dim v : nosyms (vi_link v) -> quiet (push_as_dim v).
Proof. intros [H1 H2]. unfold push_as_dim. qt. Qed.
Lemma quiet_append_all fs : Forall (fun f : frag => nosyms (snd f)) fs -> quiet (append_all fs).
Proof.
  intros H. unfold append_all. apply quiet_fold; [apply quiet_ret |].
  intros m f Hm Hin. rewrite Forall_forall in H. destruct (H f Hin) as [H1 H2]. qt.
Qed.
#[export] Hint Resolve quiet_push_as_expression quiet_push_as_pop quiet_push_as_pop_unary quiet_push_as_dim quiet_append_all : qt.

Lemma subfrags_nosyms (args : list expr) :
  Forall (fun x => nosyms (snd (fst (cg_expr x)))) args -> Forall (fun f : frag => nosyms (snd f)) (map fst (map cg_expr args)).
Proof. intros H. induction H as [| x r Hx _ IH]; cbn [map]; constructor; assumption. Qed.

Theorem cg_expr_nosyms : forall e, nosyms (snd (fst (cg_expr e))).
Proof.
  induction e as [c i | c i args IH | c b | c b | c n | c s | c x IH | c x IH | c o a b IHa IHb] using expr_ind2; cbn [cg_expr].
  - apply run_frag_quiet. apply quiet_push_as_expression. split; reflexivity.
  - pose proof (subfrags_nosyms args IH) as Hsub.
    match goal with |- context [run_frag ?m] => pose proof (run_frag_quiet m ltac:(qt)) as Hv; destruct (run_frag m) as [vf verrs] end.
    cbn [fst snd] in Hv.
    match goal with |- context [push_as_expression ?vi] =>
      assert (Hvi : nosyms (vi_link vi)) by (destruct verrs; exact Hv);
      pose proof (run_frag_quiet (push_as_expression vi) (quiet_push_as_expression vi Hvi)) as He;
      destruct (run_frag (push_as_expression vi)) as [ef eerrs] end.
    exact He.
  - apply run_frag_quiet. qt.
  - apply run_frag_quiet. qt.
  - apply run_frag_quiet. qt.
  - apply run_frag_quiet. qt.
  - destruct (cg_expr x) as [xf xerrs]. cbn [fst snd] in IH.
    match goal with |- context [run_frag ?m] => pose proof (run_frag_quiet m ltac:(qt)) as Hv; destruct (run_frag m) as [f errs] end. exact Hv.
  - destruct (cg_expr x) as [xf xerrs]. cbn [fst snd] in IH.
    match goal with |- context [run_frag ?m] => pose proof (run_frag_quiet m ltac:(qt)) as Hv; destruct (run_frag m) as [f errs] end. exact Hv.
  - destruct (cg_expr a) as [af aerrs]. destruct (cg_expr b) as [bf berrs]. cbn [fst snd] in IHa, IHb.
    match goal with |- context [run_frag ?m] => pose proof (run_frag_quiet m ltac:(qt)) as Hv; destruct (run_frag m) as [f errs] end. exact Hv.
Qed.

Lemma exprs_nosyms (l : list expr) : Forall (fun f : frag => nosyms (snd f)) (map fst (map cg_expr l)).
Proof. apply subfrags_nosyms. apply Forall_forall. intros x _. apply cg_expr_nosyms. Qed.

Theorem cg_var_nosyms : forall v, nosyms (vi_link (fst (cg_var v))).
Proof.
  destruct v as [c i | c i args]; cbn [cg_var]; [split; reflexivity |].
  pose proof (exprs_nosyms args) as Hsub.
  match goal with |- context [run_frag ?m] => pose proof (run_frag_quiet m ltac:(qt)) as Hv; destruct (run_frag m) as [vf verrs] end.
  cbn [fst snd] in *. destruct verrs; exact Hv.
Qed.

Lemma vars_nosyms (l : list var) : Forall (fun v => nosyms (vi_link v)) (map fst (map cg_var l)).
Proof. induction l as [| v r IH]; cbn [map]; constructor; [apply cg_var_nosyms | exact IH]. Qed.

(* more quiet helpers *)
Lemma quiet_push_jump c s : quiet (l_push_jump c s). Proof. unfold l_push_jump. qt. Qed.
Lemma quiet_push_ifnot c s : quiet (l_push_ifnot c s). Proof. unfold l_push_ifnot. qt. Qed.
Lemma quiet_push_return_val c s : quiet (l_push_return_val c s). Proof. unfold l_push_return_val. qt. Qed.
Lemma quiet_sym_of_line n : quiet (sym_of_line n). Proof. unfold sym_of_line. qt. Qed.
#[export] Hint Resolve quiet_push_jump quiet_push_ifnot quiet_push_return_val quiet_sym_of_line : qt.
Lemma quiet_push_goto c n : quiet (l_push_goto c n). Proof. unfold l_push_goto. qt. Qed.
Lemma quiet_push_restore c n : quiet (l_push_restore c n). Proof. unfold l_push_restore. qt. Qed.
Lemma quiet_push_run c n : quiet (l_push_run c n). Proof. unfold l_push_run. qt. Qed.
Lemma quiet_pop_line_number f : quiet (pop_line_number f). Proof. unfold pop_line_number. qt. Qed.
Lemma quiet_val_of_line n : quiet (val_of_line n). Proof. unfold val_of_line. qt. Qed.
#[export] Hint Resolve quiet_push_goto quiet_push_restore quiet_push_run quiet_pop_line_number quiet_val_of_line : qt.
Lemma quiet_on_targets c : forall ts se, quiet (cg_on_targets c ts se).
Proof. induction ts as [| t r IH]; intros se; cbn [cg_on_targets]; [qt | destruct (link_line_number (snd t)); qt; apply IH]. Qed.
Lemma quiet_cg_range c a b op : quiet (cg_range c a b op). Proof. unfold cg_range. qt. Qed.
Lemma quiet_cg_deftype c a b op : quiet (cg_deftype c a b op). Proof. unfold cg_deftype. qt. Qed.
Lemma quiet_simple c op : quiet (simple c op). Proof. unfold simple. qt. Qed.
#[export] Hint Resolve quiet_on_targets quiet_cg_range quiet_cg_deftype quiet_simple : qt.

(* ---------- symbol hygiene ---------- *)
Definition Inv (l : link) : Prop := (l_cur l <= 0)%Z /\ forall k v, In (k, v) (l_syms l) -> (l_cur l <= k < 0)%Z.

(* m, run where the symbols S are in scope, keeps the invariant and only lowers the counter (when it succeeds) *)
Definition hs {A} (S : list Z) (m : LM A) : Prop :=
  forall l l' a, m l = (l', Ok a) -> Inv l -> (forall s, In s S -> (l_cur l <= s < 0)%Z) -> Inv l' /\ (l_cur l' <= l_cur l)%Z.

Lemma nosyms_inv l : nosyms l -> Inv l.
Proof. intros [H1 H2]. split; [lia |]. rewrite H2. intros k v []. Qed.

Lemma hs_quiet {A} S (m : LM A) : quiet m -> hs S m.
Proof. intros H l l' a E [Hc Hk] _. destruct (H l l' _ E) as [H1 H2]. split; [split |]; rewrite ?H1, ?H2; try assumption. lia. Qed.

Lemma hs_bind {A B} S (m : LM A) (f : A -> LM B) : hs S m -> (forall a, hs S (f a)) -> hs S (lbind m f).
Proof.
  intros Hm Hf l l' b H HI HS. unfold lbind in H. destruct (m l) as [l1 [a | e | |]] eqn:E; try discriminate.
  destruct (Hm l l1 a E HI HS) as [HI1 Hc1].
  destruct (Hf a l1 l' b H HI1) as [HI2 Hc2]; [intros s Hs; specialize (HS s Hs); lia |]. split; [exact HI2 | lia].
Qed.

Lemma hs_scope {B} S (body : Z -> LM B) : (forall s, hs (s :: S) (body s)) -> hs S (lbind l_next_symbol body).
Proof.
  intros Hb l l' b H [Hc Hk] HS. unfold lbind, l_next_symbol in H.
  match type of H with body ?c ?l1 = _ => destruct (Hb c l1 l' b H) as [HI2 Hc2] end.
  - split; cbn [l_cur l_syms]; [lia |]. intros k v Hin. specialize (Hk k v Hin). lia.
  - cbn [l_cur]. intros s [<- | Hs]; [lia | specialize (HS s Hs); lia].
  - cbn [l_cur] in Hc2. split; [exact HI2 | lia].
Qed.

Lemma zassoc_set_in {V} k (v : V) : forall l k' v', In (k', v') (zassoc_set k v l) -> (k' = k /\ v' = v) \/ In (k', v') l.
Proof.
  induction l as [| [k0 v0] r IH]; intros k' v' H; cbn [zassoc_set] in H.
  - destruct H as [E | []]. injection E as <- <-. left. split; reflexivity.
  - destruct (k =? k0)%Z eqn:Ek.
    + destruct H as [E | H]; [injection E as <- <-; left; split; reflexivity | right; right; exact H].
    + destruct H as [E | H]; [right; left; exact E |]. destruct (IH _ _ H) as [L | R]; [left; exact L | right; right; exact R].
Qed.

Lemma hs_push_symbol S s : In s S -> hs S (l_push_symbol s).
Proof.
  intros Hin l l' a H [Hc Hk] HS. unfold l_push_symbol in H. injection H as <- _. unfold Inv. cbn [l_cur l_syms]. split; [split; [exact Hc |] | lia].
  intros k v Hkv. apply zassoc_set_in in Hkv. destruct Hkv as [[-> _] | Hkv]; [exact (HS s Hin) | exact (Hk k v Hkv)].
Qed.

Lemma fold_set_keys {V} (g : Z * V -> Z) (h : Z * V -> V) : forall fs acc k v,
  In (k, v) (fold_left (fun acc e => zassoc_set (g e) (h e) acc) fs acc) -> In (k, v) acc \/ exists e, In e fs /\ k = g e.
Proof.
  induction fs as [| e r IH]; intros acc k v H; cbn [fold_left] in H; [left; exact H |].
  destruct (IH _ _ _ H) as [Hin | [e' [He' Ek]]].
  - apply zassoc_set_in in Hin. destruct Hin as [[-> _] | Hin]; [right; exists e; split; [left; reflexivity | reflexivity] | left; exact Hin].
  - right. exists e'. split; [right; exact He' | exact Ek].
Qed.

Lemma hs_append S f : Inv f -> hs S (l_append f).
Proof.
  intros [Hcf Hkf] l l' a H [Hc Hk] _. unfold l_append in H. destruct (l_direct_set l && _); [discriminate |].
  match type of H with context [MAX_POOL <? lenN (l_ops ?x)] => destruct (MAX_POOL <? lenN (l_ops x)) end; [discriminate |].
  injection H as <- _. unfold Inv. cbn [set_data l_cur l_syms]. split; [split; [lia |] | lia].
  intros k v Hin.
  apply (fold_set_keys (fun e : Z * (N * N) => if (fst e <? 0)%Z then (fst e + l_cur l)%Z else fst e)
                       (fun e : Z * (N * N) => (fst (snd e) + lenN (l_ops l), snd (snd e) + lenN (l_data l)))) in Hin.
  destruct Hin as [Hin | [[k0 v0] [He ->]]]; [specialize (Hk k v Hin); lia |].
  specialize (Hkf k0 v0 He). cbn [fst]. destruct (Z.ltb_spec k0 0); lia.
Qed.

Lemma hs_fold {A X} S (xs : list X) (m0 : LM A) (step : LM A -> X -> LM A) :
  hs S m0 -> (forall m x, hs S m -> In x xs -> hs S (step m x)) -> hs S (fold_left step xs m0).
Proof.
  revert m0. induction xs as [| x r IH]; intros m0 H0 Hs; cbn [fold_left]; [exact H0 |].
  apply IH; [apply Hs; [exact H0 | left; reflexivity] | intros m y Hm Hy; apply Hs; [exact Hm | right; exact Hy]].
Qed.

Lemma hs_append_all S fs : Forall (fun f : frag => Inv (snd f)) fs -> hs S (append_all fs).
Proof.
  intros H. unfold append_all. apply hs_fold; [apply hs_quiet, quiet_ret |].
  intros m f Hm Hin. rewrite Forall_forall in H. apply hs_bind; [exact Hm | intros _; apply hs_append; exact (H f Hin)].
Qed.

Lemma run_frag_inv (m : LM col) c l : hs [] m -> run_frag m = ((c, l), []) -> Inv l.
Proof.
  intros H E. apply run_frag_ok in E. destruct (H link_empty l c E) as [HI _]; [apply nosyms_inv; split; reflexivity | intros s [] | exact HI].
Qed.

Create HintDb hy.
Ltac hy :=
  repeat first
    [ apply hs_quiet; solve [qt]
    | apply hs_push_symbol; cbn [In]; solve [auto 8]
    | apply hs_append; solve [assumption | apply nosyms_inv; solve [assumption | split; assumption]]
    | solve [auto with hy]
    | apply hs_scope; intros ?
    | apply hs_bind; [| intros ?]
    | match goal with |- hs _ (match ?x with _ => _ end) => destruct x end
    | match goal with |- hs _ (if ?x then _ else _) => destruct x end ].

Lemma hs_push_gosub S c n : hs S (l_push_gosub c n). Proof. unfold l_push_gosub. hy. Qed.
Lemma hs_push_for S c : hs S (l_push_for c). Proof. unfold l_push_for. hy. Qed.
Lemma hs_push_wend S c : hs S (l_push_wend c). Proof. unfold l_push_wend. hy. Qed.
Lemma hs_push_while S c e : nosyms e -> hs S (l_push_while c e). Proof. intros H. unfold l_push_while. hy. Qed.
Lemma hs_push_def_fn S c name vars body : nosyms body -> hs S (l_push_def_fn c name vars body).
Proof.
  intros H. unfold l_push_def_fn. hy. apply hs_fold; [hy |]. intros m x Hm _. hy.
Qed.
#[export] Hint Resolve hs_push_gosub hs_push_for hs_push_wend hs_push_while hs_push_def_fn hs_append_all : hy.

(* ---------- every statement's fragment is hygienic ---------- *)
Lemma transform_nosyms c f : nosyms f -> nosyms (fst (l_transform_to_data c f)).
Proof.
  intros [H1 H2]. unfold l_transform_to_data, l_push_data, nosyms.
  destruct (l_ops f) as [| a [| b [| d r]]]; try (cbn; split; assumption).
  all: destruct a; try (cbn; split; assumption).
  all: destruct b; try (cbn; split; assumption).
  destruct (op_negate v); cbn; split; assumption.
Qed.
Ltac sub_frags_s :=
  repeat match goal with
         | |- context [cg_expr ?e] => let H := fresh "Hn" in pose proof (cg_expr_nosyms e) as H; destruct (cg_expr e) as [? ?]; cbn [fst snd] in H
         | |- context [cg_var ?v] => let H := fresh "Hn" in pose proof (cg_var_nosyms v) as H; destruct (cg_var v) as [? ?]; cbn [fst snd] in H
         end.
Ltac fold_hy H :=
  apply hs_fold; [hy | let m := fresh "m" in let x := fresh "x" in let Hm := fresh "Hm" in let Hin := fresh "Hin" in
                        intros m x Hm Hin; rewrite Forall_forall in H; specialize (H x Hin); hy].

Lemma fin_inv (pre : list error) (m : LM col) :
  hs [] m -> snd (let '(f, errs) := run_frag m in (f, pre ++ errs)) = [] ->
  Inv (snd (fst (let '(f, errs) := run_frag m in (f, pre ++ errs)))).
Proof.
  intros H E. destruct (run_frag m) as [[c0 l0] errs] eqn:Er. cbn [fst snd] in *. apply app_eq_nil in E. destruct E as [_ ->].
  exact (run_frag_inv m c0 l0 H Er).
Qed.

Theorem cg_stmt_inv : forall s, snd (cg_stmt s) = [] -> Inv (snd (fst (cg_stmt s))).
Proof.
  induction s as [c p th el IHth IHel | s Hs] using stmt_ind2; intros Herr.
  - (* IF *)
    cbn [cg_stmt] in *. pose proof (cg_expr_nosyms p) as Hp. destruct (cg_expr p) as [pf x0]. cbn [fst snd] in Hp.
    match type of Herr with context [run_frag ?m] => set (M := m) in * end.
    destruct (run_frag M) as [[cc lk] errs] eqn:Erun. cbn [fst snd] in *.
    apply app_eq_nil in Herr. destruct Herr as [Hpre Herrs]. apply app_nil_3 in Hpre. destruct Hpre as (Hx0 & Hths & Hels). subst errs.
    assert (Hth : Forall (fun f : frag => Inv (snd f)) (map fst (map cg_stmt th))).
    { apply flat_map_map_nil in Hths. rewrite map_map. rewrite Forall_map. rewrite Forall_forall in *. intros s Hin. exact (IHth s Hin (Hths s Hin)). }
    assert (Hel : Forall (fun f : frag => Inv (snd f)) (map fst (map cg_stmt el))).
    { apply flat_map_map_nil in Hels. rewrite map_map. rewrite Forall_map. rewrite Forall_forall in *. intros s Hin. exact (IHel s Hin (Hels s Hin)). }
    apply (run_frag_inv M cc lk); [| exact Erun]. unfold M.
    apply hs_bind; [hy |]. intros _. apply hs_scope. intros es.
    apply hs_bind; [hy |]. intros _.
    apply hs_bind; [apply hs_append_all; exact Hth |]. intros _.
    destruct (map cg_stmt el) as [| g0 gs] eqn:Eg; [hy |].
    apply hs_scope. intros fs. hy.
  - destruct s; try contradiction; cbn [cg_stmt] in *; sub_frags_s.
    all: try (pose proof (exprs_nosyms l) as Hl); try (pose proof (vars_nosyms l) as Hl); try (pose proof (vars_nosyms params) as Hps).
    all: apply fin_inv; [| exact Herr].
    all: try solve [hy].
    all: try solve [hy; fold_hy Hl].
    (* DATA *)
    apply hs_bind; [| intros _; hy]. apply hs_fold; [hy |]. intros m f Hm Hin. rewrite Forall_forall in Hl. specialize (Hl f Hin).
    apply hs_bind; [exact Hm |]. intros _. pose proof (transform_nosyms (fst f) (snd f) Hl) as Ht.
    destruct (l_transform_to_data (fst f) (snd f)) as [f' [u | e | |]]; cbn [fst] in Ht;
      [apply hs_append; apply nosyms_inv; exact Ht | | |]; intros l0 l' a H; discriminate.
Qed.

(* ====================================================================================================
   The program: line symbols survive, and say where the line starts
   ==================================================================================================== *)
From BL Require Import Proofs.ExprCompile Proofs.Flow.

Definition PInv (L : link) : Prop := (l_cur L <= 0)%Z /\ forall k v, In (k, v) (l_syms L) -> (k < 0)%Z -> (l_cur L <= k)%Z.

Lemma zassoc_get_set_other {V} k k' (v : V) : forall l, k <> k' -> zassoc_get k (zassoc_set k' v l) = zassoc_get k l.
Proof.
  induction l as [| [k0 v0] r IH]; intros Hne; cbn [zassoc_set zassoc_get].
  - destruct (Z.eqb_spec k k'); [contradiction | reflexivity].
  - destruct (Z.eqb_spec k' k0) as [-> | Hn0]; cbn [zassoc_get].
    + destruct (Z.eqb_spec k k0); [contradiction | reflexivity].
    + destruct (Z.eqb_spec k k0); [reflexivity | apply IH; exact Hne].
Qed.

Lemma zassoc_get_set_same {V} k (v : V) : forall l, zassoc_get k (zassoc_set k v l) = Some v.
Proof.
  induction l as [| [k0 v0] r IH]; cbn [zassoc_set zassoc_get]; [rewrite Z.eqb_refl; reflexivity |].
  destruct (Z.eqb_spec k k0) as [-> | Hn]; cbn [zassoc_get]; [rewrite Z.eqb_refl; reflexivity |].
  destruct (Z.eqb_spec k k0); [contradiction | exact IH].
Qed.

Lemma fold_set_get {V} (g : Z * V -> Z) (h : Z * V -> V) k : forall fs acc, (forall e, In e fs -> g e <> k) ->
  zassoc_get k (fold_left (fun acc e => zassoc_set (g e) (h e) acc) fs acc) = zassoc_get k acc.
Proof.
  induction fs as [| e r IH]; intros acc H; cbn [fold_left]; [reflexivity |].
  rewrite IH by (intros e' He'; apply H; right; exact He'). apply zassoc_get_set_other. intros E. apply (H e (or_introl eq_refl)). symmetry. exact E.
Qed.

(* appending a hygienic fragment: the invariant of the program link is kept, no line symbol changes *)
Lemma append_keeps_lines f L L' : Inv f -> PInv L -> l_append f L = (L', Ok tt) ->
  PInv L' /\ forall k, (0 <= k)%Z -> zassoc_get k (l_syms L') = zassoc_get k (l_syms L).
Proof.
  intros [Hcf Hkf] [Hc Hk] H. unfold l_append in H. destruct (l_direct_set L && _); [discriminate |].
  match type of H with context [MAX_POOL <? lenN (l_ops ?x)] => destruct (MAX_POOL <? lenN (l_ops x)) end; [discriminate |].
  injection H as <- _. unfold PInv. cbn [set_data l_cur l_syms]. split; [split; [lia |] |].
  - intros k v Hin Hneg.
    apply (fold_set_keys (fun e : Z * (N * N) => if (fst e <? 0)%Z then (fst e + l_cur L)%Z else fst e)
                         (fun e : Z * (N * N) => (fst (snd e) + lenN (l_ops L), snd (snd e) + lenN (l_data L)))) in Hin.
    destruct Hin as [Hin | [[k0 v0] [He ->]]]; [specialize (Hk k v Hin Hneg); lia |].
    specialize (Hkf k0 v0 He). cbn [fst] in *. destruct (Z.ltb_spec k0 0); lia.
  - intros k Hk0.
    apply (fold_set_get (fun e : Z * (N * N) => if (fst e <? 0)%Z then (fst e + l_cur L)%Z else fst e)
                        (fun e : Z * (N * N) => (fst (snd e) + lenN (l_ops L), snd (snd e) + lenN (l_data L)))).
    intros [k0 v0] He. specialize (Hkf k0 v0 He). cbn [fst]. destruct (Z.ltb_spec k0 0); lia.
Qed.

Lemma append_frags_lines : forall fs p, Forall (fun f : frag => Inv (snd f)) fs -> pg_errors (append_stmt_frags p fs) = [] -> PInv (pg_link p) ->
  PInv (pg_link (append_stmt_frags p fs)) /\ forall k, (0 <= k)%Z -> zassoc_get k (l_syms (pg_link (append_stmt_frags p fs))) = zassoc_get k (l_syms (pg_link p)).
Proof.
  induction fs as [| f r IH]; intros p Hf H HP; cbn [append_stmt_frags] in *; [split; [exact HP | reflexivity] |].
  inversion Hf as [| ? ? Hf1 Hfr]; subst.
  destruct (append_result (snd f) (pg_link p)) as [[l' E] | [l' [e E]]]; rewrite E in *; [| exfalso; exact (prog_error_errors _ _ H)].
  destruct (append_keeps_lines _ _ _ Hf1 HP E) as [HP' Hsame].
  destruct (IH (with_link p l') Hfr H HP') as [HP2 Hsame2]. split; [exact HP2 |]. intros k Hk. rewrite (Hsame2 k Hk). cbn [with_link pg_link]. exact (Hsame k Hk).
Qed.

(* one numbered line *)
Lemma codegen_line_symbol : forall p n ss, pg_errors (codegen_line p (Some n) (Ok ss)) = [] -> PInv (pg_link p) ->
  PInv (pg_link (codegen_line p (Some n) (Ok ss)))
  /\ zassoc_get (Z.of_N n) (l_syms (pg_link (codegen_line p (Some n) (Ok ss)))) = Some (lenN (l_ops (pg_link p)), lenN (l_data (pg_link p)))
  /\ forall k, (0 <= k)%Z -> k <> Z.of_N n ->
       zassoc_get k (l_syms (pg_link (codegen_line p (Some n) (Ok ss)))) = zassoc_get k (l_syms (pg_link p)).
Proof.
  intros p n ss H HP. destruct (codegen_line_data p n ss H) as (_ & Hss & _).
  unfold codegen_line, codegen_ast in *. cbn [with_link pg_link pg_errors pg_ind_errors pg_direct pg_line l_push_symbol] in *.
  match type of H with context [append_stmt_frags ?q ?fs] => set (Q := q) in *; set (FS := fs) in * end.
  assert (HF : Forall (fun f : frag => Inv (snd f)) FS).
  { unfold FS. rewrite map_map, Forall_map. rewrite Forall_forall in *. intros s Hin. apply cg_stmt_inv. exact (Hss s Hin). }
  assert (HQ : PInv (pg_link Q)).
  { unfold Q. rewrite fold_prog_error_link. cbn [pg_link with_link]. destruct HP as [Hc Hk]. split; cbn [l_cur l_syms]; [exact Hc |].
    intros k v Hin Hneg. apply zassoc_set_in in Hin. destruct Hin as [[-> _] | Hin]; [lia | exact (Hk k v Hin Hneg)]. }
  destruct (append_frags_lines FS Q HF H HQ) as [HP' Hsame]. split; [exact HP' |].
  assert (HQs : l_syms (pg_link Q) = zassoc_set (Z.of_N n) (lenN (l_ops (pg_link p)), lenN (l_data (pg_link p))) (l_syms (pg_link p))).
  { unfold Q. rewrite fold_prog_error_link. reflexivity. }
  split.
  - rewrite (Hsame (Z.of_N n) ltac:(lia)), HQs. apply zassoc_get_set_same.
  - intros k Hk Hne. rewrite (Hsame k Hk), HQs. apply zassoc_get_set_other. exact Hne.
Qed.

Lemma compile_from_app p a b : compile_from p (a ++ b) = compile_from (compile_from p a) b.
Proof. unfold compile_from. apply fold_left_app. Qed.

Lemma compile_from_cons p n ss r : compile_from p ((n, ss) :: r) = compile_from (codegen_line p (Some n) (Ok ss)) r.
Proof. reflexivity. Qed.

Lemma compile_from_pinv : forall lines p, pg_errors (compile_from p lines) = [] -> PInv (pg_link p) -> PInv (pg_link (compile_from p lines)).
Proof.
  induction lines as [| [n ss] r IH]; intros p H HP; [exact HP |]. rewrite compile_from_cons in *.
  destruct (compile_from_data r _ H) as (H1 & _ & _). destruct (codegen_line_symbol p n ss H1 HP) as (HP1 & _ & _). exact (IH _ H HP1).
Qed.

Lemma compile_from_others : forall lines p k, pg_errors (compile_from p lines) = [] -> PInv (pg_link p) -> (0 <= k)%Z ->
  (forall e, In e lines -> Z.of_N (fst e) <> k) ->
  zassoc_get k (l_syms (pg_link (compile_from p lines))) = zassoc_get k (l_syms (pg_link p)).
Proof.
  induction lines as [| [n ss] r IH]; intros p k H HP Hk Hne; [reflexivity |]. rewrite compile_from_cons in *.
  destruct (compile_from_data r _ H) as (H1 & _ & _).
  destruct (codegen_line_symbol p n ss H1 HP) as (HP1 & _ & Hoth).
  rewrite (IH _ k H HP1 Hk) by (intros e He; apply Hne; right; exact He).
  apply Hoth; [exact Hk |]. intros E. apply (Hne (n, ss) (or_introl eq_refl)). cbn [fst]. symmetry. exact E.
Qed.

(* THE LINE-SYMBOL THEOREM: in the compiled program (any statements, any layout, no compile error), the symbol of line n
   holds the code address at which line n starts and, as its data address, the number of DATA constants in the lines before
   it -- provided the number n is not used again further down *)
Theorem line_symbol_addresses : forall before n ss after p0,
  pg_errors (compile_from p0 (before ++ (n, ss) :: after)) = [] -> PInv (pg_link p0) -> ~ In n (map fst after) ->
  zassoc_get (Z.of_N n) (l_syms (pg_link (compile_from p0 (before ++ (n, ss) :: after))))
  = Some (lenN (l_ops (pg_link (compile_from p0 before))),
          lenN (l_data (pg_link p0) ++ flat_map (fun e => line_vals (snd e)) before)).
Proof.
  intros before n ss after p0 H HP Hnot. rewrite compile_from_app, compile_from_cons in *.
  set (P1 := compile_from p0 before) in *.
  destruct (compile_from_data after _ H) as (H1 & _ & _).
  destruct (codegen_line_data P1 n ss H1) as (H0 & _ & _).
  destruct (compile_from_data before p0 H0) as (_ & _ & Hd). fold P1 in Hd.
  pose proof (compile_from_pinv before p0 H0 HP) as HP1. fold P1 in HP1.
  destruct (codegen_line_symbol P1 n ss H1 HP1) as (HP2 & Hget & _).
  rewrite (compile_from_others after _ (Z.of_N n) H HP2 ltac:(lia)).
  - rewrite Hget, Hd. reflexivity.
  - intros e He E. apply Hnot. apply N2Z.inj in E. rewrite <- E. apply in_map. exact He.
Qed.

(* the same for a program compiled from scratch, in the reference semantics' terms: the data address recorded for line n --
   the address a linked RESTORE n receives -- is Sem.data_index_of_line n *)
Lemma pinv_start dp : PInv (pg_link (mkProg [] [] 0 None (plink 0 [] [] [] dp))).
Proof. split; cbn; [lia | intros k v []]. Qed.

Lemma line_vals_count ss : Forall (fun s => snd (cg_stmt s) = []) ss -> forallb wf_data ss = true ->
  lenN (line_vals ss) = lenN (line_data ss).
Proof.
  intros He Hw. unfold line_vals, line_data.
  rewrite <- (map_some_flat (fun s => l_data (snd (fst (cg_stmt s)))) stmt_data ss).
  - unfold lenN. rewrite map_length. reflexivity.
  - rewrite Forall_forall in *. intros s Hs. rewrite forallb_forall in Hw. exact (cg_stmt_data s (He s Hs) (Hw s Hs)).
Qed.

Lemma before_count : forall (before : list (N * list stmt)) n, (forall e, In e before -> fst e < n) ->
  forallb (fun e => forallb wf_data (snd e)) before = true ->
  Forall (fun e => Forall (fun s => snd (cg_stmt s) = []) (snd e)) before ->
  lenN (flat_map (fun e => line_vals (snd e)) before)
  = lenN (flat_map (fun e : N * list stmt => if fst e <? n then line_data (snd e) else []) before).
Proof.
  induction before as [| e r IH]; intros n Hb Hw Hs; [reflexivity |]. cbn [flat_map]. rewrite !lenN_app.
  cbn [forallb] in Hw. apply andb_prop in Hw. destruct Hw as [We Wr]. inversion Hs as [| ? ? Se Sr]; subst.
  destruct (N.ltb_spec (fst e) n) as [_ | Hge]; [| specialize (Hb e (or_introl eq_refl)); lia].
  rewrite (line_vals_count (snd e) Se We). rewrite (IH n); [reflexivity | intros e' He'; apply Hb; right; exact He' | exact Wr | exact Sr].
Qed.

Theorem restore_address : forall before n ss after dp,
  let prog := before ++ (n, ss) :: after in
  pg_errors (compile_asts prog dp) = [] -> forallb (fun e => forallb wf_data (snd e)) prog = true ->
  (forall e, In e before -> fst e < n) -> (forall e, In e after -> n < fst e) ->
  exists code_addr,
    zassoc_get (Z.of_N n) (l_syms (pg_link (compile_asts prog dp))) = Some (code_addr, data_index_of_line prog n).
Proof.
  intros before n ss after dp prog Herr Hwf Hb Ha. unfold compile_asts in *.
  fold (compile_from (mkProg [] [] 0 None (plink 0 [] [] [] dp)) prog) in *. unfold prog in *.
  eexists. rewrite (line_symbol_addresses before n ss after _ Herr (pinv_start dp)).
  2:{ intros Hin. apply in_map_iff in Hin. destruct Hin as [e [E He]]. specialize (Ha e He). lia. }
  f_equal. f_equal. cbn [pg_link plink l_data app].
  destruct (compile_from_data _ _ Herr) as (_ & Hss & _).
  unfold data_index_of_line. rewrite flat_map_app. cbn [flat_map fst snd]. rewrite !lenN_app.
  destruct (N.ltb_spec n n); [lia |]. cbn [app].
  assert (Hafter : flat_map (fun e : N * list stmt => if fst e <? n then line_data (snd e) else []) after = []).
  { clear - Ha. induction after as [| e r IH]; [reflexivity |]. cbn [flat_map]. destruct (N.ltb_spec (fst e) n) as [Hlt | _].
    - specialize (Ha e (or_introl eq_refl)). lia.
    - apply IH. intros e' He'. apply Ha. right. exact He'. }
  rewrite Hafter. change (lenN (@nil (option val))) with 0. rewrite N.add_0_r.
  rewrite forallb_app in Hwf. apply andb_prop in Hwf. destruct Hwf as [Hwb _].
  apply Forall_app in Hss. destruct Hss as [Hsb _].
  exact (before_count before n Hb Hwb Hsb).
Qed.

(* ---------- a program that meets the premises ---------- *)
From BL Require Import Proofs.Flow4.
From Coq Require Import String.
Definition data_demo_text : list string :=
  ["10 READ A,B$"; "20 DATA 1,-2.5"; "30 IF A THEN DATA ""X"",7 ELSE DATA 9"; "40 RESTORE 30:READ C$"; "50 DATA -3"]%string.
Definition data_demo : list (N * list stmt) :=
  flat_map (fun s => match parse_src s with Some l => [l] | None => [] end) data_demo_text.

(* five lines parse; they compile without error; every DATA item is a constant; the segment is the six constants in
   source order (THEN part before ELSE part); line 30's symbol carries data address 2 = Sem.data_index_of_line 30 *)
Example data_demo_facts :
  lenN data_demo = 5 /\ pg_errors (compile_asts data_demo 0) = []
  /\ forallb (fun e => forallb wf_data (snd e)) data_demo = true
  /\ l_data (pg_link (program_link (compile_asts data_demo 0))) = [VInt 1; VSng 3223322624; VStr [88]; VInt 7; VInt 9; VInt (-3)]
  /\ zassoc_get 30%Z (l_syms (pg_link (compile_asts data_demo 0))) = Some (4, 2) /\ data_index_of_line data_demo 30 = 2.
Proof. vm_compute. repeat split; reflexivity. Qed.
