(* C10: no identifier the scanner produces contains a '.', so the mangled parameter names FNX.P of user functions cannot
   collide with any variable a program can name. *)
From BL Require Import Base.Prelude Lang.Token Mach.Func Lang.Lex Lang.Ast Lang.Parse.
From Coq Require Import Lia.
Local Open Scope N_scope.

Definition nodot (s : str) : bool := forallb (fun c => negb (c =? 46)) s.
Definition tok_ok (t : token) : Prop := match t with TIdent i => nodot (ident_str i) = true | _ => True end.
Definition toks_ok (ts : list token) : Prop := Forall tok_ok ts.

Lemma nodot_app a b : nodot (a ++ b) = nodot a && nodot b. Proof. apply forallb_app. Qed.
Lemma nodot_firstn n s : nodot s = true -> nodot (firstn n s) = true.
Proof. revert s. induction n as [| n IH]; intros [| c r] H; cbn in *; try reflexivity. apply andb_prop in H. destruct H as [Hc Hr]. rewrite Hc. exact (IH r Hr). Qed.
Lemma nodot_skipn n s : nodot s = true -> nodot (skipn n s) = true.
Proof. revert s. induction n as [| n IH]; intros [| c r] H; cbn in *; try assumption; try reflexivity. apply andb_prop in H. exact (IH r (proj2 H)). Qed.

Lemma toks_ok_app a b : toks_ok a -> toks_ok b -> toks_ok (a ++ b).
Proof. intros Ha Hb. apply Forall_app. split; assumption. Qed.
Lemma toks_ok_rev a : toks_ok a -> toks_ok (rev a).
Proof. intros H. apply Forall_rev. exact H. Qed.

(* keyword crunching only cuts the text *)
Lemma scan_ok : forall fuel s acc, nodot s = true -> toks_ok acc ->
  toks_ok (fst (scan_alphabetic fuel s acc)) /\ nodot (snd (scan_alphabetic fuel s acc)) = true.
Proof.
  induction fuel as [| f IH]; intros s acc Hs Ha; cbn [scan_alphabetic]; [split; [apply toks_ok_rev; exact Ha | exact Hs] |].
  destruct (best_keyword keyword_table s None) as [[[idx len] tok] |] eqn:Eb; [| split; [apply toks_ok_rev; exact Ha | exact Hs]].
  assert (Htok : tok_ok tok).
  { clear - Eb. assert (G : forall tbl best, (forall i l t, best = Some (i, l, t) -> tok_ok t) -> Forall (fun e => tok_ok (snd e)) tbl ->
                      forall i l t, best_keyword tbl s best = Some (i, l, t) -> tok_ok t).
    { induction tbl as [| [k t0] r IHt]; intros best Hb Ht i l t H; cbn [best_keyword] in H; [exact (Hb i l t H) |].
      inversion Ht as [| ? ? Ht0 Htr]; subst. apply (IHt _) with (3 := H); [| exact Htr].
      intros i' l' t' E. destruct (find_sub k s) as [j |]; [| exact (Hb i' l' t' E)].
      destruct best as [[[bi bl] bt] |].
      - destruct (j <? bi); [injection E as _ _ <-; exact Ht0 | exact (Hb i' l' t' E)].
      - injection E as _ _ <-. exact Ht0. }
    apply (G keyword_table None) with (3 := Eb); [intros; discriminate |]. unfold keyword_table. repeat constructor. }
  destruct (idx =? 0).
  - apply IH; [apply nodot_skipn; exact Hs | constructor; assumption].
  - apply IH; [apply nodot_skipn; exact Hs |]. constructor; [exact Htok |]. constructor; [| exact Ha]. cbn. apply nodot_firstn. exact Hs.
Qed.

Lemma to_upper_dot c : to_upper c = 46 -> c = 46.
Proof. unfold to_upper, is_lower. destruct (N.leb_spec 97 c), (N.leb_spec c 122); cbn; lia. Qed.

(* the identifier scanner: every character it takes is a letter, a digit or a type suffix *)
Lemma alpha_ok : forall cs s digit pend, (match cs with c :: _ => c <> 46 | [] => True end) -> nodot s = true -> toks_ok pend ->
  toks_ok (fst (alpha_loop cs s digit pend)).
Proof.
  induction cs as [| c0 rest IH]; intros s digit pend Hc Hs Hp; cbn [alpha_loop]; [exact Hp |].
  set (ch := to_upper c0). set (s1 := s ++ [ch]).
  assert (Hs1 : nodot s1 = true).
  { unfold s1. rewrite nodot_app, Hs. cbn. destruct (N.eqb_spec ch 46) as [E | _]; [exfalso; apply Hc; exact (to_upper_dot c0 E) | reflexivity]. }
  assert (Hid : forall mk, (forall x, ident_str (mk x) = x) -> toks_ok (pend ++ [TIdent (mk s1)])).
  { intros mk Hmk. apply toks_ok_app; [exact Hp |]. constructor; [cbn; rewrite Hmk; exact Hs1 | constructor]. }
  destruct (ch =? 36); [cbn [fst]; apply (Hid IString); reflexivity |].
  destruct (ch =? 33); [cbn [fst]; apply (Hid ISingle); reflexivity |].
  destruct (ch =? 35); [cbn [fst]; apply (Hid IDouble); reflexivity |].
  destruct (ch =? 37); [cbn [fst]; apply (Hid IInteger); reflexivity |].
  pose proof (scan_ok (List.length s1) s1 [] Hs1 ltac:(constructor)) as [Hst Hs2].
  destruct (scan_alphabetic (List.length s1) s1 []) as [toks s2] eqn:Esc. cbn [fst snd] in Hst, Hs2.
  assert (Hfinal : toks_ok (pend ++ toks ++ match s2 with [] => [] | _ => [TIdent (IPlain s2)] end)).
  { apply toks_ok_app; [exact Hp |]. apply toks_ok_app; [exact Hst |]. destruct s2; [constructor |]. constructor; [exact Hs2 | constructor]. }
  destruct rest as [| pk r]; [exact Hfinal |].
  destruct (is_alpha pk) eqn:Ea.
  - assert (Hpk : pk <> 46) by (intros ->; discriminate).
    destruct (digit || is_digit ch); [cbn [fst]; apply (Hid IPlain); reflexivity |]. apply IH; [exact Hpk | exact Hs1 | exact Hp].
  - destruct (is_digit pk || is_suffix_chr pk) eqn:Ed; [| exact Hfinal].
    assert (Hpk : pk <> 46) by (intros ->; discriminate).
    destruct s2 as [| c2 r2]; [cbn [fst]; apply toks_ok_app; assumption |].
    apply IH; [exact Hpk | exact Hs2 | apply toks_ok_app; assumption].
Qed.

(* the other token scanners produce no identifier at all *)
Definition no_ident (t : token) : Prop := match t with TIdent _ => False | _ => True end.
Lemma no_ident_ok t : no_ident t -> tok_ok t. Proof. destruct t; cbn; tauto. Qed.

Lemma ws_no_ident : forall cs n, no_ident (fst (ws_loop cs n)).
Proof. induction cs as [| c r IH]; intros n; cbn [ws_loop]; [exact I |]. destruct (is_ws c); [apply IH | exact I]. Qed.
Lemma string_no_ident : forall cs acc, no_ident (fst (string_loop cs acc)).
Proof. induction cs as [| c r IH]; intros acc; cbn [string_loop]; [exact I |]. destruct (c =? 34); [exact I | apply IH]. Qed.
Lemma radix_no_ident cs : no_ident (fst (lex_radix cs)).
Proof. unfold lex_radix. destruct cs as [| h r]; [exact I |]. destruct ((h =? 72) || (h =? 104)); destruct (radix_loop _ _ _); exact I. Qed.
Lemma minutia_loop_no_ident : forall cs acc, no_ident (fst (minutia_loop cs acc)).
Proof.
  induction cs as [| c r IH]; intros acc; cbn [minutia_loop]; [exact I |]. destruct r as [| pk r']; [exact I |].
  destruct (is_alpha pk || is_digit pk || is_ws pk); [exact I | apply IH].
Qed.
Lemma minutia_no_ident cs : no_ident (fst (lex_minutia cs)).
Proof.
  unfold lex_minutia. destruct cs as [| c r]; [exact I |]. destruct (match_minutia c) as [t |] eqn:E; [| apply minutia_loop_no_ident].
  cbn [fst]. unfold match_minutia in E.
  repeat match type of E with (if ?b then _ else _) = _ => destruct b; [injection E as <-; exact I |] end. discriminate.
Qed.
Lemma number_no_ident : forall cs s d dec ex t rest, number_loop cs s d dec ex = Ok (t, rest) -> no_ident t.
Proof.
  assert (Hfin : forall (s : str) (d : N) (dec ex : bool) (rest : str) (t : token) (rest' : str),
            (let s' := rev s in
             if 7 <? d then Ok (TLit (LDbl s'), rest)
             else if negb ex && negb dec && (match parse_i16 s' with Some _ => true | None => false end) then Ok (TLit (LInt s'), rest)
             else Ok (TLit (LSng s'), rest)) = Ok (t, rest') -> no_ident t).
  { intros s d dec ex rest t rest' H. cbv zeta in H. destruct (7 <? d); [injection H as <- _; exact I |].
    destruct (negb ex && negb dec && _); injection H as <- _; exact I. }
  induction cs as [| ch0 rest IH]; intros s d dec ex t rest' H; cbn [number_loop] in H; [exact (Hfin _ _ _ _ _ _ _ H) |].
  repeat match type of H with
         | (if ?b then Ok (TLit _, _) else _) = _ => destruct b; [injection H as <- _; exact I |]
         end.
  destruct rest as [| pk r]; [exact (Hfin _ _ _ _ _ _ _ H) |].
  repeat match type of H with
         | (if ?b then number_loop _ _ _ _ _ else _) = _ => destruct b; [exact (IH _ _ _ _ _ _ H) |]
         | (if ?b then _ else _) = _ => destruct b
         end; first [exact (IH _ _ _ _ _ _ H) | exact (Hfin _ _ _ _ _ _ _ H) | (injection H as <- _; exact I)].
Qed.

(* the token loop *)
Lemma lex_loop_ok : forall fuel cs acc ts, toks_ok acc -> lex_loop fuel cs acc = Ok ts -> toks_ok ts.
Proof.
  induction fuel as [| f IH]; intros cs acc ts Ha H; cbn [lex_loop] in H; [discriminate |].
  destruct cs as [| pk r]; [injection H as <-; apply toks_ok_rev; exact Ha |].
  destruct (is_ws pk).
  { pose proof (ws_no_ident (pk :: r) 0) as Hn. destruct (ws_loop (pk :: r) 0) as [t rest]. apply (IH _ _ _ (Forall_cons _ (no_ident_ok t Hn) Ha) H). }
  destruct (is_digit pk || (pk =? 46)).
  { destruct (lex_number (pk :: r)) as [[t rest] | e | |] eqn:En; try discriminate. cbn [bind] in H.
    apply (IH _ _ _ (Forall_cons _ (no_ident_ok t (number_no_ident _ _ _ _ _ _ _ En)) Ha) H). }
  destruct (is_alpha pk) eqn:Ea.
  { assert (Hpk : pk <> 46) by (intros ->; discriminate).
    pose proof (alpha_ok (pk :: r) [] false [] Hpk eq_refl ltac:(constructor)) as Hal.
    destruct (alpha_loop (pk :: r) [] false []) as [toks rest]. cbn [fst] in Hal.
    assert (Hdef : lex_loop f rest (rev toks ++ acc) = Ok ts -> toks_ok ts).
    { apply IH. apply toks_ok_app; [apply toks_ok_rev; exact Hal | exact Ha]. }
    destruct toks as [| t0 more]; [exact (Hdef H) |].
    destruct t0; try exact (Hdef H). destruct w; try exact (Hdef H).
    injection H as <-. apply toks_ok_app; [apply toks_ok_rev; exact Ha |]. inversion Hal as [| ? ? _ Hmore]; subst.
    constructor; [exact I |]. apply toks_ok_app; [exact Hmore |]. destruct rest; repeat constructor. }
  destruct (pk =? 34).
  { pose proof (string_no_ident r []) as Hn. destruct (string_loop r []) as [t rest]. apply (IH _ _ _ (Forall_cons _ (no_ident_ok t Hn) Ha) H). }
  destruct (pk =? 38).
  { pose proof (radix_no_ident r) as Hn. destruct (lex_radix r) as [t rest]. apply (IH _ _ _ (Forall_cons _ (no_ident_ok t Hn) Ha) H). }
  pose proof (minutia_no_ident (pk :: r)) as Hn. destruct (lex_minutia (pk :: r)) as [t rest]. cbn [fst] in Hn.
  assert (Hdef : lex_loop f rest (t :: acc) = Ok ts -> toks_ok ts) by (apply IH; constructor; [apply no_ident_ok; exact Hn | exact Ha]).
  destruct t; try exact (Hdef H). destruct w; try exact (Hdef H).
  injection H as <-. apply toks_ok_app; [apply toks_ok_rev; exact Ha |]. destruct rest; repeat constructor.
Qed.

(* ---------- the post passes only drop, merge into words / operators, or insert blanks ---------- *)
Lemma toks_ok_firstn n ts : toks_ok ts -> toks_ok (firstn n ts).
Proof. revert ts. induction n as [| n IH]; intros [| t r] H; cbn; try constructor. - inversion H; assumption. - apply IH. inversion H; assumption. Qed.
Lemma toks_ok_skipn n ts : toks_ok ts -> toks_ok (skipn n ts).
Proof. revert ts. induction n as [| n IH]; intros [| t r] H; cbn; try assumption. apply IH. inversion H; assumption. Qed.

Lemma splice_ok ts i n x : toks_ok ts -> tok_ok x -> toks_ok (splice ts i n x).
Proof. intros H Hx. unfold splice, firstnN, skipnN. apply toks_ok_app; [apply toks_ok_firstn; exact H |]. constructor; [exact Hx | apply toks_ok_skipn; exact H]. Qed.

Lemma apply_locs_ok ts locs n : toks_ok ts -> Forall (fun it : N * token => tok_ok (snd it)) locs -> toks_ok (apply_locs ts locs n).
Proof.
  intros Ht Hl. unfold apply_locs. apply Forall_rev in Hl. revert ts Ht. induction Hl as [| it r Hit _ IH]; intros ts Ht; cbn [fold_left]; [exact Ht |].
  apply IH. apply splice_ok; assumption.
Qed.

Lemma triple_at_no_ident a b c t : triple_at a b c = Some t -> no_ident t.
Proof.
  unfold triple_at. destruct b; try discriminate. destruct a as [| | | | o | i | | | | |]; try discriminate.
  - destruct o; try discriminate; destruct c as [| | | | o2 | | | | | |]; try discriminate; destruct o2; try discriminate; intros H; injection H as <-; exact I.
  - destruct i; try discriminate. destruct c as [| | | w | | i2 | | | | |]; try discriminate.
    + destruct w; try discriminate. destruct (str_eqb _ _); intros H; [injection H as <-; exact I | discriminate].
    + destruct i2; try discriminate. destruct (_ && _); intros H; [injection H as <-; exact I | discriminate].
Qed.

Lemma triple_locs_ok : forall ts i, Forall (fun it : N * token => tok_ok (snd it)) (triple_locs ts i).
Proof.
  induction ts as [| a r IH]; intros i; cbn [triple_locs]; [constructor |]. destruct r as [| b [| c r']]; try constructor.
  destruct (triple_at a b c) as [t |] eqn:E; [constructor; [apply no_ident_ok; exact (triple_at_no_ident _ _ _ _ E) |] |]; apply IH.
Qed.

Lemma double_at_no_ident a b t : double_at a b = Some t -> no_ident t.
Proof.
  unfold double_at. destruct a as [| | | | o | | | | | |]; try discriminate. destruct o; try discriminate;
    destruct b as [| | | | o2 | | | | | |]; try discriminate; destruct o2; try discriminate; intros H; injection H as <-; exact I.
Qed.

Lemma double_locs_ok : forall fuel ts i, Forall (fun it : N * token => tok_ok (snd it)) (double_locs fuel ts i).
Proof.
  induction fuel as [| f IH]; intros ts i; cbn [double_locs]; [constructor |]. destruct ts as [| a [| b r2]]; try constructor.
  destruct (double_at a b) as [t |] eqn:E; [constructor; [apply no_ident_ok; exact (double_at_no_ident _ _ _ E) |] |]; apply IH.
Qed.

Lemma trim_end_ok ts : toks_ok ts -> toks_ok (pp_trim_end ts).
Proof.
  intros H. unfold pp_trim_end.
  assert (H1 : toks_ok (match rev ts with TWs _ :: r => rev r | _ => ts end)).
  { pose proof (toks_ok_rev ts H) as Hr. destruct (rev ts) as [| t r]; [exact H |]. destruct t; try exact H. apply toks_ok_rev. inversion Hr; assumption. }
  set (ts1 := match rev ts with TWs _ :: r => rev r | _ => ts end) in *.
  pose proof (toks_ok_rev ts1 H1) as Hr. destruct (rev ts1) as [| t r]; [exact H1 |]. destruct t; try exact H1.
  apply toks_ok_rev. constructor; [exact I | inversion Hr; assumption].
Qed.

Lemma separate_ok : forall ts, toks_ok ts -> toks_ok (pp_separate_words ts).
Proof.
  induction ts as [| a r IH]; intros H; cbn [pp_separate_words]; [exact H |]. inversion H as [| ? ? Ha Hr]; subst.
  destruct r as [| b r']; [exact H |]. destruct (is_word_tok a && is_word_tok b); constructor; try assumption; [constructor; [exact I |] |]; apply IH; exact Hr.
Qed.

(* THE THEOREM: whatever is typed, no identifier token of the scanned line contains a '.' *)
Theorem scanned_identifiers_have_no_dot : forall src num toks i,
  lex src = Ok (num, toks) -> In (TIdent i) toks -> ~ In 46 (ident_str i).
Proof.
  intros src num toks i H Hin. unfold lex in H. destruct (split_line_number src) as [n body].
  destruct (lex_loop (S (List.length body)) body []) as [ts | e | |] eqn:El; try discriminate. cbn [bind] in H. injection H as _ <-.
  pose proof (lex_loop_ok _ _ _ _ ltac:(constructor) El) as Hts.
  assert (Hall : toks_ok (pp_separate_words (pp_collapse_doubles (pp_collapse_triples (pp_trim_end ts))))).
  { apply separate_ok. unfold pp_collapse_doubles. apply apply_locs_ok; [| apply double_locs_ok].
    unfold pp_collapse_triples. apply apply_locs_ok; [| apply triple_locs_ok]. apply trim_end_ok. exact Hts. }
  unfold toks_ok in Hall. rewrite Forall_forall in Hall. specialize (Hall _ Hin). cbn in Hall.
  intros Hdot. unfold nodot in Hall. rewrite forallb_forall in Hall. specialize (Hall 46 Hdot). discriminate.
Qed.

(* so a mangled parameter name is never the name of a scanned identifier *)
Corollary mangled_names_are_private : forall src num toks i fn p,
  lex src = Ok (num, toks) -> In (TIdent i) toks -> ident_str (mangle fn p) <> ident_str i.
Proof.
  intros src num toks i fn p H Hin E. apply (scanned_identifiers_have_no_dot src num toks i H Hin). rewrite <- E.
  unfold mangle. destruct p; cbn [ident_str]; apply in_or_app; right; left; reflexivity.
Qed.

(* binding a parameter -- a store to its mangled name -- leaves every variable a program can name as it was *)
From BL Require Import Mach.Val Mach.Var Proofs.Vars.
Corollary parameter_binding_is_local : forall src num toks i fn p vs v vs',
  lex src = Ok (num, toks) -> In (TIdent i) toks ->
  var_store vs (ident_str (mangle fn p)) v = Ok vs' -> var_fetch vs' (ident_str i) = var_fetch vs (ident_str i).
Proof.
  intros src num toks i fn p vs v vs' H Hin Hst. apply (store_frame vs _ v vs' _ Hst).
  intros E. exact (mangled_names_are_private src num toks i fn p H Hin (eq_sym E)).
Qed.
