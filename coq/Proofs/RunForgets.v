(* C12: a run is a function of the static part of the machine.  Once the fetch loop stands on the CLEAR that opens RUN's
   code, everything it does from there -- every state, every event, for any number of instructions -- is the same for any
   two machines that agree on the static part, whatever their variables, arrays, type defaults, functions, stacks, DATA
   pointers, random-number states and CONT slots were. *)
From BL Require Import Base.Prelude Base.Floats Mach.Val Mach.Ops Mach.Func Mach.Var
     Lang.Token Lang.Lex Lang.Ast Lang.Parse Mach.Compile Mach.Listing Mach.Runtime Proofs.Slicing Proofs.ExprCompile Proofs.Swap.
From Coq Require Import Lia.
Local Open Scope N_scope.

Section RunForgets.
Variable O : oracle.

Lemma static_eq_set_tr r r' t : static_eq r r' -> static_eq (set_tr r t) (set_tr r' t).
Proof. unfold static_eq. cbn. intros H. repeat match goal with H : _ /\ _ |- _ => destruct H end. repeat split; assumption. Qed.

Lemma static_eq_set_pc r r' a : static_eq r r' -> static_eq (set_pc r a) (set_pc r' a).
Proof. unfold static_eq. cbn. intros H. repeat match goal with H : _ /\ _ |- _ => destruct H end. repeat split; assumption. Qed.

Lemma static_eq_facts r r' : static_eq r r' ->
  r_tron r = r_tron r' /\ r_tr r = r_tr r' /\ r_pc r = r_pc r' /\ r_col r = r_col r'
  /\ l_ops (pg_link (r_prog r)) = l_ops (pg_link (r_prog r')) /\ prog_line_for r = prog_line_for r'.
Proof.
  unfold static_eq, prog_line_for. intros H. repeat match goal with H : _ /\ _ |- _ => destruct H end.
  repeat split; try assumption. match goal with H : l_syms _ = l_syms _ |- _ => rewrite H end. reflexivity.
Qed.

(* one turn of the loop on CLEAR: the two machines become one *)
Lemma clear_step : forall h r r', static_eq r r' -> nthN (l_ops (pg_link (r_prog r))) (r_pc r) = Some OpClear ->
  one_op O h r = one_op O h r'.
Proof.
  intros h r r' H Hop. destruct (static_eq_facts r r' H) as (_ & _ & Hpc & _ & Hops & _).
  unfold one_op. cbv beta delta [rbind rget rret rmod] iota. rewrite <- Hops, <- Hpc, Hop. cbn [exec_op].
  unfold rbind, rret. rewrite <- ?Hpc. pose proof (clear_forgets O _ _ (static_eq_set_pc r r' (r_pc r + 1) H)) as Hc.
  destruct (do_clear O (set_pc r (r_pc r + 1))) as [r1 x1] eqn:E1. destruct (do_clear O (set_pc r' (r_pc r + 1))) as [r2 x2] eqn:E2.
  cbn [fst] in Hc. subst r2. unfold do_clear in E1, E2. injection E1 as _ <-. injection E2 as _ <-. reflexivity.
Qed.

Theorem run_forgets : forall n h r r', static_eq r r' -> nthN (l_ops (pg_link (r_prog r))) (r_pc r) = Some OpClear ->
  (r_tron r = false \/ prog_line_for r (r_pc r) = None) ->
  exec_loop_x O (S n) h r = exec_loop_x O (S n) h r'.
Proof.
  intros n h r r' H Hop Hq. destruct (static_eq_facts r r' H) as (Htron & Htr & Hpc & Hcol & Hops & Hpl).
  cbn [exec_loop_x]. cbv beta delta [rbind rget rret rmod] iota. rewrite <- Htron, <- Htr, <- Hpl, <- Hpc.
  destruct (r_tron r && line_changed (prog_line_for r (r_pc r)) (r_tr r)) eqn:Et; cbv beta iota.
  - destruct Hq as [Hq | Hq]; [rewrite Hq in Et; discriminate |]. rewrite Hq.
    assert (Hs : static_eq (set_tr r None) (set_tr r' None)) by (apply static_eq_set_tr; exact H).
    rewrite (clear_step h _ _ Hs Hop). reflexivity.
  - rewrite (clear_step h _ _ H Hop). reflexivity.
Qed.

End RunForgets.

(* the premises are met by two machines that differ in their dynamic part *)
Definition demo_machine : rt :=
  set_prog rt_default (mkProg [] [] 0 None (mkLink 0 [OpClear; OpEnd] [] 0 false [] [] [])).
Definition demo_machine_used : rt :=
  set_cont (set_data_pos (set_fns (set_stack_len demo_machine [VInt 3; VStr [65]] 2) [([70; 78; 65], (1, 1))]) 7) StRunning.
Example run_forgets_premises :
  static_eq demo_machine demo_machine_used /\ demo_machine <> demo_machine_used
  /\ nthN (l_ops (pg_link (r_prog demo_machine))) (r_pc demo_machine) = Some OpClear /\ r_tron demo_machine = false.
Proof. split; [| split; [| split]]; try reflexivity; [unfold static_eq; cbn; repeat split | discriminate]. Qed.
