(* C16: the scanner for words (keywords and identifiers) does not depend on letter case. *)
From BL Require Import Base.Prelude Lang.Token Mach.Func Lang.Lex.
From Coq Require Import Lia String.
Local Open Scope N_scope.

(* two texts that differ at most in the case of their letters *)
Definition same_letters (a b : str) : Prop := map to_upper a = map to_upper b.

(* classes of a character in terms of ranges *)
Lemma lower_range c : is_lower c = true <-> 97 <= c <= 122.
Proof. unfold is_lower. rewrite andb_true_iff, !N.leb_le. tauto. Qed.
Lemma upper_range c : is_upper c = true <-> 65 <= c <= 90.
Proof. unfold is_upper. rewrite andb_true_iff, !N.leb_le. tauto. Qed.
Lemma digit_range c : is_digit c = true <-> 48 <= c <= 57.
Proof. unfold is_digit. rewrite andb_true_iff, !N.leb_le. tauto. Qed.

Lemma bool_ext (a b : bool) : (a = true <-> b = true) -> a = b.
Proof. destruct a, b; intros [H1 H2]; try reflexivity; [symmetry; apply H1 | apply H2]; reflexivity. Qed.

(* characters with the same upper-case form are equal, or one is the lower-case form of the other *)
Lemma to_upper_cases c d : to_upper c = to_upper d ->
  c = d \/ (97 <= c <= 122 /\ d = c - 32) \/ (97 <= d <= 122 /\ c = d - 32).
Proof.
  unfold to_upper. destruct (is_lower c) eqn:Ec, (is_lower d) eqn:Ed; intros H.
  - apply lower_range in Ec, Ed. left. lia.
  - apply lower_range in Ec. right. left. split; [exact Ec | lia].
  - apply lower_range in Ed. right. right. split; [exact Ed | lia].
  - left. exact H.
Qed.

Lemma to_upper_class c d : to_upper c = to_upper d ->
  is_alpha c = is_alpha d /\ is_digit c = is_digit d /\ is_suffix_chr c = is_suffix_chr d /\ is_ws c = is_ws d.
Proof.
  intros H. destruct (to_upper_cases c d H) as [-> | [[Hc ->] | [Hd ->]]]; [repeat split; reflexivity | |].
  - assert (Ha : is_alpha c = true) by (unfold is_alpha; rewrite (proj2 (lower_range c) Hc); apply orb_true_r).
    assert (Ha' : is_alpha (c - 32) = true) by (unfold is_alpha; rewrite (proj2 (upper_range (c - 32))) by lia; reflexivity).
    assert (Hd1 : is_digit c = false) by (apply not_true_is_false; intros E; apply digit_range in E; lia).
    assert (Hd2 : is_digit (c - 32) = false) by (apply not_true_is_false; intros E; apply digit_range in E; lia).
    rewrite Ha, Ha', Hd1, Hd2. repeat split; try reflexivity.
    + unfold is_suffix_chr. repeat match goal with |- context [?a =? ?b] => destruct (N.eqb_spec a b); [lia |] end. reflexivity.
    + unfold is_ws. repeat match goal with |- context [?a =? ?b] => destruct (N.eqb_spec a b); [lia |] end. reflexivity.
  - assert (Ha : is_alpha d = true) by (unfold is_alpha; rewrite (proj2 (lower_range d) Hd); apply orb_true_r).
    assert (Ha' : is_alpha (d - 32) = true) by (unfold is_alpha; rewrite (proj2 (upper_range (d - 32))) by lia; reflexivity).
    assert (Hd1 : is_digit d = false) by (apply not_true_is_false; intros E; apply digit_range in E; lia).
    assert (Hd2 : is_digit (d - 32) = false) by (apply not_true_is_false; intros E; apply digit_range in E; lia).
    rewrite Ha, Ha', Hd1, Hd2. repeat split; try reflexivity.
    + unfold is_suffix_chr. repeat match goal with |- context [?a =? ?b] => destruct (N.eqb_spec a b); [lia |] end. reflexivity.
    + unfold is_ws. repeat match goal with |- context [?a =? ?b] => destruct (N.eqb_spec a b); [lia |] end. reflexivity.
Qed.

(* the word scanner: same tokens, and remainders that again differ only in case *)
Theorem alpha_loop_case : forall cs cs' s digit pend, same_letters cs cs' ->
  fst (alpha_loop cs s digit pend) = fst (alpha_loop cs' s digit pend)
  /\ same_letters (snd (alpha_loop cs s digit pend)) (snd (alpha_loop cs' s digit pend)).
Proof.
  unfold same_letters. induction cs as [| c rest IH]; intros cs' s digit pend H.
  - destruct cs'; [split; reflexivity | discriminate].
  - destruct cs' as [| c' rest']; [discriminate |]. cbn [map] in H. injection H as Hc Hr.
    cbn [alpha_loop]. rewrite <- Hc.
    repeat match goal with |- context [if ?b then _ else _] => destruct b; [cbn [fst snd]; split; [reflexivity | exact Hr] |] end.
    destruct rest as [| pk rest2], rest' as [| pk' rest2']; try discriminate.
    + destruct (scan_alphabetic _ _ _). cbn. split; reflexivity.
    + cbn [map] in Hr. injection Hr as Hpk Hr2.
      destruct (to_upper_class pk pk' Hpk) as (Ea & Ed & Es & _). rewrite <- Ea, <- Ed, <- Es.
      assert (Hr' : map to_upper (pk :: rest2) = map to_upper (pk' :: rest2')) by (cbn [map]; rewrite Hpk, Hr2; reflexivity).
      destruct (is_alpha pk).
      * destruct (digit || is_digit (to_upper c))%bool; [cbn [fst snd]; split; [reflexivity | exact Hr'] | apply IH; exact Hr'].
      * destruct (is_digit pk || is_suffix_chr pk)%bool.
        -- destruct (scan_alphabetic _ _ _) as [toks s2]. destruct s2; [cbn [fst snd]; split; [reflexivity | exact Hr'] | apply IH; exact Hr'].
        -- destruct (scan_alphabetic _ _ _). cbn [fst snd]. split; [reflexivity | exact Hr'].
Qed.

(* in particular a word gives the same tokens in upper, lower or mixed case *)
Corollary word_case_irrelevant : forall w w', same_letters w w' ->
  fst (alpha_loop w [] false []) = fst (alpha_loop w' [] false []).
Proof. intros w w' H. exact (proj1 (alpha_loop_case w w' [] false [] H)). Qed.

Example keywords_any_case :
  fst (alpha_loop (s2l "print"%string) [] false []) = [TWord WPrint] /\ fst (alpha_loop (s2l "PrInT"%string) [] false []) = [TWord WPrint]
  /\ fst (alpha_loop (s2l "gosub"%string) [] false []) = fst (alpha_loop (s2l "GOSUB"%string) [] false []).
Proof. vm_compute. repeat split; reflexivity. Qed.
