(* C01: control flow, part 2 -- the explicit shape of the layout, and what linking does to it. *)
From BL Require Import Base.Prelude Base.Floats Mach.Val Mach.Ops Mach.Func Mach.Var
     Lang.Token Lang.Lex Lang.Ast Lang.Parse Mach.Compile Mach.Listing Mach.Runtime Spec.Sem
     Proofs.ExprCompile Proofs.Reloc Proofs.Flow.
From Coq Require Import Lia.
Local Open Scope N_scope.

Definition pline := (N * list piece)%type.
Definition line_ops (pl : pline) : list opcode := flat_map pc_ops (snd pl).
Definition prog_ops (pls : list pline) : list opcode := flat_map line_ops pls.

Fixpoint piece_refs (ps : list piece) (base : N) : list (N * (col * Z)) :=
  match ps with [] => [] | p :: r => shift base (pc_refs p) ++ piece_refs r (base + lenN (pc_ops p)) end.
Fixpoint line_refs (pls : list pline) (base : N) : list (N * (col * Z)) :=
  match pls with [] => [] | pl :: r => piece_refs (snd pl) base ++ line_refs r (base + lenN (line_ops pl)) end.
Fixpoint line_syms (pls : list pline) (base : N) : list (Z * (N * N)) :=
  match pls with [] => [] | pl :: r => (Z.of_N (fst pl), (base, 0)) :: line_syms r (base + lenN (line_ops pl)) end.

(* ---------- ops ---------- *)
Lemma pieces_ops : forall ps L, l_ops (fold_left add_piece ps L) = l_ops L ++ flat_map pc_ops ps.
Proof.
  induction ps as [| p r IH]; intros L; cbn [fold_left flat_map]; [rewrite app_nil_r; reflexivity |].
  rewrite IH. unfold add_piece, plink. cbn [l_ops]. rewrite <- app_assoc. reflexivity.
Qed.

Lemma add_line_ops pl L : l_ops (add_line L pl) = l_ops L ++ line_ops pl.
Proof. unfold add_line. rewrite pieces_ops. reflexivity. Qed.

Lemma layout_ops_gen : forall pls L, l_ops (fold_left add_line pls L) = l_ops L ++ prog_ops pls.
Proof.
  induction pls as [| pl r IH]; intros L; cbn [fold_left prog_ops flat_map]; [rewrite app_nil_r; reflexivity |].
  rewrite IH, add_line_ops, <- app_assoc. reflexivity.
Qed.

Theorem layout_ops pls dp : l_ops (layout pls dp) = prog_ops pls.
Proof. unfold layout. rewrite layout_ops_gen. reflexivity. Qed.

(* ---------- references ---------- *)
Lemma pieces_refs : forall ps L, l_unlinked (fold_left add_piece ps L) = l_unlinked L ++ piece_refs ps (lenN (l_ops L)).
Proof.
  induction ps as [| p r IH]; intros L; cbn [fold_left piece_refs]; [rewrite app_nil_r; reflexivity |].
  rewrite IH. unfold add_piece, plink. cbn [l_unlinked l_ops]. rewrite lenN_app, <- app_assoc. reflexivity.
Qed.

Lemma layout_refs_gen : forall pls L, l_unlinked (fold_left add_line pls L) = l_unlinked L ++ line_refs pls (lenN (l_ops L)).
Proof.
  induction pls as [| pl r IH]; intros L; cbn [fold_left line_refs]; [rewrite app_nil_r; reflexivity |].
  rewrite IH, add_line_ops, lenN_app. unfold add_line. rewrite pieces_refs. cbn [plink l_unlinked l_ops]. rewrite <- app_assoc. reflexivity.
Qed.

Theorem layout_refs pls dp : l_unlinked (layout pls dp) = line_refs pls 0.
Proof. unfold layout. rewrite layout_refs_gen. reflexivity. Qed.

(* ---------- line symbols (line numbers strictly ascending) ---------- *)
Lemma pieces_syms : forall ps L, l_syms (fold_left add_piece ps L) = l_syms L.
Proof. induction ps as [| p r IH]; intros L; cbn [fold_left]; [reflexivity |]. rewrite IH. reflexivity. Qed.

Lemma zassoc_set_fresh {V} k (v : V) l : (forall k' v', In (k', v') l -> k' <> k) -> zassoc_set k v l = l ++ [(k, v)].
Proof.
  induction l as [| [k' v'] r IH]; intros H; cbn; [reflexivity |].
  destruct (Z.eqb_spec k k') as [-> | _]; [exfalso; apply (H k' v'); [left; reflexivity | reflexivity] |].
  rewrite IH; [reflexivity |]. intros a b Hin. apply (H a b). right. exact Hin.
Qed.

Fixpoint ascending (pls : list pline) (lo : N) : Prop :=
  match pls with [] => True | pl :: r => lo <= fst pl /\ ascending r (fst pl + 1) end.

Lemma layout_syms_gen : forall pls L lo, ascending pls lo -> (forall k v, In (k, v) (l_syms L) -> (k < Z.of_N lo)%Z) ->
  l_syms (fold_left add_line pls L) = l_syms L ++ line_syms pls (lenN (l_ops L)).
Proof.
  induction pls as [| pl r IH]; intros L lo Ha Hk; cbn [fold_left line_syms]; [rewrite app_nil_r; reflexivity |].
  cbn [ascending] in Ha. destruct Ha as [Hlo Ha].
  assert (Es : l_syms (add_line L pl) = l_syms L ++ [(Z.of_N (fst pl), (lenN (l_ops L), 0))]).
  { unfold add_line. rewrite pieces_syms. cbn [plink l_syms]. apply zassoc_set_fresh. intros k' v' Hin E. specialize (Hk k' v' Hin). lia. }
  rewrite (IH (add_line L pl) (fst pl + 1) Ha).
  - rewrite Es, add_line_ops, lenN_app, <- app_assoc. reflexivity.
  - rewrite Es. intros k v Hin. apply in_app_or in Hin. destruct Hin as [Hin | [E | []]]; [specialize (Hk k v Hin); lia | injection E as <- _; lia].
Qed.

Theorem layout_syms pls dp lo : ascending pls lo -> l_syms (layout pls dp) = line_syms pls 0.
Proof. intros Ha. unfold layout. rewrite (layout_syms_gen pls _ lo Ha); [reflexivity |]. intros k v []. Qed.

(* ---------- finding a line, a statement and a reference in the layout ---------- *)
Lemma prog_ops_app a b : prog_ops (a ++ b) = prog_ops a ++ prog_ops b.
Proof. unfold prog_ops. apply flat_map_app. Qed.

Lemma line_syms_app : forall a b base, line_syms (a ++ b) base = line_syms a base ++ line_syms b (base + lenN (prog_ops a)).
Proof.
  induction a as [| pl r IH]; intros b base; cbn [app line_syms prog_ops flat_map]; [unfold lenN; cbn; rewrite N.add_0_r; reflexivity |].
  rewrite IH. fold (prog_ops r). rewrite lenN_app. f_equal. f_equal. f_equal. lia.
Qed.

Lemma line_refs_app : forall a b base, line_refs (a ++ b) base = line_refs a base ++ line_refs b (base + lenN (prog_ops a)).
Proof.
  induction a as [| pl r IH]; intros b base; cbn [app line_refs prog_ops flat_map]; [unfold lenN; cbn; rewrite N.add_0_r; reflexivity |].
  rewrite IH. fold (prog_ops r). rewrite lenN_app, <- app_assoc. f_equal. f_equal. f_equal. lia.
Qed.

Lemma piece_refs_app : forall a b base, piece_refs (a ++ b) base = piece_refs a base ++ piece_refs b (base + lenN (flat_map pc_ops a)).
Proof.
  induction a as [| p r IH]; intros b base; cbn [app piece_refs flat_map]; [unfold lenN; cbn; rewrite N.add_0_r; reflexivity |].
  rewrite IH, lenN_app, <- app_assoc. f_equal. f_equal. f_equal. lia.
Qed.

Lemma ascending_app : forall a b lo, ascending (a ++ b) lo -> ascending a lo /\ (forall pl, In pl a -> lo <= fst pl) /\
  (forall pl pl', In pl a -> In pl' b -> fst pl < fst pl') /\ exists lo', ascending b lo' /\ lo <= lo'.
Proof.
  induction a as [| x r IH]; intros b lo H; cbn [app ascending] in *.
  - split; [exact I |]. split; [intros pl []|]. split; [intros pl pl' [] |]. exists lo. split; [exact H | lia].
  - destruct H as [Hlo H]. destruct (IH b (fst x + 1) H) as (Ha & Hge & Hlt & lo' & Hb & Hlo').
    split; [split; assumption |]. split; [| split].
    + intros pl [<- | Hin]; [exact Hlo | specialize (Hge pl Hin); lia].
    + intros pl pl' [<- | Hin] Hin'; [| exact (Hlt pl pl' Hin Hin')].
      clear - Hb Hlo' Hin'. revert lo' Hb Hlo' Hin'. induction b as [| y b IHb]; intros lo' Hb Hlo' Hin'; [destruct Hin' |].
      cbn [ascending] in Hb. destruct Hb as [Hy Hb]. destruct Hin' as [<- | Hin']; [lia |]. apply (IHb (fst y + 1) Hb); [lia | exact Hin'].
    + exists lo'. split; [exact Hb | lia].
Qed.

Lemma zassoc_get_app_notin {V} k (a b : list (Z * V)) : (forall k' v', In (k', v') a -> k' <> k) -> zassoc_get k (a ++ b) = zassoc_get k b.
Proof.
  induction a as [| [k' v'] r IH]; intros H; cbn [app zassoc_get]; [reflexivity |].
  destruct (Z.eqb_spec k k') as [-> | _]; [exfalso; apply (H k' v'); [left; reflexivity | reflexivity] |].
  apply IH. intros a0 b0 Hin. apply (H a0 b0). right. exact Hin.
Qed.

Lemma line_syms_keys : forall pls base k v, In (k, v) (line_syms pls base) -> exists pl, In pl pls /\ k = Z.of_N (fst pl).
Proof.
  induction pls as [| pl r IH]; intros base k v H; [destruct H |]. cbn [line_syms] in H.
  destruct H as [E | H]; [injection E as <- _; exists pl; split; [left |]; reflexivity |].
  destruct (IH _ k v H) as (pl' & Hin & Ek). exists pl'. split; [right; exact Hin | exact Ek].
Qed.

(* the symbol of a line is the address where its code starts *)
Theorem line_address : forall before n ps after lo, ascending (before ++ (n, ps) :: after) lo ->
  zassoc_get (Z.of_N n) (line_syms (before ++ (n, ps) :: after) 0) = Some (lenN (prog_ops before), 0).
Proof.
  intros before n ps after lo Ha. rewrite line_syms_app. rewrite zassoc_get_app_notin.
  - cbn [line_syms zassoc_get]. rewrite Z.eqb_refl. rewrite N.add_0_l. reflexivity.
  - intros k' v' Hin E. destruct (line_syms_keys _ _ _ _ Hin) as (pl & Hpl & Ek).
    destruct (ascending_app before ((n, ps) :: after) lo Ha) as (_ & _ & Hlt & _).
    specialize (Hlt pl (n, ps) Hpl (or_introl eq_refl)). cbn in Hlt. lia.
Qed.

(* the code of a statement sits at start-of-line + code of the statements before it *)
Theorem piece_address : forall before n pb p pa after i op,
  nth_error (pc_ops p) i = Some op ->
  nthN (prog_ops (before ++ (n, pb ++ p :: pa) :: after))
       (lenN (prog_ops before) + lenN (flat_map pc_ops pb) + N.of_nat i) = Some op.
Proof.
  intros before n pb p pa after i op Hi. rewrite prog_ops_app. cbn [prog_ops flat_map]. unfold line_ops at 1. cbn [snd].
  rewrite flat_map_app. cbn [flat_map]. unfold nthN, lenN.
  rewrite nth_error_app2 by lia. rewrite <- !app_assoc. rewrite nth_error_app2 by lia. rewrite nth_error_app1.
  - rewrite <- Hi. f_equal. lia.
  - apply nth_error_Some. replace (_ - _ - _)%nat with i by lia. congruence.
Qed.

(* ... and its references are recorded at their absolute addresses *)
Theorem ref_address : forall before n pb p pa after k v,
  In (k, v) (pc_refs p) ->
  In (lenN (prog_ops before) + lenN (flat_map pc_ops pb) + k, v) (line_refs (before ++ (n, pb ++ p :: pa) :: after) 0).
Proof.
  intros before n pb p pa after k v Hin. rewrite line_refs_app. apply in_or_app. right. cbn [line_refs snd]. apply in_or_app. left.
  rewrite piece_refs_app. apply in_or_app. right. cbn [piece_refs]. apply in_or_app. left.
  unfold shift. rewrite in_map_iff. exists (k, v). split; [cbn; f_equal; lia | exact Hin].
Qed.

(* ---------- the references have distinct, ascending addresses ---------- *)
Definition good_piece (p : piece) : Prop := exists s, fstmt s p.
Definition good_prog (pls : list pline) : Prop := Forall (fun pl => Forall good_piece (snd pl)) pls.

Lemma keys_inc_weaken : forall l lo lo', lo' <= lo -> keys_inc l lo -> keys_inc l lo'.
Proof. destruct l as [| [k v] r]; cbn; intros lo lo' H Hk; [exact I |]. destruct Hk. split; [lia | assumption]. Qed.

Lemma keys_inc_app : forall a b lo hi, keys_inc a lo -> keys_below a hi -> keys_inc b hi -> lo <= hi -> keys_inc (a ++ b) lo.
Proof.
  induction a as [| [k v] r IH]; intros b lo hi Ha Hb Hinc Hl; cbn [app].
  - exact (keys_inc_weaken b hi lo Hl Hinc).
  - cbn [keys_inc] in *. destruct Ha as [Hk Ha]. split; [exact Hk |].
    apply (IH b (k + 1) hi Ha); [intros k' v' Hin; apply (Hb k' v'); right; exact Hin | exact Hinc |].
    specialize (Hb k v (or_introl eq_refl)). lia.
Qed.

Lemma shift_inc : forall refs lo by_, keys_inc refs lo -> keys_inc (shift by_ refs) (lo + by_).
Proof.
  induction refs as [| [k v] r IH]; intros lo by_ H; cbn; [exact I |]. cbn [keys_inc] in H. destruct H as [Hk H].
  split; [lia |]. specialize (IH (k + 1) by_ H). replace (k + by_ + 1) with (k + 1 + by_) by lia. exact IH.
Qed.

Lemma shift_below : forall refs by_ hi, keys_below refs hi -> keys_below (shift by_ refs) (hi + by_).
Proof. intros refs by_ hi H k v Hin. unfold shift in Hin. rewrite in_map_iff in Hin. destruct Hin as [[k0 v0] [E Hin]]. injection E as <- <-. specialize (H k0 v0 Hin). lia. Qed.

Lemma piece_refs_inc : forall ps base, Forall good_piece ps ->
  keys_inc (piece_refs ps base) base /\ keys_below (piece_refs ps base) (base + lenN (flat_map pc_ops ps)).
Proof.
  induction ps as [| p r IH]; intros base Hg; cbn [piece_refs flat_map]; [split; [exact I | intros k v []] |].
  inversion Hg as [| ? ? [s Hs] Hr]; subst. destruct (IH (base + lenN (pc_ops p)) Hr) as [I1 I2].
  pose proof (fstmt_refs_inc s p Hs) as Hi. pose proof (fun k v H => proj1 (refs_in_code s p Hs k v H)) as Hb.
  assert (Hsb : keys_below (shift base (pc_refs p)) (base + lenN (pc_ops p))).
  { intros k v Hin. pose proof (shift_below (pc_refs p) base (lenN (pc_ops p)) Hb k v Hin). lia. }
  split.
  - apply (keys_inc_app _ _ base (base + lenN (pc_ops p))); [| exact Hsb | exact I1 | lia].
    pose proof (shift_inc (pc_refs p) 0 base Hi) as H0. rewrite N.add_0_l in H0. exact H0.
  - intros k v Hin. rewrite lenN_app. apply in_app_or in Hin. destruct Hin as [Hin | Hin]; [specialize (Hsb k v Hin); lia | specialize (I2 k v Hin); lia].
Qed.

Lemma line_refs_inc : forall pls base, good_prog pls ->
  keys_inc (line_refs pls base) base /\ keys_below (line_refs pls base) (base + lenN (prog_ops pls)).
Proof.
  induction pls as [| pl r IH]; intros base Hg; cbn [line_refs prog_ops flat_map]; [split; [exact I | intros k v []] |].
  inversion Hg as [| ? ? Hpl Hr]; subst. destruct (IH (base + lenN (line_ops pl)) Hr) as [I1 I2].
  destruct (piece_refs_inc (snd pl) base Hpl) as [P1 P2]. fold (line_ops pl) in P2. fold (prog_ops r).
  split.
  - apply (keys_inc_app _ _ base (base + lenN (line_ops pl))); [exact P1 | exact P2 | exact I1 | lia].
  - intros k v Hin. rewrite lenN_app. apply in_app_or in Hin. destruct Hin as [Hin | Hin]; [specialize (P2 k v Hin); lia | specialize (I2 k v Hin); lia].
Qed.

Lemma keys_inc_nodup : forall l lo, keys_inc l lo -> NoDup (map fst l) /\ (forall k, In k (map fst l) -> lo <= k).
Proof.
  induction l as [| [k v] r IH]; intros lo H; cbn [map]; [split; [constructor | intros k []] |].
  cbn [keys_inc] in H. destruct H as [Hk H]. destruct (IH (k + 1) H) as [Hnd Hge]. split.
  - constructor; [| exact Hnd]. intros Hin. specialize (Hge k Hin). lia.
  - intros k' [<- | Hin]; [exact Hk | specialize (Hge k' Hin); lia].
Qed.

(* ---------- linking ---------- *)
Definition last_nonempty (pls : list pline) : Prop := match rev pls with pl :: _ => line_ops pl <> [] | [] => False end.

Lemma syms_below_end : forall pls base, last_nonempty pls -> forall k a d, In (k, (a, d)) (line_syms pls base) -> a < base + lenN (prog_ops pls).
Proof.
  induction pls as [| pl r IH]; intros base Hl k a d Hin; [destruct Hin |].
  assert (Hpos : 0 < lenN (prog_ops (pl :: r))).
  { unfold last_nonempty in Hl. cbn [rev] in Hl. destruct (rev r) as [| x xs] eqn:Er.
    - cbn in Hl. assert (r = []) by (destruct r; [reflexivity | apply (f_equal (@length _)) in Er; rewrite rev_length in Er; discriminate]). subst r.
      cbn [prog_ops flat_map]. rewrite app_nil_r. destruct (line_ops pl); [contradiction | unfold lenN; cbn; lia].
    - cbn [app] in Hl. assert (Hin' : In x r) by (apply in_rev; rewrite Er; left; reflexivity).
      cbn [prog_ops flat_map]. rewrite lenN_app. assert (0 < lenN (flat_map line_ops r)); [| lia].
      clear - Hin' Hl. induction r as [| y r IHr]; [destruct Hin' |]. cbn [flat_map]. rewrite lenN_app. destruct Hin' as [-> | Hin'].
      + destruct (line_ops x); [contradiction | unfold lenN; cbn [length]; lia].
      + specialize (IHr Hin'). lia. }
  cbn [line_syms] in Hin. destruct Hin as [E | Hin]; [injection E as _ <- _; lia |].
  cbn [prog_ops flat_map]. rewrite lenN_app. fold (prog_ops r).
  destruct r as [| y r']; [destruct Hin |].
  assert (Hl' : last_nonempty (y :: r')).
  { unfold last_nonempty in *. cbn [rev] in Hl |- *. destruct (rev r' ++ [y]) eqn:E; [destruct (rev r'); discriminate |]. cbn [app] in Hl. exact Hl. }
  specialize (IH (base + lenN (line_ops pl)) Hl' k a d Hin). lia.
Qed.

Lemma no_symbol_at_end pls : last_nonempty pls ->
  existsb (fun e : Z * (N * N) => fst (snd e) =? lenN (prog_ops pls)) (line_syms pls 0) = false.
Proof.
  intros Hl. apply not_true_is_false. intros H. apply existsb_exists in H. destruct H as [[k [a d]] [Hin E]].
  cbn in E. apply N.eqb_eq in E. pose proof (syms_below_end pls 0 Hl k a d Hin). lia.
Qed.

Definition final_ops (pls : list pline) : list opcode :=
  fst (fold_left (lstep (line_syms pls 0)) (line_refs pls 0) (prog_ops pls, [])).

Lemma pieces_dp : forall ps L, l_data_pos (fold_left add_piece ps L) = l_data_pos L.
Proof. induction ps as [| p r IH]; intros L; cbn [fold_left]; [reflexivity |]. rewrite IH. reflexivity. Qed.
Lemma layout_dp_gen : forall pls L, l_data_pos (fold_left add_line pls L) = l_data_pos L.
Proof. induction pls as [| pl r IH]; intros L; cbn [fold_left]; [reflexivity |]. rewrite IH. unfold add_line. rewrite pieces_dp. reflexivity. Qed.

Lemma layout_explicit pls dp lo : ascending pls lo ->
  layout pls dp = plink (l_cur (layout pls dp)) (prog_ops pls) (line_syms pls 0) (line_refs pls 0) dp.
Proof.
  intros Ha. assert (Hp : is_plink (layout pls dp)).
  { unfold layout. destruct pls as [| pl r] using rev_ind; [reflexivity |]. rewrite fold_left_app. cbn [fold_left]. apply add_line_plink. }
  rewrite Hp at 1. rewrite layout_ops, (layout_syms pls dp lo Ha), layout_refs. unfold layout at 2. rewrite layout_dp_gen. reflexivity.
Qed.

(* Program::link on a compiled program of the fragment that ends in END: the code is the layout's code with every
   recorded reference patched through the symbol table; the direct-mode area starts right behind it *)
Theorem link_layout : forall P pls dp lo, pg_link P = layout pls dp -> pg_direct P = 0 -> ascending pls lo ->
  last_is_end (prog_ops pls) = true -> last_nonempty pls ->
  l_ops (pg_link (program_link P)) = final_ops pls /\ pg_direct (program_link P) = lenN (final_ops pls)
  /\ l_data (pg_link (program_link P)) = [] /\ l_data_pos (pg_link (program_link P)) = dp.
Proof.
  intros P pls dp lo HL Hd Ha Hend Hne. unfold program_link. rewrite HL, (layout_explicit pls dp lo Ha).
  cbn [plink l_ops l_syms]. rewrite Hend, (no_symbol_at_end pls Hne). cbn [andb negb].
  rewrite HL, (layout_explicit pls dp lo Ha). unfold link_link. cbn [plink l_whiles l_syms l_unlinked l_ops l_data l_data_pos l_direct_set link_whiles_loop].
  rewrite app_nil_r.
  match goal with |- context [fold_left ?f (line_refs pls 0) (prog_ops pls, [])] => change f with (lstep (line_syms pls 0)) end.
  fold (final_ops pls) in *. unfold final_ops.
  destruct (fold_left (lstep (line_syms pls 0)) (line_refs pls 0) (prog_ops pls, [])) as [ops errs]. cbn [fst].
  rewrite Hd. cbn [N.eqb]. cbn. repeat split; reflexivity.
Qed.

(* what the linked code holds *)
Theorem final_other : forall pls a, ~ In a (map fst (line_refs pls 0)) -> nthN (final_ops pls) a = nthN (prog_ops pls) a.
Proof. intros pls a H. unfold final_ops. exact (fold_other (line_syms pls 0) (line_refs pls 0) (prog_ops pls, []) a H). Qed.

Theorem final_jump : forall pls a c n' s', good_prog pls ->
  In (a, (c, Z.of_N n')) (line_refs pls 0) -> nthN (prog_ops pls) a = Some (OpJump 0) ->
  zassoc_get (Z.of_N n') (line_syms pls 0) = Some (s', 0) ->
  nthN (final_ops pls) a = Some (OpJump s').
Proof.
  intros pls a c n' s' Hg Hin Hop Hs. unfold final_ops.
  destruct (line_refs_inc pls 0 Hg) as [Hinc _]. destruct (keys_inc_nodup _ _ Hinc) as [Hnd _].
  exact (fold_patches (line_syms pls 0) (line_refs pls 0) (prog_ops pls, []) a c (Z.of_N n') (s', 0) (OpJump 0) (OpJump s') Hnd Hin Hs Hop eq_refl).
Qed.

Lemma final_length pls : lenN (final_ops pls) = lenN (prog_ops pls).
Proof.
  unfold final_ops. generalize (line_refs pls 0). generalize (@nil error). generalize (prog_ops pls).
  intros ops errs refs. revert ops errs. induction refs as [| e r IH]; intros ops errs; cbn [fold_left fst]; [reflexivity |].
  assert (E : lenN (fst (lstep (line_syms pls 0) (ops, errs) e)) = lenN ops).
  { unfold lstep. destruct e as [addr [c sym]]. destruct (zassoc_get sym (line_syms pls 0)); [| destruct (0 <=? sym)%Z; reflexivity].
    destruct (nthN ops addr); [| reflexivity]. destruct (patch_op o p); [| reflexivity]. cbn [fst]. unfold lenN. rewrite list_set_length. reflexivity. }
  destruct (lstep (line_syms pls 0) (ops, errs) e) as [ops' errs']. cbn [fst] in E. rewrite IH. exact E.
Qed.
