(* C10 -- the code DEF FN emits: the parameter count, DEF, a jump over the body, one store per parameter (first parameter
   first), the body's code, RETURN.  This is the sequence Proofs/FnBody.v runs. *)
From BL Require Import Base.Prelude Base.Floats Mach.Val Mach.Ops Mach.Func Mach.Var
     Lang.Token Lang.Lex Lang.Ast Lang.Parse Mach.Compile Proofs.ExprCompile.
From Coq Require Import Lia.
Local Open Scope N_scope.

(* pushes on any link: only the instruction list grows *)
Lemma push_ops : forall op l, lenN (l_ops l ++ [op]) <= MAX_POOL -> l_push op l = (set_ops l (l_ops l ++ [op]), Ok tt).
Proof. intros op l H. unfold l_push. cbn [l_ops set_ops]. destruct (N.ltb_spec MAX_POOL (lenN (l_ops l ++ [op]))); [lia | reflexivity]. Qed.

Lemma fold_pops : forall vars l, lenN (l_ops l ++ map OpPop vars) <= MAX_POOL ->
  fold_left (fun m v => ldo _ <~ m ;; l_push (OpPop v)) vars (lret tt) l = (set_ops l (l_ops l ++ map OpPop vars), Ok tt).
Proof.
  assert (G : forall vars (m0 : LM unit) l l0, m0 l = (l0, Ok tt) -> lenN (l_ops l0 ++ map OpPop vars) <= MAX_POOL ->
            fold_left (fun m v => ldo _ <~ m ;; l_push (OpPop v)) vars m0 l = (set_ops l0 (l_ops l0 ++ map OpPop vars), Ok tt)).
  { induction vars as [| v vs IH]; intros m0 l l0 H0 Hb; cbn [fold_left map].
    - rewrite H0, app_nil_r. destruct l0; reflexivity.
    - rewrite (IH (ldo _ <~ m0 ;; l_push (OpPop v)) l (set_ops l0 (l_ops l0 ++ [OpPop v]))).
      + cbn [l_ops set_ops]. rewrite <- app_assoc. reflexivity.
      + unfold lbind. rewrite H0. apply push_ops. cbn [map] in Hb. rewrite lenN_app in *. unfold lenN in *. cbn [List.length] in *. lia.
      + cbn [l_ops set_ops map] in *. rewrite <- app_assoc. exact Hb. }
  intros vars l Hb. exact (G vars (lret tt) l l eq_refl Hb).
Qed.

Ltac len_solve := cbn [l_ops set_ops set_data link_empty app] in *; unfold lenN, MAX_POOL in *; cbn [List.length] in *;
  repeat rewrite ?app_length, ?map_length in *; cbn [List.length] in *; lia.

Theorem def_fn_code : forall c name vars bops,
  lenN vars <= 32767 -> lenN ([OpLiteral (VInt (Z.of_N (lenN vars))); OpDef name; OpJump 0] ++ map OpPop vars ++ bops ++ [OpReturn]) <= MAX_POOL ->
  exists l, l_push_def_fn c name vars (plain bops) link_empty = (l, Ok tt)
    /\ l_ops l = [OpLiteral (VInt (Z.of_N (lenN vars))); OpDef name; OpJump 0] ++ map OpPop vars ++ bops ++ [OpReturn]
    /\ l_data l = [].
Proof.
  intros c name vars bops Hv Hb. unfold l_push_def_fn.
  unfold lbind at 1. unfold lift at 1. unfold val_of_len. destruct (N.leb_spec (lenN vars) 32767); [| lia].
  unfold lbind at 1. rewrite push_ops by len_solve. unfold lbind at 1. rewrite push_ops by len_solve.
  unfold lbind at 1. unfold l_next_symbol at 1. unfold lbind at 1. unfold l_push_jump. unfold lbind at 1. unfold l_unlink_here at 1.
  rewrite push_ops by len_solve.
  unfold lbind at 1. rewrite fold_pops.
  2:{ len_solve. }
  unfold lbind at 1. unfold l_append at 1. cbn [l_direct_set set_ops link_empty plain l_data andb].
  cbn [l_ops l_cur l_syms l_unlinked l_whiles l_data l_data_pos l_direct_set set_ops plain fold_left map app].
  match goal with |- context [MAX_POOL <? lenN ?x] => destruct (N.ltb_spec MAX_POOL (lenN x)) as [Hgt | _] end.
  { exfalso. len_solve. }
  cbn [set_data l_data app]. cbn [N.ltb N.compare lenN List.length N.of_nat].
  unfold lbind at 1. rewrite push_ops.
  2:{ len_solve. }
  unfold l_push_symbol. eexists. split; [reflexivity |]. cbn [l_ops set_ops set_data l_data link_empty app]. split; [| reflexivity].
  rewrite <- !app_assoc. reflexivity.
Qed.

(* the statement: DEF FNname(p1, ..., pk) = body, for a body without calls and arrays *)
Theorem def_statement_code : forall c fc fn (ps : list (col * ident)) body,
  pure body = true -> lenN (postfix body) <= MAX_POOL -> lenN ps <= 32767 ->
  let names := map (fun ci => ident_str (snd ci)) ps in
  let code := [OpLiteral (VInt (Z.of_N (lenN ps))); OpDef (ident_str fn); OpJump 0] ++ map OpPop names ++ postfix body ++ [OpReturn] in
  lenN code <= MAX_POOL ->
  let s := SDef c (VUnary fc fn) (map (fun ci => VUnary (fst ci) (snd ci)) ps) body in
  l_ops (snd (fst (cg_stmt s))) = code /\ snd (cg_stmt s) = [].
Proof.
  intros c fc fn ps body Hp Hl Hps. cbn zeta. intros Hc.
  destruct (cg_expr_postfix body Hp Hl) as [E1 E2].
  cbn [cg_stmt cg_var].
  assert (Hn1 : map vi_name (map fst (map cg_var (map (fun ci : col * ident => VUnary (fst ci) (snd ci)) ps)))
                = map (fun ci : col * ident => ident_str (snd ci)) ps).
  { clear. induction ps as [| p r IH]; [reflexivity |]. cbn [map cg_var fst vi_name]. rewrite IH. reflexivity. }
  assert (He1 : flat_map snd (map cg_var (map (fun ci : col * ident => VUnary (fst ci) (snd ci)) ps)) = []).
  { clear. induction ps as [| p r IH]; [reflexivity |]. cbn [map flat_map cg_var snd app]. exact IH. }
  rewrite Hn1, He1. destruct (cg_expr body) as [bf e3] eqn:Eb. cbn [fst snd] in E1, E2. subst e3.
  cbn [vi_name fst snd app].
  destruct bf as [bc bl]. cbn [snd] in E1. subst bl.
  assert (Hn : lenN (map (fun x : col * ident => ident_str (snd x)) ps) = lenN ps) by (unfold lenN; rewrite map_length; reflexivity).
  destruct (def_fn_code c (ident_str fn) (map (fun x : col * ident => ident_str (snd x)) ps) (postfix body)) as [l (El & Hops & _)].
  - rewrite Hn. exact Hps.
  - rewrite Hn. exact Hc.
  - unfold run_frag, lbind. cbn [snd]. rewrite El. unfold lret. cbn [fst snd app]. rewrite Hops, Hn. split; reflexivity.
Qed.
