(* C03: accepting a line always terminates -- the scanner consumes at least one character per token. *)
From BL Require Import Base.Prelude Lang.Token Mach.Func Lang.Lex.
From Coq Require Import Lia.
Local Open Scope N_scope.

(* ---------- each sub-scanner returns a remainder shorter than (or as long as) what it was given ---------- *)

Lemma ws_loop_len : forall cs n, (length (snd (ws_loop cs n)) <= length cs)%nat.
Proof. induction cs as [| c r IH]; intros n; cbn; [lia |]. destruct (is_ws c); cbn; [specialize (IH (n + 1)); lia | lia]. Qed.

Lemma ws_loop_progress : forall c r n, is_ws c = true -> (length (snd (ws_loop (c :: r) n)) < length (c :: r))%nat.
Proof. intros c r n H. cbn [ws_loop]. rewrite H. pose proof (ws_loop_len r (n + 1)). cbn. lia. Qed.

(* number(): always a token; the remainder never grows, and shrinks unless the very first character is a
   dangling exponent letter (which the caller never passes: number() is entered on a digit or a period) *)
Lemma number_loop_total : forall cs s d dec e,
  exists t rest, number_loop cs s d dec e = Ok (t, rest) /\ (length rest <= length cs)%nat
    /\ (forall c r, cs = c :: r -> c <> 69 -> c <> 101 -> c <> 68 -> c <> 100 -> (length rest < length cs)%nat).
Proof.
  induction cs as [| ch0 rest IH]; intros s d dec e.
  - cbn [number_loop]. repeat match goal with |- context [if ?b then _ else _] => destruct b end;
      eexists; eexists; (split; [reflexivity | split; [cbn; lia | intros; discriminate]]).
  - cbn [number_loop].
    set (ch := if ch0 =? 101 then 69 else if ch0 =? 100 then 68 else ch0).
    assert (Hch : (ch =? 69) || (ch =? 68) = true -> ch0 = 69 \/ ch0 = 101 \/ ch0 = 68 \/ ch0 = 100).
    { unfold ch. destruct (N.eqb_spec ch0 101); [auto |]. destruct (N.eqb_spec ch0 100); [auto |].
      intros H. apply orb_prop in H. destruct H as [H | H]; apply N.eqb_eq in H; auto. }
    assert (Hfin : forall (s' : str) d' dec' e' (rr : str), (length rr <= length rest)%nat ->
              exists t rest', (let s'' := rev s' in
                               if 7 <? d' then Ok (TLit (LDbl s''), rr)
                               else if negb e' && negb dec' && (match parse_i16 s'' with Some _ => true | None => false end)
                                    then Ok (TLit (LInt s''), rr) else Ok (TLit (LSng s''), rr)) = Ok (t, rest')
                /\ (length rest' <= length (ch0 :: rest))%nat
                /\ (forall c r, ch0 :: rest = c :: r -> c <> 69 -> c <> 101 -> c <> 68 -> c <> 100 -> (length rest' < length (ch0 :: rest))%nat)).
    { intros s' d' dec' e' rr Hrr. cbn zeta.
      repeat match goal with |- context [if ?b then _ else _] => destruct b end;
        eexists; eexists; (split; [reflexivity | split; [cbn; lia | intros; cbn; lia]]). }
    assert (Hrec : forall s' d' dec' e',
              exists t rest', number_loop rest s' d' dec' e' = Ok (t, rest')
                /\ (length rest' <= length (ch0 :: rest))%nat
                /\ (forall c r, ch0 :: rest = c :: r -> c <> 69 -> c <> 101 -> c <> 68 -> c <> 100 -> (length rest' < length (ch0 :: rest))%nat)).
    { intros s' d' dec' e'. destruct (IH s' d' dec' e') as (t & rest' & E & L & _).
      exists t, rest'. split; [exact E | split; [cbn; lia | intros; cbn; lia]]. }
    destruct (ch =? 33); [eexists; eexists; split; [reflexivity | split; [cbn; lia | intros; cbn; lia]] |].
    destruct (ch =? 35); [eexists; eexists; split; [reflexivity | split; [cbn; lia | intros; cbn; lia]] |].
    destruct (ch =? 37); [eexists; eexists; split; [reflexivity | split; [cbn; lia | intros; cbn; lia]] |].
    destruct rest as [| pk rest2] eqn:Erest; [apply Hfin; cbn; lia |]. rewrite <- Erest in *.
    destruct ((ch =? 69) || (ch =? 68)) eqn:Ee; cbn [andb].
    + destruct ((pk =? 43) || (pk =? 45)); [apply Hrec |].
      destruct (negb (is_digit pk)).
      * (* the dangling letter is pushed back: the remainder is the input itself, allowed only because the first
           character is then an exponent letter *)
        specialize (Hch eq_refl). cbn zeta.
        repeat match goal with |- context [if ?b then _ else _] => destruct b end;
          eexists; eexists; (split; [reflexivity | split; [cbn; lia |]]);
          intros c r E; injection E as <- _; intros; exfalso; destruct Hch as [Hx | [Hx | [Hx | Hx]]]; congruence.
      * repeat (match goal with |- exists t rest0, (if ?b then _ else _) = _ /\ _ => destruct b; [apply Hrec |] end).
        apply Hfin. lia.
    + repeat (match goal with |- exists t rest0, (if ?b then _ else _) = _ /\ _ => destruct b; [apply Hrec |] end).
      apply Hfin. lia.
Qed.

Lemma string_loop_len : forall cs acc, (length (snd (string_loop cs acc)) <= length cs)%nat.
Proof. induction cs as [| c r IH]; intros acc; cbn; [lia |]. destruct (c =? 34); cbn; [lia | specialize (IH (c :: acc)); lia]. Qed.

Lemma radix_loop_len : forall cs hex acc, (length (snd (radix_loop cs hex acc)) <= length cs)%nat.
Proof.
  induction cs as [| c r IH]; intros hex acc; cbn [radix_loop]; [cbn; lia |].
  match goal with |- context [if ?b then _ else _] => destruct b end; [specialize (IH hex (to_upper c :: acc)); cbn [length]; lia | cbn; lia].
Qed.

Lemma lex_radix_len : forall cs, (length (snd (lex_radix cs)) <= length cs)%nat.
Proof.
  intros cs. unfold lex_radix. destruct cs as [| h r]; [cbn; lia |].
  destruct ((h =? 72) || (h =? 104)).
  - pose proof (radix_loop_len r true []) as H. destruct (radix_loop r true []). cbn in *. lia.
  - pose proof (radix_loop_len (h :: r) false []) as H. destruct (radix_loop (h :: r) false []). cbn in *. lia.
Qed.

Lemma minutia_loop_progress : forall cs acc, cs <> [] -> (length (snd (minutia_loop cs acc)) < length cs)%nat.
Proof.
  induction cs as [| c r IH]; intros acc Hne; [contradiction |]. cbn [minutia_loop].
  destruct r as [| pk r']; [cbn; lia |].
  destruct (is_alpha pk || is_digit pk || is_ws pk); [cbn; lia |].
  specialize (IH (c :: acc) ltac:(discriminate)). cbn [length] in *. lia.
Qed.

Lemma lex_minutia_progress : forall cs, cs <> [] -> (length (snd (lex_minutia cs)) < length cs)%nat.
Proof.
  intros cs Hne. unfold lex_minutia. destruct cs as [| c r]; [contradiction |].
  destruct (match_minutia c); [cbn; lia | apply minutia_loop_progress; discriminate].
Qed.

Lemma alpha_loop_progress : forall cs s digit pend, cs <> [] -> (length (snd (alpha_loop cs s digit pend)) < length cs)%nat.
Proof.
  induction cs as [| c0 rest IH]; intros s digit pend Hne; [contradiction |]. cbn [alpha_loop].
  repeat match goal with |- context [if ?b then _ else _] => destruct b; [cbn; lia |] end.
  destruct rest as [| pk rest2] eqn:Er.
  - destruct (scan_alphabetic _ _ _). cbn. lia.
  - rewrite <- Er in *. assert (Hr : rest <> []) by (rewrite Er; discriminate).
    assert (Hrec : forall a b c, (length (snd (alpha_loop rest a b c)) < length (c0 :: rest))%nat)
      by (intros a b c; specialize (IH a b c Hr); cbn [length]; lia).
    destruct (is_alpha pk).
    + destruct (digit || is_digit (to_upper c0))%bool; [cbn; lia | apply Hrec].
    + destruct (is_digit pk || is_suffix_chr pk)%bool.
      * destruct (scan_alphabetic _ _ _) as [toks s2]. destruct s2; [cbn; lia | apply Hrec].
      * destruct (scan_alphabetic _ _ _). cbn. lia.
Qed.

(* ---------- the token loop ---------- *)
Theorem lex_loop_total : forall fuel cs acc, (length cs < fuel)%nat -> exists ts, lex_loop fuel cs acc = Ok ts.
Proof.
  induction fuel as [| f IH]; intros cs acc Hf; [lia |]. cbn [lex_loop].
  destruct cs as [| pk r]; [eexists; reflexivity |].
  destruct (is_ws pk) eqn:Ews.
  - pose proof (ws_loop_progress pk r 0 Ews) as Hp. destruct (ws_loop (pk :: r) 0) as [t rest]. cbn [snd] in Hp.
    apply IH. lia.
  - destruct (is_digit pk || (pk =? 46)) eqn:Enum.
    + destruct (number_loop_total (pk :: r) [] 0 false false) as (t & rest & E & _ & Hlt).
      unfold lex_number. rewrite E. cbn [bind]. apply IH.
      assert (Hpk : pk <> 69 /\ pk <> 101 /\ pk <> 68 /\ pk <> 100).
      { apply orb_prop in Enum. destruct Enum as [H | H].
        - unfold is_digit in H. apply andb_prop in H. destruct H as [H1 H2]. apply N.leb_le in H1, H2. lia.
        - apply N.eqb_eq in H. lia. }
      specialize (Hlt pk r eq_refl ltac:(tauto) ltac:(tauto) ltac:(tauto) ltac:(tauto)). lia.
    + destruct (is_alpha pk).
      * pose proof (alpha_loop_progress (pk :: r) [] false [] ltac:(discriminate)) as Hp.
        destruct (alpha_loop (pk :: r) [] false []) as [toks rest]. cbn [snd] in Hp.
        assert (Hgo : exists ts, lex_loop f rest (rev toks ++ acc) = Ok ts) by (apply IH; lia).
        destruct toks as [| t0 more]; [exact Hgo |].
        destruct t0; try exact Hgo. destruct w; try exact Hgo. eexists. reflexivity.
      * destruct (pk =? 34).
        -- pose proof (string_loop_len r []) as Hp. destruct (string_loop r []) as [t rest]. cbn [snd] in Hp. apply IH. cbn [length] in Hf. lia.
        -- destruct (pk =? 38).
           ++ pose proof (lex_radix_len r) as Hp. destruct (lex_radix r) as [t rest]. cbn [snd] in Hp. apply IH. cbn [length] in Hf. lia.
           ++ pose proof (lex_minutia_progress (pk :: r) ltac:(discriminate)) as Hp.
              destruct (lex_minutia (pk :: r)) as [t rest]. cbn [snd] in Hp.
              assert (Hgo : exists ts, lex_loop f rest (t :: acc) = Ok ts) by (apply IH; lia).
              destruct t; try exact Hgo. destruct w; try exact Hgo. eexists. reflexivity.
Qed.

(* lexing any line at all succeeds: no BASIC error, no panic, no endless loop *)
Theorem lex_total : forall src, exists num toks, lex src = Ok (num, toks).
Proof.
  intros src. unfold lex. destruct (split_line_number src) as [num body].
  destruct (lex_loop_total (S (length body)) body [] ltac:(lia)) as [ts E]. rewrite E. cbn [bind].
  eexists. eexists. reflexivity.
Qed.

(* the line number recognised at the start of a line is at most 65529 *)
Theorem lex_line_number_bound : forall src n toks, lex src = Ok (Some n, toks) -> n <= 65529.
Proof.
  intros src n toks H. unfold lex in H. destruct (split_line_number src) as [num body] eqn:Es.
  destruct (lex_loop _ _ _); cbn in H; try discriminate. injection H as -> _.
  unfold split_line_number in Es. destruct (parse_u16 _) as [k |]; [| discriminate].
  destruct (N.leb_spec k 65529); [injection Es as <- _; assumption | discriminate].
Qed.
