(* C14: the change map that RENUM builds before it touches any line. *)
From BL Require Import Base.Prelude Base.Floats Mach.Val Lang.Token Lang.Lex Lang.Ast Lang.Parse Mach.Listing.
From Coq Require Import Lia.
Local Open Scope N_scope.

Lemma ch_get_set c k v k' : ch_get (ch_set c k v) k' = if k =? k' then Some v else ch_get c k'.
Proof.
  induction c as [| [a b] r IH]; cbn.
  - reflexivity.
  - destruct (N.eqb_spec a k) as [-> | Hne]; cbn.
    + destruct (N.eqb_spec k k'); reflexivity.
    + rewrite IH. destruct (N.eqb_spec a k') as [-> | _]; [| reflexivity].
      destruct (N.eqb_spec k k'); [congruence | reflexivity].
Qed.

(* new_num, new_num + step, ... *)
Fixpoint numbers (start step : N) (n : nat) : list N :=
  match n with O => [] | S m => start :: numbers (start + step) step m end.

Definition assign (acc : changes) (ps : list (N * N)) : changes :=
  fold_left (fun a p => ch_set a (fst p) (snd p)) ps acc.

Definition renumbered (ls : list (N * list token)) (old_start : N) : list N :=
  map fst (filter (fun e => old_start <=? fst e) ls).

(* the map is: the lines at or above old-start, in listing order, paired with new-start, new-start+step, ... *)
Theorem renum_changes_shape : forall ls ns os step oe nn acc ch,
  renum_changes ls ns os step oe nn acc = Ok ch ->
  ch = assign acc (combine (renumbered ls os) (numbers nn step (length (renumbered ls os))))
  /\ Forall (fun x => x <= 65529) (numbers nn step (length (renumbered ls os))).
Proof.
  induction ls as [| [ln t] r IH]; intros ns os step oe nn acc ch H; cbn [renum_changes] in H.
  - injection H as <-. split; [reflexivity | constructor].
  - unfold renumbered in *. cbn [filter fst]. destruct (N.leb_spec os ln) as [Hge | Hlt].
    + destruct ((oe <=? 65529) && (ns <=? oe)); [discriminate |].
      destruct (N.ltb_spec 65529 nn); [discriminate |].
      destruct (N.ltb_spec 65535 (nn + step)); [discriminate |].
      destruct (IH _ _ _ _ _ _ _ H) as [E1 E2]. cbn [map length numbers combine fst]. split.
      * rewrite E1. reflexivity.
      * constructor; [lia | exact E2].
    + exact (IH _ _ _ _ _ _ _ H).
Qed.

Lemma assign_cons acc a b r : assign acc ((a, b) :: r) = assign (ch_set acc a b) r.
Proof. reflexivity. Qed.

Lemma assign_get_other acc ps k : ~ In k (map fst ps) -> ch_get (assign acc ps) k = ch_get acc k.
Proof.
  revert acc. induction ps as [| [a b] r IH]; intros acc Hk; [reflexivity |]. rewrite assign_cons. cbn [map fst] in Hk.
  rewrite IH by (intros Hin; apply Hk; right; exact Hin).
  rewrite ch_get_set. destruct (N.eqb_spec a k) as [-> | _]; [exfalso; apply Hk; left; reflexivity | reflexivity].
Qed.

(* lines below old-start keep their numbers: they are not in the map *)
Theorem renum_keeps_lower : forall ls ns os step ch k,
  renum_changes ls ns os step 65530 ns [] = Ok ch -> k < os -> ch_get ch k = None.
Proof.
  intros ls ns os step ch k H Hk. destruct (renum_changes_shape _ _ _ _ _ _ _ _ H) as [-> _].
  rewrite assign_get_other; [reflexivity |].
  intros Hin. rewrite in_map_iff in Hin. destruct Hin as [[a b] [Ea Hin]]. cbn in Ea. subst a.
  apply in_combine_l in Hin. unfold renumbered in Hin. rewrite in_map_iff in Hin. destruct Hin as [e [Ee Hin]].
  apply filter_In in Hin. destruct Hin as [_ Hge]. apply N.leb_le in Hge. lia.
Qed.

(* the j-th renumbered line gets new-start + j * step *)
Lemma numbers_nth start step n j : (j < n)%nat -> nth_error (numbers start step n) j = Some (start + N.of_nat j * step).
Proof.
  revert start j. induction n as [| n IH]; intros start j Hj; [lia |]. destruct j as [| j]; cbn [numbers nth_error].
  - f_equal. lia.
  - rewrite IH by lia. f_equal. lia.
Qed.

Lemma assign_get_nth acc ks vs j k v : NoDup ks -> length ks = length vs ->
  nth_error ks j = Some k -> nth_error vs j = Some v -> ch_get (assign acc (combine ks vs)) k = Some v.
Proof.
  revert acc vs j. induction ks as [| a ks IH]; intros acc vs j Hnd Hl Hk Hv; [destruct j; discriminate |].
  destruct vs as [| b vs]; [discriminate |]. inversion Hnd as [| ? ? Hna Hnd']; subst.
  cbn [combine]. rewrite assign_cons.
  destruct j as [| j]; cbn in Hk, Hv.
  - injection Hk as ->. injection Hv as ->. rewrite assign_get_other.
    + rewrite ch_get_set, N.eqb_refl. reflexivity.
    + intros Hin. apply Hna. rewrite in_map_iff in Hin. destruct Hin as [[x y] [Ex Hin]]. cbn in Ex. subst x. exact (in_combine_l _ _ _ _ Hin).
  - apply (IH _ vs j Hnd'); [cbn in Hl; lia | exact Hk | exact Hv].
Qed.

Theorem renum_assigns_in_order : forall ls ns os step ch j k,
  NoDup (map fst ls) ->
  renum_changes ls ns os step 65530 ns [] = Ok ch ->
  nth_error (renumbered ls os) j = Some k ->
  ch_get ch k = Some (ns + N.of_nat j * step) /\ ns + N.of_nat j * step <= 65529.
Proof.
  intros ls ns os step ch j k Hnd H Hj. destruct (renum_changes_shape _ _ _ _ _ _ _ _ H) as [-> Hb].
  assert (Hlt : (j < length (renumbered ls os))%nat) by (apply nth_error_Some; congruence).
  pose proof (numbers_nth ns step _ j Hlt) as Hn. split.
  - apply (assign_get_nth [] _ _ j); [| rewrite (ltac:(clear; intros; induction n; cbn; auto) : forall n s st, length (numbers s st n) = n) || idtac | exact Hj | exact Hn].
    + unfold renumbered. clear - Hnd. induction ls as [| e r IH]; cbn; [constructor |]. inversion Hnd; subst.
      destruct (os <=? fst e); cbn; [constructor |]; auto.
      intros Hin. apply H1. rewrite in_map_iff in Hin |- *. destruct Hin as [x [Ex Hin]]. exists x. split; [exact Ex |]. apply filter_In in Hin. tauto.
    + clear. generalize ns. induction (length (renumbered ls os)); intros s; cbn; auto.
  - rewrite Forall_forall in Hb. apply Hb. exact (nth_error_In _ _ Hn).
Qed.
