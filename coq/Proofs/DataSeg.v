(* C09: the data segment of a compiled program is the program's DATA constants in source order.
   Part 1: what code generation does to the data segment of a fragment. *)
From BL Require Import Base.Prelude Base.Floats Mach.Val Mach.Ops Mach.Func Mach.Var
     Lang.Token Lang.Lex Lang.Ast Lang.Parse Mach.Compile Spec.Sem.
From Coq Require Import Lia.
Local Open Scope N_scope.

(* ---------- induction over expressions and statements with their lists ---------- *)
Section ExprInd.
Variable P : expr -> Prop.
Hypothesis Hu : forall c i, P (EUnary c i).
Hypothesis Ha : forall c i args, Forall P args -> P (EArray c i args).
Hypothesis Hs : forall c b, P (ESng c b).
Hypothesis Hd : forall c b, P (EDbl c b).
Hypothesis Hi : forall c n, P (EInt c n).
Hypothesis Hst : forall c s, P (EStr c s).
Hypothesis Hneg : forall c x, P x -> P (ENeg c x).
Hypothesis Hnot : forall c x, P x -> P (ENot c x).
Hypothesis Hbin : forall c o a b, P a -> P b -> P (EBin c o a b).
Fixpoint expr_ind2 (e : expr) : P e :=
  match e with
  | EUnary c i => Hu c i
  | EArray c i args => Ha c i args ((fix go (l : list expr) : Forall P l :=
                                       match l with [] => Forall_nil _ | x :: r => Forall_cons _ (expr_ind2 x) (go r) end) args)
  | ESng c b => Hs c b | EDbl c b => Hd c b | EInt c n => Hi c n | EStr c s => Hst c s
  | ENeg c x => Hneg c x (expr_ind2 x)
  | ENot c x => Hnot c x (expr_ind2 x)
  | EBin c o a b => Hbin c o a b (expr_ind2 a) (expr_ind2 b)
  end.
End ExprInd.

(* ---------- computations that leave the data segment alone, whatever their outcome ---------- *)
Definition nodata {A} (m : LM A) : Prop := forall l l' x, m l = (l', x) -> l_data l' = l_data l.

Lemma nodata_ret {A} (a : A) : nodata (lret a).
Proof. intros l l' x H. injection H as <- _. reflexivity. Qed.
Lemma nodata_bind {A B} (m : LM A) (f : A -> LM B) : nodata m -> (forall a, nodata (f a)) -> nodata (lbind m f).
Proof.
  intros Hm Hf l l' x H. unfold lbind in H. destruct (m l) as [l1 [a | e | |]] eqn:E.
  - rewrite (Hf a l1 l' x H). exact (Hm l l1 _ E).
  - injection H as <- _. exact (Hm l l1 _ E).
  - injection H as <- _. exact (Hm l l1 _ E).
  - injection H as <- _. exact (Hm l l1 _ E).
Qed.
Lemma nodata_lfail {A} code c : nodata (@lfail A code c).
Proof. intros l l' x H. injection H as <- _. reflexivity. Qed.
Lemma nodata_lfail_e {A} e : nodata (@lfail_e A e).
Proof. intros l l' x H. injection H as <- _. reflexivity. Qed.
Lemma nodata_lift {A} (r : res A) : nodata (lift r).
Proof. intros l l' x H. injection H as <- _. reflexivity. Qed.
Lemma nodata_const {A} (x0 : res A) : nodata (fun l => (l, x0)).
Proof. intros l l' x H. injection H as <- _. reflexivity. Qed.
Lemma nodata_push op : nodata (l_push op).
Proof. intros l l' x H. unfold l_push in H. injection H as <- _. reflexivity. Qed.
Lemma nodata_len : nodata l_len.
Proof. intros l l' x H. injection H as <- _. reflexivity. Qed.
Lemma nodata_next_symbol : nodata l_next_symbol.
Proof. intros l l' x H. injection H as <- _. reflexivity. Qed.
Lemma nodata_push_symbol s : nodata (l_push_symbol s).
Proof. intros l l' x H. injection H as <- _. reflexivity. Qed.
Lemma nodata_unlink_here c s : nodata (l_unlink_here c s).
Proof. intros l l' x H. injection H as <- _. reflexivity. Qed.
Lemma nodata_add_while k c s : nodata (l_add_while k c s).
Proof. intros l l' x H. injection H as <- _. reflexivity. Qed.

(* appending a fragment: its data goes behind the data already there -- on success *)
Lemma append_data f l l' : l_append f l = (l', Ok tt) -> l_data l' = l_data l ++ l_data f.
Proof.
  unfold l_append. destruct (l_direct_set l && _); [discriminate |].
  match goal with |- context [MAX_POOL <? lenN (l_ops ?x)] => destruct (MAX_POOL <? lenN (l_ops x)) end; [discriminate |].
  intros H. injection H as <- _. reflexivity.
Qed.
Lemma append_data_any f l l' (x : res unit) : l_append f l = (l', x) -> l_data f = [] -> l_data l' = l_data l.
Proof.
  intros H Hf. unfold l_append in H. rewrite Hf in H. rewrite Bool.andb_false_r in H.
  match type of H with context [MAX_POOL <? lenN (l_ops ?x)] => destruct (MAX_POOL <? lenN (l_ops x)) end.
  - injection H as <- _. reflexivity.
  - injection H as <- _. cbn. apply app_nil_r.
Qed.
Lemma nodata_append f : l_data f = [] -> nodata (l_append f).
Proof. intros Hf l l' x H. destruct x as [[] | e | |]; exact (append_data_any f l l' _ H Hf). Qed.

Lemma nodata_fold {A X} (g : X -> LM A) (xs : list X) (m0 : LM A) (step : LM A -> X -> LM A) :
  nodata m0 -> (forall m x, nodata m -> In x xs -> nodata (step m x)) -> nodata (fold_left step xs m0).
Proof.
  revert m0. induction xs as [| x r IH]; intros m0 H0 Hs; cbn [fold_left]; [exact H0 |].
  apply IH; [apply Hs; [exact H0 | left; reflexivity] | intros m y Hm Hy; apply Hs; [exact Hm | right; exact Hy]].
Qed.

Lemma run_frag_nodata (m : LM col) : nodata m -> l_data (snd (fst (run_frag m))) = [].
Proof.
  intros H. unfold run_frag. destruct (m link_empty) as [l [c | e | |]] eqn:E; cbn [fst snd]; exact (H _ _ _ E).
Qed.

Lemma run_frag_ok (m : LM col) c l : run_frag m = ((c, l), []) -> m link_empty = (l, Ok c).
Proof. unfold run_frag. destruct (m link_empty) as [l0 [c0 | e | |]]; intros H; try discriminate. injection H as <- <-. reflexivity. Qed.

Create HintDb nd.
Ltac nd :=
  repeat first
    [ apply nodata_ret | apply nodata_lfail | apply nodata_lfail_e | apply nodata_lift | apply nodata_push | apply nodata_len
    | apply nodata_next_symbol | apply nodata_push_symbol | apply nodata_unlink_here | apply nodata_add_while
    | apply nodata_const
    | apply nodata_append; solve [assumption | reflexivity]
    | solve [auto with nd]
    | apply nodata_bind; [| intros ?]
    | match goal with |- nodata (match ?x with _ => _ end) => destruct x end
    | match goal with |- nodata (if ?x then _ else _) => destruct x end ].

Lemma nodata_lit_len n : nodata (lit_len n).
Proof. unfold lit_len. nd. Qed.
Lemma nodata_test v s : nodata (test_for_built_in v s).
Proof. unfold test_for_built_in. nd. Qed.
Lemma nodata_push_jump c s : nodata (l_push_jump c s).
Proof. unfold l_push_jump. nd. Qed.
Lemma nodata_push_ifnot c s : nodata (l_push_ifnot c s).
Proof. unfold l_push_ifnot. nd. Qed.
Lemma nodata_push_return_val c s : nodata (l_push_return_val c s).
Proof. unfold l_push_return_val. nd. Qed.
Lemma nodata_sym_of_line n : nodata (sym_of_line n).
Proof. unfold sym_of_line. nd. Qed.
#[export] Hint Resolve nodata_lit_len nodata_test nodata_push_jump nodata_push_ifnot nodata_push_return_val nodata_sym_of_line : nd.
Lemma nodata_push_goto c n : nodata (l_push_goto c n).
Proof. unfold l_push_goto. nd. Qed.
Lemma nodata_push_gosub c n : nodata (l_push_gosub c n).
Proof. unfold l_push_gosub. nd. Qed.
Lemma nodata_push_for c : nodata (l_push_for c).
Proof. unfold l_push_for. nd. Qed.
Lemma nodata_push_restore c n : nodata (l_push_restore c n).
Proof. unfold l_push_restore. nd. Qed.
Lemma nodata_push_run c n : nodata (l_push_run c n).
Proof. unfold l_push_run. nd. Qed.
Lemma nodata_push_wend c : nodata (l_push_wend c).
Proof. unfold l_push_wend. nd. Qed.
Lemma nodata_push_while c e : l_data e = [] -> nodata (l_push_while c e).
Proof. intros H. unfold l_push_while. nd. Qed.
#[export] Hint Resolve nodata_push_goto nodata_push_gosub nodata_push_for nodata_push_restore nodata_push_run nodata_push_wend nodata_push_while : nd.

Lemma nodata_push_as_expression v : l_data (vi_link v) = [] -> nodata (push_as_expression v).
Proof. intros H. unfold push_as_expression. nd. Qed.
Lemma nodata_push_as_pop v : l_data (vi_link v) = [] -> nodata (push_as_pop v).
Proof. intros H. unfold push_as_pop. nd. Qed.
Lemma nodata_push_as_pop_unary v : nodata (push_as_pop_unary v).
Proof. unfold push_as_pop_unary. nd. Qed.
Lemma nodata_push_as_dim v : l_data (vi_link v) = [] -> nodata (push_as_dim v).
Proof. intros H. unfold push_as_dim. nd. Qed.
#[export] Hint Resolve nodata_push_as_expression nodata_push_as_pop nodata_push_as_pop_unary nodata_push_as_dim : nd.

Lemma nodata_append_all fs : Forall (fun f : frag => l_data (snd f) = []) fs -> nodata (append_all fs).
Proof.
  intros H. unfold append_all. apply (nodata_fold (fun _ : frag => lret tt)); [apply nodata_ret |].
  intros m f Hm Hin. rewrite Forall_forall in H. specialize (H f Hin). nd.
Qed.
#[export] Hint Resolve nodata_append_all : nd.

(* ---------- expressions and variables never produce data ---------- *)
Lemma subfrags_nodata (args : list expr) :
  Forall (fun x => l_data (snd (fst (cg_expr x))) = []) args ->
  Forall (fun f : frag => l_data (snd f) = []) (map fst (map cg_expr args)).
Proof. intros H. induction H as [| x r Hx _ IH]; cbn [map]; constructor; assumption. Qed.

Theorem cg_expr_nodata : forall e, l_data (snd (fst (cg_expr e))) = [].
Proof.
  induction e as [c i | c i args IH | c b | c b | c n | c s | c x IH | c x IH | c o a b IHa IHb] using expr_ind2; cbn [cg_expr].
  - apply run_frag_nodata. nd.
  - pose proof (subfrags_nodata args IH) as Hsub.
    match goal with |- context [run_frag ?m] => pose proof (run_frag_nodata m ltac:(nd)) as Hv; destruct (run_frag m) as [vf verrs] end.
    cbn [fst snd] in Hv.
    match goal with |- context [push_as_expression ?vi] =>
      assert (Hvi : l_data (vi_link vi) = []) by (destruct verrs; exact Hv);
      pose proof (run_frag_nodata (push_as_expression vi) (nodata_push_as_expression vi Hvi)) as He;
      destruct (run_frag (push_as_expression vi)) as [ef eerrs] end.
    exact He.
  - apply run_frag_nodata. nd.
  - apply run_frag_nodata. nd.
  - apply run_frag_nodata. nd.
  - apply run_frag_nodata. nd.
  - destruct (cg_expr x) as [xf xerrs]. cbn [fst snd] in IH.
    match goal with |- context [run_frag ?m] => pose proof (run_frag_nodata m ltac:(nd)) as Hv; destruct (run_frag m) as [f errs] end. exact Hv.
  - destruct (cg_expr x) as [xf xerrs]. cbn [fst snd] in IH.
    match goal with |- context [run_frag ?m] => pose proof (run_frag_nodata m ltac:(nd)) as Hv; destruct (run_frag m) as [f errs] end. exact Hv.
  - destruct (cg_expr a) as [af aerrs]. destruct (cg_expr b) as [bf berrs]. cbn [fst snd] in IHa, IHb.
    match goal with |- context [run_frag ?m] => pose proof (run_frag_nodata m ltac:(nd)) as Hv; destruct (run_frag m) as [f errs] end. exact Hv.
Qed.

Lemma exprs_nodata (l : list expr) : Forall (fun f : frag => l_data (snd f) = []) (map fst (map cg_expr l)).
Proof. apply subfrags_nodata. apply Forall_forall. intros x _. apply cg_expr_nodata. Qed.

Theorem cg_var_nodata : forall v, l_data (vi_link (fst (cg_var v))) = [].
Proof.
  destruct v as [c i | c i args]; cbn [cg_var]; [reflexivity |].
  pose proof (exprs_nodata args) as Hsub.
  match goal with |- context [run_frag ?m] => pose proof (run_frag_nodata m ltac:(nd)) as Hv; destruct (run_frag m) as [vf verrs] end.
  cbn [fst snd] in *. destruct verrs; exact Hv.
Qed.

Lemma vars_nodata (l : list var) : Forall (fun v => l_data (vi_link v) = []) (map fst (map cg_var l)).
Proof. induction l as [| v r IH]; cbn [map]; constructor; [apply cg_var_nodata | exact IH]. Qed.

Lemma nodata_fold' {A X} (xs : list X) (m0 : LM A) (step : LM A -> X -> LM A) :
  nodata m0 -> (forall m x, nodata m -> In x xs -> nodata (step m x)) -> nodata (fold_left step xs m0).
Proof. exact (nodata_fold (fun _ : X => m0) xs m0 step). Qed.

Lemma nodata_on_targets c : forall ts se, nodata (cg_on_targets c ts se).
Proof. induction ts as [| t r IH]; intros se; cbn [cg_on_targets]; [nd | destruct (link_line_number (snd t)); nd; apply IH]. Qed.
Lemma nodata_pop_line_number f : nodata (pop_line_number f).
Proof. unfold pop_line_number. nd. Qed.
Lemma nodata_val_of_line n : nodata (val_of_line n).
Proof. unfold val_of_line. nd. Qed.
#[export] Hint Resolve nodata_on_targets nodata_pop_line_number nodata_val_of_line : nd.
Lemma nodata_cg_range c a b op : nodata (cg_range c a b op).
Proof. unfold cg_range. nd. Qed.
Lemma nodata_cg_deftype c a b op : nodata (cg_deftype c a b op).
Proof. unfold cg_deftype. nd. Qed.
Lemma nodata_simple c op : nodata (simple c op).
Proof. unfold simple. nd. Qed.
Lemma nodata_def_fn c name vars body : l_data body = [] -> nodata (l_push_def_fn c name vars body).
Proof.
  intros H. unfold l_push_def_fn. nd. apply nodata_fold'; [nd |]. intros m x Hm _. nd.
Qed.
#[export] Hint Resolve nodata_cg_range nodata_cg_deftype nodata_simple nodata_def_fn : nd.

(* ---------- statements other than DATA and IF produce no data ---------- *)
Definition plain (s : stmt) : bool := match s with SData _ _ | SIf _ _ _ _ => false | _ => true end.

Ltac sub_frags :=
  repeat match goal with
         | |- context [cg_expr ?e] => let H := fresh "Hd" in pose proof (cg_expr_nodata e) as H; destruct (cg_expr e) as [? ?]; cbn [fst snd] in H
         | |- context [cg_var ?v] => let H := fresh "Hd" in pose proof (cg_var_nodata v) as H; destruct (cg_var v) as [? ?]; cbn [fst snd] in H
         end.
Ltac fold_nd H :=
  apply nodata_fold'; [nd | let m := fresh "m" in let x := fresh "x" in let Hm := fresh "Hm" in let Hin := fresh "Hin" in
                             intros m x Hm Hin; rewrite Forall_forall in H; specialize (H x Hin); nd].
Ltac close_frag :=
  match goal with |- context [run_frag ?m] =>
    let H := fresh "Hr" in assert (H : nodata m); [| pose proof (run_frag_nodata m H); destruct (run_frag m) as [? ?]; assumption] end.

Theorem plain_nodata : forall s, plain s = true -> l_data (snd (fst (cg_stmt s))) = [].
Proof.
  intros s Hp. destruct s; try discriminate; cbn [cg_stmt]; sub_frags.
  all: try (pose proof (exprs_nodata l) as Hl); try (pose proof (vars_nodata l) as Hl); try (pose proof (vars_nodata params) as Hps).
  all: close_frag.
  all: try solve [nd].
  all: try solve [nd; fold_nd Hl].
Qed.

(* ---------- computations that add to the data segment (on success) ---------- *)
Definition adds {A} (m : LM A) (d : list val) : Prop := forall l l' a, m l = (l', Ok a) -> l_data l' = l_data l ++ d.

Lemma nodata_adds {A} (m : LM A) : nodata m -> adds m [].
Proof. intros H l l' a E. rewrite (H l l' _ E), app_nil_r. reflexivity. Qed.
Lemma adds_bind {A B} (m : LM A) (f : A -> LM B) d1 d2 : adds m d1 -> (forall a, adds (f a) d2) -> adds (lbind m f) (d1 ++ d2).
Proof.
  intros Hm Hf l l' b H. unfold lbind in H. destruct (m l) as [l1 [a | e | |]] eqn:E; try discriminate.
  rewrite (Hf a l1 l' b H), (Hm l l1 a E), app_assoc. reflexivity.
Qed.
Lemma adds_append f : adds (l_append f) (l_data f).
Proof. intros l l' [] H. exact (append_data f l l' H). Qed.

Lemma adds_append_all : forall fs : list frag, adds (append_all fs) (flat_map (fun f => l_data (snd f)) fs).
Proof.
  unfold append_all. intros fs.
  assert (G : forall (m0 : LM unit) d0, adds m0 d0 ->
            adds (fold_left (fun m (f : frag) => ldo _ <~ m ;; l_append (snd f)) fs m0) (d0 ++ flat_map (fun f => l_data (snd f)) fs)).
  { induction fs as [| f r IH]; intros m0 d0 H0; cbn [fold_left flat_map]; [rewrite app_nil_r; exact H0 |].
    rewrite app_assoc. apply IH. apply adds_bind; [exact H0 | intros _; apply adds_append]. }
  apply (G (lret tt) []). apply nodata_adds, nodata_ret.
Qed.

(* ---------- DATA: each constant goes to the data segment, in order ---------- *)
Fixpoint consts (l : list expr) : list val :=
  match l with
  | [] => []
  | e :: r => match data_const e with Some v => v :: consts r | None => consts r end
  end.
Definition wf_item (e : expr) : bool := match data_const e with Some _ => true | None => false end.

Lemma consts_wf l : forallb wf_item l = true -> map Some (consts l) = map data_const l.
Proof.
  induction l as [| e r IH]; intros H; [reflexivity |]. cbn [forallb] in H. apply andb_prop in H. destruct H as [He Hr].
  unfold wf_item in He. cbn [consts map]. destruct (data_const e); [| discriminate]. cbn [map]. rewrite (IH Hr). reflexivity.
Qed.

Lemma chk_value z v : chk z = Ok v -> v = VInt z.
Proof. unfold chk. destruct (in_i16 z); intros H; [injection H as <-; reflexivity | discriminate]. Qed.

Lemma item_data : forall e v f', data_const e = Some v ->
  fst (l_transform_to_data (fst (fst (cg_expr e))) (snd (fst (cg_expr e)))) = f' ->
  (exists u, snd (l_transform_to_data (fst (fst (cg_expr e))) (snd (fst (cg_expr e)))) = Ok u) ->
  l_data f' = [v].
Proof.
  intros e v f' Hdc Hf [u Hu]. destruct e as [c i | c i args | c b | c b | c n | c s | c x | c x | c o a b]; cbn [data_const] in Hdc; try discriminate.
  - injection Hdc as <-. subst f'. reflexivity.
  - injection Hdc as <-. subst f'. reflexivity.
  - injection Hdc as <-. subst f'. reflexivity.
  - injection Hdc as <-. subst f'. reflexivity.
  - destruct x as [c1 i | c1 i args | c1 b | c1 b | c1 n | c1 s | c1 x | c1 x | c1 o a b]; try discriminate.
    + injection Hdc as <-. subst f'. reflexivity.
    + injection Hdc as <-. subst f'. reflexivity.
    + destruct (n =? -32768)%Z; [discriminate |]. injection Hdc as <-. subst f'.
      change (snd (fst (cg_expr (ENeg c (EInt c1 n))))) with (mkLink 0 [OpLiteral (VInt n); OpNeg] [] 0 false [] [] []) in *.
      unfold l_transform_to_data in *. cbn [l_ops set_ops op_negate] in *.
      destruct (chk (- n)) as [w | er | |] eqn:Ec; cbn in Hu; try discriminate.
      rewrite (chk_value _ _ Ec). reflexivity.
Qed.

(* the loop of the DATA statement *)
Definition data_step (m : LM unit) (f : frag) : LM unit :=
  ldo _ <~ m ;;
  (fun lk => match l_transform_to_data (fst f) (snd f) with
             | (f', Ok _) => l_append f' lk
             | (_, Err e) => (lk, Err e)
             | (_, _) => (lk, Panic)
             end).

Lemma data_loop : forall l m0 d0, adds m0 d0 -> forallb wf_item l = true ->
  adds (fold_left data_step (map fst (map cg_expr l)) m0) (d0 ++ consts l).
Proof.
  induction l as [| e r IH]; intros m0 d0 H0 Hwf; cbn [map fold_left consts]; [rewrite app_nil_r; exact H0 |].
  cbn [forallb] in Hwf. apply andb_prop in Hwf. destruct Hwf as [He Hr]. unfold wf_item in He.
  destruct (data_const e) as [v |] eqn:Hdc; [| discriminate].
  replace (d0 ++ v :: consts r) with ((d0 ++ [v]) ++ consts r) by (rewrite <- app_assoc; reflexivity).
  apply IH; [| exact Hr]. unfold data_step. apply adds_bind; [exact H0 |]. intros _ lk l' a H.
  destruct (l_transform_to_data (fst (fst (cg_expr e))) (snd (fst (cg_expr e)))) as [f' [u | er | |]] eqn:Et; try discriminate.
  destruct a. rewrite (append_data f' lk l' H). f_equal.
  apply (item_data e v f' Hdc); [rewrite Et; reflexivity | exists u; rewrite Et; reflexivity].
Qed.

(* ---------- induction over statements ---------- *)
Section StmtInd.
Variable P : stmt -> Prop.
Hypothesis Hif : forall c p th el, Forall P th -> Forall P el -> P (SIf c p th el).
Hypothesis Hother : forall s, match s with SIf _ _ _ _ => False | _ => True end -> P s.
Fixpoint stmt_ind2 (s : stmt) : P s :=
  let go := fix go (l : list stmt) : Forall P l :=
              match l with [] => Forall_nil _ | x :: r => Forall_cons _ (stmt_ind2 x) (go r) end in
  match s as s0 return P s0 with
  | SIf c p th el => Hif c p th el (go th) (go el)
  | s' => Hother s' I
  end.
End StmtInd.

(* a statement is well formed for DATA when every DATA item is a constant (a literal, possibly negated) *)
Fixpoint wf_data (s : stmt) : bool :=
  match s with
  | SData _ l => forallb wf_item l
  | SIf _ _ th el => forallb wf_data th && forallb wf_data el
  | _ => true
  end.

Lemma app_nil_3 {A} (a b c : list A) : a ++ b ++ c = [] -> a = [] /\ b = [] /\ c = [].
Proof. intros H. apply app_eq_nil in H. destruct H as [Ha H]. apply app_eq_nil in H. destruct H. auto. Qed.

Lemma flat_map_nil {A B} (f : A -> list B) l : flat_map f l = [] -> Forall (fun x => f x = []) l.
Proof. induction l as [| x r IH]; cbn [flat_map]; intros H; [constructor |]. apply app_eq_nil in H. destruct H. constructor; auto. Qed.

Lemma flat_map_map_nil {A B C} (f : A -> B) (g : B -> list C) l : flat_map g (map f l) = [] -> Forall (fun x => g (f x) = []) l.
Proof. induction l as [| x r IH]; cbn [map flat_map]; intros H; [constructor |]. apply app_eq_nil in H. destruct H. constructor; auto. Qed.

Lemma map_some_flat {A} (g : A -> list val) (h : A -> list (option val)) l :
  Forall (fun x => map Some (g x) = h x) l -> map Some (flat_map g l) = flat_map h l.
Proof. induction 1 as [| x r Hx _ IH]; cbn [flat_map]; [reflexivity |]. rewrite map_app, Hx, IH. reflexivity. Qed.

(* THE STATEMENT THEOREM: a statement that compiles without an error contributes exactly its DATA constants, in the
   order the reference semantics lists them (for IF: THEN part, then ELSE part) *)
Theorem cg_stmt_data : forall s, snd (cg_stmt s) = [] -> wf_data s = true ->
  map Some (l_data (snd (fst (cg_stmt s)))) = stmt_data s.
Proof.
  induction s as [c p th el IHth IHel | s Hs] using stmt_ind2; intros Herr Hwf.
  - (* IF *)
    cbn [wf_data] in Hwf. apply andb_prop in Hwf. destruct Hwf as [Wth Wel].
    cbn [cg_stmt stmt_data] in *. pose proof (cg_expr_nodata p) as Hp. destruct (cg_expr p) as [pf x0]. cbn [fst snd] in Hp.
    match type of Herr with context [run_frag ?m] => set (M := m) in * end.
    destruct (run_frag M) as [[cc lk] errs] eqn:Erun. cbn [fst snd] in *.
    apply app_eq_nil in Herr. destruct Herr as [Hpre Herrs]. apply app_nil_3 in Hpre. destruct Hpre as (Hx0 & Hths & Hels). subst errs.
    apply run_frag_ok in Erun.
    assert (Hth : Forall (fun s => map Some (l_data (snd (fst (cg_stmt s)))) = stmt_data s) th).
    { apply flat_map_map_nil in Hths. clear - IHth Hths Wth. rewrite Forall_forall in *. intros s Hin. apply IHth; [exact Hin | exact (Hths s Hin) |].
      rewrite forallb_forall in Wth. exact (Wth s Hin). }
    assert (Hel : Forall (fun s => map Some (l_data (snd (fst (cg_stmt s)))) = stmt_data s) el).
    { apply flat_map_map_nil in Hels. clear - IHel Hels Wel. rewrite Forall_forall in *. intros s Hin. apply IHel; [exact Hin | exact (Hels s Hin) |].
      rewrite forallb_forall in Wel. exact (Wel s Hin). }
    assert (HM : adds M ([] ++ [] ++ [] ++ flat_map (fun f : frag => l_data (snd f)) (map fst (map cg_stmt th))
                          ++ flat_map (fun f : frag => l_data (snd f)) (map fst (map cg_stmt el)))).
    { unfold M. apply adds_bind; [apply nodata_adds; nd |]. intros _.
      apply adds_bind; [apply nodata_adds; nd |]. intros es.
      apply adds_bind; [apply nodata_adds; nd |]. intros _.
      apply adds_bind; [apply adds_append_all |]. intros _.
      destruct el as [| e0 el']; cbn [map].
      - cbn [flat_map]. apply nodata_adds. nd.
      - replace (flat_map (fun f : frag => l_data (snd f)) (fst (cg_stmt e0) :: map fst (map cg_stmt el')))
          with ([] ++ [] ++ [] ++ flat_map (fun f : frag => l_data (snd f)) (fst (cg_stmt e0) :: map fst (map cg_stmt el')) ++ []) by (cbn [app]; rewrite app_nil_r; reflexivity).
        apply adds_bind; [apply nodata_adds; nd |]. intros fs.
        apply adds_bind; [apply nodata_adds; nd |]. intros _.
        apply adds_bind; [apply nodata_adds; nd |]. intros _.
        apply adds_bind; [apply (adds_append_all (fst (cg_stmt e0) :: map fst (map cg_stmt el'))) |]. intros _.
        apply nodata_adds. nd. }
    rewrite (HM _ _ _ Erun). cbn [link_empty l_data app]. rewrite map_app.
    rewrite !map_map, !flat_map_concat_map, !map_map, <- !flat_map_concat_map.
    rewrite (map_some_flat _ stmt_data th Hth), (map_some_flat _ stmt_data el Hel). reflexivity.
  - destruct s; try contradiction; try (rewrite plain_nodata by reflexivity; reflexivity).
    (* DATA *)
    cbn [wf_data] in Hwf. cbn [cg_stmt stmt_data] in *.
    match type of Herr with context [run_frag ?m] => set (M := m) in * end.
    destruct (run_frag M) as [[cc lk] errs] eqn:Erun. cbn [fst snd] in *.
    apply app_eq_nil in Herr. destruct Herr as [_ ->]. apply run_frag_ok in Erun.
    assert (HM : adds M (([] ++ consts l) ++ [])).
    { unfold M. apply adds_bind; [| intros _; apply nodata_adds; nd].
      apply (data_loop l (lret tt) []); [apply nodata_adds; nd | exact Hwf]. }
    rewrite (HM _ _ _ Erun). cbn [link_empty l_data app]. rewrite app_nil_r. apply consts_wf. exact Hwf.
Qed.

(* ====================================================================================================
   Part 2: the data segment of a whole program
   ==================================================================================================== *)
From BL Require Import Proofs.ExprCompile Proofs.Flow.

Lemma append_result f l : (exists l', l_append f l = (l', Ok tt)) \/ (exists l' e, l_append f l = (l', Err e)).
Proof.
  unfold l_append. destruct (l_direct_set l && _); [right; eexists; eexists; reflexivity |].
  match goal with |- context [MAX_POOL <? lenN (l_ops ?x)] => destruct (MAX_POOL <? lenN (l_ops x)) end; [right; eexists; eexists; reflexivity |].
  match goal with |- context [MAX_POOL <? lenN (l_data ?x)] => destruct (MAX_POOL <? lenN (l_data x)) end; [right | left]; repeat eexists.
Qed.

Lemma prog_error_errors p e : pg_errors (prog_error p e) <> [].
Proof. unfold prog_error. cbn. destruct (pg_errors p); discriminate. Qed.

Lemma fold_prog_error_errors : forall errs p, pg_errors (fold_left prog_error errs p) = [] -> errs = [] /\ pg_errors p = [].
Proof.
  induction errs as [| e r IH]; intros p H; cbn [fold_left] in H; [split; [reflexivity | exact H] |].
  destruct (IH _ H) as [_ Hp]. exfalso. exact (prog_error_errors p e Hp).
Qed.

Lemma fold_prog_error_link : forall errs p, pg_link (fold_left prog_error errs p) = pg_link p.
Proof. induction errs as [| e r IH]; intros p; cbn [fold_left]; [reflexivity |]. rewrite IH. reflexivity. Qed.

(* appending the fragments of a line *)
Lemma append_frags_data : forall fs p, pg_errors (append_stmt_frags p fs) = [] ->
  pg_errors p = [] /\ l_data (pg_link (append_stmt_frags p fs)) = l_data (pg_link p) ++ flat_map (fun f : frag => l_data (snd f)) fs.
Proof.
  induction fs as [| f r IH]; intros p H; cbn [append_stmt_frags flat_map] in *; [split; [exact H | rewrite app_nil_r; reflexivity] |].
  destruct (append_result (snd f) (pg_link p)) as [[l' E] | [l' [e E]]]; rewrite E in *.
  - destruct (IH _ H) as [Hp Hd]. split; [exact Hp |]. rewrite Hd. cbn [with_link pg_link]. rewrite (append_data _ _ _ E), app_assoc. reflexivity.
  - exfalso. exact (prog_error_errors _ _ H).
Qed.

Lemma flat_map_map {A B C} (f : A -> B) (g : B -> list C) l : flat_map g (map f l) = flat_map (fun x => g (f x)) l.
Proof. induction l as [| x r IH]; cbn [map flat_map]; [reflexivity | rewrite IH; reflexivity]. Qed.

Definition line_vals (ss : list stmt) : list val := flat_map (fun s => l_data (snd (fst (cg_stmt s)))) ss.

Lemma codegen_line_data : forall p n ss, pg_errors (codegen_line p (Some n) (Ok ss)) = [] ->
  pg_errors p = [] /\ Forall (fun s => snd (cg_stmt s) = []) ss
  /\ l_data (pg_link (codegen_line p (Some n) (Ok ss))) = l_data (pg_link p) ++ line_vals ss.
Proof.
  intros p n ss H. unfold codegen_line, codegen_ast in *. cbn [with_link pg_link pg_errors pg_ind_errors pg_direct pg_line l_push_symbol] in *.
  match type of H with context [append_stmt_frags ?q ?fs] => destruct (append_frags_data fs q H) as [Hq Hd] end.
  apply fold_prog_error_errors in Hq. destruct Hq as [Herrs Hp]. cbn [pg_errors with_link] in Hp.
  split; [exact Hp |]. split; [exact (flat_map_map_nil cg_stmt snd ss Herrs) |].
  rewrite Hd, fold_prog_error_link. cbn [pg_link l_data with_link]. unfold line_vals. rewrite !flat_map_map. reflexivity.
Qed.

Definition compile_from (p : program) (lines : list (N * list stmt)) : program :=
  fold_left (fun p e => codegen_line p (Some (fst e)) (Ok (snd e))) lines p.

Lemma compile_from_data : forall lines p, pg_errors (compile_from p lines) = [] ->
  pg_errors p = [] /\ Forall (fun e => Forall (fun s => snd (cg_stmt s) = []) (snd e)) lines
  /\ l_data (pg_link (compile_from p lines)) = l_data (pg_link p) ++ flat_map (fun e => line_vals (snd e)) lines.
Proof.
  induction lines as [| [n ss] r IH]; intros p H; cbn [compile_from fold_left flat_map] in *.
  - split; [exact H |]. split; [constructor | rewrite app_nil_r; reflexivity].
  - destruct (IH _ H) as (H1 & Hr & Hd). cbn [fst snd] in *. destruct (codegen_line_data p n ss H1) as (Hp & Hss & Hd1).
    split; [exact Hp |]. split; [constructor; assumption |]. fold (compile_from (codegen_line p (Some n) (Ok ss)) r).
    rewrite Hd, Hd1, app_assoc. reflexivity.
Qed.

(* linking keeps the data segment *)
Lemma link_link_data l : l_data (fst (link_link l)) = l_data l.
Proof.
  unfold link_link. destruct (link_whiles_loop _ _ _ _ _) as [unl werrs].
  match goal with |- context [fold_left ?f unl ?a] => destruct (fold_left f unl a) as [ops errs] end. reflexivity.
Qed.

Lemma program_link_tail_data p1 :
  l_data (pg_link (let '(l2, lerrs) := link_link (pg_link p1) in
                   let errs := match pg_errors p1 with [] => lerrs | _ => pg_errors p1 end in
                   if pg_direct p1 =? 0 then
                     let da := lenN (l_ops l2) in
                     let l3 := mkLink (l_cur l2) (l_ops l2) (l_data l2) (l_data_pos l2) true
                                      (zassoc_set 65530 (da, lenN (l_data l2)) (l_syms l2)) (l_unlinked l2) (l_whiles l2) in
                     mkProg [] errs da (pg_line p1) l3
                   else mkProg errs (pg_ind_errors p1) (pg_direct p1) (pg_line p1) l2)) = l_data (pg_link p1).
Proof.
  pose proof (link_link_data (pg_link p1)) as H. destruct (link_link (pg_link p1)) as [l2 lerrs]. cbn [fst] in H.
  destruct (pg_direct p1 =? 0); cbn [pg_link l_data]; exact H.
Qed.

Lemma program_link_data p : l_data (pg_link (program_link p)) = l_data (pg_link p).
Proof.
  unfold program_link. cbv zeta. destruct (last_is_end _ && _).
  - apply program_link_tail_data.
  - pose proof (nodata_push OpEnd (pg_link p)) as Hp. destruct (l_push OpEnd (pg_link p)) as [l' x]. specialize (Hp l' x eq_refl).
    destruct x as [u | e | |]; rewrite program_link_tail_data; cbn [with_link prog_raw_error pg_link]; exact Hp.
Qed.

(* THE PROGRAM THEOREM: compile the parsed lines of any program -- any statements, any layout -- and link.  If compilation
   reports no error and every DATA item is a constant, the data segment READ indexes into is the list of DATA constants in
   source order, exactly as the reference semantics defines it (Sem.all_data). *)
Theorem data_segment_is_source_order : forall prog dp,
  pg_errors (compile_asts prog dp) = [] -> forallb (fun e => forallb wf_data (snd e)) prog = true ->
  map Some (l_data (pg_link (program_link (compile_asts prog dp)))) = all_data prog.
Proof.
  intros prog dp Herr Hwf. rewrite program_link_data. unfold compile_asts in *.
  fold (compile_from (mkProg [] [] 0 None (plink 0 [] [] [] dp)) prog) in *.
  destruct (compile_from_data prog _ Herr) as (_ & Hss & Hd). rewrite Hd. cbn [pg_link plink l_data app].
  unfold all_data, line_data. apply map_some_flat. rewrite Forall_forall in *. intros [n ss] Hin. cbn [snd].
  unfold line_vals. apply map_some_flat. rewrite Forall_forall. intros s Hs.
  rewrite forallb_forall in Hwf. specialize (Hwf _ Hin). cbn [snd] in Hwf. rewrite forallb_forall in Hwf.
  apply cg_stmt_data; [| exact (Hwf s Hs)]. specialize (Hss _ Hin). cbn [snd] in Hss. rewrite Forall_forall in Hss. exact (Hss s Hs).
Qed.
