(* C19 -- the code generator hands the parser's ranges on.  Every reference to a program line that the code of a statement
   leaves for the linker (GOTO, GOSUB, ON.., THEN n, ELSE n, RESTORE n, RUN n, at any nesting of IF) carries the column range
   of the line-number operand it came from; with Proofs/ParseCols.v: exactly the range of a number token of the line. *)
From BL Require Import Base.Prelude Base.Floats Mach.Val Mach.Ops Mach.Func Mach.Var
     Lang.Token Lang.Lex Lang.Ast Lang.Parse Mach.Compile Proofs.DataSeg Proofs.SymSeg Proofs.ParseCols.
From Coq Require Import Lia.
Local Open Scope N_scope.

Section RefCols.
Variable P : col -> Prop.

(* references to program lines (non-negative symbols) carry a column satisfying P; the symbol counter is not positive *)
Definition Refs (l : link) : Prop := forall a c s, In (a, (c, s)) (l_unlinked l) -> (0 <= s)%Z -> P c.
Definition RInv (l : link) : Prop := (l_cur l <= 0)%Z /\ Refs l.
Definition rf {A} (m : LM A) : Prop := forall l l' x, m l = (l', x) -> RInv l -> RInv l'.

Lemma rf_ret {A} (a : A) : rf (lret a).
Proof. intros l l' x H HI. injection H as <- _. exact HI. Qed.
Lemma rf_bind {A B} (m : LM A) (f : A -> LM B) : rf m -> (forall a, rf (f a)) -> rf (lbind m f).
Proof.
  intros Hm Hf l l' x H HI. unfold lbind in H. destruct (m l) as [l1 [a | e | |]] eqn:E.
  - exact (Hf a l1 l' x H (Hm l l1 _ E HI)).
  - injection H as <- _. exact (Hm l l1 _ E HI).
  - injection H as <- _. exact (Hm l l1 _ E HI).
  - injection H as <- _. exact (Hm l l1 _ E HI).
Qed.
Lemma rf_bind_ret {A B} (a : A) (f : A -> LM B) : rf (f a) -> rf (lbind (lret a) f).
Proof. intros H l l' x E. unfold lbind, lret in E. exact (H l l' x E). Qed.
Lemma rf_const {A} (x0 : res A) : rf (fun l => (l, x0)).
Proof. intros l l' x H HI. injection H as <- _. exact HI. Qed.
Lemma rf_lfail {A} code c : rf (@lfail A code c). Proof. apply rf_const. Qed.
Lemma rf_lfail_e {A} e : rf (@lfail_e A e). Proof. apply rf_const. Qed.
Lemma rf_lift {A} (r : res A) : rf (lift r). Proof. apply rf_const. Qed.
Lemma rf_same {A} (m : LM A) : (forall l l' x, m l = (l', x) -> l_unlinked l' = l_unlinked l /\ l_cur l' = l_cur l) -> rf m.
Proof. intros H l l' x E [Hc Hr]. destruct (H l l' x E) as [Hu Hcu]. split; [rewrite Hcu; exact Hc |]. unfold Refs. rewrite Hu. exact Hr. Qed.
Lemma rf_push op : rf (l_push op).
Proof. apply rf_same. intros l l' x H. unfold l_push in H. injection H as <- _. split; reflexivity. Qed.
Lemma rf_push_data v : rf (l_push_data v).
Proof. apply rf_same. intros l l' x H. unfold l_push_data in H. injection H as <- _. split; reflexivity. Qed.
Lemma rf_len : rf l_len.
Proof. apply rf_same. intros l l' x H. injection H as <- _. split; reflexivity. Qed.
Lemma rf_add_while k c s : rf (l_add_while k c s).
Proof. apply rf_same. intros l l' x H. injection H as <- _. split; reflexivity. Qed.
Lemma rf_push_symbol s : rf (l_push_symbol s).
Proof. apply rf_same. intros l l' x H. unfold l_push_symbol in H. injection H as <- _. split; reflexivity. Qed.

Lemma nassoc_set_in {V} k (v : V) : forall l k' v', In (k', v') (nassoc_set k v l) -> (k' = k /\ v' = v) \/ In (k', v') l.
Proof.
  induction l as [| [k0 v0] r IH]; intros k' v' H; cbn [nassoc_set] in H.
  - destruct H as [E | []]. injection E as <- <-. left. split; reflexivity.
  - destruct (k =? k0) eqn:Ek.
    + destruct H as [E | H]; [injection E as <- <-; left; split; reflexivity | right; right; exact H].
    + destruct H as [E | H]; [right; left; exact E |]. destruct (IH _ _ H) as [Lf | R]; [left; exact Lf | right; right; exact R].
Qed.

Lemma rf_unlink_here c s : ((0 <= s)%Z -> P c) -> rf (l_unlink_here c s).
Proof.
  intros Hp l l' x H [Hc Hr]. injection H as <- _. split; [exact Hc |]. intros a c' s' Hin Hs. cbn [l_unlinked] in Hin.
  apply nassoc_set_in in Hin. destruct Hin as [[_ E] | Hin]; [injection E as -> ->; exact (Hp Hs) | exact (Hr a c' s' Hin Hs)].
Qed.

(* a fresh local symbol is negative *)
Lemma rf_scope {B} (body : Z -> LM B) : (forall s, (s < 0)%Z -> rf (body s)) -> rf (lbind l_next_symbol body).
Proof.
  intros Hb l l' x H [Hc Hr]. unfold lbind, l_next_symbol in H.
  match type of H with body ?c ?l1 = _ => apply (Hb c ltac:(lia) l1 l' x H) end.
  split; [cbn [l_cur]; lia | exact Hr].
Qed.

Lemma fold_nset_in {V X} (g : X -> N) (h : X -> V) : forall fs acc k v,
  In (k, v) (fold_left (fun acc e => nassoc_set (g e) (h e) acc) fs acc) -> In (k, v) acc \/ exists e, In e fs /\ k = g e /\ v = h e.
Proof.
  induction fs as [| e r IH]; intros acc k v H; cbn [fold_left] in H; [left; exact H |].
  destruct (IH _ _ _ H) as [Hin | [e' [He' Ek]]].
  - apply nassoc_set_in in Hin. destruct Hin as [[-> ->] | Hin]; [right; exists e; split; [left; reflexivity | split; reflexivity] | left; exact Hin].
  - right. exists e'. split; [right; exact He' | exact Ek].
Qed.

Lemma rf_append f : RInv f -> rf (l_append f).
Proof.
  intros [Hcf Hrf] l l' x H [Hc Hr]. unfold l_append in H. destruct (l_direct_set l && _); [injection H as <- _; split; assumption |].
  assert (G : RInv (mkLink (l_cur l + l_cur f) (l_ops l ++ l_ops f) (l_data l) (l_data_pos l) (l_direct_set l)
                      (fold_left (fun acc e => zassoc_set (if (fst e <? 0)%Z then (fst e + l_cur l)%Z else fst e)
                                                          (fst (snd e) + lenN (l_ops l), snd (snd e) + lenN (l_data l)) acc) (l_syms f) (l_syms l))
                      (fold_left (fun acc e => nassoc_set (fst e + lenN (l_ops l))
                                                          (fst (snd e), if (snd (snd e) <? 0)%Z then (snd (snd e) + l_cur l)%Z else snd (snd e)) acc)
                                 (l_unlinked f) (l_unlinked l))
                      (l_whiles l ++ map (fun w => match w with (k, c, a, s) => (k, c, a + lenN (l_ops l), (s + l_cur l)%Z) end) (l_whiles f)))).
  { split; [cbn [l_cur]; lia |]. intros a c s Hin Hs. cbn [l_unlinked] in Hin.
    apply (fold_nset_in (fun e : N * (col * Z) => fst e + lenN (l_ops l))
                        (fun e : N * (col * Z) => (fst (snd e), if (snd (snd e) <? 0)%Z then (snd (snd e) + l_cur l)%Z else snd (snd e)))) in Hin.
    destruct Hin as [Hin | [[a0 [c0 s0]] [He [_ Ev]]]]; [exact (Hr a c s Hin Hs) |].
    cbn [fst snd] in Ev. injection Ev as -> ->. destruct (Z.ltb_spec s0 0); [lia |]. exact (Hrf a0 c0 s0 He Hs). }
  match type of H with context [MAX_POOL <? lenN (l_ops ?x)] => destruct (MAX_POOL <? lenN (l_ops x)) end.
  - injection H as <- _. exact G.
  - injection H as <- _. destruct G as [G1 G2]. split; [exact G1 | exact G2].
Qed.

Lemma rf_fold {A X} (xs : list X) (m0 : LM A) (step : LM A -> X -> LM A) :
  rf m0 -> (forall m x, rf m -> In x xs -> rf (step m x)) -> rf (fold_left step xs m0).
Proof.
  revert m0. induction xs as [| x r IH]; intros m0 H0 Hs; cbn [fold_left]; [exact H0 |].
  apply IH; [apply Hs; [exact H0 | left; reflexivity] | intros m y Hm Hy; apply Hs; [exact Hm | right; exact Hy]].
Qed.

Lemma rf_append_all fs : Forall (fun f : frag => RInv (snd f)) fs -> rf (append_all fs).
Proof.
  intros H. unfold append_all. apply rf_fold; [apply rf_ret |].
  intros m f Hm Hin. rewrite Forall_forall in H. apply rf_bind; [exact Hm | intros _; apply rf_append; exact (H f Hin)].
Qed.

Lemma run_frag_rinv (m : LM col) : rf m -> RInv (snd (fst (run_frag m))).
Proof.
  intros H. unfold run_frag.
  assert (H0 : RInv link_empty) by (split; [cbn; lia | intros a c s []]).
  destruct (m link_empty) as [l [c | e | |]] eqn:E; cbn [fst snd]; exact (H _ _ _ E H0).
Qed.
End RefCols.

Create HintDb rfy.
Ltac rfy :=
  repeat first
    [ apply rf_ret | apply rf_lfail | apply rf_lfail_e | apply rf_lift | apply rf_push | apply rf_push_data | apply rf_len
    | apply rf_add_while | apply rf_push_symbol | apply rf_const
    | apply rf_append; solve [assumption]
    | apply rf_unlink_here; solve [intros; lia | intros; cbn [fst snd]; auto]
    | solve [auto with rfy]
    | apply rf_scope; intros ? ?
    | apply rf_bind_ret; cbn [fst snd]
    | apply rf_bind; [| intros ?]
    | match goal with |- rf _ (match ?x with _ => _ end) => destruct x end
    | match goal with |- rf _ (if ?x then _ else _) => destruct x end ].

Section Helpers.
Variable P : col -> Prop.
Notation rf := (rf P).
Notation RInv := (RInv P).

Lemma rf_lit_len n : rf (lit_len n). Proof. unfold lit_len. rfy. Qed.
Lemma rf_test v s : rf (test_for_built_in v s). Proof. unfold test_for_built_in. rfy. Qed.
Hint Resolve rf_lit_len rf_test : rfy.
Lemma rf_push_as_expression v : RInv (vi_link v) -> rf (push_as_expression v).
Proof. intros H. unfold push_as_expression. rfy. Qed.
Lemma rf_push_as_pop v : RInv (vi_link v) -> rf (push_as_pop v).
Proof. intros H. unfold push_as_pop. rfy. Qed.
Lemma rf_push_as_pop_unary v : rf (push_as_pop_unary v).
Proof. unfold push_as_pop_unary. rfy. Qed.
Lemma rf_push_as_dim v : RInv (vi_link v) -> rf (push_as_dim v).
Proof. intros H. unfold push_as_dim. rfy. Qed.
Hint Resolve rf_push_as_expression rf_push_as_pop rf_push_as_pop_unary rf_push_as_dim rf_append_all : rfy.

Lemma rinv_empty : RInv link_empty.
Proof. split; [cbn; lia | intros a c s []]. Qed.

Lemma subfrags_rinv (args : list expr) :
  Forall (fun x => RInv (snd (fst (cg_expr x)))) args -> Forall (fun f : frag => RInv (snd f)) (map fst (map cg_expr args)).
Proof. intros H. induction H as [| x r Hx _ IH]; cbn [map]; constructor; assumption. Qed.

Theorem cg_expr_rinv : forall e, RInv (snd (fst (cg_expr e))).
Proof.
  induction e as [c i | c i args IH | c b | c b | c n | c s | c x IH | c x IH | c o a b IHa IHb] using expr_ind2; cbn [cg_expr].
  - apply run_frag_rinv. apply rf_push_as_expression. apply rinv_empty.
  - pose proof (subfrags_rinv args IH) as Hsub.
    match goal with |- context [run_frag ?m] => pose proof (run_frag_rinv P m ltac:(rfy)) as Hv; destruct (run_frag m) as [vf verrs] end.
    cbn [fst snd] in Hv.
    match goal with |- context [push_as_expression ?vi] =>
      assert (Hvi : RInv (vi_link vi)) by (destruct verrs; exact Hv);
      pose proof (run_frag_rinv P (push_as_expression vi) (rf_push_as_expression vi Hvi)) as He;
      destruct (run_frag (push_as_expression vi)) as [ef eerrs] end.
    exact He.
  - apply run_frag_rinv. rfy.
  - apply run_frag_rinv. rfy.
  - apply run_frag_rinv. rfy.
  - apply run_frag_rinv. rfy.
  - destruct (cg_expr x) as [xf xerrs]. cbn [fst snd] in IH.
    match goal with |- context [run_frag ?m] => pose proof (run_frag_rinv P m ltac:(rfy)) as Hv; destruct (run_frag m) as [f errs] end. exact Hv.
  - destruct (cg_expr x) as [xf xerrs]. cbn [fst snd] in IH.
    match goal with |- context [run_frag ?m] => pose proof (run_frag_rinv P m ltac:(rfy)) as Hv; destruct (run_frag m) as [f errs] end. exact Hv.
  - destruct (cg_expr a) as [af aerrs]. destruct (cg_expr b) as [bf berrs]. cbn [fst snd] in IHa, IHb.
    match goal with |- context [run_frag ?m] => pose proof (run_frag_rinv P m ltac:(rfy)) as Hv; destruct (run_frag m) as [f errs] end. exact Hv.
Qed.

Lemma exprs_rinv (l : list expr) : Forall (fun f : frag => RInv (snd f)) (map fst (map cg_expr l)).
Proof. apply subfrags_rinv. apply Forall_forall. intros x _. apply cg_expr_rinv. Qed.

Theorem cg_var_rinv : forall v, RInv (vi_link (fst (cg_var v))).
Proof.
  destruct v as [c i | c i args]; cbn [cg_var]; [apply rinv_empty |].
  pose proof (exprs_rinv args) as Hsub.
  match goal with |- context [run_frag ?m] => pose proof (run_frag_rinv P m ltac:(rfy)) as Hv; destruct (run_frag m) as [vf verrs] end.
  cbn [fst snd] in *. destruct verrs; exact Hv.
Qed.

Lemma vars_rinv (l : list var) : Forall (fun v => RInv (vi_link v)) (map fst (map cg_var l)).
Proof. induction l as [| v r IH]; cbn [map]; constructor; [apply cg_var_rinv | exact IH]. Qed.
End Helpers.

#[export] Hint Resolve rf_lit_len rf_test rf_push_as_expression rf_push_as_pop rf_push_as_pop_unary rf_push_as_dim rf_append_all : rfy.

Section Stmts.
Variable P : col -> Prop.
Notation rf := (rf P).
Notation RInv := (RInv P).

Lemma rf_push_jump c s : ((0 <= s)%Z -> P c) -> rf (l_push_jump c s). Proof. intros H. unfold l_push_jump. rfy. Qed.
Lemma rf_push_ifnot c s : ((0 <= s)%Z -> P c) -> rf (l_push_ifnot c s). Proof. intros H. unfold l_push_ifnot. rfy. Qed.
Lemma rf_push_return_val c s : ((0 <= s)%Z -> P c) -> rf (l_push_return_val c s). Proof. intros H. unfold l_push_return_val. rfy. Qed.
Lemma rf_sym_of_line n : rf (sym_of_line n). Proof. unfold sym_of_line. rfy. Qed.
Hint Resolve rf_sym_of_line : rfy.
Lemma rf_push_goto c n : P c -> rf (l_push_goto c n).
Proof. intros H. unfold l_push_goto. apply rf_bind; [rfy | intros s]. apply rf_push_jump. intros _. exact H. Qed.
Lemma rf_push_gosub c n : P c -> rf (l_push_gosub c n).
Proof.
  intros H. unfold l_push_gosub. apply rf_scope. intros ret Hret. apply rf_bind; [apply rf_push_return_val; intros; lia | intros _].
  apply rf_bind; [rfy | intros s]. apply rf_bind; [apply rf_push_jump; intros _; exact H | intros _]. rfy.
Qed.
Lemma rf_push_for c : rf (l_push_for c). Proof. unfold l_push_for. rfy. Qed.
Lemma rf_push_wend c : rf (l_push_wend c). Proof. unfold l_push_wend. rfy. Qed.
Lemma rf_push_while c e : RInv e -> rf (l_push_while c e). Proof. intros H. unfold l_push_while. rfy. Qed.
Lemma rf_push_def_fn c name vars body : RInv body -> rf (l_push_def_fn c name vars body).
Proof.
  intros H. unfold l_push_def_fn. apply rf_bind; [rfy | intros len]. apply rf_bind; [rfy | intros _]. apply rf_bind; [rfy | intros _].
  apply rf_scope. intros skip Hs. apply rf_bind; [apply rf_push_jump; intros; lia | intros _].
  apply rf_bind; [apply rf_fold; [rfy | intros m x Hm _; rfy] | intros _]. rfy.
Qed.
Lemma rf_push_restore c n : (n <> None -> P c) -> rf (l_push_restore c n).
Proof. intros H. unfold l_push_restore. destruct n as [k |]; [| rfy]. apply rf_bind; [apply rf_unlink_here; intros _; apply H; discriminate | intros _; rfy]. Qed.
Lemma rf_push_run c n : (n <> None -> P c) -> rf (l_push_run c n).
Proof. intros H. unfold l_push_run. apply rf_bind; [rfy | intros _]. destruct n as [k |]; [| rfy].
  apply rf_bind; [apply rf_unlink_here; intros _; apply H; discriminate | intros _; rfy]. Qed.
Lemma rf_pop_line_number f : rf (pop_line_number f). Proof. unfold pop_line_number. rfy. Qed.
Lemma rf_val_of_line n : rf (val_of_line n). Proof. unfold val_of_line. rfy. Qed.
Lemma rf_simple c op : rf (simple c op). Proof. unfold simple. rfy. Qed.
Hint Resolve rf_push_for rf_push_wend rf_push_while rf_push_def_fn rf_pop_line_number rf_val_of_line rf_simple : rfy.
Lemma rf_cg_range c a b op : rf (cg_range c a b op). Proof. unfold cg_range. rfy. Qed.
Lemma rf_cg_deftype c a b op : rf (cg_deftype c a b op). Proof. unfold cg_deftype. rfy. Qed.
Hint Resolve rf_cg_range rf_cg_deftype : rfy.
Lemma rf_on_targets c : forall ts se, Forall (fun t : frag => P (fst t)) ts -> rf (cg_on_targets c ts se).
Proof.
  induction ts as [| t r IH]; intros se H; cbn [cg_on_targets]; [rfy |]. inversion H as [| ? ? Ht Hr]; subst.
  destruct (link_line_number (snd t)); rfy.
Qed.
End Stmts.

#[export] Hint Resolve rf_sym_of_line rf_push_for rf_push_wend rf_push_while rf_push_def_fn rf_pop_line_number rf_val_of_line rf_simple
  rf_cg_range rf_cg_deftype : rfy.

(* ---------- every statement ---------- *)
Section Final.
Variable all : list token.
Notation P := (num_range all).

Lemma fin_rinv (pre : list error) (m : LM col) :
  rf P m -> RInv P (snd (fst (let '(f, errs) := run_frag m in (f, pre ++ errs)))).
Proof. intros H. pose proof (run_frag_rinv P m H) as G. destruct (run_frag m) as [[c0 l0] errs]. exact G. Qed.

Lemma transform_rinv c f : RInv P f -> RInv P (fst (l_transform_to_data c f)).
Proof.
  intros [H1 H2]. unfold l_transform_to_data, l_push_data.
  destruct (l_ops f) as [| a [| b [| d r]]]; try (cbn; split; assumption).
  all: destruct a; try (cbn; split; assumption).
  all: destruct b; try (cbn; split; assumption).
  destruct (op_negate v); cbn; split; assumption.
Qed.

(* the code of a line-number literal: its column is the literal's, and a "none" marker yields no line *)
Lemma lit_frag : forall c b, cg_expr (ESng c b) = ((c, mkLink 0 [OpLiteral (VSng b)] [] 0 false [] [] []), []).
Proof. intros c b. reflexivity. Qed.
Lemma marker_no_line : link_line_number (mkLink 0 [OpLiteral (VSng (f32_of_Z (-1)))] [] 0 false [] [] []) = Err (mkErr E_UndefinedLine None (0, 0))
                       \/ exists e, link_line_number (mkLink 0 [OpLiteral (VSng (f32_of_Z (-1)))] [] 0 false [] [] []) = Err e.
Proof. right. vm_compute. eexists. reflexivity. Qed.

Ltac sub_frags_r :=
  repeat match goal with
         | |- context [cg_expr ?e] => let H := fresh "Hn" in pose proof (cg_expr_rinv P e) as H; destruct (cg_expr e) as [? ?]; cbn [fst snd] in H
         | |- context [cg_var ?v] => let H := fresh "Hn" in pose proof (cg_var_rinv P v) as H; destruct (cg_var v) as [? ?]; cbn [fst snd] in H
         end.
Ltac fold_rf H :=
  apply rf_fold; [rfy | let m := fresh "m" in let x := fresh "x" in let Hm := fresh "Hm" in let Hin := fresh "Hin" in
                        intros m x Hm Hin; rewrite Forall_forall in H; specialize (H x Hin); rfy].

Lemma goto_refs c e : good_lnum all e -> RInv P (snd (fst (cg_stmt (SGoto c e)))).
Proof.
  intros Hg. destruct e as [| | c0 b0 | | | | | |]; try contradiction. cbn [good_lnum] in Hg.
  cbn [cg_stmt]. rewrite lit_frag. apply fin_rinv. unfold pop_line_number. cbn [snd fst].
  destruct (link_line_number _); rfy.
Qed.
Lemma gosub_refs c e : good_lnum all e -> RInv P (snd (fst (cg_stmt (SGosub c e)))).
Proof.
  intros Hg. destruct e as [| | c0 b0 | | | | | |]; try contradiction. cbn [good_lnum] in Hg.
  cbn [cg_stmt]. rewrite lit_frag. apply fin_rinv. unfold pop_line_number. cbn [snd fst].
  destruct (link_line_number _); rfy.
Qed.

Lemma str_frag : forall c s, cg_expr (EStr c s) = ((c, mkLink 0 [OpLiteral (VStr s)] [] 0 false [] [] []), []).
Proof. intros. reflexivity. Qed.
Lemma str_no_line : forall s, exists e, link_line_number (mkLink 0 [OpLiteral (VStr s)] [] 0 false [] [] []) = Err e.
Proof. intros. eexists. cbn. reflexivity. Qed.
Lemma marker_no_line2 : exists e, link_line_number (mkLink 0 [OpLiteral (VSng (f32_of_Z (-1)))] [] 0 false [] [] []) = Err e.
Proof. eexists. vm_compute. reflexivity. Qed.

Lemma targets_cols : forall l, Forall (good_lnum all) l -> Forall (fun t : frag => P (fst t)) (map fst (map cg_expr l)).
Proof.
  induction l as [| e r IH]; intros H; cbn [map]; [constructor |]. inversion H as [| ? ? He Hr]; subst.
  constructor; [| exact (IH Hr)]. destruct e; try contradiction. rewrite lit_frag. exact He.
Qed.

Lemma target_line : forall e, good_target all e ->
  (match link_line_number (snd (fst (cg_expr e))) with Ok n => n | _ => None end) <> None -> P (fst (fst (cg_expr e))).
Proof.
  intros e Hg Hn. destruct e as [| | c0 b0 | | | c0 s0 | | |]; try contradiction; cbn [good_target] in Hg.
  rewrite lit_frag in *. cbn [fst snd] in *. destruct Hg as [-> | Hg]; [| exact Hg].
  destruct marker_no_line2 as [e0 E]. rewrite E in Hn. contradiction.
Qed.

Lemma restore_refs c e : good_target all e -> RInv P (snd (fst (cg_stmt (SRestore c e)))).
Proof.
  intros Hg. cbn [cg_stmt]. pose proof (target_line e Hg) as Ht. destruct (cg_expr e) as [f x]. cbn [fst snd] in Ht.
  apply fin_rinv. apply rf_bind; [apply rf_push_restore; exact Ht | intros _; rfy].
Qed.
Lemma run_refs c e : good_target all e -> RInv P (snd (fst (cg_stmt (SRun c e)))).
Proof.
  intros Hg. cbn [cg_stmt]. pose proof (target_line e Hg) as Ht. destruct (cg_expr e) as [f x]. cbn [fst snd] in Ht.
  apply fin_rinv. apply rf_bind; [| intros _; rfy]. destruct (link_string (snd f)); [rfy | apply rf_push_run; exact Ht].
Qed.
Lemma on_refs (gosub : bool) c e l : Forall (good_lnum all) l ->
  RInv P (snd (fst (cg_stmt (if gosub then SOnGosub c e l else SOnGoto c e l)))).
Proof.
  intros Hg. pose proof (targets_cols l Hg) as Ht. pose proof (cg_expr_rinv P e) as He.
  destruct gosub; cbn [cg_stmt]; destruct (cg_expr e) as [ef x0]; cbn [fst snd] in He; apply fin_rinv.
  - apply rf_bind; [rfy | intros lenv]. apply rf_scope. intros ret Hret.
    apply rf_bind; [apply rf_push_return_val; intros; lia | intros _]. apply rf_bind; [rfy | intros _]. apply rf_bind; [rfy | intros _].
    apply rf_bind; [rfy | intros _]. apply rf_bind; [apply rf_on_targets; exact Ht | intros se]. rfy.
  - apply rf_bind; [rfy | intros lenv]. apply rf_scope. intros ret Hret.
    apply rf_bind; [rfy | intros _]. apply rf_bind; [rfy | intros _]. apply rf_bind; [rfy | intros _].
    apply rf_bind; [rfy | intros _]. apply rf_bind; [apply rf_on_targets; exact Ht | intros se]. rfy.
Qed.

Theorem cg_stmt_refs : forall s, good_stmt all s -> RInv P (snd (fst (cg_stmt s))).
Proof.
  induction s as [c p th el IHth IHel | s Hs] using stmt_ind2; intros Hg.
  - (* IF *)
    apply good_if in Hg. destruct Hg as [Gth Gel].
    cbn [cg_stmt]. pose proof (cg_expr_rinv P p) as Hp. destruct (cg_expr p) as [pf x0]. cbn [fst snd] in Hp.
    assert (Hl : forall l, Forall (fun s => good_stmt all s -> RInv P (snd (fst (cg_stmt s)))) l -> good_stmts all l ->
                 Forall (fun f : frag => RInv P (snd f)) (map fst (map cg_stmt l))).
    { induction l as [| x r IHr]; intros HF HG; cbn [map]; [constructor |]. cbn [good_stmts] in HG. destruct HG as [Gx Gr].
      inversion HF as [| ? ? Hx Hr]; subst. constructor; [exact (Hx Gx) | exact (IHr Hr Gr)]. }
    pose proof (Hl th IHth Gth) as Hth. pose proof (Hl el IHel Gel) as Hel.
    apply fin_rinv.
    apply rf_bind; [rfy |]. intros _. apply rf_scope. intros es Hes.
    apply rf_bind; [apply rf_push_ifnot; intros; lia |]. intros _.
    apply rf_bind; [apply rf_append_all; exact Hth |]. intros _.
    destruct (map cg_stmt el) as [| g0 gs] eqn:Eg; [rfy |].
    apply rf_scope. intros fs Hfs. apply rf_bind; [apply rf_push_jump; intros; lia |]. intros _. rfy.
  - destruct s; try contradiction; cbn [good_stmt] in Hg.
    (* the statements with line-number operands first *)
    all: try lazymatch goal with
         | |- RInv _ (snd (fst (cg_stmt (SGoto _ ?e)))) =>
             destruct e as [| | c0 b0 | | | | | |]; try contradiction; cbn [good_lnum] in Hg;
             cbn [cg_stmt]; rewrite lit_frag; apply fin_rinv; unfold pop_line_number; cbn [snd fst];
             destruct (link_line_number _); rfy; apply rf_push_goto; exact Hg
         | |- RInv _ (snd (fst (cg_stmt (SGosub _ ?e)))) =>
             destruct e as [| | c0 b0 | | | | | |]; try contradiction; cbn [good_lnum] in Hg;
             cbn [cg_stmt]; rewrite lit_frag; apply fin_rinv; unfold pop_line_number; cbn [snd fst];
             destruct (link_line_number _); rfy; apply rf_push_gosub; exact Hg
         end.
    all: try lazymatch goal with
         | |- RInv _ (snd (fst (cg_stmt (SRestore _ _)))) => apply restore_refs; exact Hg
         | |- RInv _ (snd (fst (cg_stmt (SRun _ _)))) => apply run_refs; exact Hg
         | |- RInv _ (snd (fst (cg_stmt (SOnGoto ?c ?e ?l)))) => exact (on_refs false c e l Hg)
         | |- RInv _ (snd (fst (cg_stmt (SOnGosub ?c ?e ?l)))) => exact (on_refs true c e l Hg)
         end.
    all: cbn [cg_stmt]; sub_frags_r.
    all: try (pose proof (exprs_rinv P l) as Hl); try (pose proof (vars_rinv P l) as Hl); try (pose proof (vars_rinv P params) as Hps).
    all: apply fin_rinv.
    all: try solve [rfy].
    all: try solve [rfy; fold_rf Hl].
    (* DATA *)
    apply rf_bind; [| intros _; rfy]. apply rf_fold; [rfy |]. intros m f Hm Hin. rewrite Forall_forall in Hl. specialize (Hl f Hin).
    apply rf_bind; [exact Hm |]. intros _. pose proof (transform_rinv (fst f) (snd f) Hl) as Ht.
    destruct (l_transform_to_data (fst f) (snd f)) as [f' [u | e | |]]; cbn [fst] in Ht;
      [apply rf_append; exact Ht | | |]; apply rf_const.
Qed.

End Final.

(* for a whole parsed line: every reference to a program line that its code leaves for the linker carries the range of a
   number token of the line *)
Theorem line_references_carry_number_ranges : forall n toks ast s, parse n toks = Ok ast -> In s ast ->
  forall a c sym, In (a, (c, sym)) (l_unlinked (snd (fst (cg_stmt s)))) -> (0 <= sym)%Z -> num_range toks c.
Proof.
  intros n toks ast s Hp Hin. pose proof (parse_columns_exact n toks ast Hp) as Hg.
  assert (Gs : good_stmt toks s).
  { clear Hp. induction ast as [| x r IH]; [contradiction |]. cbn [good_stmts] in Hg. destruct Hg as [Gx Gr].
    destruct Hin as [<- | Hin]; [exact Gx | exact (IH Hin Gr)]. }
  intros a c sym. exact (proj2 (cg_stmt_refs toks s Gs) a c sym).
Qed.
