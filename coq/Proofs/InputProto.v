(* C17: the INPUT protocol -- prompt, reply accepted or refused as a whole, conversion of a field, retry. *)
From BL Require Import Base.Prelude Base.Floats Mach.Val Mach.Ops Mach.Func Mach.Var
     Lang.Token Lang.Ast Mach.Compile Mach.Listing Mach.Runtime Proofs.Input.
From Coq Require Import Lia.
Local Open Scope N_scope.

Section Proto.
Variable O : oracle.

(* the prompt: the program's prompt text followed by "? "; the cursor goes to column 0; the count and the flag stay on the
   stack for the reply; capitals are off exactly when the flag is the Integer 0 (the leading-comma form) *)
Theorem prompt_event : forall r len caps p rest k, r_state r = StInput -> r_stack r = len :: caps :: VStr p :: rest ->
  r_slen r <= MAX_POOL ->
  exists r', rt_execute O r k = Ok (r', EvInput (p ++ [63; 32]) (negb (match caps with VInt n => (n =? 0)%Z | _ => false end)))
             /\ r_stack r' = len :: caps :: VStr p :: rest /\ r_col r' = 0 /\ r_vars r' = r_vars r /\ r_pc r' = r_pc r.
Proof.
  intros r len caps p rest k Hst Hs Hl. unfold rt_execute. rewrite Hst. unfold execute_input, rbind, pop, rget. rewrite Hs.
  cbn [set_stack_len r_stack r_slen]. unfold push. cbn [set_stack_len r_stack r_slen].
  assert (E1 : MAX_POOL <? r_slen r - 1 - 1 + 1 = false) by (apply N.ltb_ge; unfold MAX_POOL in *; lia). rewrite E1.
  assert (E2 : MAX_POOL <? r_slen r - 1 - 1 + 1 + 1 = false) by (apply N.ltb_ge; unfold MAX_POOL in *; lia). rewrite E2.
  cbn. eexists. split; [reflexivity |]. cbn. repeat split; reflexivity.
Qed.

(* a reply with the wrong number of fields (more than one variable) is refused as a whole: nothing but the state changes *)
Theorem wrong_field_count : forall r s n rest, r_stack r = VInt n :: rest -> (1 < n)%Z -> utf8_len s <= MAX_LINE_LEN ->
  Z.of_N (lenN (split_fields s [] false)) <> n -> enter_input O r s = set_state r StInputRedo.
Proof.
  intros r s n rest Hs Hn Hlen Hc. unfold enter_input. destruct (N.ltb_spec MAX_LINE_LEN (utf8_len s)); [lia |]. rewrite Hs.
  destruct (Z.leb_spec n 1); [lia |]. cbn [negb andb]. destruct (Z.eqb_spec (Z.of_N (lenN (split_fields s [] false))) n); [contradiction | reflexivity].
Qed.

Theorem long_reply_refused : forall r s, MAX_LINE_LEN < utf8_len s -> enter_input O r s = set_state r StInputRedo.
Proof. intros r s H. unfold enter_input. destruct (N.ltb_spec MAX_LINE_LEN (utf8_len s)); [reflexivity | lia]. Qed.

(* the refusal is reported as REDO FROM START and the machine goes back to prompting, with everything else as it was *)
Theorem redo_reported : forall r k, r_state r = StInputRedo ->
  rt_execute O r k = Ok (set_state r StInput, EvErrors [mkErr E_Redo None (0, 0)]).
Proof. intros r k H. unfold rt_execute. rewrite H. reflexivity. Qed.

Lemma rbind_ok {A B} (m : RM A) (f : A -> RM B) r r1 a : m r = (r1, Ok a) -> rbind m f r = f a r1.
Proof. intros H. unfold rbind. rewrite H. reflexivity. Qed.

(* pushing the fields of an accepted reply *)
Lemma push_fields : forall fs r, r_slen r + lenN fs <= MAX_POOL ->
  fold_left (fun m f => rdo _ <~ m ;; push (VStr f)) fs (rret tt) r
  = (set_stack_len r (rev (map VStr fs) ++ r_stack r) (r_slen r + lenN fs), Ok tt).
Proof.
  intros fs. 
  assert (G : forall (m0 : RM unit) r r0, m0 r = (r0, Ok tt) -> r_slen r0 + lenN fs <= MAX_POOL ->
            fold_left (fun m f => rdo _ <~ m ;; push (VStr f)) fs m0 r
            = (set_stack_len r0 (rev (map VStr fs) ++ r_stack r0) (r_slen r0 + lenN fs), Ok tt)).
  { induction fs as [| f fs' IH]; intros m0 r r0 H0 Hl.
    - cbn [fold_left map rev app]. rewrite H0. unfold lenN. cbn [length N.of_nat]. rewrite N.add_0_r. destruct r0; reflexivity.
    - cbn [fold_left]. assert (Hl1 : lenN (f :: fs') = 1 + lenN fs') by (unfold lenN; cbn [length]; lia). rewrite Hl1 in Hl.
      rewrite (IH _ r (set_stack_len r0 (VStr f :: r_stack r0) (r_slen r0 + 1))).
      + cbn [set_stack_len r_stack r_slen map rev]. rewrite <- app_assoc. cbn [app]. rewrite Hl1.
        replace (r_slen r0 + 1 + lenN fs') with (r_slen r0 + (1 + lenN fs')) by lia. destruct r0; reflexivity.
      + unfold rbind. rewrite H0. unfold push. cbn [set_stack_len r_slen]. destruct (N.ltb_spec MAX_POOL (r_slen r0 + 1)); [lia | reflexivity].
      + cbn [set_stack_len r_slen]. lia. }
  intros r Hl. apply (G (rret tt) r r eq_refl Hl).
Qed.

(* a reply with the right number of fields is accepted as a whole: a return address goes under the fields, the first field
   ends up on top, and the statement is run again in its reading mode; variables are untouched at this point *)
Theorem reply_accepted : forall r s n rest, r_stack r = VInt n :: rest -> utf8_len s <= MAX_LINE_LEN ->
  let fields := if (n <=? 1)%Z then [s] else split_fields s [] false in
  ((n <=? 1)%Z = true \/ Z.of_N (lenN fields) = n) -> r_slen r + 1 + lenN fields <= MAX_POOL ->
  let r' := enter_input O r s in
  r_stack r' = map VStr fields ++ VRet (r_pc r) :: VInt n :: rest /\ r_state r' = StInputRunning
  /\ r_vars r' = r_vars r /\ r_pc r' = r_pc r /\ r_prog r' = r_prog r.
Proof.
  intros r s n rest Hs Hlen fields Hc Hsp. unfold enter_input. destruct (N.ltb_spec MAX_LINE_LEN (utf8_len s)); [lia |]. rewrite Hs.
  fold fields.
  assert (Hgo : negb (n <=? 1)%Z && negb (Z.of_N (lenN fields) =? n)%Z = false).
  { destruct Hc as [H1 | H2]; [rewrite H1; reflexivity |]. rewrite H2, Z.eqb_refl. apply Bool.andb_false_r. }
  rewrite Hgo.
  assert (Ep : push (VRet (r_pc r)) r = (set_stack_len r (VRet (r_pc r) :: r_stack r) (r_slen r + 1), Ok tt)).
  { unfold push. cbn [set_stack_len r_slen]. destruct (N.ltb_spec MAX_POOL (r_slen r + 1)); [lia | reflexivity]. }
  rewrite (rbind_ok _ _ _ _ _ Ep).
  assert (Ef : fold_left (fun m f => rdo _ <~ m ;; push (VStr f)) (rev fields) (rret tt)
                 (set_stack_len r (VRet (r_pc r) :: r_stack r) (r_slen r + 1))
               = (set_stack_len (set_stack_len r (VRet (r_pc r) :: r_stack r) (r_slen r + 1))
                    (rev (map VStr (rev fields)) ++ VRet (r_pc r) :: r_stack r) (r_slen r + 1 + lenN (rev fields)), Ok tt)).
  { apply push_fields. cbn [set_stack_len r_slen]. unfold lenN in *. rewrite rev_length. lia. }
  rewrite (rbind_ok _ _ _ _ _ Ef). unfold rmod. cbn [set_stack_len r_stack r_slen set_state r_state r_vars r_pc r_prog].
  rewrite map_rev, rev_involutive, Hs. repeat split; reflexivity.
Qed.

(* one field, one variable: a string variable takes the trimmed field without one pair of enclosing quotes, a numeric
   variable takes 0 for an empty field and the number the text denotes otherwise *)
Theorem field_conversion : forall r name field rest c0 nm, r_state r = StInputRunning -> name = c0 :: nm ->
  r_stack r = VStr field :: rest -> r_slen r <= MAX_POOL ->
  do_input name r =
  (set_stack_len r ((if ends_with_chr name 36 then VStr (strip_quotes (trim field))
                     else match trim field with [] => VInt 0 | f => val_from_str f end) :: rest) (r_slen r - 1 + 1), Ok None).
Proof.
  intros r name field rest c0 nm Hst -> Hs Hl. unfold do_input, rbind, rget. rewrite Hst. unfold pop. rewrite Hs.
  cbn [set_stack_len r_stack r_slen].
  assert (E1 : MAX_POOL <? r_slen r - 1 + 1 = false) by (apply N.ltb_ge; unfold MAX_POOL in *; lia).
  destruct (ends_with_chr (c0 :: nm) 36); [unfold push; cbn [set_stack_len r_stack r_slen]; rewrite E1; reflexivity |].
  destruct (trim field); unfold push; cbn [set_stack_len r_stack r_slen]; rewrite E1; reflexivity.
Qed.


(* the retry after a field that cannot be converted (or any other error while the reply is being stored): the stack is cut
   back to below the return address that accepting the reply had pushed, control goes back to that address -- the INPUT
   statement -- and the reply is refused; with redo_reported and prompt_event: REDO FROM START, then the same prompt *)
Lemma unwind_spec : forall above a below, (forall v, In v above -> match v with VRet _ => False | _ => True end) ->
  unwind_input (above ++ VRet a :: below) = (below, Some a).
Proof.
  induction above as [| v r IH]; intros a below H; cbn [app unwind_input]; [reflexivity |].
  pose proof (H v (or_introl eq_refl)) as Hv. destruct v; try contradiction; apply IH; intros w Hw; apply H; right; exact Hw.
Qed.

Theorem store_error_retries : forall r k r2 e above a below,
  r_state r = StInputRunning -> ls_dir_errors (r_listing r) = [] ->
  exec_loop O (N.to_nat k) (match ls_ind_errors (r_listing r) with [] => false | _ => true end) r = (r2, Err e) ->
  r_state r2 = StInputRunning -> r_stack r2 = above ++ VRet a :: below ->
  (forall v, In v above -> match v with VRet _ => False | _ => True end) ->
  rt_execute O r k = Ok (set_state (set_pc (set_stack r2 below) a) StInputRedo, EvRunning).
Proof.
  intros r k r2 e above a below Hst Hd Hex Hst2 Hs Hab. unfold rt_execute. rewrite Hst, Hd. cbn [bind]. rewrite Hst.
  rewrite Hex, Hst2, Hs, (unwind_spec above a below Hab). reflexivity.
Qed.

End Proto.
