(* C17: how a reply to INPUT is cut into fields. *)
From BL Require Import Base.Prelude Base.Floats Mach.Val Mach.Ops Mach.Func Mach.Var
     Lang.Token Lang.Lex Lang.Ast Lang.Parse Mach.Compile Mach.Listing Mach.Runtime.
From Coq Require Import Lia String.
Local Open Scope N_scope.

Fixpoint join_commas (fs : list str) : str :=
  match fs with
  | [] => []
  | [f] => f
  | f :: rest => f ++ 44 :: join_commas rest
  end.

Lemma split_nonempty : forall s cur q, split_fields s cur q <> [].
Proof.
  induction s as [| c r IH]; intros cur q; cbn [split_fields]; [discriminate |].
  destruct (c =? 34); [apply IH |]. destruct ((c =? 44) && negb q); [discriminate | apply IH].
Qed.

(* nothing is lost or invented: putting the commas back gives the reply *)
Lemma split_join_gen : forall s cur q, join_commas (split_fields s cur q) = rev cur ++ s.
Proof.
  induction s as [| c r IH]; intros cur q; cbn [split_fields].
  - cbn. rewrite app_nil_r. reflexivity.
  - destruct (c =? 34) eqn:E34.
    + rewrite IH. cbn. rewrite <- app_assoc. reflexivity.
    + destruct ((c =? 44) && negb q) eqn:E44.
      * apply andb_prop in E44. destruct E44 as [E44 _]. apply N.eqb_eq in E44. subst c.
        cbn [join_commas]. pose proof (split_nonempty r [] q) as Hne.
        destruct (split_fields r [] q) eqn:Es; [contradiction |]. rewrite <- Es, IH. reflexivity.
      * rewrite IH. cbn. rewrite <- app_assoc. reflexivity.
Qed.

Theorem split_join : forall s, join_commas (split_fields s [] false) = s.
Proof. intros s. apply (split_join_gen s [] false). Qed.

(* a field: no comma outside double quotes; the result is the quote state at its end *)
Fixpoint scan (f : str) (q : bool) : option bool :=
  match f with
  | [] => Some q
  | c :: r => if c =? 34 then scan r (negb q)
              else if (c =? 44) && negb q then None
              else scan r q
  end.

Lemma split_through_field : forall f rest cur q q', scan f q = Some q' ->
  split_fields (f ++ rest) cur q = split_fields rest (rev f ++ cur) q'.
Proof.
  induction f as [| c f IH]; intros rest cur q q' H; cbn in H |- *; [injection H as <-; reflexivity |].
  destruct (c =? 34); [rewrite (IH rest (c :: cur) (negb q) q' H), <- app_assoc; reflexivity |].
  destruct ((c =? 44) && negb q); [discriminate |].
  rewrite (IH rest (c :: cur) q q' H), <- app_assoc. reflexivity.
Qed.

(* a reply made of n fields whose quotes are closed, separated by commas, is split into exactly those n fields *)
Theorem split_exact : forall fs, fs <> [] -> Forall (fun f => scan f false = Some false) fs ->
  split_fields (join_commas fs) [] false = fs.
Proof.
  induction fs as [| f rest IH]; intros Hne Hall; [contradiction |].
  inversion Hall as [| ? ? Hf Hrest]; subst.
  destruct rest as [| g rest'].
  - cbn [join_commas]. rewrite <- (app_nil_r f) at 1. rewrite (split_through_field f [] [] false false Hf).
    cbn. rewrite app_nil_r, rev_involutive. reflexivity.
  - cbn [join_commas]. rewrite (split_through_field f _ [] false false Hf). cbn [split_fields].
    cbn. rewrite app_nil_r, rev_involutive. f_equal. apply IH; [discriminate | exact Hrest].
Qed.

(* a comma inside double quotes does not separate *)
Example quoted_comma : split_fields (s2l "1,""a,b"",3"%string) [] false = [s2l "1"%string; s2l """a,b"""%string; s2l "3"%string].
Proof. vm_compute. reflexivity. Qed.

(* ---------- earlier local lemmas ---------- *)

Lemma old_C17_split_single : forall s, ~ In 44 s -> ~ In 34 s -> split_fields s [] false = [s].
Proof.
  intros s Hc Hq.
  assert (G : forall cur, split_fields s cur false = [rev cur ++ s]).
  { induction s as [| c r IH]; intros cur; cbn.
    - rewrite app_nil_r. reflexivity.
    - destruct (N.eqb_spec c 34) as [-> | H1]; [exfalso; apply Hq; left; reflexivity |].
      destruct (N.eqb_spec c 44) as [-> | H2]; [exfalso; apply Hc; left; reflexivity |].
      cbn. rewrite IH.
      + cbn. rewrite <- app_assoc. reflexivity.
      + intros Hin; apply Hc; right; exact Hin.
      + intros Hin; apply Hq; right; exact Hin. }
  exact (G []).
Qed.
