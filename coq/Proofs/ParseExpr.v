(* C02: the expression parser builds the tree the precedence table prescribes.
   For every expression tree over identifiers, literals, array elements / function calls with any number of arguments,
   unary minus, NOT and the binary operators, the parser
   (Lang/Parse.v: descend / climb, precedence climbing with a one-token look-ahead), run on the tokens of the tree's
   minimally parenthesised rendering, returns that tree (columns aside) and stops in front of whatever follows. *)
From BL Require Import Base.Prelude Base.Floats Base.Decimal Lang.Token Lang.Ast Mach.Func Lang.Parse.
From Coq Require Import Lia.
Local Open Scope N_scope.

(* ---------- the parser state as a list of pending tokens ---------- *)
Definition clean (t : token) : bool :=
  negb (is_rem_tok t) && match t with TWs _ => false | _ => true end.

(* what the parser sees of a token list: everything but the blanks (they only move the column) *)
Definition vis (toks : list token) : list token := filter (fun t => match t with TWs _ => false | _ => true end) toks.
Definition no_rem (toks : list token) : bool := forallb (fun t => negb (is_rem_tok t)) toks.

(* st stands in front of the tokens ts (blanks between them not counted): nothing or exactly the first of them is held in
   the look-ahead slot *)
Definition rep (st : pst) (ts : list token) : Prop :=
  p_rem st = false /\ forallb clean ts = true /\ no_rem (p_toks st) = true /\
  ((p_peek st = None /\ vis (p_toks st) = ts) \/ (exists t r, p_peek st = Some t /\ ts = t :: r /\ vis (p_toks st) = r)).

Lemma next_raw_vis : forall toks ce t r, no_rem toks = true -> vis toks = t :: r ->
  exists toks' cs ce', next_raw toks false ce = (Some t, toks', false, cs, ce') /\ vis toks' = r /\ no_rem toks' = true.
Proof.
  induction toks as [| t0 rest IH]; intros ce t r Hn Hv; [discriminate |].
  cbn [no_rem forallb] in Hn. apply andb_prop in Hn. destruct Hn as [Hn0 Hnr]. apply Bool.negb_true_iff in Hn0.
  cbn [next_raw orb]. rewrite Hn0. cbn [vis filter] in Hv. destruct t0; try (injection Hv as <- <-; eexists; eexists; eexists; split; [reflexivity | split; [reflexivity | exact Hnr]]).
  exact (IH _ t r Hnr Hv).
Qed.

Lemma next_raw_vis_nil : forall toks ce, no_rem toks = true -> vis toks = [] -> exists ce', next_raw toks false ce = (None, [], false, ce', ce').
Proof.
  induction toks as [| t0 rest IH]; intros ce Hn Hv; [eexists; reflexivity |].
  cbn [no_rem forallb] in Hn. apply andb_prop in Hn. destruct Hn as [Hn0 Hnr]. apply Bool.negb_true_iff in Hn0.
  cbn [next_raw orb]. rewrite Hn0. cbn [vis filter] in Hv. destruct t0; try discriminate. exact (IH _ Hnr Hv).
Qed.

Lemma pnext_rep st t r : rep st (t :: r) -> exists st', pnext st = Ok (Some t, st') /\ rep st' r /\ p_peek st' = None.
Proof.
  intros (Hrem & Hc & Hn & [[Hp Ht] | (t0 & r0 & Hp & E & Ht)]); unfold pnext, p_next; rewrite Hp.
  - cbn [forallb] in Hc. apply andb_prop in Hc. destruct Hc as [Hct Hcr].
    destruct (next_raw_vis (p_toks st) (p_ce st) t r Hn Ht) as (toks' & cs & ce' & E & Hv & Hn'). rewrite Hrem, E.
    eexists. split; [reflexivity |]. split; [| reflexivity]. split; [reflexivity |]. split; [exact Hcr |]. split; [exact Hn' |]. left. split; [reflexivity | exact Hv].
  - injection E as <- <-. cbn [forallb] in Hc. apply andb_prop in Hc. destruct Hc as [Hct Hcr].
    eexists. split; [reflexivity |]. split; [| reflexivity]. split; [exact Hrem |]. split; [exact Hcr |]. split; [exact Hn |]. left. split; [reflexivity | exact Ht].
Qed.

Lemma pnext_nil st : rep st [] -> exists st', pnext st = Ok (None, st') /\ rep st' [].
Proof.
  intros (Hrem & Hc & Hn & [[Hp Ht] | (t0 & r0 & Hp & E & Ht)]); [| discriminate]. unfold pnext, p_next. rewrite Hp.
  destruct (next_raw_vis_nil (p_toks st) (p_ce st) Hn Ht) as (ce' & E). rewrite Hrem, E.
  eexists. split; [reflexivity |]. split; [reflexivity |]. split; [reflexivity |]. split; [reflexivity |]. left. split; reflexivity.
Qed.

Lemma ppeek_rep st t r : rep st (t :: r) -> exists st', ppeek st = Ok (Some t, st') /\ rep st' (t :: r).
Proof.
  intros H. pose proof H as (Hrem & Hc & Hn & [[Hp Ht] | (t0 & r0 & Hp & E & Ht)]); unfold ppeek, p_peekt; rewrite Hp.
  - destruct (pnext_rep st t r H) as (st' & E & (Hrem' & Hc' & Hn' & Hrep') & Hpk). unfold pnext in E. injection E as E. rewrite E.
    eexists. split; [reflexivity |]. split; [exact Hrem' |]. split; [exact Hc |]. split; [exact Hn' |]. right. exists t, r. cbn [p_peek p_toks].
    destruct Hrep' as [[_ Ht'] | (t1 & r1 & Hp1 & _)]; [| rewrite Hpk in Hp1; discriminate]. split; [reflexivity |]. split; [reflexivity | exact Ht'].
  - injection E as <- <-. exists st. split; [reflexivity | exact H].
Qed.

Lemma ppeek_nil st : rep st [] -> exists st', ppeek st = Ok (None, st') /\ rep st' [].
Proof.
  intros H. pose proof H as (Hrem & Hc & Hn & [[Hp Ht] | (t0 & r0 & Hp & E & Ht)]); [| discriminate]. unfold ppeek, p_peekt. rewrite Hp.
  destruct (pnext_nil st H) as (st' & E & (Hrem' & Hc' & Hn' & Hrep')). unfold pnext in E. injection E as E. rewrite E.
  eexists. split; [reflexivity |]. split; [exact Hrem' |]. split; [reflexivity |]. split; [exact Hn' |]. left. cbn [p_peek p_toks]. split; [reflexivity |].
  destruct Hrep' as [[_ Ht'] | (t1 & r1 & _ & E1 & _)]; [exact Ht' | discriminate].
Qed.

Lemma token_eqb_refl t : token_eqb t t = true.
Proof.
  unfold token_eqb. rewrite N.eqb_refl. cbn [andb].
  assert (Hs : forall s, str_eqb s s = true).
  { induction s as [| c r IH]; [reflexivity |]. cbn [str_eqb]. rewrite N.eqb_refl. exact IH. }
  rewrite Hs. destruct t; try reflexivity. cbn. apply N.eqb_refl.
Qed.

Lemma expect_rep st t r : rep st (t :: r) -> exists st', expect t st = Ok (tt, st') /\ rep st' r.
Proof.
  intros H. destruct (pnext_rep st t r H) as (st' & E & Hr & _). unfold expect, pbind. rewrite E, token_eqb_refl. exists st'. split; [reflexivity | exact Hr].
Qed.

(* ---------- more fuel never changes a result ---------- *)
Definition le_ok {A} (m m' : P A) : Prop := forall st r, m st = Ok r -> m' st = Ok r.

Lemma le_ok_refl {A} (m : P A) : le_ok m m. Proof. intros st r H. exact H. Qed.
Lemma le_ok_bind {A B} (m m' : P A) (k k' : A -> P B) : le_ok m m' -> (forall a, le_ok (k a) (k' a)) -> le_ok (pbind m k) (pbind m' k').
Proof.
  intros Hm Hk st r H. unfold pbind in *. destruct (m st) as [[a st1] | e | |] eqn:E; try discriminate.
  rewrite (Hm st _ E). exact (Hk a st1 r H).
Qed.

Ltac mono_step IHd IHc IHl :=
  repeat first
    [ apply le_ok_refl | apply IHd | apply IHc | apply IHl
    | apply le_ok_bind; [| intros ?]
    | match goal with |- le_ok (match ?x with _ => _ end) (match ?x with _ => _ end) => destruct x end
    | match goal with |- le_ok (if ?b then _ else _) (if ?b then _ else _) => destruct b end ].

Lemma fuel_mono : forall f,
  (forall vm p, le_ok (descend f vm p) (descend (S f) vm p))
  /\ (forall vm p lhs, le_ok (climb f vm p lhs) (climb (S f) vm p lhs))
  /\ (forall vm, le_ok (expr_list f vm) (expr_list (S f) vm)).
Proof.
  induction f as [| f (IHd & IHc & IHl)].
  - repeat split; intros; intros st r H; discriminate.
  - repeat split; intros.
    + change (descend (S f) vm p) with
        (pdo t <~ pnext ;;
         pdo lhs <~ (match t with
              | Some TLParen => pdo e <~ descend f vm 0 ;; pdo _ <~ expect TRParen ;; pret e
              | Some (TIdent id) =>
                  pdo c <~ pcolm ;;
                  pdo pk <~ ppeek ;;
                  match pk with
                  | Some TLParen =>
                      pdo _ <~ expect TLParen ;;
                      pdo closed <~ maybe TRParen ;;
                      pdo args <~ (if closed then pret [] else
                                 (pdo l <~ expr_list f vm ;; pdo _ <~ expect TRParen ;; pret l)) ;;
                      pdo c2 <~ pcolm ;;
                      pret (EArray (fst c, snd c2) id args)
                  | _ =>
                      if is_user_function id then pfail E_Syntax c
                      else match vm_get vm id with
                           | Some v => pret (expr_of_var v)
                           | None => pret (EUnary c id)
                           end
                  end
              | Some (TOp OPlus) => descend f vm 12
              | Some (TOp OMinus) => pdo c <~ pcolm ;; pdo e <~ descend f vm 12 ;; pret (ENeg c e)
              | Some (TOp ONot) => pdo c <~ pcolm ;; pdo e <~ descend f vm 6 ;; pret (ENot c e)
              | Some (TLit l) => pdo c <~ pcolm ;; (fun st => match parse_literal c l with
                                                         | Ok e => Ok (e, st) | Err e => Err e
                                                         | Panic => Panic | Hang => Hang end)
              | _ => pfail_here E_Syntax
              end) ;;
         climb f vm p lhs).
      cbn [descend]. mono_step IHd IHc IHl.
    + cbn [climb]. mono_step IHd IHc IHl.
    + cbn [expr_list]. mono_step IHd IHc IHl.
Qed.

Lemma mono_d f g vm p st r : (f <= g)%nat -> descend f vm p st = Ok r -> descend g vm p st = Ok r.
Proof. induction 1 as [| g Hle IH]; [auto |]. intros H. apply (proj1 (fuel_mono g)). exact (IH H). Qed.
Lemma mono_c f g vm p lhs st r : (f <= g)%nat -> climb f vm p lhs st = Ok r -> climb g vm p lhs st = Ok r.
Proof. induction 1 as [| g Hle IH]; [auto |]. intros H. apply (proj1 (proj2 (fuel_mono g))). exact (IH H). Qed.

(* ---------- expression trees, their rendering, and the tree the parser must build ---------- *)
Inductive ax := AId (i : ident) | ALit (l : literal) | ANeg (x : ax) | ANot (x : ax) | ABin (o : operator) (a b : ax)
              | ACall (i : ident) (args : list ax).        (* array element or function call: ID ( a1 , ... , an ), n >= 0 *)

Section AxInd.
Variable Q : ax -> Prop.
Hypothesis Hid : forall i, Q (AId i).
Hypothesis Hlit : forall l, Q (ALit l).
Hypothesis Hneg : forall x, Q x -> Q (ANeg x).
Hypothesis Hnot : forall x, Q x -> Q (ANot x).
Hypothesis Hbin : forall o a b, Q a -> Q b -> Q (ABin o a b).
Hypothesis Hcall : forall i args, Forall Q args -> Q (ACall i args).
Fixpoint ax_ind2 (x : ax) : Q x :=
  match x with
  | AId i => Hid i | ALit l => Hlit l
  | ANeg a => Hneg a (ax_ind2 a) | ANot a => Hnot a (ax_ind2 a)
  | ABin o a b => Hbin o a b (ax_ind2 a) (ax_ind2 b)
  | ACall i args => Hcall i args ((fix go (l : list ax) : Forall Q l :=
                                     match l with [] => Forall_nil _ | y :: r => Forall_cons _ (ax_ind2 y) (go r) end) args)
  end.
End AxInd.

Definition eprec (x : ax) : N :=
  match x with AId _ | ALit _ | ACall _ _ => 100 | ANeg _ => 12 | ANot _ => 6 | ABin o _ _ => binary_prec o end.

Definition paren (ts : list token) : list token := TLParen :: ts ++ [TRParen].

(* parentheses exactly where the table demands them: around a left operand that binds weaker than the operator, around a
   right operand that does not bind stronger (operators of one level group to the left), around the operand of a unary
   operator that does not bind stronger than it *)
Fixpoint raw (x : ax) : list token :=
  match x with
  | AId i => [TIdent i]
  | ALit l => [TLit l]
  | ANeg a => TOp OMinus :: (if 12 + 1 <=? eprec a then raw a else paren (raw a))
  | ANot a => TOp ONot :: (if 6 + 1 <=? eprec a then raw a else paren (raw a))
  | ABin o l r => (if binary_prec o <=? eprec l then raw l else paren (raw l))
                  ++ TOp o :: (if binary_prec o + 1 <=? eprec r then raw r else paren (raw r))
  | ACall i args =>
      TIdent i :: TLParen ::
      (fix commas (l : list ax) : list token :=
         match l with [] => [] | [a] => raw a | a :: r => raw a ++ TComma :: commas r end) args ++ [TRParen]
  end.
Definition commas : list ax -> list token :=
  fix commas (l : list ax) : list token := match l with [] => [] | [a] => raw a | a :: r => raw a ++ TComma :: commas r end.

Fixpoint strip (e : expr) : expr :=
  match e with
  | EUnary _ i => EUnary (0, 0) i
  | EArray _ i args => EArray (0, 0) i (map strip args)
  | ESng _ b => ESng (0, 0) b | EDbl _ b => EDbl (0, 0) b | EInt _ n => EInt (0, 0) n | EStr _ s => EStr (0, 0) s
  | ENeg _ x => ENeg (0, 0) (strip x) | ENot _ x => ENot (0, 0) (strip x)
  | EBin _ o a b => EBin (0, 0) o (strip a) (strip b)
  end.

Fixpoint tree (x : ax) : expr :=
  match x with
  | AId i => EUnary (0, 0) i
  | ALit l => match parse_literal (0, 0) l with Ok e => e | _ => EInt (0, 0) 0 end
  | ANeg a => ENeg (0, 0) (tree a)
  | ANot a => ENot (0, 0) (tree a)
  | ABin o a b => match binop_of o with Some bo => EBin (0, 0) bo (tree a) (tree b) | None => EInt (0, 0) 0 end
  | ACall i args => EArray (0, 0) i (map tree args)
  end.

Fixpoint wf (x : ax) : Prop :=
  match x with
  | AId i => is_user_function i = false
  | ALit l => exists e, parse_literal (0, 0) l = Ok e
  | ANeg a | ANot a => wf a
  | ABin o a b => o <> ONot /\ wf a /\ wf b
  | ACall i args => (fix all (l : list ax) : Prop := match l with [] => True | y :: r => wf y /\ all r end) args
  end.

(* what may follow a complete operand at level n: not an operator that binds stronger than n, not an opening parenthesis *)
Definition lead_le (n : N) (ts : list token) : Prop :=
  match ts with TOp o :: _ => binary_prec o <= n | TLParen :: _ => False | _ => True end.

Lemma lead_le_mono n m ts : n <= m -> lead_le n ts -> lead_le m ts.
Proof. intros H. destruct ts as [| [] r]; cbn; try tauto. lia. Qed.

Lemma lit_strip c l e : parse_literal c l = Ok e -> exists e0, parse_literal (0, 0) l = Ok e0 /\ strip e = e0.
Proof.
  destruct l as [s | s | s | s | s | s]; cbn [parse_literal]; intros H.
  - destruct (parse_f32 (numeric_text s)); [| discriminate]. injection H as <-. eexists. split; reflexivity.
  - destruct (parse_f64 (numeric_text s)); [| discriminate]. injection H as <-. eexists. split; reflexivity.
  - destruct (parse_i16 (numeric_text s)); [| discriminate]. injection H as <-. eexists. split; reflexivity.
  - destruct (i16_from_str_radix s 16); [| discriminate]. injection H as <-. eexists. split; reflexivity.
  - destruct (i16_from_str_radix s 8); [| discriminate]. injection H as <-. eexists. split; reflexivity.
  - destruct (255 <? lenN s); [discriminate |]. injection H as <-. eexists. split; reflexivity.
Qed.

Lemma lit_any_col c l e0 : parse_literal (0, 0) l = Ok e0 -> exists e, parse_literal c l = Ok e /\ strip e = e0.
Proof.
  destruct l as [s | s | s | s | s | s]; cbn [parse_literal]; intros H.
  - destruct (parse_f32 (numeric_text s)); [| discriminate]. injection H as <-. eexists. split; reflexivity.
  - destruct (parse_f64 (numeric_text s)); [| discriminate]. injection H as <-. eexists. split; reflexivity.
  - destruct (parse_i16 (numeric_text s)); [| discriminate]. injection H as <-. eexists. split; reflexivity.
  - destruct (i16_from_str_radix s 16); [| discriminate]. injection H as <-. eexists. split; reflexivity.
  - destruct (i16_from_str_radix s 8); [| discriminate]. injection H as <-. eexists. split; reflexivity.
  - destruct (255 <? lenN s); [discriminate |]. injection H as <-. eexists. split; reflexivity.
Qed.

(* ---------- single steps of the parser on the token-list view ---------- *)
Definition primary (g : nat) (vm : varmap) (t : option token) : P expr :=
  match t with
  | Some TLParen => pdo e <~ descend g vm 0 ;; pdo _ <~ expect TRParen ;; pret e
  | Some (TIdent id) =>
      pdo c <~ pcolm ;;
      pdo pk <~ ppeek ;;
      match pk with
      | Some TLParen =>
          pdo _ <~ expect TLParen ;;
          pdo closed <~ maybe TRParen ;;
          pdo args <~ (if closed then pret [] else (pdo l <~ expr_list g vm ;; pdo _ <~ expect TRParen ;; pret l)) ;;
          pdo c2 <~ pcolm ;;
          pret (EArray (fst c, snd c2) id args)
      | _ =>
          if is_user_function id then pfail E_Syntax c
          else match vm_get vm id with Some v => pret (expr_of_var v) | None => pret (EUnary c id) end
      end
  | Some (TOp OPlus) => descend g vm 12
  | Some (TOp OMinus) => pdo c <~ pcolm ;; pdo e <~ descend g vm 12 ;; pret (ENeg c e)
  | Some (TOp ONot) => pdo c <~ pcolm ;; pdo e <~ descend g vm 6 ;; pret (ENot c e)
  | Some (TLit l) => pdo c <~ pcolm ;; (fun st => match parse_literal c l with
                                                  | Ok e => Ok (e, st) | Err e => Err e | Panic => Panic | Hang => Hang end)
  | _ => pfail_here E_Syntax
  end.

Lemma descend_S g vm p : descend (S g) vm p = (pdo t <~ pnext ;; pdo lhs <~ primary g vm t ;; climb g vm p lhs).
Proof. reflexivity. Qed.

Lemma climb_S g vm p lhs : climb (S g) vm p lhs =
  (pdo pk <~ ppeek ;;
   match pk with
   | Some (TOp o) =>
       if binary_prec o <=? p then pret lhs
       else pdo _ <~ pnext ;; pdo c <~ pcolm ;; pdo rhs <~ descend g vm (binary_prec o) ;;
            match binop_of o with Some b => climb g vm p (EBin c b lhs rhs) | None => pfail E_Internal (0, 0) end
   | _ => pret lhs
   end).
Proof. reflexivity. Qed.

(* the loop stops in front of whatever binds no stronger than p *)
Lemma climb_stop g p e st rest : rep st rest -> lead_le p rest -> exists st', climb (S g) [] p e st = Ok (e, st') /\ rep st' rest.
Proof.
  intros Hr Hl. rewrite climb_S. unfold pbind. destruct rest as [| t r].
  - destruct (ppeek_nil st Hr) as (st' & E & Hr'). rewrite E. exists st'. split; [reflexivity | exact Hr'].
  - destruct (ppeek_rep st t r Hr) as (st' & E & Hr'). rewrite E. exists st'. split; [| exact Hr'].
    destruct t; try reflexivity. cbn [lead_le] in Hl. destruct (N.leb_spec (binary_prec o) p); [reflexivity | lia].
Qed.

(* an operator that binds stronger than p is taken: its right operand is parsed at the operator's level *)
Lemma climb_op p lhs st o b ts : rep st (TOp o :: ts) -> p < binary_prec o -> binop_of o = Some b ->
  exists c st1, rep st1 ts /\ forall g rhs st2, descend g [] (binary_prec o) st1 = Ok (rhs, st2) ->
    climb (S g) [] p lhs st = climb g [] p (EBin c b lhs rhs) st2.
Proof.
  intros Hr Hp Hb. destruct (ppeek_rep st _ _ Hr) as (sa & Ea & Hra). destruct (pnext_rep sa _ _ Hra) as (sb & Eb & Hrb & _).
  exists (pcol sb), sb. split; [exact Hrb |]. intros g rhs st2 Hd. rewrite climb_S. unfold pbind. rewrite Ea.
  destruct (N.leb_spec (binary_prec o) p); [lia |]. rewrite Eb. unfold pcolm. rewrite Hd, Hb. reflexivity.
Qed.

Lemma descend_ident st i rest : rep st (TIdent i :: rest) -> is_user_function i = false -> lead_le 100 rest ->
  exists c st2, rep st2 rest /\ forall g p, descend (S g) [] p st = climb g [] p (EUnary c i) st2.
Proof.
  intros Hr Hu Hl. destruct (pnext_rep st _ _ Hr) as (s1 & E1 & Hr1 & _).
  assert (Hpk : exists pk s2, ppeek s1 = Ok (pk, s2) /\ rep s2 rest /\ pk <> Some TLParen).
  { destruct rest as [| t r].
    - destruct (ppeek_nil s1 Hr1) as (s2 & E2 & Hr2). exists None, s2. split; [exact E2 | split; [exact Hr2 | discriminate]].
    - destruct (ppeek_rep s1 t r Hr1) as (s2 & E2 & Hr2). exists (Some t), s2. split; [exact E2 | split; [exact Hr2 |]].
      intros E. injection E as ->. exact Hl. }
  destruct Hpk as (pk & s2 & E2 & Hr2 & Hne). exists (pcol s1), s2. split; [exact Hr2 |]. intros g p.
  rewrite descend_S. unfold pbind. rewrite E1. cbn [primary]. unfold pbind, pcolm. rewrite E2.
  destruct pk as [[] |]; try contradiction; rewrite Hu; reflexivity.
Qed.

Lemma descend_lit st l rest e0 : rep st (TLit l :: rest) -> parse_literal (0, 0) l = Ok e0 ->
  exists e st1, strip e = e0 /\ rep st1 rest /\ forall g p, descend (S g) [] p st = climb g [] p e st1.
Proof.
  intros Hr Hl. destruct (pnext_rep st _ _ Hr) as (s1 & E1 & Hr1 & _). destruct (lit_any_col (pcol s1) l e0 Hl) as (e & Ee & Hs).
  exists e, s1. split; [exact Hs |]. split; [exact Hr1 |]. intros g p. rewrite descend_S. unfold pbind. rewrite E1. cbn [primary].
  unfold pbind, pcolm. rewrite Ee. reflexivity.
Qed.

Lemma descend_unary st (neg : bool) ts : rep st (TOp (if neg then OMinus else ONot) :: ts) ->
  exists c st1, rep st1 ts /\ forall g p a st2, descend g [] (if neg then 12 else 6) st1 = Ok (a, st2) ->
    descend (S g) [] p st = climb g [] p (if neg then ENeg c a else ENot c a) st2.
Proof.
  intros Hr. destruct (pnext_rep st _ _ Hr) as (s1 & E1 & Hr1 & _). exists (pcol s1), s1. split; [exact Hr1 |].
  intros g p a st2 Hd. rewrite descend_S. unfold pbind. rewrite E1. destruct neg; cbn [primary]; unfold pbind, pcolm, pret; rewrite Hd; reflexivity.
Qed.

Lemma descend_paren st ts : rep st (TLParen :: ts) ->
  exists st1, rep st1 ts /\ forall e st2 rest, rep st2 (TRParen :: rest) ->
    exists st3, rep st3 rest /\ forall g p, descend g [] 0 st1 = Ok (e, st2) -> descend (S g) [] p st = climb g [] p e st3.
Proof.
  intros Hr. destruct (pnext_rep st _ _ Hr) as (s1 & E1 & Hr1 & _). exists s1. split; [exact Hr1 |].
  intros e st2 rest Hr2. destruct (expect_rep st2 _ _ Hr2) as (st3 & E3 & Hr3). exists st3. split; [exact Hr3 |].
  intros g p Hd. rewrite descend_S. unfold pbind. rewrite E1. cbn [primary]. unfold pbind, pret. rewrite Hd, E3. reflexivity.
Qed.

Lemma mono_l f g vm st r : (f <= g)%nat -> expr_list f vm st = Ok r -> expr_list g vm st = Ok r.
Proof. induction 1 as [| g Hle IH]; [auto |]. intros H. apply (proj2 (proj2 (fuel_mono g))). exact (IH H). Qed.

Lemma maybe_yes st t r : rep st (t :: r) -> exists st', maybe t st = Ok (true, st') /\ rep st' r.
Proof.
  intros H. destruct (ppeek_rep st t r H) as (s1 & E1 & H1). destruct (pnext_rep s1 t r H1) as (s2 & E2 & H2 & _).
  exists s2. split; [| exact H2]. unfold maybe, pbind. rewrite E1, token_eqb_refl, E2. reflexivity.
Qed.

Lemma maybe_no st t ts : rep st ts -> match ts with t' :: _ => token_eqb t' t = false | [] => True end ->
  exists st', maybe t st = Ok (false, st') /\ rep st' ts.
Proof.
  intros H Hne. destruct ts as [| t' r].
  - destruct (ppeek_nil st H) as (s1 & E1 & H1). exists s1. split; [| exact H1]. unfold maybe, pbind. rewrite E1. reflexivity.
  - destruct (ppeek_rep st t' r H) as (s1 & E1 & H1). exists s1. split; [| exact H1]. unfold maybe, pbind. rewrite E1, Hne. reflexivity.
Qed.

(* ID ( ) *)
Lemma descend_call0 st i rest : rep st (TIdent i :: TLParen :: TRParen :: rest) ->
  exists c st3, rep st3 rest /\ forall g p, descend (S g) [] p st = climb g [] p (EArray c i []) st3.
Proof.
  intros Hr. destruct (pnext_rep st _ _ Hr) as (s1 & E1 & Hr1 & _). destruct (ppeek_rep s1 _ _ Hr1) as (s2 & E2 & Hr2).
  destruct (expect_rep s2 _ _ Hr2) as (s3 & E3 & Hr3). destruct (maybe_yes s3 _ _ Hr3) as (s4 & E4 & Hr4).
  exists (fst (pcol s1), snd (pcol s4)), s4. split; [exact Hr4 |]. intros g p.
  rewrite descend_S. unfold pbind. rewrite E1. cbn [primary]. unfold pbind, pcolm. rewrite E2, E3, E4. reflexivity.
Qed.

(* ID ( a1 , ... , an ), n >= 1 *)
Lemma descend_calln st i ts : rep st (TIdent i :: TLParen :: ts) ->
  match ts with t' :: _ => token_eqb t' TRParen = false | [] => True end ->
  exists (c : col) st1, rep st1 ts /\ forall es st2 rest, rep st2 (TRParen :: rest) ->
    exists (c2 : col) st3, rep st3 rest /\ forall g p, expr_list g [] st1 = Ok (es, st2) ->
      descend (S g) [] p st = climb g [] p (EArray (fst c, snd c2) i es) st3.
Proof.
  intros Hr Hne. destruct (pnext_rep st _ _ Hr) as (s1 & E1 & Hr1 & _). destruct (ppeek_rep s1 _ _ Hr1) as (s2 & E2 & Hr2).
  destruct (expect_rep s2 _ _ Hr2) as (s3 & E3 & Hr3). destruct (maybe_no s3 TRParen ts Hr3 Hne) as (s4 & E4 & Hr4).
  exists (pcol s1), s4. split; [exact Hr4 |]. intros es st2 rest Hr5. destruct (expect_rep st2 _ _ Hr5) as (s6 & E6 & Hr6).
  exists (pcol s6), s6. split; [exact Hr6 |]. intros g p Hl.
  rewrite descend_S. unfold pbind. rewrite E1. cbn [primary]. unfold pbind, pcolm, pret. rewrite E2, E3, E4, Hl, E6. reflexivity.
Qed.

Lemma expr_list_S g vm : expr_list (S g) vm =
  (pdo e <~ descend g vm 0 ;; pdo more <~ maybe TComma ;; if more then (pdo l <~ expr_list g vm ;; pret (e :: l)) else pret [e]).
Proof. reflexivity. Qed.

(* ---------- the invariant of precedence climbing ---------- *)
(* "descend p, started in front of the tokens of x followed by rest, behaves like the loop at level p that holds the tree of
   x and stands in front of rest" *)
Definition like_climb (p : N) (st : pst) (x : ax) (rest : list token) : Prop :=
  exists e st1, strip e = tree x /\ rep st1 rest /\
    forall g r, climb g [] p e st1 = Ok r -> exists f, descend f [] p st = Ok r.

(* a complete operand: followed by something that stops the loop, the parse returns the tree and stands in front of it *)
Lemma like_operand q st x rest : like_climb q st x rest -> lead_le q rest ->
  exists f e st2, descend f [] q st = Ok (e, st2) /\ strip e = tree x /\ rep st2 rest.
Proof.
  intros (e & st1 & Hs & Hr & Hk) Hl. destruct (climb_stop 0 q e st1 rest Hr Hl) as (st2 & Ec & Hr2).
  destruct (Hk 1%nat _ Ec) as [f Hf]. exists f, e, st2. split; [exact Hf | split; [exact Hs | exact Hr2]].
Qed.

(* a parenthesised operand behaves, at any level, like its content at level 0 *)
Lemma like_paren x : (forall rest st, rep st (raw x ++ rest) -> lead_le 1 rest -> like_climb 0 st x rest) ->
  forall p rest st, rep st (paren (raw x) ++ rest) -> like_climb p st x rest.
Proof.
  intros IH p rest st Hr. unfold paren in Hr. cbn [app] in Hr. rewrite <- app_assoc in Hr. cbn [app] in Hr.
  destruct (descend_paren st _ Hr) as (s1 & Hr1 & Hstep).
  destruct (like_operand 0 s1 x (TRParen :: rest) (IH _ s1 Hr1 I) I) as (f & e & s2 & Hd & Hs & Hr2).
  destruct (Hstep e s2 rest Hr2) as (s3 & Hr3 & Heq).
  exists e, s3. split; [exact Hs |]. split; [exact Hr3 |]. intros g r Hc.
  exists (S (Nat.max f g)). rewrite (Heq (Nat.max f g) p (mono_d f _ _ _ _ _ (Nat.le_max_l f g) Hd)).
  exact (mono_c g _ _ _ _ _ _ (Nat.le_max_r f g) Hc).
Qed.

(* an operand position: the operand's own tokens if it binds at least as strongly as n, else its tokens in parentheses *)
Definition sub (n : N) (x : ax) : list token := if n <=? eprec x then raw x else paren (raw x).

Lemma eprec_pos x : wf x -> 1 <= eprec x.
Proof. destruct x as [i | l | a | a | o a b | i args]; cbn; try lia. intros (Ho & _). destruct o; cbn; try lia. contradiction. Qed.

Definition keyP (x : ax) : Prop := wf x ->
  forall p n rest st, p < n -> n <= eprec x -> lead_le n rest -> rep st (raw x ++ rest) -> like_climb p st x rest.

Lemma raw_call i args : raw (ACall i args) = TIdent i :: TLParen :: commas args ++ [TRParen].
Proof. reflexivity. Qed.

Lemma wf_call i args : wf (ACall i args) -> Forall wf args.
Proof. cbn [wf]. induction args as [| a r IH]; intros H; constructor; [exact (proj1 H) | exact (IH (proj2 H))]. Qed.

Lemma raw_head : forall a, exists t ts, raw a = t :: ts /\ token_eqb t TRParen = false.
Proof.
  induction a as [i | l | a IH | a IH | o l r IHl IHr | i args _] using ax_ind2.
  - exists (TIdent i), []. split; [reflexivity |]. destruct i; reflexivity.
  - exists (TLit l), []. split; [reflexivity |]. destruct l; reflexivity.
  - cbn [raw]. eexists. eexists. split; reflexivity.
  - cbn [raw]. eexists. eexists. split; reflexivity.
  - cbn [raw]. destruct (binary_prec o <=? eprec l).
    + destruct IHl as (t & ts & -> & Ht). cbn [app]. eexists. eexists. split; [reflexivity | exact Ht].
    + unfold paren. cbn [app]. eexists. eexists. split; reflexivity.
  - rewrite raw_call. exists (TIdent i). eexists. split; [reflexivity |]. destruct i; reflexivity.
Qed.

(* a non-empty argument list: each argument is parsed at level 0, commas are consumed, the list stops at the parenthesis *)
Lemma args_parse : forall args, args <> [] -> Forall keyP args -> Forall wf args ->
  forall rest st, rep st (commas args ++ TRParen :: rest) ->
  exists f es st', expr_list f [] st = Ok (es, st') /\ map strip es = map tree args /\ rep st' (TRParen :: rest).
Proof.
  induction args as [| a r IH]; [contradiction |]. intros _ HQ HW rest st Hr.
  inversion HQ as [| ? ? Qa Qr]; subst. inversion HW as [| ? ? Wa Wr]; subst. destruct r as [| b r'].
  - cbn [commas] in Hr.
    destruct (like_operand 0 st a (TRParen :: rest) (Qa Wa 0 1 (TRParen :: rest) st ltac:(lia) (eprec_pos a Wa) I Hr) I) as (f & e & s2 & Hd & Hs & Hr2).
    destruct (maybe_no s2 TComma _ Hr2 eq_refl) as (s3 & E3 & Hr3).
    exists (S f), [e], s3. split; [| split; [cbn [map]; rewrite Hs; reflexivity | exact Hr3]].
    rewrite expr_list_S. unfold pbind. rewrite Hd, E3. reflexivity.
  - change (commas (a :: b :: r')) with (raw a ++ TComma :: commas (b :: r')) in Hr. rewrite <- app_assoc in Hr. cbn [app] in Hr.
    destruct (like_operand 0 st a (TComma :: commas (b :: r') ++ TRParen :: rest) (Qa Wa 0 1 (TComma :: commas (b :: r') ++ TRParen :: rest) st ltac:(lia) (eprec_pos a Wa) I Hr) I) as (f & e & s2 & Hd & Hs & Hr2).
    destruct (maybe_yes s2 _ _ Hr2) as (s3 & E3 & Hr3).
    destruct (IH ltac:(discriminate) Qr Wr rest s3 Hr3) as (f1 & es & s4 & Hes & Hss & Hr4).
    exists (S (Nat.max f f1)), (e :: es), s4. split; [| split; [cbn [map]; rewrite Hs, Hss; reflexivity | exact Hr4]].
    rewrite expr_list_S. unfold pbind. rewrite (mono_d f _ _ _ _ _ (Nat.le_max_l f f1) Hd), E3, (mono_l f1 _ _ _ _ (Nat.le_max_r f f1) Hes). reflexivity.
Qed.

Theorem key : forall x, keyP x.
Proof.
  induction x as [i | l | a IH | a IH | o l r IHl IHr | i args IHargs] using ax_ind2; unfold keyP in *; intros W p n rest st Hp Hn Hl Hr;
    [cbn [raw app wf eprec] in * .. | ].
  - (* identifier *)
    destruct (descend_ident st i rest Hr W (lead_le_mono _ _ _ Hn Hl)) as (c & s2 & Hr2 & Heq).
    exists (EUnary c i), s2. split; [reflexivity |]. split; [exact Hr2 |]. intros g res Hc. exists (S g). rewrite Heq. exact Hc.
  - (* literal *)
    destruct W as [e0 He0]. destruct (descend_lit st l rest e0 Hr He0) as (e & s1 & Hs & Hr1 & Heq).
    exists e, s1. split; [cbn [tree]; rewrite He0; exact Hs |]. split; [exact Hr1 |]. intros g res Hc. exists (S g). rewrite Heq. exact Hc.
  - (* unary minus *)
    destruct (descend_unary st true _ Hr) as (c & s1 & Hr1 & Heq). cbv iota in Heq.
    assert (Hop : like_climb 12 s1 a rest).
    { destruct (N.leb_spec (12 + 1) (eprec a)) as [Hge | Hlt].
      - apply (IH W 12 (12 + 1) rest s1); [lia | exact Hge | apply (lead_le_mono n); [lia | exact Hl] | exact Hr1].
      - apply like_paren; [| exact Hr1]. intros rest' st' Hr' Hl'. apply (IH W 0 1 rest' st'); [lia | exact (eprec_pos a W) | exact Hl' | exact Hr']. }
    destruct (like_operand 12 s1 a rest Hop (lead_le_mono _ _ _ Hn Hl)) as (f & a' & s2 & Hd & Hs & Hr2).
    exists (ENeg c a'), s2. split; [cbn [strip tree]; rewrite Hs; reflexivity |]. split; [exact Hr2 |]. intros g res Hc.
    exists (S (Nat.max f g)). rewrite (Heq (Nat.max f g) p a' s2 (mono_d f _ _ _ _ _ (Nat.le_max_l f g) Hd)).
    exact (mono_c g _ _ _ _ _ _ (Nat.le_max_r f g) Hc).
  - (* NOT *)
    destruct (descend_unary st false _ Hr) as (c & s1 & Hr1 & Heq). cbv iota in Heq.
    assert (Hop : like_climb 6 s1 a rest).
    { destruct (N.leb_spec (6 + 1) (eprec a)) as [Hge | Hlt].
      - apply (IH W 6 (6 + 1) rest s1); [lia | exact Hge | apply (lead_le_mono n); [lia | exact Hl] | exact Hr1].
      - apply like_paren; [| exact Hr1]. intros rest' st' Hr' Hl'. apply (IH W 0 1 rest' st'); [lia | exact (eprec_pos a W) | exact Hl' | exact Hr']. }
    destruct (like_operand 6 s1 a rest Hop (lead_le_mono _ _ _ Hn Hl)) as (f & a' & s2 & Hd & Hs & Hr2).
    exists (ENot c a'), s2. split; [cbn [strip tree]; rewrite Hs; reflexivity |]. split; [exact Hr2 |]. intros g res Hc.
    exists (S (Nat.max f g)). rewrite (Heq (Nat.max f g) p a' s2 (mono_d f _ _ _ _ _ (Nat.le_max_l f g) Hd)).
    exact (mono_c g _ _ _ _ _ _ (Nat.le_max_r f g) Hc).
  - (* binary operator *)
    destruct W as (Ho & Wl & Wr). rewrite <- app_assoc in Hr. cbn [app] in Hr.
    set (rt := (if binary_prec o + 1 <=? eprec r then raw r else paren (raw r)) ++ rest) in *.
    assert (Hb : exists b, binop_of o = Some b) by (destruct o; try contradiction; eexists; reflexivity). destruct Hb as [b Hb].
    (* the left operand, up to the operator *)
    assert (Hleft : like_climb p st l (TOp o :: rt)).
    { destruct (N.leb_spec (binary_prec o) (eprec l)) as [Hge | Hlt].
      - apply (IHl Wl p (binary_prec o) (TOp o :: rt) st); [lia | exact Hge | cbn; lia | exact Hr].
      - apply like_paren; [| exact Hr]. intros rest' st' Hr' Hl'. apply (IHl Wl 0 1 rest' st'); [lia | exact (eprec_pos l Wl) | exact Hl' | exact Hr']. }
    destruct Hleft as (l' & sl & Hsl & Hrl & Hkl).
    destruct (climb_op p l' sl o b rt Hrl ltac:(lia) Hb) as (c & sop & Hrop & Heq).
    (* the right operand, at the operator's level *)
    assert (Hright : like_climb (binary_prec o) sop r rest).
    { unfold rt in Hrop. destruct (N.leb_spec (binary_prec o + 1) (eprec r)) as [Hge | Hlt].
      - apply (IHr Wr (binary_prec o) (binary_prec o + 1) rest sop); [lia | exact Hge | apply (lead_le_mono n); [lia | exact Hl] | exact Hrop].
      - apply like_paren; [| exact Hrop]. intros rest' st' Hr' Hl'. apply (IHr Wr 0 1 rest' st'); [lia | exact (eprec_pos r Wr) | exact Hl' | exact Hr']. }
    destruct (like_operand _ sop r rest Hright (lead_le_mono _ _ _ Hn Hl)) as (fr & r' & sr & Hd & Hsr & Hrr).
    exists (EBin c b l' r'), sr. split; [cbn [strip tree]; rewrite Hb, Hsl, Hsr; reflexivity |]. split; [exact Hrr |]. intros g res Hc.
    apply (Hkl (S (Nat.max fr g))). rewrite (Heq (Nat.max fr g) r' sr (mono_d fr _ _ _ _ _ (Nat.le_max_l fr g) Hd)).
    exact (mono_c g _ _ _ _ _ _ (Nat.le_max_r fr g) Hc).
  - (* array element / function call *)
    rewrite raw_call in Hr. cbn [app] in Hr. rewrite <- app_assoc in Hr. cbn [app] in Hr.
    destruct args as [| a0 ar].
    + cbn [commas app] in Hr. destruct (descend_call0 st i rest Hr) as (c & s3 & Hr3 & Heq).
      exists (EArray c i []), s3. split; [reflexivity |]. split; [exact Hr3 |]. intros g res Hc. exists (S g). rewrite Heq. exact Hc.
    + assert (Hhead : match commas (a0 :: ar) ++ TRParen :: rest with t' :: _ => token_eqb t' TRParen = false | [] => True end).
      { destruct (raw_head a0) as (t & ts & Et & Ht). destruct ar; cbn [commas]; rewrite Et; cbn [app]; exact Ht. }
      destruct (descend_calln st i _ Hr Hhead) as (c & s1 & Hr1 & Hstep).
      destruct (args_parse (a0 :: ar) ltac:(discriminate) IHargs (wf_call i _ W) rest s1 Hr1) as (f & es & s2 & Hes & Hss & Hr2).
      destruct (Hstep es s2 rest Hr2) as (c2 & s3 & Hr3 & Heq).
      exists (EArray (fst c, snd c2) i es), s3. split; [cbn [strip tree]; rewrite Hss; reflexivity |]. split; [exact Hr3 |]. intros g res Hc.
      exists (S (Nat.max f g)). rewrite (Heq (Nat.max f g) p (mono_l f _ _ _ _ (Nat.le_max_l f g) Hes)).
      exact (mono_c g _ _ _ _ _ _ (Nat.le_max_r f g) Hc).
Qed.

Lemma raw_clean : forall x, forallb clean (raw x) = true.
Proof.
  assert (Hp : forall ts, forallb clean ts = true -> forallb clean (paren ts) = true).
  { intros ts H. unfold paren. cbn [forallb]. rewrite forallb_app, H. reflexivity. }
  induction x as [i | l | a IH | a IH | o l r IHl IHr | i args IHargs] using ax_ind2; try (cbn [raw]; reflexivity).
  - cbn [raw forallb]. destruct (12 + 1 <=? eprec a); [exact IH | exact (Hp _ IH)].
  - cbn [raw forallb]. destruct (6 + 1 <=? eprec a); [exact IH | exact (Hp _ IH)].
  - cbn [raw]. rewrite forallb_app. cbn [forallb].
    assert (Ho : clean (TOp o) = true) by reflexivity. rewrite Ho.
    destruct (binary_prec o <=? eprec l), (binary_prec o + 1 <=? eprec r); rewrite ?IHl, ?IHr, ?(Hp _ IHl), ?(Hp _ IHr); reflexivity.
  - rewrite raw_call. cbn [forallb]. assert (Hi : clean (TIdent i) = true) by reflexivity. rewrite Hi. cbn [andb].
    rewrite forallb_app. cbn [forallb andb]. rewrite Bool.andb_true_r.
    induction IHargs as [| a r Ha _ IHr]; [reflexivity |]. destruct r as [| b r']; [cbn [commas]; exact Ha |].
    change (commas (a :: b :: r')) with (raw a ++ TComma :: commas (b :: r')). rewrite forallb_app, Ha. cbn [forallb andb]. exact IHr.
Qed.

(* THE THEOREM: the parser, started in front of the rendering of x followed by anything that cannot continue an expression,
   returns the tree of x (columns aside) and stands in front of what follows.  Fuel: the model's stand-in for the Rust
   call stack; some amount suffices, and by fuel_mono every larger amount gives the same result. *)
Theorem parser_builds_the_tree : forall x rest st, wf x -> rep st (raw x ++ rest) -> lead_le 0 rest ->
  exists f e st', descend f [] 0 st = Ok (e, st') /\ strip e = tree x /\ rep st' rest
                  /\ forall g, (f <= g)%nat -> descend g [] 0 st = Ok (e, st').
Proof.
  intros x rest st W Hr Hl.
  pose proof (key x W 0 1 rest st ltac:(lia) (eprec_pos x W) (lead_le_mono 0 1 rest ltac:(lia) Hl) Hr) as Hk.
  destruct (like_operand 0 st x rest Hk Hl) as (f & e & st' & Hd & Hs & Hr').
  exists f, e, st'. split; [exact Hd | split; [exact Hs | split; [exact Hr' |]]]. intros g Hg. exact (mono_d f g _ _ _ _ Hg Hd).
Qed.

Corollary expression_parses_rendering : forall x rest toks cs ce, wf x -> forallb clean rest = true -> lead_le 0 rest ->
  no_rem toks = true -> vis toks = raw x ++ rest ->
  exists f e st', expression f (mkP toks None false cs ce) = Ok (e, st') /\ strip e = tree x /\ rep st' rest.
Proof.
  intros x rest toks cs ce W Hc Hl Hn Hv. destruct (parser_builds_the_tree x rest (mkP toks None false cs ce) W) as (f & e & st' & Hd & Hs & Hr & _).
  - split; [reflexivity |]. split; [rewrite forallb_app, raw_clean, Hc; reflexivity |]. split; [exact Hn |]. left. split; [reflexivity | exact Hv].
  - exact Hl.
  - exists f, e, st'. split; [exact Hd | split; [exact Hs | exact Hr]].
Qed.

(* blanks between the tokens -- any number of them, anywhere -- do not change what the parser builds: two token lists with
   the same visible tokens give trees that are equal up to columns *)
Corollary blanks_do_not_matter : forall x rest toks toks' cs ce cs' ce', wf x -> forallb clean rest = true -> lead_le 0 rest ->
  no_rem toks = true -> no_rem toks' = true -> vis toks = raw x ++ rest -> vis toks' = raw x ++ rest ->
  exists f e st e' st', expression f (mkP toks None false cs ce) = Ok (e, st) /\ expression f (mkP toks' None false cs' ce') = Ok (e', st')
                        /\ strip e = strip e'.
Proof.
  intros x rest toks toks' cs ce cs' ce' W Hc Hl Hn Hn' Hv Hv'.
  destruct (parser_builds_the_tree x rest (mkP toks None false cs ce) W) as (f & e & st & _ & Hs & _ & Hm); [| exact Hl |].
  { split; [reflexivity |]. split; [rewrite forallb_app, raw_clean, Hc; reflexivity |]. split; [exact Hn |]. left. split; [reflexivity | exact Hv]. }
  destruct (parser_builds_the_tree x rest (mkP toks' None false cs' ce') W) as (f' & e' & st' & _ & Hs' & _ & Hm'); [| exact Hl |].
  { split; [reflexivity |]. split; [rewrite forallb_app, raw_clean, Hc; reflexivity |]. split; [exact Hn' |]. left. split; [reflexivity | exact Hv']. }
  exists (Nat.max f f'), e, st, e', st'. split; [exact (Hm _ (Nat.le_max_l f f')) |]. split; [exact (Hm' _ (Nat.le_max_r f f')) |]. rewrite Hs, Hs'. reflexivity.
Qed.

(* ---------- what the table means, on examples that the theorem covers ---------- *)
From BL Require Import Lang.Lex.
From Coq Require Import String.
Definition idA := AId (IPlain [65]). Definition idB := AId (IPlain [66]). Definition idC := AId (IPlain [67]).
Definition two := ALit (LInt [50]).

(* the scanner's tokens for these texts are the renderings of these trees: subtraction groups to the left, ^ binds stronger
   than unary minus, NOT weaker than comparison, * stronger than + *)
Example renderings :
  lex (s2l "A-B-C") = Ok (None, raw (ABin OMinus (ABin OMinus idA idB) idC))
  /\ lex (s2l "A-(B-C)") = Ok (None, raw (ABin OMinus idA (ABin OMinus idB idC)))
  /\ lex (s2l "-2^2") = Ok (None, raw (ANeg (ABin OCaret two two)))
  /\ lex (s2l "NOT A=B") = Ok (None, TOp ONot :: TWs 1 :: raw (ABin OEq idA idB))
  /\ lex (s2l "A+B*C") = Ok (None, raw (ABin OPlus idA (ABin OMul idB idC)))
  /\ lex (s2l "(A+B)*C") = Ok (None, raw (ABin OMul (ABin OPlus idA idB) idC))
  /\ lex (s2l "A(2,B+2)*FNX(C)-D()") = Ok (None, raw (ABin OMinus (ABin OMul (ACall (IPlain [65]) [two; ABin OPlus idB two]) (ACall (IPlain [70; 78; 88]) [idC]))
                                                                         (ACall (IPlain [68]) [])))
  /\ wf (ABin OMinus (ABin OMinus idA idB) idC) /\ wf (ANeg (ABin OCaret two two))
  /\ wf (ABin OMul (ACall (IPlain [65]) [two; ABin OPlus idB two]) (ACall (IPlain [70; 78; 88]) [idC])).
Proof. vm_compute. repeat split; try discriminate; eexists; reflexivity. Qed.
